from ._seqcommon import seq_spec

SPEC = seq_spec(
    'C08',
    'The model has a tamper event that replaces or deletes any object at any time; all invariants are proved for every accepted sequence including tampering: the lock history stays one chain, published stays a subset of committed, an instance comes up only on the committed lock checkpoint and only if every right-edge object it read was the rendering of that tree, a poisoned load can only be refused, new trees extend the held tree by exactly the pool. The real code is run against a tamper catalogue (delete, truncate, bit-flip, copy another object over) on every object class, mid-round crashes included, then restarted and sequenced further; acceptor + oracle (every committed root is the RFC 6962 root of previous leaves ++ staged leaves).',
    "Trusted: Lean kernel, standard axioms, extractor, harness stores/scheduler, Lean SHA-256 rendering. Assumes the Backend/LockBackend contracts, collision resistance, unforgeability.",
    "invariants by induction over all accepted event sequences (Lean 4) + regenerated effect-skeleton tie + trace acceptance of the real code with byte-exact rendering",
    required=['C08_chain_under_tamper', 'C08_load_sound', 'C08_poisoned_load_refused', 'C08_extends_by_pool', 'C08_edge_tiles_authentic', 'C08_edge_tiles_complete'],
)
