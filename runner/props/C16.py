"""C16 — Subtree cosignatures are issued only for subtrees of a cosigned tree (DESIGN.md §8 C16)."""

SPEC = {
    "props": ["Props.C16"],
    "tie": ["Tie.C16"],
    "engines": [{"engine": "subtree", "timeout": 1500}],
    "required_theorems": [
        "C16_sound", "C16_nonempty", "C16_none", "C16_status", "C16_validSubtree_spec", "C16_bitCeil_spec",
        "processSignSubtreeRequest_listing", "serveSignSubtree_listing", "metaForOrigin_listing",
    ],
    "search_budget_s": 150,
    "design_ref": "DESIGN.md §8 C16, §6.1",
    "level_text": (
        "Lean 4 theorems about Subtree.signSubtree (the source-order program of processSignSubtreeRequest followed by "
        "the signer selection and the per-signer re-verification/signing loop), for every request, every (start, end), "
        "every tree size and every set of signature lines: a 200 carries only lines made by the witness' ML-DSA key or "
        "the mirror key over subtree/v1(signer, 0, origin, start, end, hash), one per signer whose own valid "
        "cosignature over the re-serialised checkpoint is among the lines of the presented note; only if the "
        "checkpoint has no extension lines, [start, end) is a valid subtree, end ≤ size and, for every leaf list that "
        "opens the checkpoint, the supplied hash is the RFC 6962 hash of leaves [start, end) (checkSubtree_sound for "
        "all sizes; hypothesis NodeInj = SHA-256 collision freeness); a 200 is never empty; no valid own cosignature, "
        "an invalid range, a range beyond the size, a wrong hash/proof, an unknown log or extension lines give no "
        "signature and the protocol's status (403/400/400/422/404/400); ValidSubtree(s, e) ⇔ s < e ∧ e − s ≤ 2^62 ∧ "
        "s mod bitCeil(e − s) = 0 with bitCeil the least power of two ≥ its argument."
    ),
    "level_note": (
        "Tie.C16 compares the normalised listing of processSignSubtreeRequest / serveSignSubtree with the listing "
        "rendered from Subtree.program and the signing loop; vh subtree + drv subtree run the real Handler against "
        "signSubtree (decision and signers) for every (start, end) with end ≤ 72 on checkpoints of size 70/64/65/33, "
        "every signer combination, right/wrong hashes and proofs, and diff torchwood.ValidSubtree / CheckSubtree "
        "against the model functions (incl. arguments around 2^62). Responses are verified with torchwood's public "
        "VerifySubtree. The runtime 'bad math' panics of runSubtreeProof are modelled as refusals (they are "
        "unreachable behind CheckSubtree's guards: straddle_start/align_right, checkSubtree_complete)."
    ),
    "technique": (
        "decision-sequence model with soundness theorem (Lean 4), subtree-proof soundness by induction for all sizes, "
        "go/ast listing tie, differential and decision correspondence with the real handler, independent runtime oracle"
    ),
    "assumptions": [
        "SHA-256 interior hashing is collision free (hypothesis Merkle.NodeInj of C16_sound).",
        "Signatures are symbolic (ML-DSA-44 unforgeability): a line is valid for a key over a message iff it was made by that key over that message; the harness decides 'which key made this line' with the real verifiers (note verifier for checkpoint cosignatures, torchwood VerifySubtree for responses).",
        "note.Open is modelled by its contract on parsed signature lines (Checkpoint.noteOpen); the byte-level split of the note and of the request body is the harness' canonicaliser; splitSignatures keeps the lines starting with the signer's name (tied as a listing in Tie.C14).",
        "Non-negative int64 arguments: the handler has refused negative and non-canonical numbers before ValidSubtree/CheckSubtree are called; the model uses naturals.",
        "subtreeCosignedMessage is modelled as an injective framing (label, u8-prefixed names, u64 numbers, hash); its refusal of names/origins outside 1..255 bytes is modelled.",
    ],
    "trusted_extra": [
        "harness/internal/eng/{subtree.go,witness_world.go}: request builder, canonicalisers, ground-truth log and subtree hashes computed with the harness' own RFC 6962 code",
        "filippo.io/torchwood (ValidSubtree, CheckSubtree diffed against the model; ProveSubtree/SubtreeHash/VerifySubtree used by the harness), golang.org/x/mod/sumdb/note, filippo.io/mldsa",
    ],
}
