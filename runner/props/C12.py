"""C12 — The monitoring client never yields unauthenticated log content (DESIGN.md §8 C12)."""

SPEC = {
    "props": ["Props.C12"],
    "tie": ["Tie.C12", "Tie.C11", "Tie.C10"],  # Client.Checkpoint verifies with NewRFC6962Verifier (checkpoint.go), whose guards are tied in Tie.C11
    "engines": [{"engine": "client", "timeout": 1500}, {"engine": "tilereader", "timeout": 900}],
    "required_theorems": [
        "C12_entries_authentic", "C12_entries_authentic_tiles", "C12_tile_reader_sound", "C12_pinned_tile_reader_sound_where_it_skips_nothing", "C12_entry_index", "C12_entry_index_strict", "C12_inclusion", "C12_checkpoint",
        "cutentry", "entries", "allentries", "entry", "checkinclusion", "checkpoint", "with_cut_entry", "tile_width",
        "torchwood_tile_loop", "torchwood_entry",
    ],
    "search_budget_s": 150,
    "design_ref": "DESIGN.md §8 C12",
    "level_text": (
        "Lean 4 theorems, for all served data tiles, inclusion proofs, SCTs and checkpoint notes (arbitrary byte strings / "
        "hash lists), all tree sizes, start offsets and indexes, over an abstract hash function assumed collision-free: "
        "every pair (i, e) the entry iterators yield from a data tile has start <= i and the Merkle leaf of e is the i-th "
        "leaf of every leaf list the tree head commits to, hence equal covered fields (timestamp, entry type, certificate/"
        "TBS, issuer key hash, leaf index); Entry(tree, index) returns only the committed leaf at index, carrying that "
        "index (soundness of tlog.CheckRecord for all sizes, by induction); CheckInclusion confirms an SCT only if "
        "version, log ID, leaf_index extension, timestamp and signature match that authentic leaf; Checkpoint returns "
        "only the parse of a note one of whose signature lines is an RFC 6962 tree-head signature of the configured key "
        "over exactly that size and root hash."
    ),
    "level_note": (
        "in Entries/AllEntries the leaf hashes an entry is compared with come from tlog.TileHashReader. C12_entries_authentic "
        "takes their authenticity as a hypothesis (hauth); C12_entries_authentic_tiles discharges it: it assumes only what "
        "ReadHashes has CHECKED when it returns (the right-edge hash tiles, with the widths the size prescribes, recombine to "
        "the root; every other tile hashes to its entry in a tile checked before it) and derives authenticity of every returned "
        "leaf hash from NodeInj alone, for every tree size and tile level (Proofs/TileAuth.lean: mth_items, edge_sound, "
        "child_sound, verified_sound; edge_complete/child_complete show the hypotheses are met by the authentic tiles of every "
        "tree). What remains modelled rather than transliterated is tlog's stored-hash-index arithmetic (which tiles it asks "
        "for and how it walks the peaks): the recombination is modelled as the per-level fold edgeF. torchwood's fetching, batching, retrying and caching and note.Open's text framing are exercised, not "
        "modelled. The model is tied to the source by go/ast facts (every guard of cutEntry, the Entries/AllEntries wrappers, "
        "Entry, CheckInclusion, Checkpoint in client.go; in the pinned torchwood the guards of the per-tile loop and of "
        "Client.Entry) and by running the real sunlight.Client (file://, gzip+file://, HTTP) against real logs at sizes "
        "1, 255, 256, 257, 300, 513 with a tamper catalogue; drv re-runs scanTile/clientEntry/checkInclusion/"
        "clientCheckpoint byte-exactly (real SHA-256) on what the client was served and compares every decision."
    ),
    "technique": (
        "soundness proof of the client's acceptance conditions against an adversarial server (induction over the tile scan, "
        "inclusion-proof soundness, codec canonicity and Merkle-leaf injectivity from C10, note.Open loop invariant) + go/ast "
        "facts tie incl. a dependency at its pinned version + byte-exact differential run + independent ground-truth oracle "
        "(own TileLeaf parser, own Merkle hashing and note parsing, crypto/ecdsa)"
    ),
    "assumptions": [
        "SHA-256 (tlog.RecordHash, tlog.NodeHash) is collision-free: hypotheses LeafInj and NodeInj of the theorems (satisfiable: free term algebra in the examples).",
        "tlog.TileHashReader performs the checks of TileAuth.Verified (edge tiles recombined to the tree hash and compared with the trusted root; every other tile compared, through tileHash, with its entry in the parent tile) before it returns a hash: hypothesis of C12_entries_authentic_tiles, read off tlog/tile.go at the pinned version; from there authenticity is PROVED. Exercised by hash-tile tampering (bit flips, truncation, extension, removal, tiles of another log).",
        "ECDSA verification (ct-go tls.VerifySignature, the RFC 6962 note verifier) is a parameter of the model; in the differential run it is an oracle table of the (message, signature) pairs the harness verified with crypto/ecdsa under the configured key. Unforgeability is idealised.",
        "note.Open is modelled at the level of parsed signature lines (Model/Checkpoint.lean, shared with C11): unknown keys are ignored, a known key's bad signature is an error, at least one verified signature is required; the harness parses the served note with its own parser and feeds both.",
        "The tree head passed to Entries/Entry/CheckInclusion is assumed verified by the caller (as the API documents); the harness passes the ground-truth head.",
        "Observations that are not violations of the property as stated: bytes after the signature of an SCT, and unknown extensions in front of leaf_index, do not prevent confirmation (the four named fields still match the authentic leaf); an older checkpoint genuinely signed by the configured key is returned.",
    ],
    "trusted_extra": [
        "golang.org/x/mod/sumdb/tlog and note, filippo.io/torchwood (exercised; tile reader by contract), certificate-transparency-go tls (SCT parsing and signature verification), Go crypto/ecdsa and net/http",
    ],
}
