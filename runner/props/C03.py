from ._seqcommon import seq_spec

SPEC = seq_spec(
    'C03',
    'Lean 4 theorems: no acknowledged entry is ever lost from the committed history (across crashes/restarts), a staging bundle is discarded only after its checkpoint was published, an instance comes up only on the committed lock checkpoint with verified edge objects; crash events are enabled in every state. The liveness half (a restart loads and sequencing continues) is decided by systematic crash enumeration of the real code (crash after every operation of a round and of a recovery, repeated crashes, sizes around tile boundaries) with the acceptor and an independent full-storage audit after every reload: partial as a theorem (C03_recoverable_partial); what is proved about recovery: C03_loaded_complete (after every successful load every tile of the lock checkpoint tree is present) and C03_staged_bundle_recovers (a staged bundle always belongs to a completely rendered base tree and re-applying it renders the committed tree).',
    "Trusted: Lean kernel, standard axioms, extractor, harness stores/scheduler, Lean SHA-256 rendering. Assumes the Backend/LockBackend contracts, collision resistance, unforgeability.",
    "invariants by induction over all accepted event sequences (Lean 4) + regenerated effect-skeleton tie + trace acceptance of the real code with byte-exact rendering",
    required=["C03_loaded_complete", "C03_staged_bundle_recovers", 'C03_no_loss', 'C03_discard_late', 'C03_recoverable_partial'],
)
