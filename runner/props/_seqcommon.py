"""Shared pieces of the eight sequencer-engine properties (C01-C04, C06-C08, C17)."""

SEQ_ASSUMPTIONS = [
    "object-store contract: an Upload/Discard/Fetch is atomic (takes effect or not at the moment it returns); immutable objects refuse different bytes (Backend interface contract as LocalBackend enforces it; for S3Backend 'nil means stored' is C04_s3_upload_ok_means_stored + engine s3 of the C04 check; the order in which hedged PUTs of different uploads land is outside the model)",
    "lock-store contract: Fetch/Create/Replace are atomic compare-and-swap steps (C05 is the property about the real backends)",
    "a process crash is modelled as abandoning the instance between two store operations; a torn operation is the applied/not-applied choice",
    "SHA-256 collision resistance and signature unforgeability (checkpoints are compared as (size, root, timestamp, signature-validity) tuples parsed by an independent reader)",
    "cachePut and the closing of the pool's done channel are not separately observable: the model places them at the end of the round; gzip/tar framing is canonicalised away (bundles compared as sets of (key, options, sha256 of decompressed bytes))",
    "rounds are driven through the verif hook Log.VerifSequence (what RunSequencer calls per tick); RunSequencer's own loop/defer is tied by the extracted skeleton only",
]

SEQ_TRUSTED = [
    "Model/SeqRender.lean + Model/Sha256.lean: executable byte-level rendering (TileLeaf/MerkleTreeLeaf encodings, RFC 6962 hashes, tile contents) compared with every uploaded object; executed, not proved",
    "harness scheduler: every storage/lock operation of the real code is a yield point of a deterministic scheduler (seq_sched.go); in-memory stores implement the contract above",
]


# oracle failures of the seq engine carry the property they most directly contradict; a check also
# counts those of the properties its own statement includes (e.g. C06: "history stays append-only and
# storage complete").
RELATED = {
    "C01": ["C01"],
    "C02": ["C02", "C07"],
    "C03": ["C03", "C04"],
    "C04": ["C04"],
    "C06": ["C06", "C01", "C04", "C08"],
    "C07": ["C07", "C02", "C17"],
    "C08": ["C08", "C01", "C07"],
    "C17": ["C17", "C07"],
}


def seq_spec(prop, level_text, level_note, technique, extra_assumptions=(), required=(), extra_engines=(), extra_props=(), extra_tie=()):
    return {
        "oracle_props": RELATED[prop],
        "props": ["Props." + prop] + list(extra_props),
        "tie": ["Tie.Seq"] + list(extra_tie),
        "engines": [{"engine": "seq", "timeout": 3000}] + list(extra_engines),
        "assumptions": SEQ_ASSUMPTIONS + list(extra_assumptions),
        "trusted_extra": SEQ_TRUSTED,
        "required_theorems": list(required),
        "level_text": level_text,
        "level_note": level_note,
        "technique": technique,
        "design_ref": "DESIGN.md §7 and §8 " + prop,
    }
