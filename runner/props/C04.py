from ._seqcommon import seq_spec

SPEC = seq_spec(
    'C04',
    "Exactness is enforced on every observed upload: the acceptor accepts a tile/bundle/checkpoint upload only if its content is the slice of the round's new tree prescribed for that key and the bytes are the Static CT rendering of that slice (Lean rendering incl. SHA-256, compared by digest and length; names tiles from independently derived expectations). Lean 4 theorems: checkpoint upload only after all tile uploads returned successfully, bundle = exactly the tiles of tlog.NewTiles plus data/names tiles, immutable objects keep their content, only staging bundles are discarded. Oracle: independent full audit of the store at the instant each checkpoint upload takes effect. Completeness (I3) is a theorem: C04_complete_at_publish — in every reachable untampered state the checkpoint tree is completely rendered by immutable tile objects with the prescribed content (store invariant Inv3 over all event sequences; tile arithmetic req_cover / slice_stable / mem_newTilesList for all sizes).",
    "Trusted: Lean kernel, standard axioms, extractor, harness stores/scheduler, Lean SHA-256 rendering. Assumes the Backend/LockBackend contracts, collision resistance, unforgeability.",
    "invariants by induction over all accepted event sequences (Lean 4) + regenerated effect-skeleton tie + trace acceptance of the real code with byte-exact rendering",
    extra_tie=["Tie.S3"], required=["C04_complete_at_publish", "C04_published_stay_complete", 'C04_tiles_before_checkpoint', 'C04_bundle_exact', 'C04_immutable_once', 'C04_only_staging_discarded', 'C04_tiles_only_committed', 'C04_tiles_render_lock_tree', 'C04_object_shapes'],
)
