from ._seqcommon import seq_spec

SPEC = seq_spec(
    'C17',
    "Lean 4 theorems: pool bound as an invariant of every accepted sequence (C17_bound), the full-pool admission policy as decision lemmas (low rejected; high evicts exactly one low entry or is rejected), eviction bookkeeping, a stopped instance signs nothing further, ack/nack exclusivity per pool outcome. The real code is exercised with pool sizes 1-4, arrival orders of high/low/duplicate entries, faults and stops; every waiter must report exactly one outcome within a bounded wait after its pool is sequenced (a blocked waiter is a violation). RunSequencer's deferred close is tied by the extracted skeleton only; wall-clock promptness is represented by the bounded wait.",
    "Trusted: Lean kernel, standard axioms, extractor, harness stores/scheduler, Lean SHA-256 rendering. Assumes the Backend/LockBackend contracts, collision resistance, unforgeability.",
    "invariants by induction over all accepted event sequences (Lean 4) + regenerated effect-skeleton tie + trace acceptance of the real code with byte-exact rendering",
    required=['C17_bound', 'C17_full_low_rejected', 'C17_full_high_evicts', 'C17_evict_exactly_one', 'C17_eviction_ends_by_removal', 'C17_after_stop'],
)
