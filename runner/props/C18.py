"""C18 — Garbage collection removes only superseded partial tiles (DESIGN.md §8 C18)."""

SPEC = {
    "props": ["Props.C18"],
    "tie": ["Tie.C18"],
    "binaries": {"partial-aftersun": "./cmd/partial-aftersun"},
    "engines": [{"engine": "aftersun", "timeout": 1500}],
    "required_theorems": [
        "C18_only_partials", "C18_safe_all_sizes", "C18_never_other", "C18_main", "C18_edge_total", "level_guard",
        "tileSize_expr", "edge_guard", "width_guard", "name_guards", "cleanDir_skel", "override_skel",
        "cleanDir_strings", "override_strings", "logSize_skel", "mirroredLogSize_skel", "main_calls",
    ],
    "search_budget_s": 150,
    "design_ref": "DESIGN.md §8 C18",
    "level_text": (
        "Lean 4 theorems about a transliteration of cleanDir/overrideImmutable/main of cmd/partial-aftersun, for ALL "
        "directory contents (the directory is an arbitrary oracle for ReadDir/Stat), all published sizes, all tile levels "
        "(with Go's int64 shift, wrap-around and divide-by-zero semantics) and both tile-path parsers (sunlight for logs, "
        "torchwood for mirrors): every deleted file is a canonically spelled partial tile <dir>/<full>.p/<W>, 1<=W<256, whose "
        "full sibling is listed in the same directory, parses to the same level and index, is the very file overrideImmutable "
        "stats (text before the first \".p/\") and is a non-empty regular file, and whose index is strictly below "
        "size/256^(level+1) with level <= 6 (tiles above level 6 are never touched and the arithmetic never panics); no deleted "
        "file is needed by a reader of the tree of any size S >= size, which "
        "covers the lock store being ahead and all future growth; every removed directory is an emptied .p directory of such "
        "a tile; a run deletes in a root nothing or exactly cleanRoot at that root's verified size."
    ),
    "level_note": (
        "The model is tied to the source by regenerated facts (the two arithmetic expressions are compared with the rendering "
        "of the expression trees the model evaluates; string arguments with the model's constants; effect skeletons of "
        "cleanDir, overrideImmutable, logSize, mirroredLogSize, main's calls) and by running the BUILT binary on real "
        "directories made by ctlog/witness in-process, diffing the set of deleted paths and the exit status with the model. "
        "Not proved: that logSize/mirroredLogSize return the verified published size (exercised incl. re-signed / renamed / "
        "missing checkpoints), file-system semantics, that reads during the walk see the initial listing (the tool lists "
        "before deleting and never re-lists a .p directory). Repaired on the way (3631bf7): without the level cut-off, levels >= 2^61-1 wrapped "
        "the shift count of tileSize and levels 7.. divided by zero; both are regression cases of the corpus now."
    ),
    "technique": (
        "transliteration model over an arbitrary directory oracle + induction over the walk (every deletion justified by "
        "the evaluated guards) + parser lemmas relating a partial path to its sibling + go/ast facts tie + differential "
        "correspondence with the built binary + independent runtime oracle and full re-derivation audit"
    ),
    "assumptions": [
        "The size handed to cleanDir is the tree size of the published checkpoint after signature verification under log.v3.json's key and name (logs) / origin-hash check (mirrors): tied by skeleton facts and exercised with re-signed, renamed, garbage and missing checkpoints; note.Open / ParseCheckpoint themselves are not modelled here (C11).",
        "Directory reads are evaluated against the state at the start of the run: the tool lists a directory before deleting in it and deletes only inside *.p directories it never lists again; no concurrent writer is modelled (a sequencer running concurrently only adds files; C18_safe_all_sizes covers every larger size).",
        "`needed S` is the set of tile files of the Static CT / tlog-tiles layout for a tree of S leaves (full tiles left of the edge and the one partial tile of the exact edge width per level; data, names and entries at level 0); that this is what readers fetch is checked by the harness's independent audit (re-derivation of every hash tile from the data tiles with its own RFC 6962 code), LoadLog and a further sequencing round after each run.",
        "os.Root, fs.ReadDir ordering (sorted by file name), root.Remove on non-empty directories failing, and the immutable inode flag are Go/OS behaviour: exercised (the harness runs as root, so files carry the immutable flag), not proved.",
    ],
    "trusted_extra": [
        "harness/internal/realdir (drives ctlog, LocalBackend, SQLite lock backend and witness.Witness in-process to build the directories; independent RFC 6962 audit)",
        "golang.org/x/mod/sumdb/tlog ParseTilePath/Tile.Path: modelled in Model/TilePath.lean (C10), not verified",
    ],
}
