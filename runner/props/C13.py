"""C13 — The filesystem backend is atomic, durable, immutable-respecting and confined (DESIGN.md §8 C13, §9 F1/F4)."""

SPEC = {
    "props": ["Props.C13"],
    "tie": ["Tie.C13"],
    "engines": [{"engine": "localfs", "timeout": 900}],
    "required_theorems": [
        "C13_atomic_durable", "C13_quiescent_after_crash", "C13_hypotheses_reachable", "C13_order", "C13_order_mkdir",
        "C13_immutable", "C13_immutable_after_upload", "C13_progress_guarded", "C13_progress_of_pos",
        "C13_F1_no_progress_as_found", "C13_F1_empty_data_never_returns", "C13_F1_immutable_empty_upload_hangs",
        "C13_confined", "C13_dot_key_rejected", "C13_F4_reupload_after_killed_upload_not_durable",
        "writefile_order", "mkdir_order", "fsyncandclose", "mkdirall", "upload_branches", "fetch_branches",
        "discard_branches", "localize_helper", "compare_loop", "compare_buf_positive", "immutable_ioctl",
    ],
    "search_budget_s": 150,
    "design_ref": "DESIGN.md §8 C13, §9 F1, F4",
    "level_text": (
        "Lean 4 theorems over a file-system model with a volatile and a durable view (power loss = durable entries + ANY "
        "subset of each directory's pending entry changes + arbitrary bytes in every un-synced file), for all keys, "
        "contents, directory depths, pre-states and crash choices: for every prefix of the system-call sequence of "
        "LocalBackend.Upload (MkdirAll per level with both fsyncs, temp file, write, fsync, close, rename, fsync of the "
        "parent, inode flag) and every crash choice the recovered object is the complete old or the complete new one, "
        "and after Upload returned nil every recovery and every reader finds the new one (C13_atomic_durable); the "
        "order fsync(file) < rename < fsync(parent) and mkdir < fsync(new) < fsync(parent) as contiguous blocks "
        "(C13_order, C13_order_mkdir), derived from Go's LIFO defer over the source order of WriteFile/Mkdir; immutable "
        "re-upload: same bytes nil, different bytes error, nothing changed, for every content, exactly under the "
        "condition that compareFile's read buffer is never empty (C13_immutable; its failure for the code before commit "
        "1e3891a is proved as C13_F1_*); accepted keys are lists of plain names, rejected keys issue no system call, every path "
        "named by Upload/Fetch/Discard lies in the backend directory for every accepted key; \".\" is rejected by the "
        "helper localize (C13_confined, C13_dot_key_rejected)."
    ),
    "level_note": (
        "partial: (1) C13_atomic_durable assumes a quiescent pre-state (everything earlier is on disk: true after a reboot "
        "and after completed uploads); from a state left by a KILLED process a returned upload need not be durable "
        "(C13_F4_reupload_after_killed_upload_not_durable, candidate finding F4). (2) C13_immutable needs the read "
        "buffer of compareFile to be non-empty: true of the current source (Tie.C13.compare_buf_positive; it was not before "
        "commit 1e3891a, finding F1, kept as the negative lemmas C13_F1_*). (3) C13_confined is lexical: symbolic links "
        "planted inside the directory are followed (the key \".\", finding F8, is refused since commit 9a1f05e). The model "
        "is tied to the source by regenerated outlines (Tie.C13) and by strace: the real system calls of the real "
        "LocalBackend must equal uploadTrace/fetchTrace/discardTrace call by call, and the driver computes the crash "
        "states of every accepted upload with the same crash/object definitions the theorems use. That the kernel "
        "honours fsync/rename as the crash model says, the effect of the immutable inode flag, and reader/writer "
        "interleavings (4 readers x 2 writers, sampled) are outside the model."
    ),
    "technique": (
        "crash-consistency proof by invariants over system-call traces (candidate-set argument per directory level) + "
        "fuel-based termination analysis of compareFile + trace acceptance of strace-observed system calls of the real "
        "code in a child process + model-computed crash-state enumeration + go/ast outline tie + independent runtime "
        "oracle on the raw system calls (ordering, immutable semantics with per-call timeout, confinement, readers)"
    ),
    "assumptions": [
        "Kernel/file-system contract (not proved, cannot be exercised without power loss): fsync(file) makes the file's bytes durable; fsync(dir) makes that directory's entry changes durable; rename(2) replaces the entry atomically; without fsync an entry change or data may or may not reach the disk, independently of others. This is the crash model of Model/LocalFS.lean.",
        "Pre-state of C13_atomic_durable: quiescent (after reboot or after completed uploads), WF, FreshInodes; states left by a killed process are outside it (F4).",
        "Single writer per object in the proofs; concurrent readers/writers of one key are sampled at run time only (every read must be one of the complete values ever uploaded).",
        "The immutable inode flag is best effort (needs CAP_LINUX_IMMUTABLE; the ioctl's result is ignored by the code and adopted from the observation by the driver); the immutable property is carried by compareFile, not by the flag. Observed: the ioctl fails with EOPNOTSUPP on large ext4 files because it overwrites all inode flags.",
        "Symbolic links inside the backend directory are followed (the backend itself never creates one: any symlink/link system call is an unexpected-syscall oracle failure); confinement is that of filepath.Localize (lexical).",
        "strace normalisation (descriptor table rebuilt from openat results, paths made world-relative, markers by stat) and the child-process protocol are trusted harness code.",
    ],
    "trusted_extra": [
        "strace 6.1 (ptrace) and the harness's parser/normaliser of its output (harness/internal/eng/localfs.go)",
        "Linux ext4 in the sandbox (exercised, not modelled)",
    ],
}
