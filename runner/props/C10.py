"""C10 — Tile, leaf, extension and tile-path encodings are canonical bijections (DESIGN.md §8 C10)."""

SPEC = {
    "props": ["Props.C10"],
    "tie": ["Tie.C10"],
    "engines": [{"engine": "codec", "timeout": 1200}],
    "required_theorems": [
        "leaf_roundtrip", "encoder_domain", "leaf_canonical", "leaf_canonical_strict", "decode_total",
        "mtl_spec", "mtl_total", "mtl_inj", "ext_roundtrip", "ext_refused", "ext_parser_lenient",
        "path_roundtrip", "path_canonical", "path_parse_inj",
        "appendTileLeaf_x509", "appendTileLeaf_precert", "merkleTreeLeaf_x509", "merkleTreeLeaf_precert",
        "addExtensions_archival", "addExtensions_indexed", "marshalExtensions", "cacheHash_x509", "cacheHash_precert",
        "recomputeCacheHash_x509", "recomputeCacheHash_precert", "cacheHash_copies_equal", "readTileLeaf_shape",
        "parseExtensions_shape", "tilePath_shape", "parseTilePath_shape",
    ],
    "search_budget_s": 90,
    "design_ref": "DESIGN.md §6.2, §8 C10",
    "level_text": (
        "Lean 4 theorems for ALL byte strings, entries, indexes and tile coordinates (nothing bounded): "
        "leaf_roundtrip (every entry within the documented limits WF is encoded without panic after any tile prefix and both "
        "readers return exactly the entry and the following bytes); encoder_domain (AppendTileLeaf panics exactly outside "
        "Encodable); leaf_canonical / leaf_canonical_strict / decode_total (a successful decode re-encodes to exactly the "
        "consumed prefix and the entry is within the limits; the decoder is a total function); mtl_spec (MerkleTreeLeaf bytes = "
        "RFC 6962 §3.4 structure serialised by an independently written TLS presentation-language encoder), mtl_total, "
        "mtl_inj (injective on timestamp, type, certificate, issuer key hash, archival flag, leaf index); ext_roundtrip / "
        "ext_refused (all 40-bit indexes round-trip, everything else refused) and ext_parser_lenient (ParseExtensions is "
        "modelled as the code behaves: skips unknown types, ignores what follows the first leaf_index); path_roundtrip / "
        "path_canonical / path_parse_inj (TilePath/ParseTilePath for hash, data and names tiles, 0<=N<2^63, 1<=W<=256, including "
        "tlog's canonical-form re-check and int64 wrap-around of N)."
    ),
    "level_note": (
        "The models are interpretations of FieldSpec lists; Tie.C10 proves by rfl that the builder-call sequence of every "
        "encoder path and the read/guard/error structure of every decoder, regenerated from /repo by go/ast on each run, are "
        "the ones computed from those lists (both computeCacheHash copies, AST-digest equal). The engine then runs the real "
        "AppendTileLeaf/ReadTileLeaf(+MaybeArchival)/MerkleTreeLeaf/Marshal+ParseExtensions/computeCacheHash/TilePath/"
        "ParseTilePath/tlog.Tile.Path/tlog.ParseTilePath on valid and malformed streams and the compiled Lean model must "
        "reproduce every output byte for byte (error classes included). Not modelled: the bytes `rest` returned together with "
        "an error; cryptobyte itself is interpreted by the 2-constructor schema language (trusted reading of its API)."
    ),
    "technique": (
        "generic round-trip/canonicity theorems over a flat schema language instantiated with the code's schemas + "
        "transliterated tlog path functions with string-level proofs + go/ast schema tie (rfl) + byte-exact differential "
        "run against the compiled model + independent runtime oracles (round trip, canonicity, certificate-transparency-go "
        "tls.Marshal of ct.MerkleTreeLeaf, hand-assembled cache-key preimage, no panic)"
    ),
    "assumptions": [
        "cryptobyte (golang.org/x/crypto v0.53.0) Builder/String semantics are as interpreted by Codec.enc/dec: AddUintN big-endian, AddUintNLengthPrefixed fails on overflow (BytesOrPanic panics), ReadUintNLengthPrefixed/CopyBytes/ReadBytes fail without consuming on short input. Exercised byte for byte, not proved.",
        "golang.org/x/mod v0.37.0 tlog.Tile.Path / ParseTilePath, fmt %d/%03d, strconv.Atoi and strings.Split/CutPrefix/TrimPrefix are transliterated (Model/TilePath.lean) and differential-checked, including overflowing N, signs, leading zeros and arbitrary bytes; they are not tied by facts (pinned dependency).",
        "Go values outside the model's types cannot occur: IssuerKeyHash and fingerprints are [32]byte, lengths are ints; the model's extra failure (issuer key hash not 32 bytes) is unreachable from Go.",
        "SHA-256 is only executed (cache key comparison), never reasoned about, in this property.",
    ],
    "trusted_extra": [
        "certificate-transparency-go v1.3.3 tls.Marshal (third opinion for MerkleTreeLeaf; refuses empty certificates, which sunlight encodes)",
    ],
}
