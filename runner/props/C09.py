"""C09 — Submissions are validated and turned into the RFC 6962 leaf correctly (DESIGN.md §8 C09)."""

SPEC = {
    "props": ["Props.C09"],
    "oracle_props": ["C09", "C02"],
    "tie": ["Tie.C09"],
    "engines": [{"engine": "submit", "timeout": 900, "thorough": {"cases": 400}}],
    "required_theorems": [
        "C09_accept_iff", "C09_accept_root_is_current", "C09_reject_no_leaf", "C09_other_methods_no_leaf",
        "C09_pool_only_by_admission", "C09_ikh_choice", "C09_issuers", "C09_issuers_invariant",
        "C09_roots", "C09_roots_exact", "C09_roots_bad_bundle", "C09_issuer_fault", "C09_issuer_fault_invariant", "uploadissuer_order",
        "flow", "entry_assigns", "type_addchain", "type_addprechain", "handler_addchain", "handler_addprechain",
        "routes", "max_body", "validate_opts", "window", "addleaf_order", "getroots", "rootpool", "setroots",
    ],
    "search_budget_s": 150,
    "design_ref": "DESIGN.md §8 C09",
    "level_text": (
        "Lean 4 theorems, for all requests given as abstract certificate facts (chain verifies through all submitted "
        "certificates in order to a root, NotAfter, serverAuth EKU, poison none|valid|invalid, CT EKU of chain[1], lengths, "
        "endpoint, body well-formed / oversized), all window configurations and all root sets: the add-chain/add-pre-chain "
        "decision (first failing entry of the ordered check table of addChainOrPreChain) admits exactly when the chain "
        "verifies to a currently accepted root, start <= NotAfter < limit, serverAuth, and the endpoint matches the type with "
        "the structural preconditions of a precertificate; every non-admitted POST is answered 4xx and changes neither pool, "
        "issuer objects nor roots; the pending entry is the certificate / the defanged TBS with the issuer key hash of "
        "chain[1], or of chain[2] (and the re-issued TBS) when chain[1] is a precertificate signing certificate; the issuers "
        "are the verified chain tail and are stored in every state in which the entry is in a pool (invariant over all "
        "operation sequences); get-roots is exactly the de-duplicated bundle of the last successful SetRootsFromPEM."
    ),
    "level_note": (
        "partial: X.509 parsing, signature and path building (ctfe.ValidateChain / x509.Verify), poison and CT-EKU "
        "recognition, x509.BuildPrecertTBS, JSON/base64 are library code outside the model and enter as the fields of the "
        "request; the proof is about the decision logic and entry construction over those facts. The model is tied to the "
        "source by go/ast facts (check order, status codes, entry assignments incl. chain[1]/chain[2], endpoint closures, "
        "handler status pass-through, routes, body limit, addLeafToPool order, root-pool functions; in the pinned ct-go the two "
        "NotAfter comparisons of ValidateChain and the parameter order of NewCertValidationOpts) and by running the real "
        "Log.Handler() behind a net/http server on generated CA hierarchies: every request's status, whether a leaf was "
        "added, and the stored entry are compared with Submit.handle; an independent oracle compares the stored leaf with "
        "ct-go's MerkleTreeLeafFromChain and an own DER-level defang, verifies the SCT, the issuer objects and get-roots."
    ),
    "technique": (
        "decision-table model with proved characterisation (iff) + state invariant over operation sequences + go/ast facts tie "
        "(incl. a dependency at its pinned version) + function-mode differential run against the real HTTP handlers + "
        "independent runtime oracle (ct-go as second RFC 6962 implementation, own DER and TileLeaf parsers, crypto/ecdsa)"
    ),
    "assumptions": [
        "ctfe.ValidateChain returns a chain exactly when every submitted certificate parses, each is validly issued by the next in the submitted order, and the last is (issued by) a root of the pool it was given — the contract `verifiesToRoot`; exercised on generated hierarchies (depth 1-3, root submitted or not, missing/swapped/duplicated/foreign/extra certificates, bad signature, untrusted root), not proved. Cross-signed hierarchies with more than one path are not generated.",
        "x509.BuildPrecertTBS and ct-go's poison / CT-EKU recognition are library code: the defanged TBS is an opaque input of the model; the harness checks the stored bytes against an own DER-level transformation (drop poison; issuer and authority key identifier from the precertificate signing certificate) and against ct-go's MerkleTreeLeafFromChain. Precertificate signing certificates without an authority key identifier are not generated.",
        "Certificates are ECDSA P-256 only, made with Go's crypto/x509; NotAfter has one-second granularity (window boundaries with sub-second parts are generated).",
        "A request whose body cannot be read for a reason other than the 128 KiB limit (transport failure) is answered 500; that environment fault is not an input of the model.",
        "Admission control (pool full / eviction -> 503, sunset -> 410) is tied as a status table only; its behaviour is property C17. The harness runs with an unbounded pool and sequences after every request.",
        "SHA-256 is treated as injective where the driver compares hashes of byte strings instead of the strings.",
    ],
    "trusted_extra": [
        "certificate-transparency-go (x509 fork, ctfe, tls) both as code under test's dependency and, in the oracle, as the independent RFC 6962 implementation; Go crypto/x509, crypto/ecdsa, net/http",
    ],
}
