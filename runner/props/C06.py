from ._seqcommon import seq_spec

SPEC = seq_spec(
    "C06",
    "Lean 4 theorems over every interleaving of any number of instances at storage/lock-operation granularity: a compare-and-swap takes effect only from the held value, the lock history never branches nor returns to an earlier value, the loser's round ends fatally and can acknowledge nothing, a stopped instance is inert, Create never overwrites, and start-up refuses on storage-ahead / same-size-different-content / foreign name or key. Tied to the code by the effect-skeleton facts and by trace acceptance of 2-3 real Log instances interleaved by a deterministic scheduler.",
    "Trusted as for C01. Known finding F3 (publication order can regress with two live instances) is reported by the oracle under signature pub-regress:multi-instance and listed in known_findings.json.",
    "invariants + decision lemmas over the multi-instance protocol model (Lean 4) + trace acceptance of interleaved real instances",
    required=["C06_cas_guard", "C06_one_successor", "C06_loser_stops", "C06_loser_no_ack", "C06_create_guard", "C06_start_refuses"],
)
