"""C05 — Lock backends are linearizable compare-and-swap registers (DESIGN.md §8 C05)."""

SPEC = {
    "props": ["Props.C05"],
    "tie": ["Tie.C05"],
    "engines": [{"engine": "lock", "timeout": 1500}],
    "required_theorems": [
        "C05_refines", "C05_refines_sqlite", "C05_refines_dynamo", "C05_refines_etag",
        "C05_replace_guard", "C05_replace_guard_backend",
        "C05_create_once", "C05_create_never_overwrites", "C05_create_never_overwrites_backend",
        "C05_check_sound", "C05_read_after_write", "C05_read_after_write_precise",
        "C05_one_successor_partial", "C05_aba_witness",
        "sqlite_replace_exec", "sqlite_replace_skel", "sqlite_create_exec", "dynamo_replace_input",
        "dynamo_create_input", "dynamo_fetch_input", "etag_replace_headers", "etag_create_headers",
    ],
    "search_budget_s": 120,
    "design_ref": "DESIGN.md §8 C05, §9 F2",
    "level_text": (
        "Lean 4 theorems, for all programs, histories and byte-string values: each backend's one-step model "
        "(SQLite UPDATE…WHERE logID=? AND body=? + changes() test, INSERT…ON CONFLICT DO NOTHING + changes() test; "
        "DynamoDB PutItem with checkpoint = :old / attribute_not_exists(logID), consistent GetItem; S3 PutObject with "
        "If-Match <etag> / If-Match \"\") returns exactly what the compare-and-swap register CasSpec returns; replace "
        "succeeds only if stored = expected; create succeeds at most once and never overwrites; a verified "
        "linearisation-witness checker (checkWitness_sound); read-after-write and, under fresh writes, one successor "
        "per predecessor value for every linearizable history; ABA counter-example for the unrestricted statement."
    ),
    "level_note": (
        "partial: C05_one_successor_partial needs FreshWrites (false otherwise for any value-comparing CAS: "
        "C05_aba_witness). The models are tied to the source by string/skeleton facts (Tie.C05) and by running the "
        "real backends: sequential programs diffed call by call against CasSpec and the backend model, concurrent "
        "histories (goroutines x connections x 2 OS processes) accepted only through the verified checkWitness. "
        "Interleavings of real SQLite/OS locking are sampled, not proved; DynamoDB and S3 are protocol-level fakes "
        "implementing the stated server contract."
    ),
    "technique": (
        "refinement proof (abstraction function per backend, generic simulation theorem over client programs with "
        "handles) + verified witness checker for linearizability + differential/trace correspondence with the real "
        "code + go/ast facts tie + independent runtime oracle on recorded histories"
    ),
    "assumptions": [
        "Server contract, SQLite: one statement executes atomically w.r.t. other connections/processes (SQLite file locking, WAL); PRIMARY KEY(logID), body NOT NULL as in the prescribed CREATE TABLE. Exercised on a real database file with 1-3 connections in 1-2 processes; not proved.",
        "Server contract, DynamoDB: a conditional PutItem evaluates its condition and writes atomically; ConsistentRead GetItem returns the current item. The harness talks to a protocol-level fake implementing exactly this; the real service is not exercised.",
        "Server contract, ETag storage: a conditional PutObject (If-Match <etag>; If-Match \"\" = only if absent) is atomic; the ETag is a function of the content, equal ETag implies equal content (MD5 idealised as injective), never empty. Protocol-level fake; real S3/Tigris not exercised.",
        "Values written by sunlight are fresh (strictly increasing checkpoint timestamps, sequencer invariant I1): hypothesis FreshWrites of C05_one_successor_partial.",
        "Reopening a store and durability after power loss (synchronous=FULL, fullfsync) are exercised by reopening connections/processes only; power loss is not observable.",
        "How an error value maps to the result classes ok/notFound/conflict/exists is the harness canonicaliser (error codes ConditionalCheckFailedException / PreconditionFailed / NoSuchKey, SQLite messages); that a missing log yields errors.Is(err, ErrLogNotFound) is checked by the runtime oracle, not by the model.",
    ],
    "trusted_extra": [
        "harness/internal/fakeaws (protocol-level DynamoDB and S3 fakes), harness/internal/lockcheck (history oracle; its linearisation search is untrusted: orders are re-checked by the verified checkWitness in drv)",
        "aws-sdk-go-v2, crawshaw.io/sqlite and SQLite itself (exercised, not modelled)",
    ],
}
