from ._seqcommon import seq_spec

SPEC = seq_spec(
    "C01",
    "Lean 4 theorems: for every event sequence the sequencer protocol model accepts (any number of instances, every fault outcome, crashes, restarts, any clock value) the lock-store history is a chain of extensions with strictly increasing timestamps and every published checkpoint was committed first; for runs with one live process at a time (the own quantifier of C01: ReachableSolo) the PUBLICATION history is monotone as well (C01_pub_monotone_solo: every published checkpoint extends every earlier one; false with overlapping instances, finding F3), and without tampering the checkpoint object is exactly the last effective checkpoint upload (C01_ckpt_object_is_last_publication). The model is tied to the code by the regenerated effect skeleton of sequencePool/CreateLog/LoadLog/openCheckpoint (Tie/Seq.lean) and by trace acceptance: the real ctlog.Log, run over scheduler-gated fault-injecting stores, must produce only event sequences the model accepts, with byte-exact roots/tiles.",
    "Trusted: Lean kernel, standard axioms, extractor, harness stores/scheduler, Lean SHA-256 rendering. Assumes the Backend/LockBackend contracts, collision resistance, unforgeability.",
    "invariant by induction over all accepted event sequences (Lean 4) + regenerated effect-skeleton tie + trace acceptance of the real code under systematic fault/crash/clock schedules",
    required=["C01_lock_chain", "C01_pub_committed", "C01_no_fork", "C01_clock_guard", "C01_pub_monotone_solo", "C01_ckpt_object_is_last_publication"],
)
