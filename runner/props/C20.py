"""C20 — The health endpoint is green only for fresh, valid, consistent state (DESIGN.md §8 C20)."""

SPEC = {
    "props": ["Props.C20"],
    "tie": ["Tie.C20"],
    "binaries": {"skylight": "./cmd/skylight"},
    "engines": [{"engine": "health", "timeout": 1500}],
    "required_theorems": [
        "C20_ok_iff", "C20_each_load_bearing", "C20_each_load_bearing_witness", "C20_each_load_bearing_witness_log",
        "C20_flip_one", "C20_staging_ignored",
        "checkLog_errors", "check_errors", "parseVerifiers_errors", "hashes_errors", "checkLog_skel", "check_skel",
        "loadVerifiers_skel", "parseVerifiers_skel", "hashes_skel", "health_skel", "health_formats", "witnessHealth_literals",
    ],
    "search_budget_s": 120,
    "design_ref": "DESIGN.md §8 C20",
    "level_text": (
        "Lean 4 theorems about the conjunction /health computes (Skylight.Health.status/lines over abstract directory "
        "facts: per configured log, witness, mirror and per origin-hash directory, which of the conditions tested by "
        "checkLog, loadVerifiers/parseVerifiers/hashes and witnessHealth.check hold), for all configurations and all "
        "truth assignments: status 200 iff every applicable condition of every non-staging entry holds; if a single "
        "applicable condition of a non-staging entry fails the status is 500 and the body has a failure line labelled "
        "with that log's name (short name; `witness`/`mirror`; `witness|mirror <origin or directory>`), for each of the "
        "15 log, 9 witness-level and 10 per-directory conditions; staging entries never change the status and only "
        "produce `(ignored)` lines; a read-only log past NotAfterLimit+1w+3s whose final tree matches reports `read-only`."
    ),
    "level_note": (
        "The model is a conjunction over abstract facts; that each fact is what the corresponding Go call decides is tied "
        "by regenerated facts (error texts in source order = the model's enumeration mapped through msg; skeletons of "
        "checkLog, loadVerifiers, parseVerifiers, hashes, check and of the handler's status/label logic, incl. the 5 s and "
        "7d+3s windows) and by running the BUILT skylight binary on real log/witness/mirror directories with every "
        "reachable condition broken alone and in pairs (fresh checkpoints signed by the real signTreeHead right before "
        "each request). Conditions no directory state can break alone (ParseCheckpoint after a successful note.Open, "
        "origin mismatch after verification under that name, ReadDir of an open root) are covered by model and tie only."
    ),
    "technique": (
        "abstract-fact model of the handler + proofs by induction over the condition lists (first failing condition, "
        "any-failed) + go/ast facts tie of condition order and texts + differential correspondence with the built binary "
        "(status and per-entry lines) + independent runtime oracle (200 iff all conditions of all non-staging entries)"
    ),
    "assumptions": [
        "Each abstract fact stands for the outcome of one Go call on the directory (fs.ReadFile, json.Unmarshal, x509.ParsePKIXPublicKey, NewRFC6962Verifier, note.Open, ParseCheckpoint, RFC6962SignatureTimestamp, time.Parse, the verifying tile reader, witness.OriginHash): note.Open / signature verification are modelled symbolically elsewhere (C11); here they are exercised with re-signed, truncated, tampered, renamed and unsigned checkpoints.",
        "Wall-clock freshness uses the real clock: the harness signs immediately before the request, uses checkpoints 2.5 s old (fresh) and 7.5 s or more old (stale), NotAfterLimit 8-9 s either side of the one-week-plus-3-s boundary, and drops (reports as skipped) any case whose request completed more than 2.5 s after signing.",
        "The handler iterates a Go map of logs: the order of log lines is not modelled (lines are compared as multisets).",
        "Two log entries with an identical LogConfig collapse into one map key in the handler; configurations are assumed to have distinct entries.",
        "The right-edge check reads only the hash tiles on the right edge (e.g. for a 256-leaf mirror only tile/1/000.p/1): a missing or corrupt tile elsewhere is not a health condition.",
    ],
    "trusted_extra": [
        "harness/internal/realdir (drives ctlog, LocalBackend, SQLite lock backend and witness.Witness in-process to build the directories; crafts cosigned checkpoints with torchwood signers)",
        "torchwood (note cosignatures, TileHashReader), golang.org/x/mod/sumdb/note: exercised, not modelled here",
    ],
}
