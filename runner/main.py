"""Entry point logic for ./check (see core.py for the pipeline)."""
import glob
import json
import os
import shutil
import sys
import time

from . import core
from .registry import PROPS, TRUSTED_BASE

SCHEMA_LEVEL = "proof"


def usage():
    print("usage: ./check <Cxx>|all [--tier quick|thorough] [--seed N] | ./check setup | ./check replay <file>", file=sys.stderr)
    return 2


def first_error(logtext):
    lines = [l for l in logtext.splitlines() if "error" in l.lower()]
    return "\n".join(lines[:12]) if lines else logtext[-1500:]


def run_prop(prop, tier, seed):
    spec = PROPS[prop]
    t0 = time.time()
    known = core.load_known()
    state = core.repo_state()
    work = os.path.join(core.WORK, "%s-%s-%d" % (prop, tier, os.getpid()))
    shutil.rmtree(work, ignore_errors=True)
    os.makedirs(work)
    broken = []          # list of (kind, name, detail): proof obligations / correspondences that no longer check
    notes = []

    # 1. regenerate facts
    try:
        facts_sha = core.extract_facts()
    except Exception as e:  # extractor could not process the tree: every tie of this property is unchecked
        facts_sha = None
        broken.append(("tie", "tools/extract", str(e)[-1500:]))

    # 2. property theorems (independent of /repo) and tie theorems (depend on regenerated facts)
    forbidden = core.grep_forbidden()
    if forbidden:
        print("FRAMEWORK-ERROR: forbidden constructs in Lean sources:\n" + "\n".join(forbidden))
        return 3
    prop_mods = spec.get("props", ["Props." + prop])
    tie_mods = spec.get("tie", [])
    rc, o = core.lake_build(prop_mods)
    if rc != 0:
        print("FRAMEWORK-ERROR: property theorems do not build:\n" + o[-3000:])
        return 3
    tie_ok = True
    if tie_mods and facts_sha is not None:
        rc, o = core.lake_build(tie_mods)
        if rc != 0:
            tie_ok = False
            broken.append(("tie", ",".join(tie_mods), first_error(o)))
    elif tie_mods:
        tie_ok = False
    mods = prop_mods + (tie_mods if tie_ok else [])
    ok, thms, alog = core.audit(mods)
    if not ok:
        print("FRAMEWORK-ERROR: audit failed:\n" + alog[-3000:])
        return 3
    bad_axioms = {n: a for n, a in thms.items() if not set(a) <= core.ALLOWED_AXIOMS}
    if bad_axioms:
        print("FRAMEWORK-ERROR: theorems depend on non-standard axioms: %s" % bad_axioms)
        return 3
    required = spec.get("required_theorems", [])
    missing = [r for r in required if not any(n == r or n.endswith("." + r) for n in thms)]
    if missing and tie_ok:
        print("FRAMEWORK-ERROR: required theorems missing from audit: %s" % missing)
        return 3
    obligations = len(thms) + (0 if tie_ok else 1)
    discharged = len(thms)

    # 3. build harness + driver from the current tree
    engines_out = []
    oracle_failures = []
    rc, o, vh = core.build_harness(spec.get("go_tags", ()))
    if rc != 0:
        broken.append(("correspondence", "harness build against /repo (tag verif)", first_error(o)))
        vh = None
    rc, o, drv = core.build_driver(sorted({e["engine"] for e in spec.get("engines", [])}))
    if rc != 0:
        print("FRAMEWORK-ERROR: driver does not build:\n" + o[-3000:])
        return 3
    bins = {}
    for name, pkg in spec.get("binaries", {}).items():
        rc, o, path = core.build_repo_binary(pkg, name)
        if rc != 0:
            broken.append(("correspondence", "build of %s" % pkg, first_error(o)))
        bins[name] = path

    # 4. run engines (corpus first)
    oprops = set(spec.get("oracle_props", [prop]))
    if vh:
        for i, e in enumerate(spec.get("engines", [])):
            extra = dict(e.get("extra", {}))
            extra.update(e.get(tier, {}))
            outdir = os.path.join(work, "%s-%d" % (e["engine"], i))
            corpus = sorted(glob.glob(os.path.join(core.VERIF, "corpus", prop, e["engine"] + "-*.json")))
            for c in corpus:
                r = core.run_engine(vh, drv, e["engine"], prop, tier, seed, outdir + "-corpus", extra, replay=c)
                r["corpus"] = os.path.basename(c)
                engines_out.append(r)
            r = core.run_engine(vh, drv, e["engine"], prop, tier, seed, outdir, extra,
                                timeout=e.get("timeout", 3000))
            engines_out.append(r)
        for r in engines_out:
            if r["rc_vh"] != 0:
                broken.append(("correspondence", "engine %s exited %s" % (r["engine"], r["rc_vh"]), r["log_vh"][-1500:]))
            for m in r["mismatches"]:
                broken.append(("correspondence", "engine %s" % r["engine"], m))
            oracle_failures += [f for f in r["oracle_failures"] if f.get("property", prop) in oprops]

    # 5. classify
    unknown = [f for f in oracle_failures if not core.match_known(f.get("property", prop), f, known)]
    known_hit = {}
    for f in oracle_failures:
        k = core.match_known(f.get("property", prop), f, known)
        if k:
            known_hit[k["id"]] = (k, f)

    searched = 0
    if broken and not unknown and vh:
        # the model no longer describes the code: look for a concrete failing input
        budget = spec.get("search_budget_s", 240 if tier == "quick" else 900)
        ts = time.time()
        sseed = seed
        while time.time() - ts < budget and not unknown:
            for i, e in enumerate(spec.get("engines", [])):
                extra = dict(e.get("extra", {}))
                extra.update(e.get("thorough", {}))
                outdir = os.path.join(work, "search-%s-%d-%d" % (e["engine"], i, sseed))
                r = core.run_engine(vh, drv, e["engine"], prop, "thorough", sseed, outdir, extra, search=True,
                                    timeout=max(60, int(budget)))
                searched += (r["stats"] or {}).get("evaluations", 0)
                fs = [f for f in r["oracle_failures"] if f.get("property", prop) in oprops]
                unknown += [f for f in fs if not core.match_known(f.get("property", prop), f, known)]
                shutil.rmtree(outdir, ignore_errors=True)
                if unknown:
                    break
            sseed += 1000003
            if not spec.get("engines"):
                break

    # 6. evidence
    stats = [r["stats"] for r in engines_out if r["stats"]]
    evals = sum(s["evaluations"] for s in stats)
    distinct = sum(s["distinct_nontrivial"] for s in stats)
    samples = []
    for s in stats:
        samples += (s.get("samples") or [])[:3]
    thm_names = sorted(thms)
    samples.append({"theorems_checked": thm_names[:40]})
    dist = {}
    for s in stats:
        for k, v in (s.get("distribution") or {}).items():
            dist["%s/%s" % (s["engine"], k)] = v
    branches = {}
    for r in engines_out:
        if r.get("summary") and r["summary"].get("branches"):
            for kv in r["summary"]["branches"].split(","):
                if ":" in kv:
                    k, v = kv.rsplit(":", 1)
                    branches["%s/%s" % (r["engine"], k)] = branches.get("%s/%s" % (r["engine"], k), 0) + int(v)
    doc = {
        "property_id": prop, "tier": tier, "seed": seed, "level": SCHEMA_LEVEL,
        "wall_s": round(time.time() - t0, 2),
        "violations": len(unknown) + (1 if broken and not unknown else 0),
        "coverage": {
            "obligations": max(obligations, 1), "discharged": discharged,
            "checker_cmd": "cd /verif/lean && lake build %s && lake env lean <audit of %s> (axioms ⊆ {propext, Classical.choice, Quot.sound}); thorough tier adds: lake env leanchecker %s"
                           % (" ".join(mods), " ".join(mods), " ".join(prop_mods)),
            "trusted_base": TRUSTED_BASE + spec.get("trusted_extra", []),
            "theorems": {n: thms[n] for n in thm_names},
            "tie_checked": tie_ok, "facts_sha256": facts_sha,
            "evaluations": evals, "distinct_nontrivial": distinct,
            "rule": " | ".join(s["rule"] for s in stats),
            "samples": samples,
            "exhaustive": bool(stats) and all(s.get("exhaustive") for s in stats),
            "input_distribution": dist,
            "model_branches_reached": branches,
            "driver_lines": sum(int((r.get("summary") or {}).get("lines", 0)) for r in engines_out),
            "correspondence_mismatches": sum(len(r["mismatches"]) for r in engines_out),
            "oracle_failures": len(oracle_failures),
            "known_findings_reconfirmed": sorted(known_hit),
            "broken_obligations": [{"kind": k, "name": n, "detail": d[:600]} for k, n, d in broken[:10]],
            "search_evaluations": searched,
            "repo": state,
            "engine_timing_s": {r["engine"]: round(r.get("vh_s", 0) + r.get("drv_s", 0), 1) for r in engines_out},
        },
        "assumptions": spec.get("assumptions", []),
    }
    if tier == "thorough" and not broken:
        with core.FileLock("build"):
            rc, o = core.sh(["lake", "env", "leanchecker"] + prop_mods, cwd=core.LEAN, timeout=3000)
        doc["coverage"]["leanchecker"] = "ok" if rc == 0 else ("failed: " + o[-500:])
        if rc != 0:
            print("FRAMEWORK-ERROR: leanchecker rejected %s:\n%s" % (prop_mods, o[-2000:]))
            return 3
    core.write_evidence(prop, doc)

    # 7. verdict
    for kid, (k, f) in sorted(known_hit.items()):
        print("KNOWN-FINDING: property=%s %s (%s)" % (prop, k["what"], kid))
    rcode = 0
    if unknown:
        f = unknown[0]
        rp = core.write_replay(prop, {"property": prop, "kind": "oracle", "engine": f.get("engine"), "signature": f.get("signature"),
                                      "detail": f.get("detail"), "case": f.get("case"), "repo": state,
                                      "broken_obligations": [{"kind": k, "name": n, "detail": d[:1500]} for k, n, d in broken[:5]]})
        print("VIOLATION property=%s replay=%s" % (prop, rp))
        print("  " + (f.get("signature") or "") + ": " + (f.get("detail") or "")[:600])
        rcode = 1
    elif broken:
        rp = core.write_replay(prop, {"property": prop, "kind": "unproved", "repo": state,
                                      "no_longer_checks": [{"kind": k, "name": n, "detail": d[:3000]} for k, n, d in broken[:10]],
                                      "search_evaluations": searched})
        print("VIOLATION property=%s replay=%s no-failing-input-found" % (prop, rp))
        for k, n, d in broken[:3]:
            print("  %s %s: %s" % (k, n, d[:400].replace("\n", " | ")))
        rcode = 1
    else:
        print("OK property=%s tier=%s theorems=%d evaluations=%d distinct=%d wall=%.0fs"
              % (prop, tier, len(thms), evals, distinct, time.time() - t0))
    shutil.rmtree(work, ignore_errors=True)
    return rcode


def setup():
    """Build everything the claimed checks (runner/ready.txt) need, from clean, offline."""
    t0 = time.time()
    ready = set(open(os.path.join(core.VERIF, "runner", "ready.txt")).read().split())
    specs = {p: sp for p, sp in PROPS.items() if p in ready}
    core.extract_facts()
    mods = sorted({m for p, sp in specs.items() for m in sp.get("props", ["Props." + p]) + sp.get("tie", [])})
    engs = sorted({e["engine"] for sp in specs.values() for e in sp.get("engines", [])})
    rc, o = core.lake_build(mods + ["Audit"] + ["drv_" + e for e in engs])
    print(o[-2000:])
    if rc != 0:
        return rc
    for tags in sorted({tuple(sorted(sp.get("go_tags", ()))) for sp in specs.values()}):
        rc, o, _ = core.build_harness(tags)
        print(o[-2000:])
        if rc != 0:
            return rc
    seen = set()
    for p, spec in specs.items():
        for name, pkg in spec.get("binaries", {}).items():
            if name in seen:
                continue
            seen.add(name)
            rc, o, _ = core.build_repo_binary(pkg, name)
            if rc != 0:
                print(o[-2000:])
                return rc
    print("setup done in %.0fs (%d properties, %d Lean modules, %d drivers)" % (time.time() - t0, len(specs), len(mods), len(engs)))
    return 0


def replay(path):
    doc = json.load(open(path))
    prop = doc["property"]
    if doc.get("kind") == "unproved":
        print("replay names proof obligations / correspondences that no longer check:")
        for b in doc["no_longer_checks"]:
            print(" - %s %s\n   %s" % (b["kind"], b["name"], b["detail"][:1000]))
        print("re-running the quick check of %s" % prop)
        return run_prop(prop, "quick", 1)
    rc, o, vh = core.build_harness(PROPS.get(prop, {}).get("go_tags", ()))
    if rc != 0:
        print(o[-2000:])
        return 3
    rc, o, drv = core.build_driver([doc["engine"]])
    work = os.path.join(core.WORK, "replay-%d" % os.getpid())
    os.makedirs(work, exist_ok=True)
    casefile = os.path.join(work, "case.json")
    json.dump(doc, open(casefile, "w"))
    r = core.run_engine(vh, drv, doc["engine"], prop, "quick", 1, work, replay=casefile)
    fs = r["oracle_failures"]
    shutil.rmtree(work, ignore_errors=True)
    if fs:
        print("VIOLATION property=%s replay=%s" % (prop, path))
        print("  " + fs[0].get("signature", "") + ": " + fs[0].get("detail", "")[:800])
        return 1
    print("replay did not reproduce a violation (rc_vh=%s)" % r["rc_vh"])
    print(r["log_vh"][-800:])
    return 0


def main(argv):
    if len(argv) < 2:
        return usage()
    tier = os.environ.get("VERIF_TIER", "quick")
    seed = int(os.environ.get("VERIF_SEED", "1"))
    args = argv[1:]
    pos = []
    i = 0
    while i < len(args):
        if args[i] == "--tier":
            tier = args[i + 1]; i += 2
        elif args[i] == "--seed":
            seed = int(args[i + 1]); i += 2
        else:
            pos.append(args[i]); i += 1
    if pos[0] == "setup":
        return setup()
    if pos[0] == "replay":
        return replay(pos[1])
    if pos[0] == "all":
        rc = 0
        for p in sorted(PROPS):
            rc = max(rc, run_prop(p, tier, seed))
        return rc
    if pos[0] not in PROPS:
        print("unknown property %s" % pos[0], file=sys.stderr)
        return 2
    return run_prop(pos[0], tier, seed)
