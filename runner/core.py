"""Runner plumbing shared by every property check (see DESIGN.md §2 and §4).

Pipeline per check: regenerate facts from /repo -> build and audit the Lean
property + tie theorems -> build the harness against /repo's working tree ->
run the engines (implementation trace -> Lean driver) -> on a broken tie or
correspondence, search for a concrete failing input with the runtime oracle ->
write evidence -> exit 0 / exit 1 with a VIOLATION line.
"""
import fcntl
import hashlib
import json
import os
import re
import shutil
import subprocess
import sys
import time

VERIF = os.path.dirname(os.path.dirname(os.path.abspath(__file__)))
REPO = os.environ.get("VERIF_REPO", "/repo")
LEAN = os.path.join(VERIF, "lean")
HARNESS = os.path.join(VERIF, "harness")
EXTRACT = os.path.join(VERIF, "tools", "extract")
WORK = os.environ.get("VERIF_WORK", os.path.join(VERIF, ".work"))
EVIDENCE = os.path.join(VERIF, "evidence")
ALLOWED_AXIOMS = {"propext", "Classical.choice", "Quot.sound"}
# `admit` only in tactic position (identifiers such as `Outcome.admit` or a constructor `| admit` are fine)
FORBIDDEN = re.compile(r"\b(sorry|native_decide|bv_decide|implemented_by)\b|(^|\bby|;|<;>|·|\()\s*admit\b|^\s*axiom\s|unsafe\s|maxHeartbeats\s+0")

GOENV = dict(os.environ)
GOENV.update({"GOFLAGS": "-mod=mod", "GOPROXY": "off", "GOTOOLCHAIN": "auto", "CGO_ENABLED": "1"})
GOENV.pop("GOSUMDB", None)


def log(*a):
    print("[check]", *a, file=sys.stderr, flush=True)


def sh(cmd, cwd=None, env=None, timeout=None, stdin=None, check=False):
    p = subprocess.run(cmd, cwd=cwd, env=env, timeout=timeout, stdin=stdin,
                       stdout=subprocess.PIPE, stderr=subprocess.STDOUT, text=True, errors="replace")
    if check and p.returncode != 0:
        raise RuntimeError("command failed: %s\n%s" % (cmd, p.stdout[-4000:]))
    return p.returncode, p.stdout


class FileLock:
    def __init__(self, name):
        os.makedirs(WORK, exist_ok=True)
        self.path = os.path.join(WORK, name + ".lock")

    def __enter__(self):
        self.f = open(self.path, "w")
        fcntl.flock(self.f, fcntl.LOCK_EX)
        return self

    def __exit__(self, *a):
        fcntl.flock(self.f, fcntl.LOCK_UN)
        self.f.close()


def repo_state():
    _, head = sh(["git", "-C", REPO, "rev-parse", "HEAD"])
    _, diff = sh(["git", "-C", REPO, "diff", "HEAD"])
    return {"head": head.strip(), "diff_sha256": hashlib.sha256(diff.encode()).hexdigest(), "dirty": bool(diff.strip())}


# ---------------------------------------------------------------- facts

def extract_facts():
    """Regenerate lean/Generated/Facts.lean from /repo's working tree."""
    out = os.path.join(LEAN, "Generated", "Facts.lean")
    with FileLock("build"):
        binp = os.path.join(EXTRACT, "extract")
        rc, o = sh(["go", "build", "-o", binp, "."], cwd=EXTRACT, env=GOENV)
        if rc != 0:
            raise RuntimeError("extractor build failed:\n" + o)
        os.makedirs(os.path.dirname(out), exist_ok=True)
        tmp = out + ".tmp"
        if os.path.exists(tmp):
            os.remove(tmp)
        rc, o = sh([binp, "-repo", REPO, "-out", tmp], cwd=EXTRACT, env=GOENV, timeout=300)
        if rc != 0:
            raise RuntimeError("extractor failed:\n" + o)
        new = open(tmp).read()
        old = open(out).read() if os.path.exists(out) else None
        if new != old:
            os.replace(tmp, out)
        else:
            os.remove(tmp)
    return hashlib.sha256(new.encode()).hexdigest()


# ---------------------------------------------------------------- lean

def lake_build(targets, timeout=3000):
    with FileLock("build"):
        rc, o = sh(["lake", "build"] + targets, cwd=LEAN, timeout=timeout)
    return rc, o


def grep_forbidden():
    """Source scan for sorry/admit/axiom/native_decide/... outside comments."""
    hits = []
    for root, dirs, files in os.walk(LEAN):
        dirs[:] = [d for d in dirs if d not in (".lake",)]
        for fn in files:
            if not fn.endswith(".lean"):
                continue
            p = os.path.join(root, fn)
            if os.path.relpath(p, LEAN).startswith("Audit"):
                continue
            depth = 0
            for i, line in enumerate(open(p, encoding="utf-8"), 1):
                s = line
                # strip block comments (nesting-aware, line granular) and line comments
                outb = []
                j = 0
                while j < len(s):
                    if s.startswith("/-", j):
                        depth += 1
                        j += 2
                    elif s.startswith("-/", j) and depth > 0:
                        depth -= 1
                        j += 2
                    elif depth == 0 and s.startswith("--", j):
                        break
                    else:
                        if depth == 0:
                            outb.append(s[j])
                        j += 1
                code = "".join(outb)
                if FORBIDDEN.search(code):
                    hits.append("%s:%d: %s" % (os.path.relpath(p, LEAN), i, code.strip()))
    return hits


def audit(modules):
    """Build the given modules and list every user theorem with its axioms.

    Returns (ok, theorems: {name: [axioms]}, log)."""
    rc, o = lake_build(modules + ["Audit"])
    if rc != 0:
        return False, {}, o
    os.makedirs(WORK, exist_ok=True)
    src = os.path.join(WORK, "audit_%d.lean" % os.getpid())
    with open(src, "w") as f:
        f.write("import Audit.Tool\n")
        for m in modules:
            f.write("import %s\n" % m)
        for m in modules:
            f.write("#audit_module %s\n" % m)
    rc, out = sh(["lake", "env", "lean", src], cwd=LEAN, timeout=900)
    os.remove(src)
    thms = {}
    for line in out.splitlines():
        m = re.search(r"AUDIT (\S+) \[(.*)\]", line)
        if m:
            axs = [a.strip() for a in m.group(2).split(",") if a.strip()]
            thms[m.group(1)] = axs
    if rc != 0:
        return False, thms, out
    return True, thms, out


# ---------------------------------------------------------------- go

def build_harness(extra_tags=()):
    """Build vh (tag verif, plus per-property extra tags) against /repo's current working tree. go.sum is
    refreshed from /repo; /repo itself is never the main module."""
    with FileLock("build"):
        os.makedirs(os.path.join(WORK, "bin"), exist_ok=True)
        # an alternate go.mod (outside the tracked tree) whose replace points at the tree under check
        mod = open(os.path.join(HARNESS, "go.mod")).read().replace("=> /repo", "=> " + REPO)
        alt = os.path.join(WORK, "harness.go.mod")
        open(alt, "w").write(mod)
        shutil.copyfile(os.path.join(REPO, "go.sum"), os.path.join(WORK, "harness.go.sum"))
        tags = ["verif"] + sorted(extra_tags)
        out = os.path.join(WORK, "bin", "vh" + "".join("-" + t for t in tags[1:]))
        # built beside the target and renamed over it: a check running concurrently in this directory keeps executing
        # the file it opened and never sees a missing or half-written binary
        tmp = out + ".new%d" % os.getpid()
        rc, o = sh(["go", "build", "-modfile", alt, "-tags", ",".join(tags), "-o", tmp, "./cmd/vh"], cwd=HARNESS, env=GOENV, timeout=1800)
        if rc == 0:
            os.replace(tmp, out)
        else:
            for f in (tmp, out):   # never test a stale binary when the build fails
                if os.path.exists(f):
                    os.remove(f)
    return rc, o, out


def build_repo_binary(pkg, name):
    """Build one of /repo's cmd/* binaries into .work/bin (no go.mod rewrite: -mod=readonly is not
    possible offline for this repo, so go.mod/go.sum are snapshotted and restored)."""
    os.makedirs(os.path.join(WORK, "bin"), exist_ok=True)
    out = os.path.join(WORK, "bin", name)
    with FileLock("build"):
        snap = {}
        for fn in ("go.mod", "go.sum"):
            p = os.path.join(REPO, fn)
            snap[fn] = open(p, "rb").read()
        try:
            tmp = out + ".new%d" % os.getpid()
            rc, o = sh(["go", "build", "-o", tmp, pkg], cwd=REPO, env=GOENV, timeout=1800)
            if rc == 0:
                os.replace(tmp, out)   # atomic: a concurrent check never sees the binary missing
            else:
                for f in (tmp, out):   # never test a stale binary when the build fails
                    if os.path.exists(f):
                        os.remove(f)
        finally:
            for fn, b in snap.items():
                p = os.path.join(REPO, fn)
                if open(p, "rb").read() != b:
                    open(p, "wb").write(b)
    return rc, o, out


def build_driver(engines=()):
    """Build one stand-alone driver executable per engine (drv_<engine>); returns the bin directory."""
    targets = ["drv_" + e for e in engines] or ["drv"]
    rc, o = lake_build(targets)
    return rc, o, os.path.join(LEAN, ".lake", "build", "bin")


# ---------------------------------------------------------------- engines

def run_engine(vh, drv, engine, prop, tier, seed, outdir, extra=None, search=False, replay=None, timeout=3000):
    """Run one harness engine and feed its trace to the Lean driver.

    Returns dict(stats, oracle_failures, mismatches, summary, rc_vh, rc_drv, logs)."""
    os.makedirs(outdir, exist_ok=True)
    cmd = [vh, engine, "-tier", tier, "-seed", str(seed), "-out", outdir, "-prop", prop]
    if search:
        cmd.append("-search")
    if replay:
        cmd += ["-replay", replay]
    for k, v in (extra or {}).items():
        cmd += ["-" + k, str(v)]
    env = dict(GOENV)
    env["VERIF_REPO"] = REPO
    env["VERIF_WORK"] = WORK
    env["GOMEMLIMIT"] = env.get("GOMEMLIMIT", "8GiB")
    t0 = time.time()
    try:
        rc, o = sh(cmd, cwd=outdir, env=env, timeout=timeout)
    except subprocess.TimeoutExpired:
        rc, o = 124, "vh timed out after %ds" % timeout
    res = {"engine": engine, "rc_vh": rc, "log_vh": o[-6000:], "vh_s": time.time() - t0,
           "stats": None, "oracle_failures": [], "mismatches": [], "summary": None, "rc_drv": None}
    sp = os.path.join(outdir, "stats.json")
    if os.path.exists(sp):
        res["stats"] = json.load(open(sp))
    op = os.path.join(outdir, "oracle.jsonl")
    if os.path.exists(op):
        res["oracle_failures"] = [json.loads(l) for l in open(op) if l.strip()]
    tp = os.path.join(outdir, "trace.txt")
    if os.path.exists(tp) and not search:
        t1 = time.time()
        with open(tp) as f:
            try:
                exe = os.path.join(drv, "drv_" + engine) if os.path.isdir(drv) else drv
                rc2, o2 = sh([exe, engine], stdin=f, timeout=timeout)
            except subprocess.TimeoutExpired:
                rc2, o2 = 124, "drv timed out"
        res["rc_drv"] = rc2
        res["drv_s"] = time.time() - t1
        for line in o2.splitlines():
            if line.startswith("MISMATCH"):
                if len(res["mismatches"]) < 50:
                    res["mismatches"].append(line[:2000])
            elif line.startswith("SUMMARY"):
                res["summary"] = dict(kv.split("=", 1) for kv in line.split()[1:] if "=" in kv)
        if rc2 != 0 and not res["mismatches"]:
            res["mismatches"].append("driver exited %s: %s" % (rc2, o2[-1500:]))
        if res["summary"] is None and rc2 == 0:
            res["mismatches"].append("driver printed no SUMMARY: %s" % o2[-1500:])
    return res


# ---------------------------------------------------------------- findings / evidence

def load_known():
    p = os.path.join(VERIF, "known_findings.json")
    if not os.path.exists(p):
        return []
    return json.load(open(p)).get("findings", [])


def match_known(prop, failure, known):
    for k in known:
        if k.get("property") == prop and k.get("status") == "known":
            if re.search(k["signature"], failure.get("signature", "")):
                return k
    return None


def write_evidence(prop, doc):
    os.makedirs(EVIDENCE, exist_ok=True)
    p = os.path.join(EVIDENCE, prop + ".json")
    tmp = p + ".tmp%d" % os.getpid()
    with open(tmp, "w") as f:
        json.dump(doc, f, indent=1, sort_keys=True)
    os.replace(tmp, p)
    return p


def write_replay(prop, obj):
    d = os.path.join(VERIF, "replays")
    os.makedirs(d, exist_ok=True)
    h = hashlib.sha256(json.dumps(obj, sort_keys=True).encode()).hexdigest()[:12]
    p = os.path.join(d, "replay-%s-%s.json" % (prop, h))
    with open(p, "w") as f:
        json.dump(obj, f, indent=1, sort_keys=True)
    return p
