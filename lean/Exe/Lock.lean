import Driver.Lock
/-! stand-alone driver executable for engine `lock` (so one engine's driver cannot break another's build) -/
def main (_ : List String) : IO UInt32 := Driver.Lock.main
