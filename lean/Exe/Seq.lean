import Driver.Seq
/-! stand-alone driver executable for engine `seq` (so one engine's driver cannot break another's build) -/
def main (_ : List String) : IO UInt32 := Driver.Seq.main
