import Driver.Ckpt
/-! stand-alone driver executable for engine `ckpt` (so one engine's driver cannot break another's build) -/
def main (_ : List String) : IO UInt32 := Driver.Ckpt.main
