import Driver.Tilereader
/-! stand-alone driver executable for engine `tilereader` -/
def main (_ : List String) : IO UInt32 := Driver.Tilereader.main
