import Driver.Client
/-! stand-alone driver executable for engine `client` (so one engine's driver cannot break another's build) -/
def main (_ : List String) : IO UInt32 := Driver.Client.main
