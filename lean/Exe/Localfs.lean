import Driver.Localfs
/-! stand-alone driver executable for engine `localfs` (so one engine's driver cannot break another's build) -/
def main (_ : List String) : IO UInt32 := Driver.Localfs.main
