import Driver.Mirror
/-! stand-alone driver executable for engine `mirror` (so one engine's driver cannot break another's build) -/
def main (_ : List String) : IO UInt32 := Driver.Mirror.main
