import Driver.S3
/-! stand-alone driver executable for engine `s3` -/
def main (_ : List String) : IO UInt32 := Driver.S3.main
