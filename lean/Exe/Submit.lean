import Driver.Submit
/-! stand-alone driver executable for engine `submit` (so one engine's driver cannot break another's build) -/
def main (_ : List String) : IO UInt32 := Driver.Submit.main
