import Driver.Selftest
/-! stand-alone driver executable for engine `selftest` (so one engine's driver cannot break another's build) -/
def main (_ : List String) : IO UInt32 := Driver.Selftest.main
