import Driver.Subtree
/-! stand-alone driver executable for engine `subtree` (so one engine's driver cannot break another's build) -/
def main (_ : List String) : IO UInt32 := Driver.Subtree.main
