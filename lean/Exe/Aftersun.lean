import Driver.Aftersun
/-! stand-alone driver executable for engine `aftersun` (so one engine's driver cannot break another's build) -/
def main (_ : List String) : IO UInt32 := Driver.Aftersun.main
