import Driver.Merkle
/-! stand-alone driver executable for engine `merkle` (so one engine's driver cannot break another's build) -/
def main (_ : List String) : IO UInt32 := Driver.Merkle.main
