import Driver.Recompute
/-! stand-alone driver executable for engine `recompute` (so one engine's driver cannot break another's build) -/
def main (_ : List String) : IO UInt32 := Driver.Recompute.main
