import Driver.Codec
/-! stand-alone driver executable for engine `codec` (so one engine's driver cannot break another's build) -/
def main (_ : List String) : IO UInt32 := Driver.Codec.main
