import Driver.Skylight
/-! stand-alone driver executable for engine `skylight` (so one engine's driver cannot break another's build) -/
def main (_ : List String) : IO UInt32 := Driver.Skylight.main
