import Driver.Witness
/-! stand-alone driver executable for engine `witness` (so one engine's driver cannot break another's build) -/
def main (_ : List String) : IO UInt32 := Driver.Witness.main
