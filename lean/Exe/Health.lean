import Driver.Health
/-! stand-alone driver executable for engine `health` (so one engine's driver cannot break another's build) -/
def main (_ : List String) : IO UInt32 := Driver.Health.main
