import Lean
/-! `#audit_module M` prints, for every user-declared theorem of module `M`, the
axioms it depends on, as lines `AUDIT <name> [ax1, ax2, ...]`. The runner
parses these lines; nothing here is trusted for the proofs themselves. -/
open Lean Elab Command

private def userFacing (n : Name) : Bool :=
  !n.isInternalDetail && n.components.all fun c =>
    let s := c.toString
    !(s.startsWith "_" || s.startsWith "match_" || s.startsWith "proof_" ||
      s.startsWith "eq_" || s == "induct" || s == "induct_unfolding" || s == "fun_cases" ||
      s == "fun_cases_unfolding" || s == "injEq" || s == "sizeOf_spec" || s == "inj" ||
      s == "noConfusion" || s == "congr_simp" || s == "ext_iff" || s == "ext")

elab "#audit_module " m:ident : command => do
  let env ← getEnv
  let some idx := env.getModuleIdx? m.getId
    | throwError "unknown module {m.getId}"
  let mut names : Array Name := #[]
  for (n, ci) in env.constants.map₁.toList do
    if env.getModuleIdxFor? n == some idx then
      if let .thmInfo _ := ci then
        if userFacing n then names := names.push n
  let sorted := names.qsort (fun a b => a.toString < b.toString)
  for n in sorted do
    let axs ← Lean.collectAxioms n
    let axl := axs.toList.map (·.toString)
    logInfo m!"AUDIT {n} {axl}"
  logInfo m!"AUDIT-DONE {m.getId} {sorted.size}"
