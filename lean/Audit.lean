import Audit.Tool
