import Generated.Facts
import Model.Codec
import Model.TilePath
/-!
# Tie for C10: the codec schemas of /repo's current source are the ones the model is built from

`Generated.c10_*` is regenerated from /repo on every run by `tools/extract/facts_C10.go`. The right-hand sides are
computed from the `FieldSpec` lists of `Model/Codec.lean` — the same lists `appendTileLeaf`, `readTileLeaf`,
`merkleTreeLeaf`, `marshalExtensions`, `cachePreimage` are defined by and `Props/C10.lean` is proved about.
If the code's call sequence changes (a width, an order, a guard, a tag constant, an error path), a theorem here stops
type-checking and the check reports C10 as no longer shown.
-/
namespace Tie.C10
open Codec

/-! ## encoders: the builder-call sequence on every path -/

theorem appendTileLeaf_x509 : Generated.c10_w_AppendTileLeaf_x509 = writesOf (tileLeafSpec false) := rfl
theorem appendTileLeaf_precert : Generated.c10_w_AppendTileLeaf_precert = writesOf (tileLeafSpec true) := rfl
theorem appendTileLeaf_panics :
    (Generated.c10_w_AppendTileLeaf_x509_finish, Generated.c10_w_AppendTileLeaf_precert_finish) = ("BytesOrPanic", "BytesOrPanic") := rfl

theorem merkleTreeLeaf_x509 : Generated.c10_w_MerkleTreeLeaf_x509 = writesOf (merkleLeafSpec false) := rfl
theorem merkleTreeLeaf_precert : Generated.c10_w_MerkleTreeLeaf_precert = writesOf (merkleLeafSpec true) := rfl
theorem merkleTreeLeaf_panics :
    (Generated.c10_w_MerkleTreeLeaf_x509_finish, Generated.c10_w_MerkleTreeLeaf_precert_finish) = ("BytesOrPanic", "BytesOrPanic") := rfl

theorem addExtensions_archival : Generated.c10_w_addExtensions_archival = addExtensionsWrites true := rfl
theorem addExtensions_indexed : Generated.c10_w_addExtensions_indexed = addExtensionsWrites false := rfl
/-- … and `AddUint16(0)` is what the model writes for an archival leaf: a `lenp 2` field holding nothing -/
theorem addExtensions_archival_bytes : encField (.lenp 2) [] = toBE 2 0 := by decide

theorem marshalExtensions : Generated.c10_w_MarshalExtensions = writesOf extSpec := rfl
theorem marshalExtensions_returns_error : Generated.c10_w_MarshalExtensions_finish = "Bytes" := rfl
theorem addUint40 : Generated.c10_w_addUint40 = addUint40Writes := rfl

theorem cacheHash_x509 : Generated.c10_w_computeCacheHash_x509 = writesOf (cacheSpec false) := rfl
theorem cacheHash_precert : Generated.c10_w_computeCacheHash_precert = writesOf (cacheSpec true) := rfl
theorem recomputeCacheHash_x509 : Generated.c10_w_recomputeCacheHash_x509 = writesOf (cacheSpec false) := rfl
theorem recomputeCacheHash_precert : Generated.c10_w_recomputeCacheHash_precert = writesOf (cacheSpec true) := rfl
/-- the copy in cmd/recompute-cache is the same function (AST digest modulo positions) -/
theorem cacheHash_copies_equal : Generated.c10_cacheHashDigest_ctlog = Generated.c10_cacheHashDigest_recompute := by decide

/-! ## decoders: reads (from the same field specs), guards, error paths -/

/-- the shape of `readTileLeaf`, computed from the field specs the encoder is built from -/
def readTileLeafShape : List (List String) := [
  "if" :: readsOf headerSpec ++ ["guard:timestamp > math.MaxInt64"],
  ["return", "nil, s, fmt.Errorf(\"invalid data tile\")"],
  ["assign", "e.Timestamp", "int64(timestamp)"],
  ["switch", "entryType"],
  ["case", "0"],
  "if" :: readsOf x509BodySpec,
  ["return", "nil, s, fmt.Errorf(\"invalid data tile x509_entry\")"],
  ["case", "1"],
  ["assign", "e.IsPrecert", "true"],
  "if" :: readsOf precertBodySpec,
  ["return", "nil, s, fmt.Errorf(\"invalid data tile precert_entry\")"],
  ["case", "default"],
  ["return", "nil, s, fmt.Errorf(\"invalid data tile: unknown type %d\", entryType)"],
  ["if", "guard:extensions.Empty()"],
  ["assign", "e.RFC6962ArchivalLeaf", "true"],
  ["else"],
  -- one extension, of type 0, holding exactly a uint40, nothing after it
  ["if", (readsOf extSpec).getD 0 "", "guard:extensionType != 0", (readsOf extSpec).getD 1 "",
         "readUint40(&extensionData, &e.LeafIndex)", "guard:!extensionData.Empty()", "guard:!extensions.Empty()"],
  ["return", "nil, s, fmt.Errorf(\"invalid data tile extensions\")"],
  ["for", "guard:!fingerprints.Empty()"],
  ["if", "fingerprints.CopyBytes(f[:])"],
  ["return", "nil, s, fmt.Errorf(\"invalid data tile fingerprints\")"],
  ["assign", "e.ChainFingerprints", "append(e.ChainFingerprints, f)"],
  ["end-for"],
  ["return", "e, s, nil"] ]

theorem readTileLeaf_shape : Generated.c10_r_readTileLeaf = readTileLeafShape := rfl

/-- the reader reads the header fields and then, per entry type, exactly the fields the writer wrote, in order -/
theorem reader_mirrors_writer :
    schemaOf (tileLeafSpec false) = schemaOf headerSpec ++ schemaOf x509BodySpec ∧
    schemaOf (tileLeafSpec true) = schemaOf headerSpec ++ schemaOf precertBodySpec := ⟨rfl, rfl⟩

theorem readTileLeaf_strict_wrapper : Generated.c10_r_ReadTileLeaf = [
    ["call", "readTileLeaf(tile)"],
    ["if", "guard:err != nil"],
    ["return", "nil, rest, err"],
    ["if", "guard:e.RFC6962ArchivalLeaf"],
    ["return", "nil, rest, fmt.Errorf(\"leaf is missing leaf index extension\")"],
    ["return", "e, rest, nil"] ] := rfl

theorem readTileLeaf_lenient_wrapper : Generated.c10_r_ReadTileLeafMaybeArchival = [["return", "readTileLeaf(tile)"]] := rfl

/-- `ParseExtensions`: loop, skip unknown types, return at the first type-0 extension (see `parseExtensionsAux`) -/
theorem parseExtensions_shape : Generated.c10_r_ParseExtensions = [
    ["for", "guard:!b.Empty()"],
    ["if", "b.ReadUint8(&extensionType)", "b.ReadUint16LengthPrefixed(&extension)"],
    ["return", "Extensions{}, errors.New(\"invalid extension\")"],
    ["if", "guard:extensionType == 0"],
    ["if", "readUint40(&extension, &e.LeafIndex)", "guard:!extension.Empty()"],
    ["return", "Extensions{}, errors.New(\"invalid leaf_index extension\")"],
    ["return", "e, nil"],
    ["end-for"],
    ["return", "Extensions{}, errors.New(\"missing leaf_index extension\")"] ] := rfl

theorem readUint40_shape : Generated.c10_r_readUint40 = [
    ["if", "s.ReadBytes(&v, 5)"],
    ["return", "false"],
    ["assign", "*out", "int64(v[0])<<32 | int64(v[1])<<24 | int64(v[2])<<16 | int64(v[3])<<8 | int64(v[4])"],
    ["return", "true"] ] := rfl

/-! ## tile paths: the wrappers around tlog (tlog itself is a pinned dependency, differential-checked) -/

theorem tilePath_shape : Generated.c10_r_TilePath = [
    ["if", "guard:t.H != TileHeight"],
    ["call", "panic(fmt.Sprintf(\"unexpected tile height %d\", t.H))"],
    ["if", "guard:t.L == -2"],
    ["return", "\"tile/names/\" + strings.TrimPrefix(t.Path(), \"tile/8/data/\")"],
    ["return", "\"tile/\" + strings.TrimPrefix(t.Path(), \"tile/8/\")"] ] := rfl

theorem parseTilePath_shape : Generated.c10_r_ParseTilePath = [
    ["call", "strings.CutPrefix(path, \"tile/names/\")"],
    ["if", "guard:ok"],
    ["call", "tlog.ParseTilePath(\"tile/8/data/\" + rest)"],
    ["if", "guard:err != nil"],
    ["return", "tlog.Tile{}, fmt.Errorf(\"malformed tile path %q\", path)"],
    ["return", "t, nil"],
    ["call", "strings.CutPrefix(path, \"tile/\")"],
    ["if", "guard:ok"],
    ["call", "tlog.ParseTilePath(\"tile/8/\" + rest)"],
    ["if", "guard:err != nil"],
    ["return", "tlog.Tile{}, fmt.Errorf(\"malformed tile path %q\", path)"],
    ["return", "t, nil"],
    ["return", "tlog.Tile{}, fmt.Errorf(\"malformed tile path %q\", path)"] ] := rfl

theorem tileHeight : (Generated.c10_tileHeight : Int) = TilePath.tileHeight := by decide

end Tie.C10
