import Generated.Facts
import Model.SeqCacheProgram
/-! Tie of the deduplication cache (C07, C02): the statement outlines of `internal/ctlog/cache.go`, regenerated from
the working tree on every run, are the ones the model was written against (see Model/SeqCacheProgram.lean for what
the model takes from them). A change to how rows are written (batching, a different key, a different table), to how
they are read (statement handling, lookup order, the legacy fallback) or to how the file is opened breaks this tie;
the check then searches for a resubmission that is answered differently. -/
namespace TieCache

set_option maxRecDepth 20000

theorem cache_init : Generated.cache_initCache = SeqCache.initCache := by decide
theorem cache_legacy_probe : Generated.cache_cacheLegacy = SeqCache.cacheLegacy := by decide
theorem cache_get : Generated.cache_cacheGet = SeqCache.cacheGet := by decide
theorem cache_put : Generated.cache_cachePut = SeqCache.cachePut := by decide

end TieCache
