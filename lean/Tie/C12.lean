import Generated.Facts
import Model.ClientV
/-! C12 tie: the checks of `cutEntry`, the `Entries` / `AllEntries` wrappers, `Entry`,
`CheckInclusion` and `Checkpoint` in the current `client.go` (every guard, in source order) are
the ones `Model/ClientV.lean` gives a meaning to; both constructors hand `cutEntry` to torchwood;
and in the pinned torchwood the per-tile loop of `Client.Entries` and `Client.Entry` have the
guards `scanTile` / `clientEntry` model (hash comparison before the yield, leftover check,
`CheckRecord` against the caller's tree head). -/
namespace TieC12
open ClientV

set_option maxRecDepth 20000

theorem cutentry : Generated.c12_cutentry = expectedCutEntry := by decide
theorem entries : Generated.c12_entries = expectedEntriesWrapper "Entries" := by decide
theorem allentries : Generated.c12_allentries = expectedEntriesWrapper "AllEntries" := by decide
theorem entry : Generated.c12_entry = expectedEntry := by decide
theorem checkinclusion : Generated.c12_checkinclusion = expectedCheckInclusion := by decide
theorem checkpoint : Generated.c12_checkpoint = expectedCheckpoint := by decide
/-- the file:// and the HTTP constructor both install `cutEntry` -/
theorem with_cut_entry : Generated.c12_with_cut_entry = List.replicate 2 "torchwood.WithCutEntry(cutEntry)" := by decide
theorem tile_width : Generated.c12_tile_width = tileWidth := by decide
theorem torchwood_tile_loop : Generated.c12_torchwood_tile_loop = expectedTorchwoodTileLoop := by decide
theorem torchwood_entry : Generated.c12_torchwood_entry = expectedTorchwoodEntry := by decide

end TieC12
