import Generated.Facts
import Model.Lock
/-! C05 tie: the statements, bound arguments, conditions, flags and headers in the current
`sqlite.go`, `dynamodb.go`, `etag.go` are the ones the backend models of `Model/Lock.lean`
(`Sqlite.program`, `Dynamo.program`, `ETag.program`) give a meaning to. Right-hand sides are
renderings of those statement tables (`Lock.Source`). Not tied on purpose: how `ETagBackend.Fetch`
reports a missing key (candidate finding F2; checked at run time by the oracle). -/
namespace TieC05
open Lock Lock.Source

-- long string literals: `decide` only needs a deeper evaluation stack
set_option maxRecDepth 20000

/-! ### SQLite -/
theorem sqlite_fetch_exec : Generated.c05_sqlite_fetch_exec = sqliteExec Sqlite.program .fetch := by decide
theorem sqlite_replace_exec : Generated.c05_sqlite_replace_exec = sqliteExec Sqlite.program .replace := by decide
theorem sqlite_create_exec : Generated.c05_sqlite_create_exec = sqliteExec Sqlite.program .create := by decide
theorem sqlite_fetch_skel : Generated.c05_sqlite_fetch_skel = sqliteSkel Sqlite.program .fetch := by decide
theorem sqlite_replace_skel : Generated.c05_sqlite_replace_skel = sqliteSkel Sqlite.program .replace := by decide
theorem sqlite_create_skel : Generated.c05_sqlite_create_skel = sqliteSkel Sqlite.program .create := by decide
theorem sqlite_fetch_returns : Generated.c05_sqlite_fetch_returns = sqliteReturns .fetch := by decide
theorem sqlite_replace_returns : Generated.c05_sqlite_replace_returns = sqliteReturns .replace := by decide
theorem sqlite_create_returns : Generated.c05_sqlite_create_returns = sqliteReturns .create := by decide
theorem sqlite_open : Generated.c05_sqlite_open_exec = sqliteOpen Sqlite.program := by decide

/-! ### DynamoDB -/
theorem dynamo_fetch_input : Generated.c05_dynamo_fetch_input = dynamoFetchInput Dynamo.program := by decide
theorem dynamo_replace_input :
    Generated.c05_dynamo_replace_input = dynamoPutInput Dynamo.program.replaceCond "o.logID[:]" := by decide
theorem dynamo_create_input :
    Generated.c05_dynamo_create_input = dynamoPutInput Dynamo.program.createCond "logID[:]" := by decide
theorem dynamo_fetch_guards : Generated.c05_dynamo_fetch_guards = ["guard [resp.Item == nil] -> fail"] := by decide
theorem dynamo_fetch_calls : Generated.c05_dynamo_fetch_calls = ["b.client.GetItem(ctx, input)"] := by decide
theorem dynamo_replace_calls : Generated.c05_dynamo_replace_calls = ["b.client.PutItem(ctx, input)"] := by decide
theorem dynamo_create_calls : Generated.c05_dynamo_create_calls = ["b.client.PutItem(ctx, input)"] := by decide
theorem dynamo_fetch_returns : Generated.c05_dynamo_fetch_returns = dynamoReturns .fetch := by decide
theorem dynamo_replace_returns : Generated.c05_dynamo_replace_returns = dynamoReturns .replace := by decide
theorem dynamo_create_returns : Generated.c05_dynamo_create_returns = dynamoReturns .create := by decide

/-! ### ETag object storage -/
theorem etag_replace_headers : Generated.c05_etag_replace_headers = etagHeaders ETag.program.replaceIfMatch := by decide
theorem etag_create_headers : Generated.c05_etag_create_headers = etagHeaders ETag.program.createIfMatch := by decide
theorem etag_fetch_input :
    Generated.c05_etag_fetch_input = ["Bucket = aws.String(b.bucket)", "Key = aws.String(key)"] := by decide
theorem etag_replace_input : Generated.c05_etag_replace_input = etagPutInput "o.key" := by decide
theorem etag_create_input : Generated.c05_etag_create_input = etagPutInput "key" := by decide
theorem etag_fetch_calls : Generated.c05_etag_fetch_calls = ["b.client.GetObject(ctx, input, func)"] := by decide
theorem etag_replace_calls : Generated.c05_etag_replace_calls = ["b.client.PutObject(ctx, input, func)"] := by decide
theorem etag_create_calls : Generated.c05_etag_create_calls = ["b.client.PutObject(ctx, input, func)"] := by decide
/-- Fetch and Create derive the object key from the log ID in the same (injective) way. -/
theorem etag_keys : Generated.c05_etag_fetch_key = ["fmt.Sprintf(\"%x\", logID)"] ∧
    Generated.c05_etag_create_key = Generated.c05_etag_fetch_key ∧
    Generated.c05_etag_replace_key = [] := by decide
theorem etag_fetch_handle : Generated.c05_etag_fetch_handle = etagHandle "key" "data" := by decide
theorem etag_replace_handle : Generated.c05_etag_replace_handle = etagHandle "o.key" "new" := by decide
theorem etag_replace_returns : Generated.c05_etag_replace_returns =
    ["nil, fmtErrorf", "nil, fmtErrorf", "&eTagCheckpoint{key: o.key, body: new, eTag: *out.ETag}, nil"] := by decide
theorem etag_create_returns : Generated.c05_etag_create_returns = ["fmt.Errorf", "nil"] := by decide

end TieC05
