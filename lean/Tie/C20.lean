import Generated.Facts
import Model.Skylight
/-! C20 tie: the conditions of the health endpoint in the current `cmd/skylight/skylight.go` are the ones
`Skylight.Health` enumerates, in the same order. The error texts (one per condition, in source order)
are compared with the model's own enumeration (`LogCond.common ++ sunset ++ active`, `WitCond`,
`WLogCond.applicable true`) mapped through `msg`; the effect skeletons (calls and guards of `checkLog`,
`loadVerifiers`, `parseVerifiers`, `hashes`, `check`, and what the handler does with each result:
which branch sets the status, which only writes "(ignored)" / "read-only") are compared literally. -/
namespace TieC20
open Skylight.Health

set_option maxRecDepth 20000

/-- `checkLog` reports its conditions in the order of the model's enumeration -/
theorem checkLog_errors :
    Generated.c20_checkLog_errors = (LogCond.common ++ LogCond.sunset ++ LogCond.active).map LogCond.msg := by decide

theorem parseVerifiers_errors : Generated.c20_parseVerifiers_errors =
    [WitCond.infoRead, .infoParses, .keysNonEmpty, .keysValid].map WitCond.msg ∧
    Generated.c20_parseVerifiers_errors = [WitCond.pInfoRead, .pInfoParses, .pKeysNonEmpty, .pKeysValid].map WitCond.msg := by decide
theorem hashes_errors : Generated.c20_hashes_errors = [WitCond.msg .enumOk] := by decide
theorem check_errors : Generated.c20_check_errors = (WLogCond.applicable true).map WLogCond.msg := by decide
/-- a witness directory tests the prefix of the mirror's list that ends before `!wh.mirror → return` -/
theorem check_prefix : WLogCond.applicable false = (WLogCond.applicable true).take 4 := by decide

/-- calls and guards of `checkLog`: the two time windows are 7 days + 3 s and 5 s -/
theorem checkLog_skel : Generated.c20_checkLog_skel = [
  "call fs.ReadFile(root.FS()) onerr=fail guard=[]",
  "call json.Unmarshal(logJSON) onerr=fail guard=[]",
  "call x509.ParsePKIXPublicKey(log.PublicKeyDER) onerr=fail guard=[]",
  "call sunlight.NewRFC6962Verifier(log.Name) onerr=fail guard=[]",
  "call fs.ReadFile(root.FS()) onerr=fail guard=[]",
  "call note.Open(signedCheckpoint) onerr=fail guard=[]",
  "call torchwood.ParseCheckpoint(n.Text) onerr=fail guard=[]",
  "guard [checkpoint.Origin != log.Name] -> fail",
  "call sunlight.RFC6962SignatureTimestamp(n.Sigs[0]) onerr=fail guard=[]",
  "call time.Parse(time.RFC3339) onerr=fail guard=[]",
  "guard [time.Since(notAfterLimit) > 7*24*time.Hour+3*time.Second] -> fail",
  "guard [log.FinalTree.RootHash == nil] -> fail",
  "call bytes.Equal(log.FinalTree.RootHash) onerr=cond guard=[time.Since(notAfterLimit) > 7*24*time.Hour+3*time.Second]",
  "guard [!bytes.Equal(log.FinalTree.RootHash, checkpoint.Hash[:])] -> fail",
  "guard [log.FinalTree.Size != checkpoint.N] -> fail",
  "guard [log.FinalTree.Timestamp != t] -> fail",
  "guard [time.Since(ct) > 5*time.Second] -> fail"] := by decide

theorem loadVerifiers_skel : Generated.c20_loadVerifiers_skel = [
  "assign name = \"witness.v0.json\" guard=[]",
  "guard [wh.mirror] -> continue",
  "assign name = \"mirror.v0.json\" guard=[wh.mirror]",
  "call parseVerifiers(wh.root) onerr=fail guard=[]",
  "assign wh.verifier = v guard=[]",
  "guard [wh.mirror] -> fail",
  "call parseVerifiers(wh.pendingRoot) onerr=fail guard=[wh.mirror]",
  "assign wh.witnessVerifier = wv guard=[wh.mirror]"] := by decide

theorem parseVerifiers_skel : Generated.c20_parseVerifiers_skel = [
  "call fs.ReadFile(root.FS()) onerr=fail guard=[]",
  "call json.Unmarshal(j) onerr=fail guard=[]",
  "guard [len(info.VerifierKeys) == 0] -> fail",
  "call parseVerifier(vkey) onerr=fail guard=[ range(info.VerifierKeys)]",
  "call note.VerifierList(verifiers) onerr=returned guard=[]"] := by decide

theorem hashes_skel : Generated.c20_hashes_skel = [
  "call fs.ReadDir(wh.root.FS()) onerr=fail guard=[]",
  "call isOriginHash(e.Name()) onerr=cond guard=[ range(entries)]",
  "guard [e.IsDir() && isOriginHash(e.Name())] -> continue"] ∧
  Generated.c20_isOriginHash_returns = ["err == nil && len(b) == sha256.Size && strings.ToLower(name) == name"] := by decide

theorem check_skel : Generated.c20_check_skel = [
  "call fs.ReadFile(wh.root.FS()) onerr=fail guard=[]",
  "call note.Open(signedCheckpoint) onerr=fail guard=[]",
  "call torchwood.ParseCheckpoint(n.Text) onerr=fail guard=[]",
  "call witness.OriginHash(origin) onerr= guard=[]",
  "guard [h != hash] -> fail",
  "guard [!wh.mirror] -> return-nil",
  "call fs.Sub(wh.root.FS()) onerr=fail guard=[]",
  "call torchwood.NewTileFS(sub) onerr=fail guard=[]",
  "call torchwood.TileHashReaderWithContext(checkpoint.Tree) onerr=unchecked guard=[]",
  "call torchwood.RightEdge(checkpoint.N) onerr= guard=[]",
  "guard [len(edge) > 0] -> fail",
  "call hr.ReadHashes(edge) onerr=fail guard=[len(edge) > 0]",
  "call fs.ReadFile(wh.pendingRoot.FS()) onerr=fail guard=[]",
  "call note.Open(signedPending) onerr=fail guard=[]",
  "call torchwood.ParseCheckpoint(pn.Text) onerr=fail guard=[]",
  "guard [pending.Origin != origin] -> fail",
  "guard [checkpoint.N > pending.N] -> fail"] := by decide

/-- the handler: `errLogSunset` → "read-only" (no status change, whatever Staging says); a staging
entry → "(ignored)"; otherwise status 500; a witness whose keys do not load or whose directory cannot
be listed is reported once under its kind; each log directory is labelled with the verified origin
when there is one (`Skylight.Health.logLine`, `witLines`, `WLog.label`, `report`) -/
theorem health_skel : Generated.c20_health_skel = [
  "assign status = http.StatusOK guard=[]",
  "call checkLog(root) onerr=continue guard=[ range(roots)]",
  "call errors.Is(err) onerr=cond guard=[ range(roots) <err != nil>]",
  "guard [errors.Is(err, errLogSunset)] -> continue",
  "call fmt.Fprintf(buf) onerr=ignored guard=[ range(roots) <err != nil> && errors.Is(err, errLogSunset)]",
  "guard [log.Staging] -> continue",
  "call fmt.Fprintf(buf) onerr=ignored guard=[ range(roots) <err != nil> !(errors.Is(err, errLogSunset)) && log.Staging]",
  "assign status = http.StatusInternalServerError guard=[ range(roots) <err != nil> !(errors.Is(err, errLogSunset)) !(log.Staging)]",
  "call fmt.Fprintf(buf) onerr=ignored guard=[ range(roots) <err != nil> !(errors.Is(err, errLogSunset)) !(log.Staging)]",
  "call fmt.Fprintf(buf) onerr=ignored guard=[ range(roots) !(err != nil)]",
  "assign kind = \"witness\" guard=[ range(witnessChecks)]",
  "guard [wh.mirror] -> continue",
  "assign kind = \"mirror\" guard=[ range(witnessChecks) && wh.mirror]",
  "call wh.loadVerifiers() onerr=unchecked guard=[ range(witnessChecks)]",
  "call wh.hashes() onerr=unchecked guard=[ range(witnessChecks) <err == nil>]",
  "guard [wh.staging] -> continue",
  "call fmt.Fprintf(buf) onerr=ignored guard=[ range(witnessChecks) <err != nil> && wh.staging]",
  "assign status = http.StatusInternalServerError guard=[ range(witnessChecks) <err != nil> !(wh.staging)]",
  "call fmt.Fprintf(buf) onerr=ignored guard=[ range(witnessChecks) <err != nil> !(wh.staging)]",
  "call wh.check(r.Context()) onerr=unchecked guard=[ range(witnessChecks) range(hashes)]",
  "assign label = kind + \" \" + hash guard=[ range(witnessChecks) range(hashes)]",
  "guard [origin != \"\"] -> continue",
  "assign label = kind + \" \" + origin guard=[ range(witnessChecks) range(hashes) && origin != \"\"]",
  "guard [wh.staging] -> continue",
  "call fmt.Fprintf(buf) onerr=ignored guard=[ range(witnessChecks) range(hashes) <err != nil> && wh.staging]",
  "assign status = http.StatusInternalServerError guard=[ range(witnessChecks) range(hashes) <err != nil> !(wh.staging)]",
  "call fmt.Fprintf(buf) onerr=ignored guard=[ range(witnessChecks) range(hashes) <err != nil> !(wh.staging)]",
  "call fmt.Fprintf(buf) onerr=ignored guard=[ range(witnessChecks) range(hashes) !(err != nil)]",
  "call w.WriteHeader(status) onerr=ignored guard=[]"] := by decide

theorem health_formats : Generated.c20_health_formats = [
  "\"%s: read-only\"", "\"%s: %v (ignored)\"", "\"%s: %v\"", "\"%s: OK\"",
  "\"%s: %v (ignored)\"", "\"%s: %v\"",
  "\"%s: %v (ignored)\"", "\"%s: %v\"", "\"%s: OK\""] ∧
  kindName false = "witness" ∧ kindName true = "mirror" := by decide

/-- one health entry per configured witness, a second one (mirror, verified against the pending
checkpoints of the first) when it has a `mirror` sub-directory; both inherit `Staging` -/
theorem witnessHealth_literals : Generated.c20_witnessHealth_literals = [
  "root: root, staging: wc.Staging",
  "root: mirrorRoot, pendingRoot: root, mirror: true, staging: wc.Staging"] := by decide

end TieC20
