import Generated.Facts
import Model.Aftersun
/-! C18 tie: the guards of `cmd/partial-aftersun/partial-aftersun.go` in the current source are the ones
`Model/Aftersun.lean` transliterates. The two arithmetic expressions are compared with the *rendering of
the expression trees the model evaluates* (`tileSizeExpr`, `edgeGuardExpr`), the string tests with the
model's byte-string constants; the effect skeletons (order of listings, parses, guards, override,
removals, and how each error leaves) are compared literally. -/
namespace TieC18
open Aftersun TilePath

set_option maxRecDepth 20000

/-- a model byte string as a Go string literal -/
def goLit (b : Bytes) : String := "\"" ++ String.ofList (b.map fun c => Char.ofNat c.toNat) ++ "\""

theorem tileHeight : (Generated.c18_tileHeight : Int) = env1 0 "sunlight.TileHeight" ∧
    (Generated.c18_tileHeight : Int) = TilePath.tileHeight := by decide
/-- `t.W == sunlight.TileWidth` is the model's `t.W = 256 = 1 << TileHeight` -/
theorem tileWidth : (Generated.c18_tileWidth : Int) = 256 ∧ (Generated.c18_tileWidth : Int) = shl1 TilePath.tileHeight := by decide

theorem level_guard : Generated.c18_level_guard = [levelGuardExpr.render ++ " -> continue"] := by decide
theorem tileSize_expr : Generated.c18_tileSize_expr = tileSizeExpr.render := by decide
theorem edge_guard : Generated.c18_edge_guard = [edgeGuardExpr.render ++ " -> continue"] := by decide
theorem width_guard : Generated.c18_width_guard = ["t.W==sunlight.TileWidth -> return-error"] := by decide
theorem name_guards : Generated.c18_name_guards =
    ["strings.HasPrefix(entry.Name(),\"x\") -> continue", "!ok -> continue", "!ok -> continue"] := by decide

theorem cleanDir_strings : Generated.c18_cleanDir_strings =
    ["strings.HasPrefix(entry.Name(), " ++ goLit [120] ++ ")",
     "strings.CutSuffix(entry.Name(), " ++ goLit dotP ++ ")",
     "strings.TrimSuffix(name, " ++ goLit dotP ++ ")"] := by decide
theorem override_strings : Generated.c18_override_strings = ["strings.Cut(name, " ++ goLit dotPSlash ++ ")"] := by decide

/-- order of effects and guards in `cleanDir`: list the directory; recurse into `x…`; cut `.p`; sibling in
the listing; parse the sibling path; level cut-off *before* the shift; right-edge test; list the `.p` directory; per partial: parse, width
test, `overrideImmutable`, remove; finally remove the directory. Every error returns. -/
theorem cleanDir_skel : Generated.c18_cleanDir_skel = [
  "call ctx.Err() onerr=fail guard=[]",
  "call fs.ReadDir(root.FS()) onerr=fail guard=[]",
  "call strings.HasPrefix(entry.Name()) onerr=cond guard=[ range(entries)]",
  "guard [strings.HasPrefix(entry.Name(), \"x\")] -> fail",
  "call cleanDir(logger) onerr=fail guard=[ range(entries) && strings.HasPrefix(entry.Name(), \"x\")]",
  "call strings.CutSuffix(entry.Name()) onerr=unchecked guard=[ range(entries)]",
  "guard [!ok] -> continue",
  "guard [!ok] -> continue",
  "call parseTilePath(strings.TrimSuffix(name, \".p\")) onerr=fail guard=[ range(entries)]",
  "call strings.TrimSuffix(name) onerr=fail guard=[ range(entries)]",
  "guard [t.L > 6] -> continue",
  "assign tileSize = int64(1) << (sunlight.TileHeight * (max(0, t.L) + 1)) guard=[ range(entries)]",
  "guard [t.N >= size/tileSize] -> continue",
  "call fs.ReadDir(root.FS()) onerr=fail guard=[ range(entries)]",
  "call parseTilePath(name) onerr=fail guard=[ range(entries) range(partials)]",
  "guard [t.W == sunlight.TileWidth] -> fail",
  "call overrideImmutable(root) onerr=fail guard=[ range(entries) range(partials)]",
  "call root.Remove(name) onerr=fail guard=[ range(entries) range(partials)]",
  "call root.Remove(name) onerr=fail guard=[ range(entries)]"] := by decide

/-- `overrideImmutable`: cut at `".p/"`, the rest is a number, the text before it is a non-empty regular file -/
theorem override_skel : Generated.c18_override_skel = [
  "call strings.Cut(name) onerr=unchecked guard=[]",
  "guard [!ok] -> fail",
  "call strconv.Atoi(size) onerr=fail guard=[]",
  "call root.Stat(full) onerr=fail guard=[]",
  "guard [fi.IsDir()] -> fail",
  "guard [fi.Size() == 0] -> fail",
  "call root.Open(name) onerr=fail guard=[]",
  "call immutable.Unset(f) onerr=ignored guard=[]",
  "call f.Close() onerr=returned guard=[]"] := by decide

/-- the size is `checkpoint.N` of the published checkpoint: signature-verified under the key and name of
`log.v3.json` for a log, origin-hash-checked for a mirror directory -/
theorem logSize_skel : Generated.c18_logSize_skel = [
  "call fs.ReadFile(root.FS()) onerr=fail guard=[]",
  "call json.Unmarshal(logJSON) onerr=fail guard=[]",
  "call x509.ParsePKIXPublicKey(log.PublicKeyDER) onerr=fail guard=[]",
  "call sunlight.NewRFC6962Verifier(log.Name) onerr=fail guard=[]",
  "call fs.ReadFile(root.FS()) onerr=fail guard=[]",
  "call note.Open(signedCheckpoint) onerr=fail guard=[]",
  "call torchwood.ParseCheckpoint(n.Text) onerr=fail guard=[]",
  "guard [checkpoint.Origin != log.Name] -> fail"] ∧
  Generated.c18_logSize_returns = List.replicate 8 "0, fmt.Errorf" ++ ["checkpoint.N, nil"] := by decide
theorem mirroredLogSize_skel : Generated.c18_mirroredLogSize_skel = [
  "call fs.ReadFile(root.FS()) onerr=fail guard=[]",
  "call bytes.Index(signedCheckpoint) onerr=unchecked guard=[]",
  "guard [sep == -1] -> fail",
  "call torchwood.ParseCheckpoint(string(signedCheckpoint[:sep+1])) onerr=fail guard=[]",
  "call witness.OriginHash(checkpoint.Origin) onerr= guard=[]",
  "guard [exp != originHash] -> fail"] ∧
  Generated.c18_mirroredLogSize_returns = List.replicate 4 "0, fmt.Errorf" ++ ["checkpoint.N, nil"] := by decide

/-- logs are walked with `sunlight.ParseTilePath`, mirror directories with `torchwood.ParseTilePath`
(`Aftersun.parserOf`), each with the size its own size function returned -/
theorem main_calls : Generated.c18_main_calls = [
  "logSize(root)",
  "cleanDir(ctx, logger, root, name, size, sunlight.ParseTilePath)",
  "mirroredLogSize(root, entry.Name())",
  "cleanDir(ctx, logger, root, name, size, torchwood.ParseTilePath)"] := by decide

end TieC18
