import Generated.Facts
import Model.LocalFS
/-! C13 tie: what `Model/LocalFS.lean` assumes about the source of `internal/durable/path.go`,
`internal/ctlog/local.go` and `internal/immutable/immutable_linux.go` is what the source says now.
Right-hand sides are renderings of the model's own programs (`LocalFS.Source`): the source order of
calls and `defer`s of `WriteFile` and `Mkdir` (from which `execOrder` derives fsync(file) < rename <
fsync(parent) and mkdir < fsync(new) < fsync(parent)), `fsyncAndClose`, `MkdirAll`, the branch
structure of `Upload` with its modes and `Localize` before `Join`, `Fetch`, `Discard`, the loop of
`compareFile`, and the ioctl of the inode flag. The buffer expression of `compareFile` is not pinned
to one text: it is parsed into the model's vocabulary and *instantiates* the model (`compare_loop`,
also used by `drv localfs`); that the instance has a never-empty buffer is `compare_buf_positive`. -/
namespace TieC13
open LocalFS

set_option maxRecDepth 20000

theorem writefile_order : Generated.c13_writefile = Source.writeFile := by decide
theorem mkdir_order : Generated.c13_mkdir = Source.mkdir := by decide
theorem fsyncandclose : Generated.c13_fsyncandclose = Source.fsyncAndClose := by decide
theorem mkdirall : Generated.c13_mkdirall = Source.mkdirAll := by decide
theorem upload_branches : Generated.c13_upload = Source.upload := by decide
theorem fetch_branches : Generated.c13_fetch = Source.fetch := by decide
theorem discard_branches : Generated.c13_discard = Source.discard := by decide
/-- `Upload`, `Fetch` and `Discard` (above) call the helper `localize`, which is `filepath.Localize`
followed by the refusal of the name `"."` — the model's `LocalFS.localize`. -/
theorem localize_helper : Generated.c13_localize = Source.localizeHelper := by decide

/-- The buffer expression is in the model's vocabulary, and `compareFile` is the model's loop with it. -/
theorem compare_loop :
    (BufExpr.parse Generated.c13_compare_buf).map (fun e => Source.compareFile { buf := e }) =
      some Generated.c13_comparefile := by decide

/-- The buffer of `compareFile` in the current source is never empty (`BufExpr.pos`, hence
`Program.Progress`, hence `C13_immutable` applies to it; it was not before commit 1e3891a: F1). -/
theorem compare_buf_positive :
    (BufExpr.parse Generated.c13_compare_buf).map BufExpr.pos = some true := by decide

theorem immutable_set : Generated.c13_immutable_set = ["setFlags(f, _FS_IMMUTABLE_FL)"] := by decide
theorem immutable_unset : Generated.c13_immutable_unset = ["setFlags(f, 0)"] := by decide
theorem immutable_ioctl : Generated.c13_immutable_setflags =
    ["syscall.Syscall(syscall.SYS_IOCTL, f.Fd(), _FS_IOC_SETFLAGS, uintptr(unsafe.Pointer(&flags)))"] := by decide
theorem immutable_flag : Generated.c13_FS_IMMUTABLE_FL = 16 := by decide

end TieC13
