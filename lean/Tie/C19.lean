import Generated.Facts
import Model.Skylight
/-! C19 tie: the routes of `cmd/skylight/skylight.go` and what each handler does to the response are
what `Skylight.Route` models. The header assignments are compared with lists *rendered from the
model's own header values* (`checkpointHdrs`, `jsonHdrs`, `issuerHdrs`, `tileHeaders`): the rows of the
`switch tile.L` are the differences between `tileHeaders` at level −1 / −2 and at the default level.
Patterns, prefix stripping / re-prefixing, the file-server construction over `os.Root` and the
directory-hiding `filesOnlyFS` are compared literally. -/
namespace TieC19
open Skylight.Route TilePath

set_option maxRecDepth 20000

def setH (k v : String) : String := "set " ++ k ++ "=" ++ v

/-- the assignments every file handler starts with -/
def baseHeaders (h : Hdrs) : List String :=
  [setH "Access-Control-Allow-Origin" "*", setH "Content-Type" h.ctype] ++
  (if h.cache = "" then [] else [setH "Cache-Control" h.cache])

def defaultTile : Hdrs := (tileHeaders ⟨0, 0, 0, 0⟩).2

/-- what a `case` of the switch adds to the default row -/
def switchRow (t : Tile) : List String :=
  let h := (tileHeaders t).2
  (if h.gzip && !defaultTile.gzip then [">" ++ setH "Content-Encoding" "gzip"] else []) ++
  (if h.ctype ≠ defaultTile.ctype then [">" ++ setH "Content-Type" h.ctype] else [])

/-- the patterns registered on the two muxes, in source order -/
theorem routes : Generated.c19_routes = [
  "mux.Handle /metrics",
  "mux.Handle /{$}",
  "logMux.Handle /{$}",
  "logMux.HandleFunc GET /checkpoint",
  "logMux.HandleFunc GET /log.v3.json",
  "logMux.HandleFunc GET /issuer/{issuer}",
  "logMux.HandleFunc GET /tile/{tile...}",
  "mux.HandleFunc patternPrefix + \"/\"",
  "mux.HandleFunc patternPrefix + \"/{origin}/\"",
  "mux.HandleFunc patternPrefix + \"/mirror/{origin}/\"",
  "mux.HandleFunc patternPrefix + \"/witness.v0.json\"",
  "mux.HandleFunc patternPrefix + \"/mirror/mirror.v0.json\"",
  "mux.HandleFunc \"GET \" + logsJSONPrefix + \"/logs.json\"",
  "mux.HandleFunc /health"] := by decide

theorem h_checkpoint : Generated.c19_h_checkpoint =
    baseHeaders checkpointHdrs ++ ["ctx kindContextKey=checkpoint", "serve unlimitedHandler"] := by decide
theorem h_logjson : Generated.c19_h_logjson =
    baseHeaders jsonHdrs ++ ["ctx kindContextKey=log.v3.json", "serve unlimitedHandler"] := by decide
theorem h_issuer : Generated.c19_h_issuer =
    baseHeaders issuerHdrs ++ ["ctx kindContextKey=issuer", "serve rateLimitedHandler"] := by decide

/-- the tile handler: default headers, `sunlight.ParseTilePath` with the `torchwood.ParseTilePath`
fallback on the path value behind `tile/`, and the switch on `tile.L` -/
theorem h_tile : Generated.c19_h_tile =
    baseHeaders defaultTile ++
    ["assign tilePath = \"tile/\" + r.PathValue(\"tile\")",
     "parse sunlight.ParseTilePath(tilePath)",
     "if err != nil",
     ">parse torchwood.ParseTilePath(tilePath)",
     "switch tile.L",
     "case -1"] ++ switchRow ⟨8, -1, 0, 256⟩ ++
    [">if tile.W < sunlight.TileWidth", ">>ctx kindContextKey=partial", ">else", ">>ctx kindContextKey=data",
     "case -2"] ++ switchRow ⟨8, -2, 0, 256⟩ ++
    [">ctx kindContextKey=names",
     "case default", ">ctx kindContextKey=tile",
     "serve rateLimitedHandler"] := by decide
/-- `tile.W < sunlight.TileWidth` is the model's `t.W < 256`; the three rows are all the model distinguishes -/
theorem tileWidth : Generated.c19_tileWidth = 256 := by decide
theorem switch_rows (t : Tile) : (tileHeaders t).2 = (tileHeaders ⟨8, -1, 0, 256⟩).2 ∨
    (tileHeaders t).2 = (tileHeaders ⟨8, -2, 0, 256⟩).2 ∨ (tileHeaders t).2 = defaultTile := by
  unfold tileHeaders defaultTile
  by_cases h1 : t.L = -1
  · left; simp [h1]
  · by_cases h2 : t.L = -2
    · right; left; simp [h1, h2]
    · right; right; simp [h1, h2, tileHeaders]

/-- a log: pattern `GET host+path/`, `StripPrefix(prefix.Path)`, `logMux` -/
theorem h_log : Generated.c19_h_log = [
  "ctx rateLimitedHandlerContextKey=rateLimitedHandler",
  "ctx unlimitedHandlerContextKey=unlimitedHandler",
  "serve logMux"] := by decide
/-- a witness: the origin is stripped for `logMux` and recorded as the file prefix (`witnessRoute`) -/
theorem h_origin : Generated.c19_h_origin = [
  "assign origin = r.PathValue(\"origin\")",
  "ctx filePrefixContextKey=\"/\" + origin",
  "ctx rateLimitedHandlerContextKey=rateLimitedHandler",
  "ctx unlimitedHandlerContextKey=unlimitedHandler",
  "strip prefix.Path + \"/\" + origin -> logMux"] := by decide
theorem h_mirror_origin : Generated.c19_h_mirror_origin = [
  "assign origin = r.PathValue(\"origin\")",
  "ctx filePrefixContextKey=\"/mirror/\" + origin",
  "ctx rateLimitedHandlerContextKey=rateLimitedHandler",
  "ctx unlimitedHandlerContextKey=unlimitedHandler",
  "strip prefix.Path + \"/mirror/\" + origin -> logMux"] := by decide
theorem h_witness_json : Generated.c19_h_witness_json =
    baseHeaders jsonHdrs ++ ["ctx kindContextKey=witness.v0.json", "strip prefix.Path -> unlimitedHandler"] := by decide
theorem h_mirror_json : Generated.c19_h_mirror_json =
    baseHeaders jsonHdrs ++ ["ctx kindContextKey=mirror.v0.json", "strip prefix.Path -> unlimitedHandler"] := by decide

/-- both kinds of directory are served by `http.FileServerFS` over `filesOnlyFS{root.FS()}` of an
`os.OpenRoot`; the log mux is reached through `StripPrefix(prefix.Path)` under `GET host+path` -/
theorem wiring : Generated.c19_wiring = [
  "os.OpenRoot(lc.LocalDirectory)",
  "handler := http.FileServerFS(filesOnlyFS{root.FS()})",
  "patternPrefix := \"GET \" + prefix.Host + prefix.Path",
  "logMux := http.StripPrefix(prefix.Path, logMux)",
  "os.OpenRoot(wc.LocalDirectory)",
  "handler := http.FileServerFS(filesOnlyFS{root.FS()})",
  "patternPrefix := \"GET \" + prefix.Host + prefix.Path",
  "root.OpenRoot(\"mirror\")"] := by decide
/-- the witness file handler serves `filePrefix ++ (stripped path)` and drops the raw path -/
theorem witness_wrapper : Generated.c19_witness_wrapper = [
  "assign p = filePrefixFromContext(r.Context()) + r.URL.Path",
  "assign r2.URL.Path = p",
  "assign r2.URL.RawPath = \"\""] := by decide
/-- directories are reported as not existing (`FileState.absent`) -/
theorem filesOnly : Generated.c19_filesOnly_skel = [
  "call f.fsys.Open(name) onerr=fail guard=[]",
  "call file.Stat() onerr=fail guard=[]",
  "call file.Close() onerr=ignored guard=[ <err != nil>]",
  "guard [info.IsDir()] -> fail",
  "call file.Close() onerr=ignored guard=[info.IsDir()]"] ∧
  Generated.c19_filesOnly_returns = [
  "nil, err", "nil, err", "nil, &fs.PathError{Op: \"open\", Path: name, Err: fs.ErrNotExist}", "file, nil"] := by decide

end TieC19
