import Generated.Facts
import Model.S3Program
/-! Tie of the production object-store backend to the outlines the storage contract was read off (see
Model/S3Program.lean). Serves C04 (and every check that rests on "Upload returned nil ⇒ the object is stored"). -/
namespace TieS3

set_option maxRecDepth 20000

theorem s3_upload : Generated.s3_upload = S3Program.upload := by decide
theorem s3_fetch : Generated.s3_fetch = S3Program.fetch := by decide
theorem s3_discard : Generated.s3_discard = S3Program.discard := by decide

end TieS3
