import Generated.Facts
import Model.SeqProgram
/-! Tie between the sequencer model and /repo's current source (regenerated facts). Shared by
C01–C04, C06–C08 and C17. -/
set_option maxRecDepth 20000
namespace Tie.Seq
open _root_.Seq

theorem tileWidth_256 : Generated.tileWidth = 256 := by decide
theorem tileHeight_8 : Generated.tileHeight = 8 := by decide

/-- effect order, error classes and guards of a sequencing round are the model's round program -/
theorem sequencePool_program : (Generated.skelSequencePool.filter relevant) = expectedSequencePool := by decide

/-- the deferred epilogue of sequencePool closes `done` and stores the error on every exit path -/
theorem sequencePool_defer : Generated.skelSequencePool.take 5 = expectedDefer := by decide

theorem sequence_rotation : Generated.skelSequence = expectedSequence := by decide

theorem runSequencer_loop : Generated.skelRunSequencer = expectedRunSequencer := by decide

theorem addLeafToPool_order : Generated.skelAddLeafToPool = expectedAddLeaf := by decide

theorem uploadIssuer_order : Generated.skelUploadIssuer = expectedUploadIssuer := by decide

theorem applyStaged_awaits_all : Generated.skelApplyStagedUploads = expectedApply := by decide

theorem createLog_order : (Generated.skelCreateLog.filter fun l => hasPrefix "call " l) = expectedCreate := by decide

theorem loadLog_core : (Generated.skelLoadLog.filter loadRelevant) = expectedLoadCore := by decide

theorem openCheckpoint_future_guard :
    (Generated.skelOpenCheckpoint.filter fun l => hasPrefix "call timeNow" l || hasPrefix "guard [now" l) = expectedOpenGuards := by decide

end Tie.Seq
