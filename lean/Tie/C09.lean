import Generated.Facts
import Model.Submit
import Model.SeqProgram
/-! C09 tie: the checks of `addChainOrPreChain`, their order and status codes, how the pending
entry is filled (issuer key hash from `chain[1]` / `chain[2]`), the endpoint/type closures, the
handlers' status pass-through, routing and the body limit, the issuer-before-pool order of
`addLeafToPool`, the root pool functions — and, in the pinned certificate-transparency-go, the two
NotAfter window comparisons of `ctfe.ValidateChain` and the parameter order of
`NewCertValidationOpts`. Right-hand sides are renderings of the tables in `Model/Submit.lean`. -/
namespace TieC09
open Submit

set_option maxRecDepth 20000

/-- calls, guards and status codes of `addChainOrPreChain`, in source order = `checks` rendered -/
theorem flow : Generated.c09_flow = expectedFlow := by decide

/-- the fields of the pending entry, incl. `chain[2]` with a precertificate signing certificate -/
theorem entry_assigns : Generated.c09_entry_assigns = expectedAssigns := by decide

/-- add-chain refuses precertificate entries, add-pre-chain refuses final certificates -/
theorem type_addchain : Generated.c09_addchain_type = expectedTypeCheck .addChain := by decide
theorem type_addprechain : Generated.c09_addprechain_type = expectedTypeCheck .addPreChain := by decide

/-- both handlers answer with the code `addChainOrPreChain` returned (204 for OPTIONS) -/
theorem handler_addchain : Generated.c09_addchain_handler = expectedHandler := by decide
theorem handler_addprechain : Generated.c09_addprechain_handler = expectedHandler := by decide

theorem routes : Generated.c09_routes = expectedRoutes := by decide
theorem max_body : Generated.c09_max_body = maxBodyBytes := by decide

/-- the options `ValidateChain` is called with, by parameter name of the pinned ct-go -/
theorem validate_opts :
    Generated.c09_ctfe_opts_params.zip Generated.c09_validate_args = expectedValidateOpts := by decide

/-- `NotAfter < start` rejects, `¬ NotAfter < limit` rejects: the window is `[start, limit)` -/
theorem window : Generated.c09_ctfe_window = expectedWindow := by decide

theorem addleaf_order : Generated.c09_addleaf_order = expectedAddLeafOrder := by decide
/-- `uploadIssuer`: the in-memory "seen" mark is set only after Fetch/Upload succeeded, under the write lock held
    across the storage operations (what `handleIssuerFault` and `uploadIssuers` assume) -/
theorem uploadissuer_order : Generated.skelUploadIssuer = _root_.Seq.expectedUploadIssuer := by decide
theorem getroots : Generated.c09_getroots_flow = expectedGetRoots := by decide
theorem rootpool : Generated.c09_rootpool_flow = expectedRootPool := by decide
theorem setroots : Generated.c09_setroots_flow = expectedSetRoots := by decide

end TieC09
