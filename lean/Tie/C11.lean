import Generated.Facts
import Model.Checkpoint
/-!
# Tie for C11: the note-signature schemas and the decision structure of the verifier in /repo's current source

`Generated.c11_*` is regenerated from /repo on every run (`tools/extract/facts_C10.go`). Reads and writes on the
right-hand sides come from the `FieldSpec` lists `Codec.injectedSpec` / `Codec.digitallySignedSpec` that
`parseNoteSig`, `NoteSig.encode`, `digitallySigned` and `injectedBlob` are defined by.
-/
namespace Tie.C11
open Codec

/-- `digitallySign`: hash alg 4, sig alg 3, `signature<0..2^16-1>`; an oversized signature is an error return -/
theorem digitallySign_writes : Generated.c11_w_digitallySign = writesOf digitallySignedSpec := rfl
theorem digitallySign_returns_error : Generated.c11_w_digitallySign_finish = "Bytes" := rfl

/-- it signs the SHA-256 of the message with RFC 6979 (`rand = nil`) -/
theorem digitallySign_shape : Generated.c11_r_digitallySign = [
    ["call", "sha256.Sum256(msg)"],
    ["call", "k.Sign(nil, h[:], crypto.SHA256)"],
    ["if", "guard:err != nil"],
    ["return", "nil, err"],
    ["call", "b.AddUint8(4)"],
    ["call", "b.AddUint8(3)"],
    ["call", "b.AddUint16LengthPrefixed(func(b *cryptobyte.Builder) { b.AddBytes(sig) })"],
    ["return", "b.Bytes()"] ] := rfl

/-- `NewRFC6962InjectedSigner`: `uint64 timestamp` then the TreeHeadSignature bytes as they are -/
theorem injectedSigner_writes : Generated.c11_w_InjectedSigner = writesOf injectedSpec ++ ["b.AddBytes(sig)"] := rfl

/-- … and `Sign` hands the signature out only after the verifier accepted it (`Checkpoint.injectedSign`) -/
theorem injectedSigner_guard : Generated.c11_r_injectedSign = [
    ["if", "guard:!s.v.Verify(msg, s.sig)"],
    ["return", "nil, fmt.Errorf(\"injected signature doesn't verify\")"],
    ["return", "s.sig, nil"] ] := rfl

theorem injectedSigner_uses_public_verifier : Generated.c11_r_InjectedSigner.head? = some ["call", "NewRFC6962Verifier(name, key)"] := rfl

/-- the reads of the verify closure are the fields of `timestamp ‖ digitally-signed`, in order -/
def noteSigReads : List String := readsOf injectedSpec ++ readsOf digitallySignedSpec

/-- the verify closure, clause by clause as in `Checkpoint.verifier` -/
def verifyShape : List (List String) := [
  ["call", "torchwood.ParseCheckpoint(string(msg))"],
  ["if", "guard:err != nil"],
  ["return", "false"],
  ["if", "guard:c.Origin != name"],
  ["return", "false"],
  ["if", "guard:c.Extension != \"\""],
  ["return", "false"],
  ["if", noteSigReads.getD 0 "", noteSigReads.getD 1 "", "guard:hashAlg != 4", noteSigReads.getD 2 "",
         noteSigReads.getD 3 "", "guard:!s.Empty()"],
  ["return", "false"],
  ["lit", "ct.SignedTreeHead", "Version: ct.V1", "TreeSize: uint64(c.N)", "Timestamp: timestamp", "SHA256RootHash: ct.SHA256Hash(c.Hash)"],
  ["call", "ct.SerializeSTHSignatureInput(sth)"],
  ["if", "guard:err != nil"],
  ["return", "false"],
  ["call", "sha256.Sum256(sthBytes)"],
  ["typeswitch", "key := key.(type)"],
  ["case", "*rsa.PublicKey"],
  ["if", "guard:sigAlg != 1"],
  ["return", "false"],
  ["return", "rsa.VerifyPKCS1v15(key, crypto.SHA256, digest[:], signature) == nil"],
  ["case", "*ecdsa.PublicKey"],
  ["if", "guard:sigAlg != 3"],
  ["return", "false"],
  ["return", "ecdsa.VerifyASN1(key, digest[:], signature)"],
  ["case", "default"],
  ["return", "false"] ]

theorem verify_shape : Generated.c11_r_verify = verifyShape := rfl

/-- the schema the verifier parses is the one the signer's two builders produce, and the algorithm bytes agree -/
theorem signer_and_verifier_agree :
    noteSigSchema = schemaOf injectedSpec ++ schemaOf digitallySignedSpec ∧
    (Checkpoint.algOf .rsa, Checkpoint.algOf .ecdsa, Checkpoint.algOf .other) = (some 1, some 3, none) ∧
    (digitallySignedSpec.map (·.val [])) = [[4], [3], []] := ⟨rfl, rfl, rfl⟩

/-- `RFC6962SignatureTimestamp`: skip the key hash, read the timestamp, refuse values above MaxInt64 -/
theorem signatureTimestamp_shape : Generated.c11_r_SignatureTimestamp = [
    ["call", "base64.StdEncoding.DecodeString(sig.Base64)"],
    ["if", "guard:err != nil"],
    ["return", "0, err"],
    ["if", "s.Skip(4)", (readsOf injectedSpec).getD 0 "", "guard:timestamp > math.MaxInt64"],
    ["return", "0, errors.New(\"malformed RFC 6962 TreeHeadSignature\")"],
    ["return", "int64(timestamp), nil"] ] := rfl

end Tie.C11
