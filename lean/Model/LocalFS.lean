import Model.Bytes
/-! # Model of the local filesystem backend (C13). Core Lean only.

What is modelled (`/repo/internal/ctlog/local.go`, `/repo/internal/durable/path.go`,
`/repo/internal/immutable/immutable_linux.go`):

* a file system with a **volatile** view (what running processes see) and a **durable** view
  (what is on disk): every directory has durable entries and a list of *pending* (un-synced)
  entry changes; every file inode has its bytes and a `synced` bit;
* the system calls the code issues (`Sys`) and their effect (`step`);
* **power loss** (`crash`): every directory keeps its durable entries plus ANY subset of its pending
  entry changes (`CrashChoice.keep`, applied in order — so changes can be lost or reordered with respect to other
  directories and to file data), every un-synced file gets ARBITRARY bytes (`CrashChoice.junk`);
* `uploadTrace` / `fetchTrace` / `discardTrace`: the exact system-call sequence of
  `LocalBackend.Upload/Fetch/Discard` in a given state (`durable.MkdirAll`, `durable.Mkdir`,
  `durable.WriteFile` with its LIFO defers, the immutable compare branch, the best-effort inode flag);
* `compareLoop`: `compareFile` as a loop with explicit fuel (progress measure: bytes of the file
  still unread, plus one for the final EOF read). With a zero-length buffer the loop makes no
  progress: candidate defect F1;
* `localize`: `filepath.Localize` on Unix (`io/fs.ValidPath` + no NUL) and the components
  `filepath.Join(dir, name)` then denotes.

Paths are component lists from the root of a modelled *world*; the backend directory `dir` is a
path of that world, so that "outside the configured directory" can be expressed. -/
namespace LocalFS

abbrev Name := Bytes
abbrev Path := List Name

def slash : UInt8 := 0x2f
def dot : Name := [0x2e]
def dotdot : Name := [0x2e, 0x2e]

/-! ## Keys: `filepath.Localize` -/

/-- Well-formed UTF-8 (RFC 3629: no overlong forms, no surrogates, at most U+10FFFF), as `utf8.ValidString`. -/
def validUTF8 : Bytes → Bool
  | [] => true
  | b0 :: rest =>
    if b0 < 0x80 then validUTF8 rest
    else if b0 < 0xC2 then false
    else if b0 < 0xE0 then
      match rest with
      | b1 :: r => (0x80 ≤ b1 && b1 ≤ 0xBF) && validUTF8 r
      | _ => false
    else if b0 < 0xF0 then
      match rest with
      | b1 :: b2 :: r =>
        let lo : UInt8 := if b0 == 0xE0 then 0xA0 else 0x80
        let hi : UInt8 := if b0 == 0xED then 0x9F else 0xBF
        (lo ≤ b1 && b1 ≤ hi) && (0x80 ≤ b2 && b2 ≤ 0xBF) && validUTF8 r
      | _ => false
    else if b0 < 0xF5 then
      match rest with
      | b1 :: b2 :: b3 :: r =>
        let lo : UInt8 := if b0 == 0xF0 then 0x90 else 0x80
        let hi : UInt8 := if b0 == 0xF4 then 0x8F else 0xBF
        (lo ≤ b1 && b1 ≤ hi) && (0x80 ≤ b2 && b2 ≤ 0xBF) && (0x80 ≤ b3 && b3 ≤ 0xBF) && validUTF8 r
      | _ => false
    else false

/-- Split at every `/` (always at least one element, like `strings.Split`). -/
def splitSlash : Bytes → List Name
  | [] => [[]]
  | b :: rest =>
    if b = slash then [] :: splitSlash rest
    else match splitSlash rest with
      | [] => [[b]]
      | e :: es => (b :: e) :: es

def goodElem (e : Name) : Bool := e != [] && e != dot && e != dotdot

/-- `io/fs.ValidPath`. -/
def validPath (key : Bytes) : Bool :=
  validUTF8 key && (key == dot || (splitSlash key).all goodElem)

/-- `filepath.Localize(key)` on Unix followed by what `filepath.Join(dir, ·)` appends to `dir`:
`none` = the key is rejected; `"."` is accepted by the standard library and denotes the directory
itself (no component). -/
def stdLocalize (key : Bytes) : Option Path :=
  if validPath key && !key.contains 0 then
    some (if key == dot then [] else splitSlash key)
  else none

/-- The helper `localize(key)` of `internal/ctlog/local.go` (since commit 9a1f05e):
`filepath.Localize`, and additionally the name `"."` ("key names the backend directory itself") is
refused. `none` = the key is rejected before any system call. -/
def localize (key : Bytes) : Option Path :=
  match stdLocalize key with
  | some [] => none
  | r => r

/-! ## The read buffer of `compareFile` -/

/-- The closed vocabulary of the size expression in `b := make([]byte, <expr>)`. -/
inductive BufExpr where
  | lit (n : Nat)
  | len                       -- `len(data)`
  | min (a b : BufExpr)
  | max (a b : BufExpr)
  deriving DecidableEq, Repr

def BufExpr.eval : BufExpr → Nat → Nat
  | .lit n, _ => n
  | .len, l => l
  | .min a b, l => Nat.min (a.eval l) (b.eval l)
  | .max a b, l => Nat.max (a.eval l) (b.eval l)

/-- A syntactic sufficient condition for "the buffer is never empty". -/
def BufExpr.pos : BufExpr → Bool
  | .lit n => decide (0 < n)
  | .len => false
  | .min a b => a.pos && b.pos
  | .max a b => a.pos || b.pos

/-- Prefix (Polish) token form, as emitted by the fact extractor: `min len(data) lit:16384`. -/
def BufExpr.tokens : BufExpr → List (String × Nat)
  | .lit n => [("lit", n)]
  | .len => [("len(data)", 0)]
  | .min a b => ("min", 0) :: a.tokens ++ b.tokens
  | .max a b => ("max", 0) :: a.tokens ++ b.tokens

def BufExpr.parseFuel : Nat → List (String × Nat) → Option (BufExpr × List (String × Nat))
  | 0, _ => none
  | _, [] => none
  | fuel + 1, t :: ts =>
    if t.1 = "len(data)" then some (.len, ts)
    else if t.1 = "lit" then some (.lit t.2, ts)
    else if t.1 = "min" ∨ t.1 = "max" then
      match parseFuel fuel ts with
      | none => none
      | some (a, ts1) =>
        match parseFuel fuel ts1 with
        | none => none
        | some (b, ts2) => some (if t.1 = "min" then .min a b else .max a b, ts2)
    else none

def BufExpr.parse (ts : List (String × Nat)) : Option BufExpr :=
  match BufExpr.parseFuel (ts.length + 1) ts with
  | some (e, []) => some e
  | _ => none

/-- The facts about the source that the behaviour of the model depends on. -/
structure Program where
  /-- size of the read buffer of `compareFile` as a function of `len(data)` -/
  buf : BufExpr
  deriving DecidableEq, Repr

/-- The code before commit 1e3891a (finding F1): `make([]byte, min(len(data), 16384))`. -/
def program : Program := { buf := .min .len (.lit 16384) }

/-- The code since commit 1e3891a: `make([]byte, max(1, min(len(data), 16384)))`. -/
def programGuarded : Program := { buf := .max (.lit 1) (.min .len (.lit 16384)) }

def Program.bufLen (P : Program) (dataLen : Nat) : Nat := P.buf.eval dataLen

/-- What the theorems about `compareFile` need: the read buffer is never empty. -/
def Program.Progress (P : Program) : Prop := ∀ l, 0 < P.bufLen l

def modeDefault : Nat := 0o644
def modeImmutable : Nat := 0o444
def modeDir : Nat := 0o755

/-! ## `compareFile` -/

/-- `a.take n ≠ b.take n`, computed without building the two prefixes (`bytes.Equal(b[:n], data[:n])`
negated; see `prefixDiffers_eq`). -/
def prefixDiffers : Nat → Bytes → Bytes → Bool
  | 0, _, _ => false
  | _ + 1, [], [] => false
  | n + 1, x :: a, y :: b => x != y || prefixDiffers n a b
  | _ + 1, _, _ => true

/-- `min cap l.length`, looking at no more than `cap` elements (see `minLen_eq`). -/
def minLen : Nat → Bytes → Nat
  | 0, _ => 0
  | _ + 1, [] => 0
  | c + 1, _ :: l => minLen c l + 1

/-- One run of the loop of `compareFile` with a buffer of `cap` bytes: `file` = bytes not read
yet, `data` = bytes not matched yet. Result: the sizes of the `read` calls issued (buffer, returned)
and the verdict (`some true` = nil, `some false` = "file contents do not match", `none` = still
looping when the fuel ran out). `(*os.File).Read` with an empty buffer returns `(0, nil)` without a
system call; with a non-empty buffer it returns `(0, io.EOF)` at the end of the file. -/
def compareLoop (cap : Nat) : Nat → Bytes → Bytes → List (Nat × Nat) × Option Bool
  | 0, _, _ => ([], none)
  | fuel + 1, file, data =>
    if cap = 0 then
      -- n = 0, err = nil: nothing compared, nothing consumed, no EOF
      compareLoop cap fuel file data
    else if file.isEmpty then
      -- n = 0, err = io.EOF
      ([(cap, 0)], some data.isEmpty)
    else
      let n := minLen cap file
      if n > data.length || prefixDiffers n file data then ([(cap, n)], some false)
      else
        let r := compareLoop cap fuel (file.drop n) (data.drop n)
        ((cap, n) :: r.1, r.2)

/-- Fuel that suffices whenever the buffer is not empty. -/
def compareFuel (file : Bytes) : Nat := file.length + 2

def compareFile (P : Program) (file data : Bytes) : List (Nat × Nat) × Option Bool :=
  compareLoop (P.bufLen data.length) (compareFuel file) file data

/-! ## File system state -/

inductive Node where
  | file (ino : Nat)
  | dir
  deriving DecidableEq, Repr

structure File where
  data : Bytes
  /-- every write so far has been followed by an `fsync` of the file -/
  synced : Bool
  mode : Nat
  immutable : Bool
  deriving DecidableEq, Repr

abbrev Change := Name × Option Node

structure Dir where
  durable : Name → Option Node
  /-- un-synced entry changes, oldest first -/
  pending : List Change

/-- Directories are identified by their path (the backend never renames or removes one). -/
structure FS where
  files : Nat → Option File
  dirs : Path → Option Dir
  /-- next unused inode number -/
  next : Nat

def upd {α : Type} (m : Name → α) (n : Name) (v : α) : Name → α := fun x => if x = n then v else m x

def Dir.empty : Dir := { durable := fun _ => none, pending := [] }

/-- What running processes see of a directory. -/
def Dir.vol (d : Dir) : Name → Option Node := d.pending.foldl (fun m c => upd m c.1 c.2) d.durable

/-- Path resolution under a view of directories. -/
def FS.walk (s : FS) (view : Dir → Name → Option Node) : Path → Path → Option Node
  | _, [] => some .dir
  | cur, n :: rest =>
    match s.dirs cur with
    | none => none
    | some d =>
      match view d n with
      | none => none
      | some (.file i) => if rest.isEmpty then some (.file i) else none
      | some .dir => walk s view (cur ++ [n]) rest

/-- Volatile resolution of a path from the world root. -/
def FS.lookup (s : FS) (p : Path) : Option Node := s.walk Dir.vol [] p

/-- The object stored at a path, as a running process reads it. -/
def FS.object (s : FS) (p : Path) : Option Bytes :=
  match s.lookup p with
  | some (.file i) => (s.files i).map (·.data)
  | _ => none

def FS.fileAt (s : FS) (p : Path) : Option File :=
  match s.lookup p with
  | some (.file i) => s.files i
  | _ => none

def FS.setDir (s : FS) (p : Path) (d : Dir) : FS :=
  { s with dirs := fun q => if q = p then some d else s.dirs q }

def FS.setFile (s : FS) (i : Nat) (f : File) : FS :=
  { s with files := fun j => if j = i then some f else s.files j }

/-- Record an un-synced entry change in directory `p`. -/
def FS.change (s : FS) (p : Path) (c : Change) : FS :=
  match s.dirs p with
  | none => s
  | some d => s.setDir p { d with pending := d.pending ++ [c] }

def FS.modFile (s : FS) (i : Nat) (f : File → File) : FS :=
  match s.files i with
  | none => s
  | some x => s.setFile i (f x)

def parentOf (p : Path) : Path := p.dropLast
def baseOf (p : Path) : Name := p.getLast?.getD []

/-! ## System calls -/

inductive Sys where
  | stat (p : Path) (found : Bool)                 -- `os.Stat` in `MkdirAll`
  | openDir (p : Path)                             -- `O_RDONLY|O_DIRECTORY`
  | mkdir (p : Path)
  | fsyncDir (p : Path)
  | closeDir (p : Path)
  | openRd (p : Path) (ok : Bool)                  -- `os.Open`
  | read (p : Path) (cap n : Nat)
  | readDir (p : Path)                             -- `read` on a directory: EISDIR
  | closeRd (p : Path)
  | creat (p : Path) (ino : Nat)                   -- `O_RDWR|O_CREAT|O_EXCL`, mode 0600
  | fchmod (p : Path) (ino : Nat) (mode : Nat)
  | write (p : Path) (ino : Nat) (data : Bytes)
  | fsync (p : Path) (ino : Nat)
  | close (p : Path)
  | lstat (p : Path) (found : Bool)                -- inside `os.Rename` / failure path
  | rename (src dst : Path) (node : Node) (ok : Bool)
  | unlink (p : Path)
  | unlinkFail (p : Path)                          -- `unlinkat` on a directory: EISDIR
  | rmdir (p : Path) (ok : Bool)                   -- second half of `os.Remove`
  | setImmutable (p : Path) (ino : Nat) (on : Bool)   -- `FS_IOC_SETFLAGS`
  | setFlagsDir (p : Path)                         -- `FS_IOC_SETFLAGS` on a directory (Discard of a directory)
  deriving DecidableEq, Repr

/-- The effect of one system call. Calls on descriptors carry the inode they act on. -/
def step (s : FS) : Sys → FS
  | .mkdir p => (s.setDir p Dir.empty).change (parentOf p) (baseOf p, some .dir)
  | .fsyncDir p =>
    match s.dirs p with
    | none => s
    | some d => s.setDir p { durable := d.vol, pending := [] }
  | .creat p i =>
    { (s.setFile i { data := [], synced := false, mode := 0o600, immutable := false }).change
        (parentOf p) (baseOf p, some (.file i)) with next := Nat.max s.next (i + 1) }
  | .fchmod _ i m => s.modFile i fun f => { f with mode := m }
  | .write _ i data => s.modFile i fun f => { f with data := f.data ++ data, synced := false }
  | .fsync _ i => s.modFile i fun f => { f with synced := true }
  | .rename src dst node true =>
    (s.change (parentOf dst) (baseOf dst, some node)).change (parentOf src) (baseOf src, none)
  | .unlink p => s.change (parentOf p) (baseOf p, none)
  | .rmdir p true => s.change (parentOf p) (baseOf p, none)
  | .setImmutable _ i on => s.modFile i fun f => { f with immutable := on }
  | _ => s

def run (s : FS) (tr : List Sys) : FS := tr.foldl step s

/-! ## Power loss -/

structure CrashChoice where
  /-- per directory: which of its pending entry changes reached the disk -/
  keep : Path → List Bool
  /-- per inode: the bytes found in a file whose data was not synced -/
  junk : Nat → Bytes

def applyMask : List Change → List Bool → (Name → Option Node) → (Name → Option Node)
  | c :: cs, b :: bs, m => applyMask cs bs (if b then upd m c.1 c.2 else m)
  | _, _, m => m

def crashFile (junk : Bytes) (f : File) : File :=
  if f.synced then f else { f with data := junk, synced := true }

def crashDir (mask : List Bool) (d : Dir) : Dir :=
  { durable := applyMask d.pending mask d.durable, pending := [] }

/-- The state found after power loss and reboot. -/
def crash (c : CrashChoice) (s : FS) : FS :=
  { files := fun i => (s.files i).map (crashFile (c.junk i))
    dirs := fun p => (s.dirs p).map (crashDir (c.keep p))
    next := s.next }

/-- Everything is on disk (the state after a reboot, and after every completed upload). -/
def Quiescent (s : FS) : Prop :=
  (∀ p d, s.dirs p = some d → d.pending = []) ∧ (∀ i f, s.files i = some f → f.synced = true)

/-- Inode numbers in use are below `next` (so `creat` hands out a fresh inode). -/
def FreshInodes (s : FS) : Prop :=
  ∀ p d n i, s.dirs p = some d → d.durable n = some (.file i) → i < s.next

/-! ## The programs -/

inductive Result where
  | ok
  | invalidKey      -- `filepath.Localize` failed
  | mismatch        -- immutable object exists with other contents (or cannot be read)
  | error           -- any other error
  | hang            -- no result: `compareFile` is still looping
  deriving DecidableEq, Repr

structure Opts where
  immutable : Bool
  deriving DecidableEq, Repr

/-! ### Source-level programs: calls and `defer`s in source order

`durable.Mkdir` and `durable.WriteFile` are straight-line code whose ordering guarantees come from
Go's last-in-first-out `defer`. The model keeps them in *source order* (`Stmt`), which is what
`Tie/C13.lean` compares with the regenerated skeleton of the functions, and derives the execution
order (`execOrder`) from it. -/

/-- The effects of `durable.Mkdir` / `durable.WriteFile`. -/
inductive Eff where
  | openParent          -- `os.OpenFile(filepath.Dir(name), O_RDONLY|O_DIRECTORY)`
  | syncCloseParent     -- `fsyncAndClose(parent, &err)`
  | mkdir               -- `os.Mkdir(path, perm)`
  | openSelf            -- `os.OpenFile(path, O_RDONLY|O_DIRECTORY)`
  | syncCloseSelf       -- `fsyncAndClose(f, &err)` on the new directory
  | createTemp          -- `os.CreateTemp(filepath.Dir(name), "."+filepath.Base(name))`
  | renameOrRemove      -- deferred closure: `os.Rename(tmpname, name)` if no error so far, `os.Remove(tmpname)` on error
  | chmod               -- `f.Chmod(perm)`
  | syncCloseTmp        -- `fsyncAndClose(f, &err)` on the temporary file
  | write               -- `f.Write(data)`
  deriving DecidableEq, Repr

structure Stmt where
  deferred : Bool
  eff : Eff
  deriving DecidableEq, Repr

/-- Go semantics of a straight-line body: calls in order, then the deferred calls last-in-first-out. -/
def execOrder (p : List Stmt) : List Eff :=
  ((p.filter fun s => !s.deferred).map (·.eff)) ++ ((p.filter (·.deferred)).map (·.eff)).reverse

/-- `durable.Mkdir` in source order. -/
def mkdirProgram : List Stmt :=
  [⟨false, .openParent⟩, ⟨true, .syncCloseParent⟩, ⟨false, .mkdir⟩, ⟨false, .openSelf⟩, ⟨true, .syncCloseSelf⟩]

/-- `durable.WriteFile` in source order. -/
def writeFileProgram : List Stmt :=
  [⟨false, .openParent⟩, ⟨true, .syncCloseParent⟩, ⟨false, .createTemp⟩, ⟨true, .renameOrRemove⟩,
   ⟨false, .chmod⟩, ⟨true, .syncCloseTmp⟩, ⟨false, .write⟩]

/-- How the deferred rename of `WriteFile` ends, decided by what is at the target. -/
inductive RenameOutcome where
  | renamed (existed : Bool)
  | targetIsDir          -- `os.Rename` refuses a directory target before calling `renameat`
  | targetImmutable      -- `renameat` fails with EPERM (the flag is effective with CAP_LINUX_IMMUTABLE)
  deriving DecidableEq, Repr

def RenameOutcome.failed : RenameOutcome → Bool
  | .renamed _ => false
  | _ => true

/-- The system calls of one effect. `path` = the directory (Mkdir) or file (WriteFile) being made,
`tmp`/`i` = temporary file and its inode. -/
def effSys (path tmp : Path) (i : Nat) (data : Bytes) (perm : Nat) (out : RenameOutcome) : Eff → List Sys
  | .openParent => [.openDir (parentOf path)]
  | .syncCloseParent =>
    if out.failed then [.closeDir (parentOf path)] else [.fsyncDir (parentOf path), .closeDir (parentOf path)]
  | .mkdir => [.mkdir path]
  | .openSelf => [.openDir path]
  | .syncCloseSelf => [.fsyncDir path, .closeDir path]
  | .createTemp => [.creat tmp i]
  | .chmod => [.fchmod tmp i perm]
  | .write => [.write tmp i data]
  | .syncCloseTmp => [.fsync tmp i, .close tmp]
  | .renameOrRemove =>
    match out with
    | .renamed existed => [.lstat path existed, .rename tmp path (.file i) true]
    | .targetIsDir => [.lstat path true, .lstat tmp true, .unlink tmp]
    | .targetImmutable => [.lstat path true, .rename tmp path (.file i) false, .unlink tmp]

/-- `durable.Mkdir(p)`. -/
def mkdirTrace (p : Path) : List Sys :=
  (execOrder mkdirProgram).flatMap (effSys p [] 0 [] 0 (.renamed false))

/-- `durable.MkdirAll` on the path whose *reversed* components are given: the `os.Stat` calls
going up, then one `Mkdir` per missing level going down. `false` = error (a component is a file). -/
def mkdirAllRev (s : FS) : List Name → List Sys × List Sys × Bool
  | [] => ([.stat [] true], [], true)
  | n :: revParent =>
    let p := (n :: revParent).reverse
    match s.lookup p with
    | some .dir => ([.stat p true], [], true)
    | some (.file _) => ([.stat p true], [], false)
    | none =>
      let r := mkdirAllRev s revParent
      (.stat p false :: r.1, if r.2.2 then r.2.1 ++ mkdirTrace p else r.2.1, r.2.2)

def mkdirAllTrace (s : FS) (p : Path) : List Sys × Bool :=
  let r := mkdirAllRev s p.reverse
  (r.1 ++ r.2.1, r.2.2)

def tmpName (base rnd : Name) : Name := dot ++ base ++ rnd

def renameOutcome (s : FS) (path : Path) : RenameOutcome :=
  match s.lookup path with
  | none => .renamed false
  | some .dir => .targetIsDir
  | some (.file j) =>
    if ((s.files j).map (·.immutable)) == some true then .targetImmutable else .renamed true

/-- `durable.WriteFile(path, data, perm)`; `rnd` is the random suffix `os.CreateTemp` chose. -/
def writeFileTrace (s : FS) (path : Path) (data : Bytes) (perm : Nat) (rnd : Name) : List Sys × Result :=
  let tmp := parentOf path ++ [tmpName (baseOf path) rnd]
  let out := renameOutcome s path
  ((execOrder writeFileProgram).flatMap (effSys path tmp s.next data perm out),
    if out.failed then .error else .ok)

/-- The reads of `compareFile` on the open file at `path`, and its verdict. -/
def compareTrace (P : Program) (s : FS) (path : Path) (data : Bytes) : List Sys × Result :=
  match s.fileAt path with
  | some f =>
    let r := compareFile P f.data data
    (r.1.map (fun x => Sys.read path x.1 x.2),
      match r.2 with
      | some true => .ok
      | some false => .mismatch
      | none => .hang)
  | none => ([.readDir path], .mismatch)

/-- `LocalBackend.Upload(key, data, opts)` with backend directory `dir`, in state `s`. -/
def uploadTrace (P : Program) (dir : Path) (key data : Bytes) (o : Opts) (rnd : Name) (s : FS) :
    List Sys × Result :=
  match localize key with
  | none => ([], .invalidKey)
  | some comps =>
    let path := dir ++ comps
    let mk := mkdirAllTrace s (parentOf path)
    if !mk.2 then (mk.1, .error)
    else if o.immutable then
      match s.lookup path with
      | some _ =>
        let c := compareTrace P s path data
        -- a hang never reaches the deferred Close
        (mk.1 ++ .openRd path true :: c.1 ++ (if c.2 = .hang then [] else [.closeRd path]), c.2)
      | none =>
        let w := writeFileTrace s path data modeImmutable rnd
        (mk.1 ++ .openRd path false :: w.1 ++
          (if w.2 = .ok then [.openRd path true, .setImmutable path s.next true, .closeRd path] else []), w.2)
    else
      let w := writeFileTrace s path data modeDefault rnd
      (mk.1 ++ w.1, w.2)

/-- `LocalBackend.Fetch(key)`: the reads of `os.ReadFile` are not modelled. -/
def fetchTrace (dir : Path) (key : Bytes) (s : FS) : List Sys × Result × Option Bytes :=
  match localize key with
  | none => ([], .invalidKey, none)
  | some comps =>
    let path := dir ++ comps
    match s.lookup path with
    | none => ([.openRd path false], .error, none)
    | some .dir => ([.openRd path true, .readDir path, .closeRd path], .error, none)
    | some (.file i) => ([.openRd path true, .closeRd path], .ok, (s.files i).map (·.data))

/-- `LocalBackend.Discard(key)`. -/
def discardTrace (dir : Path) (key : Bytes) (s : FS) : List Sys × Result :=
  match localize key with
  | none => ([], .invalidKey)
  | some comps =>
    let path := dir ++ comps
    match s.lookup path with
    | none => ([.openRd path false], .error)
    -- `os.Remove` on a directory: `unlinkat` fails with EISDIR, then `rmdir` (succeeds iff it is empty;
    -- the driver adopts the observed outcome, the model has no notion of emptiness)
    | some .dir => ([.openRd path true, .setFlagsDir path, .closeRd path, .unlinkFail path, .rmdir path true], .ok)
    | some (.file i) => ([.openRd path true, .setImmutable path i false, .closeRd path, .unlink path], .ok)

/-! ## Which paths a system call names -/

def Sys.paths : Sys → List Path
  | .stat p _ | .openDir p | .mkdir p | .fsyncDir p | .closeDir p | .openRd p _ | .read p _ _
  | .readDir p | .closeRd p | .creat p _ | .fchmod p _ _ | .write p _ _ | .fsync p _ | .close p
  | .lstat p _ | .unlink p | .unlinkFail p | .rmdir p _ | .setImmutable p _ _ | .setFlagsDir p => [p]
  | .rename a b _ _ => [a, b]

/-- `p` is `dir` or lies below it. -/
def Within (dir p : Path) : Prop := dir <+: p

/-! ## Order facts (positions in a trace) -/

def idxOf (tr : List Sys) (e : Sys) : Option Nat :=
  let i := tr.idxOf e
  if i < tr.length then some i else none

/-! ## Source rendering (for `Tie/C13.lean`)

The outline of the Go functions as the fact extractor prints it (`tools/extract/facts_C13.go`:
one line per statement in source order, nesting marked with `>`), generated from the programs above:
a change of the order of calls/defers, of a mode, of the buffer expression or of the branch
structure changes the regenerated facts and breaks the tie. -/
namespace Source

def goOctal (n : Nat) : String := "0" ++ String.ofList (Nat.toDigits 8 n)

def writeFileStmt : Stmt → List String
  | ⟨false, .openParent⟩ =>
    ["parent, err := os.OpenFile(filepath.Dir(name), os.O_RDONLY|syscall.O_DIRECTORY, 0)", "if err != nil", ">return &os.PathError"]
  | ⟨true, .syncCloseParent⟩ => ["defer fsyncAndClose(parent, &err)"]
  | ⟨false, .createTemp⟩ =>
    ["f, err := os.CreateTemp(filepath.Dir(name), \".\"+filepath.Base(name))", "if err != nil", ">return &os.PathError"]
  | ⟨true, .renameOrRemove⟩ =>
    ["defer func(f.Name())", ">if err == nil", ">>err = os.Rename(tmpname, name)", ">if err != nil", ">>os.Remove(tmpname)"]
  | ⟨false, .chmod⟩ => ["err = f.Chmod(perm)", "if err != nil", ">f.Close()", ">return err"]
  | ⟨true, .syncCloseTmp⟩ => ["defer fsyncAndClose(f, &err)"]
  | ⟨false, .write⟩ => ["_, err = f.Write(data)", "return err"]
  | _ => ["<not a statement of WriteFile>"]

def writeFile : List String := writeFileProgram.flatMap writeFileStmt

def mkdirStmt : Stmt → List String
  | ⟨false, .openParent⟩ =>
    ["parent, err := os.OpenFile(filepath.Dir(path), os.O_RDONLY|syscall.O_DIRECTORY, 0)", "if err != nil", ">return &os.PathError"]
  | ⟨true, .syncCloseParent⟩ => ["defer fsyncAndClose(parent, &err)"]
  | ⟨false, .mkdir⟩ => ["if err := os.Mkdir(path, perm); err != nil && !os.IsExist(err)", ">return err"]
  | ⟨false, .openSelf⟩ =>
    ["f, err := os.OpenFile(path, os.O_RDONLY|syscall.O_DIRECTORY, 0)", "if err != nil", ">return &os.PathError"]
  | ⟨true, .syncCloseSelf⟩ => ["defer fsyncAndClose(f, &err)"]
  | _ => ["<not a statement of Mkdir>"]

def mkdir : List String := mkdirProgram.flatMap mkdirStmt ++ ["return nil"]

/-- `fsyncAndClose`: sync only if there was no error so far, close always (`effSys .syncClose…`). -/
def fsyncAndClose : List String :=
  ["if *err == nil", ">*err = f.Sync()", "if err1 := f.Close(); err1 != nil && *err == nil", ">*err = err1"]

/-- `MkdirAll` (`mkdirAllRev`): existing directory → done, existing non-directory → error,
otherwise the parent first, then `Mkdir`. -/
def mkdirAll : List String :=
  ["if dir, err := os.Stat(path); err == nil", ">if dir.IsDir()", ">>return nil", ">return &os.PathError",
   "path = filepath.Clean(path)",
   "if parent := filepath.Dir(path); parent != path && parent != filepath.VolumeName(path)",
   ">if err := MkdirAll(parent, perm); err != nil", ">>return err",
   "return Mkdir(path, perm)"]

def BufExpr.go : BufExpr → String
  | .lit n => toString n
  | .len => "len(data)"
  | .min a b => "min(" ++ BufExpr.go a ++ ", " ++ BufExpr.go b ++ ")"
  | .max a b => "max(" ++ BufExpr.go a ++ ", " ++ BufExpr.go b ++ ")"

/-- `compareFile` (`compareLoop`) with the buffer expression of program `P`. -/
def compareFile (P : Program) : List String :=
  ["b := make([]byte, " ++ BufExpr.go P.buf ++ ")",
   "for ",
   ">n, err := f.Read(b)",
   ">if err != nil && err != io.EOF", ">>return err",
   ">if n > len(data) || !bytes.Equal(b[:n], data[:n])", ">>return errors.New",
   ">data = data[n:]",
   ">if err == io.EOF", ">>if len(data) == 0", ">>>return nil", ">>return errors.New"]

/-- `LocalBackend.Upload` (`uploadTrace`): Localize first, Join, MkdirAll of the parent, the
immutable compare branch, the deferred best-effort inode flag, WriteFile. -/
def upload : List String :=
  ["defer prometheus.NewTimer(s.duration.WithLabelValues(\"upload\")).ObserveDuration()",
   "name, err := localize(key)", "if err != nil", ">return fmtErrorf",
   "path := filepath.Join(s.dir, name)",
   "if err := durable.MkdirAll(filepath.Dir(path), " ++ goOctal modeDir ++ "); err != nil", ">return fmtErrorf",
   "var perms os.FileMode = " ++ goOctal modeDefault,
   "if opts != nil && opts.Immutable",
   ">perms = " ++ goOctal modeImmutable,
   ">if f, err := os.Open(path); err == nil",
   ">>defer f.Close()",
   ">>if err := compareFile(f, data); err != nil", ">>>return fmtErrorf",
   ">>return nil",
   ">defer func()",
   ">>if err != nil", ">>>return ",
   ">>var f *os.File",
   ">>f, err = os.Open(path)",
   ">>if err != nil", ">>>return ",
   ">>immutable.Set(f)",
   ">>err = f.Close()",
   "return durable.WriteFile(path, data, perms)"]

/-- The helper `localize` (`LocalFS.localize`): `filepath.Localize`, then `"."` refused. -/
def localizeHelper : List String :=
  ["name, err := filepath.Localize(key)",
   "if err == nil && name == \".\"",
   ">err = errors.New(\"key names the backend directory itself\")",
   "return name, err"]

def fetch : List String :=
  ["defer prometheus.NewTimer(s.duration.WithLabelValues(\"fetch\")).ObserveDuration()",
   "name, err := localize(key)", "if err != nil", ">return nil, fmtErrorf",
   "path := filepath.Join(s.dir, name)",
   "return os.ReadFile(path)"]

def discard : List String :=
  ["defer prometheus.NewTimer(s.duration.WithLabelValues(\"discard\")).ObserveDuration()",
   "name, err := localize(key)", "if err != nil", ">return fmtErrorf",
   "path := filepath.Join(s.dir, name)",
   "f, err := os.Open(path)", "if err != nil", ">return fmtErrorf",
   "immutable.Unset(f)",
   "if err := f.Close(); err != nil", ">return fmtErrorf",
   "return os.Remove(path)"]

end Source

end LocalFS
