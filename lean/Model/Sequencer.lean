/-! The sequencer protocol model (DESIGN.md §7): a transition system over the lock store, the object
store and any number of log instances, at storage/lock-operation granularity. `step` is a partial
function of the observed event: `none` means "this event is not a step of the protocol from this
state". The driver (Driver/Seq.lean) folds `step` over the events the real code produced; the
theorems in Proofs/Sequencer*.lean and Props/C0x.lean are invariants of every event sequence `step`
accepts. Core Lean only.

Abstraction: a tree *is* its list of leaves; a leaf is (entry id, timestamp); a tile object is the
slice of leaves it is rendered from. The byte-level rendering (SHA-256 Merkle roots, tile bytes,
checkpoint text) lives in Model/SeqRender.lean and is compared by the driver. -/

namespace Seq

structure Leaf where
  eid : Nat      -- which submitted entry (all fields, incl. those the Merkle leaf does not cover)
  key : Nat      -- its deduplication class (entry type, issuer key hash, certificate)
  ts : Nat
deriving DecidableEq, Repr

abbrev Tree := List Leaf

structure Ck where
  leaves : Tree
  time : Nat
deriving DecidableEq, Repr

inductive TKind where
  | hash (L : Nat)
  | data
  | names
deriving DecidableEq, Repr

structure TileId where
  kind : TKind
  N : Nat
  W : Nat
deriving DecidableEq, Repr

def TKind.level : TKind → Nat
  | .hash L => L
  | _ => 0

/-- first leaf covered by the tile -/
def TileId.lo (t : TileId) : Nat := t.N * 256 ^ (t.kind.level + 1)
/-- one past the last leaf covered by the tile -/
def TileId.hi (t : TileId) : Nat := (t.N * 256 + t.W) * 256 ^ t.kind.level

def slice (tr : Tree) (lo hi : Nat) : Tree := (tr.drop lo).take (hi - lo)

def TileId.slice (t : TileId) (tr : Tree) : Tree := Seq.slice tr t.lo t.hi

/-- tile `t` is part of the Static-CT rendering of a tree of size `n` -/
def Req (n : Nat) (t : TileId) : Bool :=
  let m := n / 256 ^ t.kind.level
  (t.W == 256 && t.N < m / 256) || (t.N == m / 256 && t.W == m % 256 && 0 < t.W)

/-- tlog.NewTiles at one level, as a predicate: tiles written when the tree grows from `o` to `n`. -/
def NewAt (o n : Nat) (t : TileId) : Bool :=
  let a := o / 256 ^ t.kind.level
  let b := n / 256 ^ t.kind.level
  a != b && ((t.W == 256 && a / 256 ≤ t.N && t.N < b / 256) || (t.N == b / 256 && t.W == b % 256 && 0 < t.W))

/-- levels 0 .. that can hold a tile for a tree of size `n` (fuel-bounded: 256^L ≤ n) -/
def levelsFor (n : Nat) : List Nat := (List.range 8).filter fun L => 256 ^ L ≤ n

def newAtLevel (o n : Nat) (kind : TKind) : List TileId :=
  let a := o / 256 ^ kind.level
  let b := n / 256 ^ kind.level
  if a = b then [] else
  ((List.range (b / 256 - a / 256)).map fun j => (⟨kind, a / 256 + j, 256⟩ : TileId)) ++
    (if b % 256 > 0 then [⟨kind, b / 256, b % 256⟩] else [])

/-- every tile a round from size `o` to size `n` uploads (tlog.NewTiles plus data and names tiles) -/
def newTilesList (o n : Nat) : List TileId :=
  newAtLevel o n .data ++ newAtLevel o n .names ++ (levelsFor n).flatMap fun L => newAtLevel o n (.hash L)

inductive Key where
  | ckpt
  | roots
  | tile (t : TileId)
  | staging (t : Tree)
  | legacyStaging (t : Tree)
  | issuer (id : Nat)
  | other (h : Nat)
deriving DecidableEq, Repr

inductive Obj where
  | ck (c : Ck)                          -- a checkpoint of this log carrying valid signatures
  | slice (xs : Tree)                    -- a tile rendered from exactly these leaves
  | bundle (items : List (TileId × Tree)) -- a staging bundle: tiles with their slices
  | issuer (id : Nat)
  | blob (h : Nat)                       -- anything else, identified by a content id
deriving DecidableEq, Repr

/-- the three ways a mutating storage call can end, plus the store's own refusals -/
inductive Res where
  | ok | errA | errN | refused
deriving DecidableEq, Repr

def Res.applied : Res → Bool
  | .ok | .errA => true
  | _ => false

inductive FRes (α : Type) where
  | ok (v : α) | nf | err
deriving Repr

inductive Src where
  | sequencer | pool | cache | ratelimit | issuer | closed
deriving DecidableEq, Repr

inductive Cls where
  | ok | failed | fatal
deriving DecidableEq, Repr

structure Slot where
  eid : Nat
  key : Nat
  low : Bool
deriving DecidableEq, Repr

inductive RoundPc where
  | clock
  | stage
  | cas
  | tiles (rem : List TileId) (failed : Bool)
  | ckpt
  | discard
  | done (c : Cls)
deriving DecidableEq, Repr

structure Round where
  slots : List Slot
  evicted : List Nat          -- dedup keys evicted from this pool before it was rotated (still in byHash)
  pc : RoundPc
  old : Ck
  new : Ck
  published : Bool
  bundle : List TileId := []  -- the tiles staged for this round
deriving Repr

inductive LoadPc where
  | lockFetch
  | clock1 (c : Ck)
  | ckptFetch (c : Ck)
  | clock2 (c c1 : Ck)
  | legacy (c : Ck)
  | stagingFetch (c : Ck)
  | apply (c : Ck) (rem : List (TileId × Tree)) (failed : Bool)
  | edge (c : Ck) (bad : Bool)
  | failing
deriving Repr

inductive CreatePc where
  | lockFetch | ckptFetch | clock | lockCreate (c : Ck) | ckptUpload (c : Ck) | rootsUpload | done | failing
deriving Repr

inductive Phase where
  | down
  | creating (pc : CreatePc)
  | loading (pc : LoadPc)
  | idle
  | round (r : Round)
  | stopped
deriving Repr

structure Inst where
  phase : Phase := .down
  cfgBad : Bool := false            -- started with a name/key other than the log's
  tree : Ck := ⟨[], 0⟩
  pool : List Slot := []
  poolEvicted : List Nat := []
  evictPending : Bool := false
  evictedEver : List Nat := []        -- keys evicted since this process started (their waiters may report late)
  issuersSeen : List Nat := []
  issuerFailed : Bool := false
  cache : List (Nat × Nat × Nat) := []   -- key ↦ (index, timestamp); survives crashes (file)
deriving Repr

structure Ack where
  inst : Nat
  eid : Nat
  key : Nat
  idx : Nat
  ts : Nat
  pubAt : Option Ck          -- what the checkpoint object held when the ack was issued
deriving Repr

structure Sys where
  poolSize : Nat                        -- 0 = unbounded
  lock : Option Ck := none
  lockHist : List Ck := []              -- newest first
  store : Key → Option (Obj × Bool) := fun _ => none     -- object, immutable?
  pubHist : List Ck := []               -- newest first: effective checkpoint uploads
  insts : Nat → Inst := fun _ => {}
  acks : List Ack := []
  discarded : List Key := []
  tampered : Bool := false

inductive Ev where
  | launchCreate (i : Nat)
  | launchLoad (i : Nat)
  | launchRound (i : Nat)
  | launchSubmit (i : Nat)
  | config (i : Nat) (bad : Bool)
  | clock (i : Nat) (v : Nat)
  | lockFetch (i : Nat) (r : FRes Ck)
  | lockCreate (i : Nat) (c : Ck) (r : Res)
  | lockReplace (i : Nat) (old new : Ck) (r : Res)
  | fetch (i : Nat) (k : Key) (r : FRes Obj)
  | upload (i : Nat) (k : Key) (imm : Bool) (o : Obj) (r : Res)
  | discard (i : Nat) (k : Key) (r : Res)
  | submitted (i : Nat) (eid key : Nat) (low : Bool) (issuers : List Nat) (src : Src)
  | ack (i : Nat) (eid key idx ts : Nat)
  | nackEvicted (i : Nat) (eid key : Nat)
  | nack (i : Nat) (eid : Nat) (immediate : Bool)
  | created (i : Nat)
  | createFail (i : Nat)
  | loaded (i : Nat) (c : Ck)
  | loadFail (i : Nat)
  | roundEnd (i : Nat) (c : Cls)
  | crash (i : Nat)
  | cacheLose (i : Nat)
  | tamper (k : Key) (o : Option Obj)
deriving Repr

def upd {α : Type} (f : Nat → α) (i : Nat) (x : α) : Nat → α := fun j => if j = i then x else f j

def updK (f : Key → Option (Obj × Bool)) (k : Key) (x : Option (Obj × Bool)) : Key → Option (Obj × Bool) :=
  fun j => if j = k then x else f j

def Sys.setInst (s : Sys) (i : Nat) (x : Inst) : Sys := { s with insts := upd s.insts i x }

/-- the tiles (with content) a round from size `o` to tree `tr` uploads: every tile id of the given
    candidate list that `NewAt` selects. The candidate list is supplied by the caller (the driver
    enumerates coordinates); `bundleOK` below states what a correct bundle is without enumeration. -/
def bundleOK (o : Nat) (tr : Tree) (items : List (TileId × Tree)) : Bool :=
  items.all (fun (t, xs) => NewAt o tr.length t && xs == t.slice tr) &&
  (newTilesList o tr.length).all (fun t => (items.map (·.1)).contains t) &&
  items.length == (newTilesList o tr.length).length

def leavesOf (slots : List Slot) (ts : Nat) : Tree := slots.map fun sl => ⟨sl.eid, sl.key, ts⟩

/-- store semantics of an upload: immutable objects are never rewritten with different content -/
def storeUpload (st : Key → Option (Obj × Bool)) (k : Key) (imm : Bool) (o : Obj) (r : Res) :
    Option (Key → Option (Obj × Bool)) :=
  match st k with
  | some (old, true) =>
    if old = o then
      (match r with
       | .ok | .errA => some (updK st k (some (o, imm)))
       | .errN => some st
       | .refused => none)
    else
      (match r with
       | .refused => some st        -- the store refuses and keeps the old object
       | .errN => some st
       | _ => none)
  | _ =>
    match r with
    | .ok | .errA => some (updK st k (some (o, imm)))
    | .errN => some st
    | .refused => none

def cacheLookup (c : List (Nat × Nat × Nat)) (key : Nat) : Option (Nat × Nat) :=
  match c.find? (fun x => x.1 == key) with
  | some (_, v) => some v
  | none => none

def slotIndex (slots : List Slot) (key : Nat) : Option Nat :=
  slots.findIdx? (fun sl => sl.key == key)

/-- admission decision of addLeafToPool for an entry that is in neither lookup structure -/
def admission (poolSize : Nat) (pool : List Slot) (low : Bool) : Src :=
  if poolSize > 0 ∧ pool.length ≥ poolSize then
    if low ∨ ¬ pool.any (·.low) then .ratelimit else .sequencer
  else .sequencer

def roundOf (x : Inst) : Option Round :=
  match x.phase with
  | .round r => some r
  | _ => none

def inSequencing (x : Inst) (key : Nat) : Bool :=
  match x.phase with
  | .round r => (match r.pc with
      | .done _ => false
      | _ => r.slots.any (·.key == key) || r.evicted.contains key)
  | _ => false

def isUp (x : Inst) : Bool :=
  match x.phase with
  | .idle | .round _ | .stopped => true
  | _ => false

def tilesOfBundle (items : List (TileId × Tree)) : List TileId := items.map (·.1)

def step (s : Sys) : Ev → Option Sys
  | .config i bad =>
    let x := s.insts i
    match x.phase with
    | .loading _ => none
    | _ => some (s.setInst i { x with cfgBad := bad })
  | .launchCreate i =>
    let x := s.insts i
    match x.phase with
    | .down => some (s.setInst i { x with phase := .creating .lockFetch })
    | _ => none
  | .launchLoad i =>
    let x := s.insts i
    match x.phase with
    | .down => some (s.setInst i { x with phase := .loading .lockFetch, pool := [], poolEvicted := [],
                                          issuersSeen := [], issuerFailed := false, evictPending := false, evictedEver := [] })
    | _ => none
  | .launchRound i =>
    let x := s.insts i
    match x.phase with
    | .idle =>
      if x.evictPending then none else
      some (s.setInst i { x with phase := .round ⟨x.pool, x.poolEvicted, .clock, x.tree, x.tree, false, []⟩,
                                 pool := [], poolEvicted := [] })
    | _ => none
  | .launchSubmit i =>
    if isUp (s.insts i) then some s else none
  | .clock i v =>
    let x := s.insts i
    match x.phase with
    | .round r =>
      (match r.pc with
       | .clock =>
         if v ≤ x.tree.time then
           some (s.setInst i { x with phase := .round { r with pc := .done .fatal } })
         else
           let new : Ck := ⟨x.tree.leaves ++ leavesOf r.slots v, v⟩
           let pc := if r.slots.isEmpty then RoundPc.cas else RoundPc.stage
           some (s.setInst i { x with phase := .round { r with pc := pc, old := x.tree, new := new } })
       | _ => none)
    | .creating .clock =>
      some (s.setInst i { x with phase := .creating (.lockCreate ⟨[], v⟩) })
    | .loading (.clock1 c) =>
      if v < c.time then some (s.setInst i { x with phase := .loading .failing })
      else some (s.setInst i { x with phase := .loading (.ckptFetch c) })
    | .loading (.clock2 c c1) =>
      if v < c1.time then some (s.setInst i { x with phase := .loading .failing })
      else if c1.leaves.length = c.leaves.length then
        if c1.leaves = c.leaves then
          some (s.setInst i { x with phase := .loading (.edge c false) })
        else some (s.setInst i { x with phase := .loading .failing })
      else if c1.leaves.length > c.leaves.length then
        some (s.setInst i { x with phase := .loading .failing })
      else some (s.setInst i { x with phase := .loading (.legacy c) })
    | _ => none
  | .lockFetch i r =>
    let x := s.insts i
    match x.phase, r with
    | .creating .lockFetch, .ok c =>
      if s.lock = some c then some (s.setInst i { x with phase := .creating .failing }) else none
    | .creating .lockFetch, .nf =>
      if s.lock = none then some (s.setInst i { x with phase := .creating .ckptFetch }) else none
    | .creating .lockFetch, .err => some (s.setInst i { x with phase := .creating .ckptFetch })
    | .loading .lockFetch, .ok c =>
      if s.lock = some c then
        (if x.cfgBad then some (s.setInst i { x with phase := .loading .failing })
         else some (s.setInst i { x with phase := .loading (.clock1 c) }))
      else none
    | .loading .lockFetch, .nf =>
      -- a different key means a different log ID: nothing is found under it
      if s.lock = none ∨ x.cfgBad then some (s.setInst i { x with phase := .loading .failing }) else none
    | .loading .lockFetch, .err => some (s.setInst i { x with phase := .loading .failing })
    | _, _ => none
  | .lockCreate i c r =>
    let x := s.insts i
    match x.phase with
    | .creating (.lockCreate c') =>
      if c ≠ c' then none else
      (match s.lock, r with
       | some _, .refused => some (s.setInst i { x with phase := .creating .failing })
       | some _, .errN => some (s.setInst i { x with phase := .creating .failing })
       | some _, _ => none                       -- create never overwrites
       | none, .ok => some ({ s with lock := some c, lockHist := c :: s.lockHist }.setInst i
                              { x with phase := .creating (.ckptUpload c) })
       | none, .errA => some ({ s with lock := some c, lockHist := c :: s.lockHist }.setInst i
                              { x with phase := .creating .failing })
       | none, .errN => some (s.setInst i { x with phase := .creating .failing })
       | none, .refused => none)
    | _ => none
  | .lockReplace i old new r =>
    let x := s.insts i
    match x.phase with
    | .round rd =>
      (match rd.pc with
       | .cas =>
         if old ≠ x.tree ∨ new ≠ rd.new then none else
         (match r with
          | .ok =>
            if s.lock = some old then
              some ({ s with lock := some new, lockHist := new :: s.lockHist }.setInst i
                { x with tree := new,
                         phase := .round { rd with pc := if rd.slots.isEmpty then .ckpt else .tiles [] false } })
            else none
          | .errA =>
            if s.lock = some old then
              some ({ s with lock := some new, lockHist := new :: s.lockHist }.setInst i
                { x with phase := .round { rd with pc := .done .fatal } })
            else none
          | .errN => some (s.setInst i { x with phase := .round { rd with pc := .done .fatal } })
          | .refused =>
            if s.lock = some old then none
            else some (s.setInst i { x with phase := .round { rd with pc := .done .fatal } }))
       | _ => none)
    | _ => none
  | .fetch i k r =>
    let x := s.insts i
    -- the result must be what the store holds (the store itself is trusted harness code)
    let consistent : Bool := match r, s.store k with
      | .ok o, some (o', _) => o == o'
      | .nf, none => true
      | .err, _ => true
      | _, _ => false
    if !consistent then none else
    match x.phase, k with
    | .creating .ckptFetch, .ckpt =>
      (match r with
       | .ok _ => some (s.setInst i { x with phase := .creating .failing })
       | _ => some (s.setInst i { x with phase := .creating .clock }))
    | .loading (.ckptFetch c), .ckpt =>
      (match r with
       | .ok (.ck c1) => some (s.setInst i { x with phase := .loading (.clock2 c c1) })
       | _ => some (s.setInst i { x with phase := .loading .failing }))
    | .loading (.legacy c), .legacyStaging t =>
      if t ≠ c.leaves then none else
      (match r with
       | .ok _ => some (s.setInst i { x with phase := .loading .failing })
       | _ => some (s.setInst i { x with phase := .loading (.stagingFetch c) }))
    | .loading (.stagingFetch c), .staging t =>
      if t ≠ c.leaves then none else
      (match r with
       | .ok (.bundle items) =>
         some (s.setInst i { x with phase := .loading (.apply c items false) })
       | _ => some (s.setInst i { x with phase := .loading .failing }))
    | .loading (.edge c bad), .tile t =>
      let good : Bool := match r with
        | .ok (.slice xs) => xs == t.slice c.leaves && Req c.leaves.length t
        | _ => false
      some (s.setInst i { x with phase := .loading (.edge c (bad || !good)) })
    | .loading (.edge c bad), .roots =>
      some (s.setInst i { x with phase := .loading (.edge c bad) })
    | _, .issuer id =>
      if !isUp x then none else
      (match r with
       | .ok (.issuer id') =>
         if id = id' then some (s.setInst i { x with issuersSeen := id :: x.issuersSeen })
         else some (s.setInst i { x with issuerFailed := true })
       | .ok _ => some (s.setInst i { x with issuerFailed := true })
       | _ => some s)
    | _, _ => none
  | .upload i k imm o r =>
    let x := s.insts i
    match storeUpload s.store k imm o r with
    | none => none
    | some st' =>
      let s' := { s with store := st' }
      match x.phase, k with
      | .creating (.ckptUpload c), .ckpt =>
        if o ≠ .ck c ∨ imm then none else
        let s'' := if r.applied then { s' with pubHist := c :: s'.pubHist } else s'
        (match r with
         | .ok => some (s''.setInst i { x with phase := .creating .rootsUpload })
         | _ => some (s''.setInst i { x with phase := .creating .failing }))
      | .creating .rootsUpload, .roots =>
        (match r with
         | .ok => some (s'.setInst i { x with phase := .creating .done })
         | _ => some (s'.setInst i { x with phase := .creating .failing }))
      | .round rd, .staging t =>
        (match rd.pc with
         | .stage =>
           (match o with
            | .bundle items =>
              if t ≠ rd.new.leaves ∨ !imm ∨ !bundleOK rd.old.leaves.length rd.new.leaves items then none else
              (match r with
               | .ok => some (s'.setInst i { x with phase := .round { rd with pc := .cas, bundle := tilesOfBundle items } })
               | _ => some (s'.setInst i { x with phase := .round { rd with pc := .done .failed } }))
            | _ => none)
         | _ => none)
      | .round rd, .tile t =>
        (match rd.pc with
         | .tiles done failed =>
           if !imm ∨ o ≠ .slice (t.slice rd.new.leaves) ∨ !rd.bundle.contains t ∨ done.contains t then none
           else some (s'.setInst i { x with phase := .round { rd with pc := .tiles (t :: done) (failed || r != .ok) } })
         | _ => none)
      | .round rd, .ckpt =>
        -- the tile batch is over when the checkpoint upload is issued; the driver has checked that
        -- every staged tile was uploaded (it feeds `tilesDone` before this event)
        let ready : Bool := match rd.pc with
          | .ckpt => true
          | .tiles done failed => !failed && rd.bundle.all (done.contains ·)   -- every staged tile upload has returned
          | _ => false
        (match ready with
         | true =>
           if o ≠ .ck rd.new ∨ imm then none else
           let s'' := if r.applied then { s' with pubHist := rd.new :: s'.pubHist } else s'
           (match r with
            | .ok => some (s''.setInst i { x with phase := .round { rd with
                        pc := if rd.slots.isEmpty then .done .ok else .discard, published := true } })
            | _ => some (s''.setInst i { x with phase := .round { rd with pc := .done .failed } }))
         | false => none)
      | .loading (.apply c rem failed), .tile t =>
        (match rem.find? (fun p => p.1 == t) with
         | some (_, xs) =>
           if !imm ∨ o ≠ .slice xs then none else
           let rem' := rem.filter (fun p => p.1 != t)
           let failed' := failed || r != .ok
           if rem'.isEmpty ∧ !failed' then some (s'.setInst i { x with phase := .loading (.edge c false) })
           else some (s'.setInst i { x with phase := .loading (.apply c rem' failed') })
         | none => none)
      | _, .issuer id =>
        if !isUp x ∨ o ≠ .issuer id ∨ !imm then none else
        (match r with
         | .ok => some (s'.setInst i { x with issuersSeen := id :: x.issuersSeen })
         | _ => some (s'.setInst i { x with issuerFailed := true }))
      | _, _ => none
  | .discard i k r =>
    let x := s.insts i
    match x.phase, k with
    | .round rd, .staging t =>
      (match rd.pc with
       | .discard =>
         if t ≠ rd.new.leaves then none else
         let st' := if r.applied then updK s.store k none else s.store
         some ({ s with store := st', discarded := if r.applied then k :: s.discarded else s.discarded }.setInst i
                 { x with phase := .round { rd with pc := .done .ok } })
       | _ => none)
    | _, _ => none
  | .submitted i eid key low issuers src =>
    let x := s.insts i
    if !isUp x ∨ x.evictPending then none else
    let stopped : Bool := match x.phase with | .stopped => true | _ => false
    if src = .issuer then
      if x.issuerFailed then some (s.setInst i { x with issuerFailed := false }) else none
    else if !issuers.all (x.issuersSeen.contains ·) then none
    else if stopped then none
    else if (x.pool.any (·.key == key) || x.poolEvicted.contains key) then (if src = .pool then some s else none)
    else if inSequencing x key then (if src = .pool then some s else none)
    else if (cacheLookup x.cache key).isSome then (if src = .cache then some s else none)
    else
      let d := admission s.poolSize x.pool low
      if src ≠ d then none else
      match d with
      | .ratelimit => some s
      | _ =>
        if s.poolSize > 0 ∧ x.pool.length ≥ s.poolSize then
          -- a low-priority slot is evicted; which one is reported by the next event
          some (s.setInst i { x with pool := x.pool ++ [⟨eid, key, low⟩], evictPending := true })
        else some (s.setInst i { x with pool := x.pool ++ [⟨eid, key, low⟩] })
  | .nackEvicted i eid key =>
    let x := s.insts i
    if x.evictPending then
      -- the victim is a low-priority slot of the current pool; the newcomer (appended last) takes its place
      match x.pool.getLast?, x.pool.dropLast.findIdx? (fun sl => sl.key == key && sl.low) with
      | some nw, some k =>
        some (s.setInst i { x with pool := x.pool.dropLast.set k nw, poolEvicted := key :: x.poolEvicted,
                                   evictedEver := key :: x.evictedEver, evictPending := false })
      -- … unless this is a late waiter of an entry evicted earlier (its report may arrive at any time)
      | _, _ => if x.evictedEver.contains key then some s else none
    else
      -- another waiter of an already evicted entry (its key stays in the pool's lookup table)
      if x.evictedEver.contains key then some s else none
  | .ack i eid key idx ts =>
    let x := s.insts i
    let pub : Option Ck := match s.store .ckpt with
      | some (.ck c, _) => some c
      | _ => none
    let a : Ack := ⟨i, eid, key, idx, ts, pub⟩
    -- served from the cache …
    if cacheLookup x.cache key = some (idx, ts) then some { s with acks := a :: s.acks } else
    -- … or by the round that sequenced it
    match x.phase with
    | .round r =>
      (match r.pc with
       | .done .ok =>
         (match slotIndex r.slots key, r.new.leaves[idx]? with
          | some k, some l =>
            -- the slot's position gives the index, and the published tree really holds that entry there
            if r.published ∧ idx = r.old.leaves.length + k ∧ ts = r.new.time ∧ l.key = key ∧ l.ts = ts
            then some { s with acks := a :: s.acks } else none
          | _, _ => none)
       | _ => none)
    | _ => none
  | .nack i _eid immediate =>
    let x := s.insts i
    if immediate then (if isUp x then some s else none)   -- rejected at admission: no pool involved
    else match x.phase with
    | .round r => (match r.pc with
        | .done .failed | .done .fatal => some s
        | .tiles _ true => some s
        | _ => none)
    | _ => none
  | .created i =>
    let x := s.insts i
    match x.phase with
    | .creating .done => some (s.setInst i { x with phase := .down })
    | _ => none
  | .createFail i =>
    let x := s.insts i
    match x.phase with
    | .creating .failing => some (s.setInst i { x with phase := .down })
    | _ => none
  | .loaded i c =>
    let x := s.insts i
    match x.phase with
    | .loading (.edge c' bad) =>
      if c = c' ∧ !bad then some (s.setInst i { x with phase := .idle, tree := c }) else none
    | _ => none
  | .loadFail i =>
    let x := s.insts i
    match x.phase with
    | .loading .failing => some (s.setInst i { x with phase := .down })
    | .loading (.apply _ _ true) => some (s.setInst i { x with phase := .down })
    | .loading (.edge _ true) => some (s.setInst i { x with phase := .down })
    | _ => none
  | .roundEnd i c =>
    let x := s.insts i
    match x.phase with
    | .round r =>
      (match r.pc with
       | .tiles done true =>
         if c = .fatal ∧ r.bundle.all (done.contains ·) then some (s.setInst i { x with phase := .stopped }) else none
       | .done c' =>
         if c ≠ c' ∧ ¬ (c = .ok ∧ c' = .failed) then none else
         (match c' with
          | .ok =>
            -- cachePut: one row per leaf this round appended to the (now published) tree
            let add := (r.new.leaves.zipIdx.drop r.old.leaves.length).map fun (l, k) => (l.key, k, l.ts)
            some (s.setInst i { x with phase := .idle, cache := x.cache ++ add })
          | .failed => some (s.setInst i { x with phase := .idle })
          | .fatal => some (s.setInst i { x with phase := .stopped }))
       | _ => none)
    | _ => none
  | .crash i =>
    let x := s.insts i
    some (s.setInst i { x with phase := .down, pool := [], poolEvicted := [], evictPending := false })
  | .cacheLose i =>
    let x := s.insts i
    match x.phase with
    | .down => some (s.setInst i { x with cache := [] })
    | _ => none
  | .tamper k o =>
    some { s with store := updK s.store k (o.map fun v => (v, false)), tampered := true }

def run (s : Sys) : List Ev → Option Sys
  | [] => some s
  | e :: es => match step s e with
    | some s' => run s' es
    | none => none

end Seq
