import Model.TorchwoodPath
/-!
# cmd/partial-aftersun: which files the garbage collector deletes (C18)

Transliteration of `cleanDir`, `overrideImmutable` and the two loops of `main`
(cmd/partial-aftersun/partial-aftersun.go). Core Lean only.

The directory under the `os.Root` is an arbitrary *oracle* `FS` (what `fs.ReadDir` and `root.Stat`
answer for every path at the start of the run); nothing is assumed about it, so every theorem of
`Props/C18.lean` holds for all directory contents, consistent or not. Reads are evaluated against
that initial state: the tool lists a directory before deleting in it and deletes only inside
`*.p` directories, which it never lists again. Recursion into `x…` sub-directories carries fuel
(the depth of the tree; the driver passes 64, a tile path has at most 6 `x` groups).

Paths are byte strings (`Bytes`), `filepath.Join(a, b)` of two clean relative paths is `a ++ "/" ++ b`.
Go `int`/`int64` are `Int` with Go's shift semantics for `int64(1) << k`.
-/
namespace Aftersun
open TilePath

/-- one `fs.DirEntry` with its `Info()` -/
structure Ent where
  name : Bytes
  isDir : Bool
  size : Nat
deriving DecidableEq, Repr

/-- what the directory answers: `fs.ReadDir(root.FS(), p)` (sorted by file name; `none` = error) and
`root.Stat(p)` (`none` = error). -/
structure FS where
  readDir : Bytes → Option (List Ent)
  stat : Bytes → Option Ent

inductive Del where
  | file (p : Bytes)
  | dir (p : Bytes)
deriving DecidableEq, Repr

/-- how a walk ended: `abort` = an `error` was returned (exit status 1), `panic` = run-time panic
(integer divide by zero / negative shift: exit status 2; unreachable since the level guard
`t.L > 6`, see `atOrRightOfEdge_ne_none`), `fuel` = the model ran out of depth. -/
inductive Status where
  | ok | abort | panic | fuel
deriving DecidableEq, Repr

abbrev Res := List Del × Status

def join (a b : Bytes) : Bytes := a ++ 47 :: b

/-! ### strings -/

/-- `strings.Cut(s, needle)` (first occurrence) -/
def cutSub (needle : Bytes) : Bytes → Option (Bytes × Bytes)
  | [] => if needle = [] then some ([], []) else none
  | b :: rest =>
    if (b :: rest).take needle.length = needle then some ([], (b :: rest).drop needle.length)
    else match cutSub needle rest with
      | none => none
      | some (a, r) => some (b :: a, r)

/-- `strings.CutSuffix` -/
def cutSuffix (s suf : Bytes) : Option Bytes :=
  if hasSuffix s suf then some (s.take (s.length - suf.length)) else none

/-- `strings.TrimSuffix` -/
def trimSuffix (s suf : Bytes) : Bytes := (cutSuffix s suf).getD s

def dotP : Bytes := ascii ".p"
def dotPSlash : Bytes := ascii ".p/"

/-! ### the right-edge arithmetic, as a small expression tree that is both evaluated and rendered

`Tie/C18.lean` proves that the Go source of the two expressions in `cleanDir` is `render` of the
trees that `eval` gives a meaning to below. -/

inductive Expr where
  | lit (n : Int)
  | int64 (e : Expr)               -- conversion `int64(e)` (identity on the values that occur)
  | var (name : String)
  | shl (a b : Expr)
  | mul (a b : Expr)
  | add (a b : Expr)
  | max (a b : Expr)
  | div (a b : Expr)
  | ge (a b : Expr)                -- 1 / 0
  | gt (a b : Expr)                -- 1 / 0
deriving Repr

/-- `int64(1) << s` and friends: Go panics on a negative count, yields 0 for counts ≥ 64 -/
def shl64 (a s : Int) : Option Int :=
  if s < 0 then none
  else if s ≥ 64 then some 0
  else some (wrap64 (a * 2 ^ s.toNat))

/-- Go integer division: truncated, panics on zero -/
def goDiv (a b : Int) : Option Int := if b = 0 then none else some (Int.tdiv a b)

def Expr.eval (env : String → Int) : Expr → Option Int
  | .lit n => some n
  | .int64 e => e.eval env
  | .var x => some (env x)
  | .shl a b => do shl64 (← a.eval env) (← b.eval env)
  | .mul a b => do some (wrap64 ((← a.eval env) * (← b.eval env)))
  | .add a b => do some (wrap64 ((← a.eval env) + (← b.eval env)))
  | .max a b => do some (Max.max (← a.eval env) (← b.eval env))
  | .div a b => do goDiv (← a.eval env) (← b.eval env)
  | .ge a b => do some (if (← a.eval env) ≥ (← b.eval env) then 1 else 0)
  | .gt a b => do some (if (← a.eval env) > (← b.eval env) then 1 else 0)

/-- Go source text with all white space removed (the extractor strips it too, so gofmt's
precedence-dependent spacing does not matter) -/
def Expr.render : Expr → String
  | .lit n => toString n
  | .int64 e => "int64(" ++ e.render ++ ")"
  | .var x => x
  | .shl a b => a.render ++ "<<(" ++ b.render ++ ")"
  | .mul a b => a.render ++ "*(" ++ b.render ++ ")"
  | .add a b => a.render ++ "+" ++ b.render
  | .max a b => "max(" ++ a.render ++ "," ++ b.render ++ ")"
  | .div a b => a.render ++ "/" ++ b.render
  | .ge a b => a.render ++ ">=" ++ b.render
  | .gt a b => a.render ++ ">" ++ b.render

/-- `if t.L > 6 { continue }`: a tile above level 6 spans ≥ 2^64 leaves, it is always at the right edge
(and the shift below would overflow) -/
def levelGuardExpr : Expr := .gt (.var "t.L") (.lit 6)

/-- `tileSize := int64(1) << (sunlight.TileHeight * (max(0, t.L) + 1))` -/
def tileSizeExpr : Expr :=
  .shl (.int64 (.lit 1)) (.mul (.var "sunlight.TileHeight") (.add (.max (.lit 0) (.var "t.L")) (.lit 1)))

/-- `if t.N >= size/tileSize { continue }` -/
def edgeGuardExpr : Expr := .ge (.var "t.N") (.div (.var "size") (.var "tileSize"))

def env1 (l : Int) : String → Int
  | "sunlight.TileHeight" => 8
  | "t.L" => l
  | _ => 0

def env2 (n size ts : Int) : String → Int
  | "t.N" => n
  | "size" => size
  | "tileSize" => ts
  | _ => 0

/-- the right-edge guard: `some true` = "at or right of the edge: keep (`continue`)",
`some false` = strictly left of the edge, `none` = the process panics -/
def atOrRightOfEdge (t : Tile) (size : Nat) : Option Bool :=
  match levelGuardExpr.eval (env1 t.L) with
  | none => none
  | some g =>
    if g ≠ 0 then some true
    else
      match tileSizeExpr.eval (env1 t.L) with
      | none => none
      | some ts =>
        match edgeGuardExpr.eval (env2 t.N (size : Int) ts) with
        | none => none
        | some v => some (v ≠ 0)

/-! ### overrideImmutable -/

/-- `true` = returned nil. The file itself exists (it was just listed), so `root.Open(name)` succeeds. -/
def overrideImmutable (fs : FS) (name : Bytes) : Bool :=
  match cutSub dotPSlash name with
  | none => false
  | some (full, size) =>
    match atoi size with
    | none => false
    | some _ =>
      match fs.stat full with
      | none => false
      | some fi => !fi.isDir && fi.size != 0

/-! ### cleanDir -/

/-- `root.Remove(name)` of a listed entry: a directory can only be removed when empty -/
def removable (fs : FS) (name : Bytes) (e : Ent) : Bool :=
  if e.isDir then (match fs.readDir name with | some [] => true | _ => false) else true

/-- the inner loop over `partials` -/
def cleanPartials (fs : FS) (parse : Bytes → Option Tile) (dirName : Bytes) : List Ent → Res
  | [] => ([], .ok)
  | e :: rest =>
    let name := join dirName e.name
    match parse name with
    | none => ([], .abort)
    | some t =>
      if t.W = 256 then ([], .abort)
      else if !overrideImmutable fs name then ([], .abort)
      else if !removable fs name e then ([], .abort)
      else
        let r := cleanPartials fs parse dirName rest
        (Del.file name :: r.1, r.2)

/-- the outer loop over `entries`; `recur` is `cleanDir` one level down -/
def cleanEntries (recur : Bytes → Res) (fs : FS) (parse : Bytes → Option Tile) (size : Nat)
    (pfx : Bytes) (names : List Bytes) : List Ent → Res
  | [] => ([], .ok)
  | e :: rest =>
    let name := join pfx e.name
    let continue_ := cleanEntries recur fs parse size pfx names rest
    if e.name.head? = some 120 then
      let r := recur name
      if r.2 = .ok then (r.1 ++ continue_.1, continue_.2) else r
    else
      match cutSuffix e.name dotP with
      | none => continue_
      | some full =>
        if !names.contains full then continue_
        else
          match parse (trimSuffix name dotP) with
          | none => ([], .abort)
          | some t =>
            match atOrRightOfEdge t size with
            | none => ([], .panic)
            | some true => continue_
            | some false =>
              match fs.readDir name with
              | none => ([], .abort)
              | some partials =>
                let r := cleanPartials fs parse name partials
                if r.2 = .ok then (r.1 ++ Del.dir name :: continue_.1, continue_.2) else r

def cleanDir (fs : FS) (parse : Bytes → Option Tile) (size : Nat) : Nat → Bytes → Res
  | 0, _ => ([], .fuel)
  | fuel + 1, pfx =>
    match fs.readDir pfx with
    | none => ([], .abort)
    | some entries => cleanEntries (cleanDir fs parse size fuel) fs parse size pfx (entries.map (·.name)) entries

/-! ### main: one root -/

/-- the loop over `levels` (`break` on the first error) -/
def cleanLevels (fs : FS) (parse : Bytes → Option Tile) (size fuel : Nat) : List Ent → Res
  | [] => ([], .ok)
  | lv :: rest =>
    let r := cleanDir fs parse size fuel (join (ascii "tile") lv.name)
    if r.2 = .ok then
      let r' := cleanLevels fs parse size fuel rest
      (r.1 ++ r'.1, r'.2)
    else r

/-- one log directory or one mirror directory whose verified checkpoint has `size` leaves.
A missing `tile` directory is skipped. -/
def cleanRoot (fs : FS) (parse : Bytes → Option Tile) (size fuel : Nat) : Res :=
  match fs.readDir (ascii "tile") with
  | none => ([], .ok)
  | some levels => cleanLevels fs parse size fuel levels

/-! ### main: all configured logs, then every mirror directory of the witness -/

/-- result of `logSize` / `mirroredLogSize`: the size in the verified published checkpoint,
`missing` = no checkpoint file, `bad` = any other error (signature, origin, parse) -/
inductive SizeRes where
  | ok (n : Nat) | missing | bad

inductive Kind where
  | log | mirror
deriving DecidableEq

structure Root where
  kind : Kind
  fs : FS
  size : SizeRes

def parserOf : Kind → Bytes → Option Tile
  | .log => sunlightParse
  | .mirror => torchwoodParse

/-- Roots in processing order (configured logs, then `mirror/*` directories sorted by name); `ex` is
the `exitCode` variable. Result: the deletions per root and the process exit status. A log whose size
cannot be established is `fatalError` (exit 1 at once); a mirror without checkpoint is skipped, with a
bad one is reported and skipped; a panic ends the process with status 2. -/
def runRoots (fuel : Nat) : List Root → Nat → List (List Del) × Nat
  | [], ex => ([], ex)
  | r :: rest, ex =>
    match r.size with
    | .ok n =>
      let res := cleanRoot r.fs (parserOf r.kind) n fuel
      match res.2 with
      | .ok => let o := runRoots fuel rest ex; (res.1 :: o.1, o.2)
      | .panic => (res.1 :: rest.map (fun _ => []), 2)
      | _ => let o := runRoots fuel rest 1; (res.1 :: o.1, o.2)
    | .missing =>
      match r.kind with
      | .log => ([] :: rest.map (fun _ => []), 1)
      | .mirror => let o := runRoots fuel rest ex; ([] :: o.1, o.2)
    | .bad =>
      match r.kind with
      | .log => ([] :: rest.map (fun _ => []), 1)
      | .mirror => let o := runRoots fuel rest 1; ([] :: o.1, o.2)

/-! ### what a reader of the tree of size `S` needs -/

/-- data, names and entry-bundle tiles sit at hash level 0 -/
def lvl (t : Tile) : Nat := (Max.max 0 t.L).toNat

/-- the tiles read when fetching / verifying everything of a tree with `S` leaves: at every level the
full tiles left of the edge and, where the edge is not on a tile boundary, the one partial tile of
exactly the edge width -/
def neededTile (S : Nat) (t : Tile) : Bool :=
  let full : Int := ((S / 256 ^ (lvl t + 1) : Nat) : Int)
  let w : Int := (((S / 256 ^ lvl t) % 256 : Nat) : Int)
  (t.W == 256 && decide (t.N < full)) || (t.N == full && t.W == w && w != 0)

def needed (parse : Bytes → Option Tile) (S : Nat) (p : Bytes) : Prop :=
  ∃ t, parse p = some t ∧ neededTile S t = true

def filesOf : List Del → List Bytes
  | [] => []
  | .file p :: r => p :: filesOf r
  | .dir _ :: r => filesOf r

end Aftersun
