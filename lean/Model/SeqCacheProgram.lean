import Model.Sequencer
/-! The deduplication cache as the sequencer model understands it, rendered as the statement outlines of
`internal/ctlog/cache.go` (compared with the regenerated outlines in Tie/Cache.lean).

What the model (`Seq.Inst.cache`, `Seq.cacheLookup`, the `roundEnd .ok` case of `Seq.step`) takes from this source:
* `cachePut` is ONE savepoint (`sqlitex.Save`) around a loop that inserts exactly one row
  `(computeCacheHash(entry), timestamp, leaf_index)` per entry of the sequenced pool, in order, and fails as a whole
  on the first error — the model appends one row per leaf the round added, atomically, at the end of the round;
* `cacheGet` looks the 256-bit key up in `cache256` with a one-shot `sqlitex.Exec` (statement reset after every
  call, so the read connection never stays inside a read snapshot), and only on a miss, and only while the legacy
  table exists, the 128-bit prefix in `cache` — the model's `cacheLookup` is a lookup in the union, which is what
  this is as long as rows are only ever added;
* the cache file survives a process restart (`initCache` opens, never truncates: `CREATE TABLE IF NOT EXISTS`). -/
namespace SeqCache

def initCache : List String := [
  "writeConn, err = sqlite.OpenConn(path, 0)",
  "if err != nil",
  ">return nil, nil, err",
  "if err := sqlitex.ExecTransient(writeConn, `PRAGMA synchronous = NORMAL;`, nil); err != nil",
  ">writeConn.Close()",
  ">return nil, nil, err",
  "if err := sqlitex.ExecTransient(writeConn, ` CREATE TABLE IF NOT EXISTS cache256 ( key BLOB PRIMARY KEY, timestamp INTEGER NOT NULL, leaf_index INTEGER NOT NULL ) WITHOUT ROWID, STRICT;`, nil); err != nil",
  ">writeConn.Close()",
  ">return nil, nil, err",
  "readConn, err = sqlite.OpenConn(path, 0)",
  "if err != nil",
  ">writeConn.Close()",
  ">return nil, nil, err",
  "return readConn, writeConn, nil"
]

def cacheLegacy : List String := [
  "err = sqlitex.ExecTransient(conn, `SELECT 1 FROM sqlite_master WHERE type = 'table' AND name = 'cache';`, func(stmt *sqlite.Stmt) error { exists = true; return nil })",
  "return "
]

def cacheGet : List String := [
  "defer prometheus.NewTimer(l.m.CacheGetDuration).ObserveDuration()",
  "h := computeCacheHash(leaf.Certificate, leaf.IsPrecert, leaf.IssuerKeyHash)",
  "var se *sunlight.LogEntry",
  "err := sqlitex.Exec(l.cacheRead, \"SELECT timestamp, leaf_index FROM cache256 WHERE key = ?\", func(stmt *sqlite.Stmt) error { se = leaf.asLogEntry(stmt.GetInt64(\"leaf_index\"), stmt.GetInt64(\"timestamp\")) return nil }, h[:])",
  "if err != nil",
  ">return nil, err",
  "if se == nil && l.cacheLegacy",
  ">err = sqlitex.Exec(l.cacheRead, \"SELECT timestamp, leaf_index FROM cache WHERE key = ?\", func(stmt *sqlite.Stmt) error { se = leaf.asLogEntry(stmt.GetInt64(\"leaf_index\"), stmt.GetInt64(\"timestamp\")) return nil }, h[:16])",
  ">if err != nil",
  ">>if exists, checkErr := cacheLegacy(l.cacheRead); checkErr != nil || exists",
  ">>>return nil, err",
  ">>l.cacheLegacy = false",
  "return se, nil"
]

def cachePut : List String := [
  "defer prometheus.NewTimer(l.m.CachePutDuration).ObserveDuration()",
  "defer sqlitex.Save(l.cacheWrite)(&err)",
  "for _, se := range entries { h := computeCacheHash(se.Certificate, se.IsPrecert, se.IssuerKeyHash) err := sqlitex.Exec(l.cacheWrite, \"INSERT INTO cache256 (key, timestamp, leaf_index) VALUES (?, ?, ?)\", nil, h[:], se.Timestamp, se.LeafIndex) if err != nil { return err } }",
  "return nil"
]

end SeqCache
