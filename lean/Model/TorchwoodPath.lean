import Model.TilePath
/-!
# `torchwood.ParseTilePath` (filippo.io/torchwood tile.go) and a common form of the two wrappers

Both `sunlight.ParseTilePath` and `torchwood.ParseTilePath` are "try a special prefix that stands for
`tile/8/data/`, else `tile/` stands for `tile/8/`, then `tlog.ParseTilePath`". `parseWith` is that shape;
`sunlightParse_eq` shows the model of `Model/TilePath.lean` is an instance. Core Lean only.
Used by `Model/Aftersun.lean` (mirror directories are cleaned with the torchwood parser) and
`Model/Skylight.lean` (the tile handler falls back to the torchwood parser).
-/
namespace TilePath

/-- `special` is rewritten to `tile/8/data/`; `fixL` overrides the level of such a tile (names tiles: -2). -/
def parseWith (special : Bytes) (fixL : Option Int) (path : Bytes) : Option Tile :=
  match cutPrefix path special with
  | some rest =>
    match tlogParse (ascii "tile/8/data/" ++ rest) with
    | none => none
    | some t => some (match fixL with | some l => { t with L := l } | none => t)
  | none =>
    match cutPrefix path (ascii "tile/") with
    | some rest => tlogParse (ascii "tile/8/" ++ rest)
    | none => none

/-- `torchwood.ParseTilePath`: `tile/entries/…` is the level −1 (entry bundle) tile. -/
def torchwoodParse (path : Bytes) : Option Tile := parseWith (ascii "tile/entries/") none path

theorem sunlightParse_eq (path : Bytes) : sunlightParse path = parseWith (ascii "tile/names/") (some (-2)) path := by
  unfold sunlightParse parseWith
  rfl

/-- `torchwood.TilePath` for height-8 tiles (`none` = panic). -/
def torchwoodPath (t : Tile) : Option Bytes :=
  if t.H ≠ tileHeight then none
  else if t.L = -1 then
    some (ascii "tile/entries/" ++ trimPrefix (tlogPath t) (ascii "tile/8/data/"))
  else some (ascii "tile/" ++ trimPrefix (tlogPath t) (ascii "tile/8/"))

end TilePath
