import Model.Bytes
/-! # C09 — the submission front end (`internal/ctlog/http.go`, `ctlog.go`: roots, `addLeafToPool`)

Decision logic of `add-chain` / `add-pre-chain` over **abstract certificate facts**, the
construction of the pending log entry over opaque bytes, the HTTP status mapping, the root pool.

Outside this model (library code, `certificate-transparency-go` / Go `crypto`): X.509 parsing,
signature checking and path building (`ctfe.ValidateChain` → `x509.Certificate.Verify`), the
detection of the poison extension and of the CT extended key usage, `x509.BuildPrecertTBS`
(DER surgery), JSON and base64 decoding. They enter as the fields of `Req`; the harness states them
from how it *generated* the chain and derives the opaque byte strings independently.

The decision is the first failing entry of an ordered table of checks (`checks`); every row carries
its meaning (`Check.fails`), its HTTP status and the Go source it stands for (`Check.render`), and
`Tie/C09.lean` compares the rendering of the table with the current source. Core Lean only. -/
namespace Submit

inductive Endpoint | addChain | addPreChain
deriving DecidableEq, Repr

inductive Method | post | options | other
deriving DecidableEq, Repr

/-- what reading and decoding the request body gives -/
inductive BodyFact
  | ok         -- a JSON object whose `chain` member (if any) is an array of base64 strings
  | malformed  -- not JSON / not that shape / bad base64
  | tooLarge   -- more than `maxBodyBytes`: `http.MaxBytesHandler` makes the read fail
deriving DecidableEq, Repr

/-- the CT poison extension of `chain[0]` (`ctfe.IsPrecertificate`) -/
inductive Poison
  | none     -- absent: a final certificate
  | valid    -- present, critical, value ASN.1 NULL: a precertificate
  | invalid  -- present but not critical or not NULL: an error
deriving DecidableEq, Repr

/-- a certificate as far as the front end looks at it -/
structure Cert where
  der : Bytes        -- `Raw`
  spkiHash : Bytes   -- `sha256.Sum256(RawSubjectPublicKeyInfo)`
  ctEku : Bool       -- `ct.IsPreIssuer`: has EKU 1.3.6.1.4.1.11129.2.4.4
deriving DecidableEq, Repr

/-- One request: routing data plus the abstract facts about its body. -/
structure Req where
  endpoint : Endpoint
  method : Method := .post
  body : BodyFact := .ok
  /-- `req.Chain` (meaningful when `body = ok`) -/
  chain : List Cert
  /-- every element of `req.Chain` is a certificate ct-go parses without a fatal error -/
  parses : Bool := true
  /-- `chain[0].NotAfter` -/
  notAfter : Int
  /-- `chain[0].ExtKeyUsage` contains `ExtKeyUsageServerAuth` -/
  serverAuth : Bool := true
  /-- each submitted certificate is validly issued by the next one, in the submitted order, and the
  last one is `anchor` or validly issued by `anchor` (a self-signed certificate) -/
  linked : Bool := true
  anchor : Cert
  /-- the last submitted certificate is `anchor` itself -/
  anchorSubmitted : Bool := false
  poison : Poison := .none
  /-- `x509.BuildPrecertTBS` succeeds (it fails e.g. on a second poison extension) -/
  defangOk : Bool := true
  /-- `BuildPrecertTBS(chain[0].RawTBSCertificate, nil)`: the TBS without the poison extension -/
  tbsPlain : Bytes := []
  /-- `BuildPrecertTBS(chain[0].RawTBSCertificate, chain[1])`: additionally issuer and authority
  key identifier taken from the precertificate signing certificate -/
  tbsReissued : Bytes := []
deriving Repr

/-- the shard window `[NotAfterStart, NotAfterLimit)` of the log configuration -/
structure Config where
  start : Int
  limit : Int
deriving Repr

/-! ## `ctfe.ValidateChain` as a contract -/

/-- The two window guards of `ctfe.ValidateChain` (ct-go at the pinned version), each with its
source text and with the condition under which it **rejects**. -/
def windowGuards : List (String × (Int → Config → Bool)) := [
  ("naStart != nil && cert.NotAfter.Before(*naStart)", fun na c => decide (na < c.start)),
  ("naLimit != nil && !cert.NotAfter.Before(*naLimit)", fun na c => !decide (na < c.limit))]

def inWindow (c : Config) (na : Int) : Bool := windowGuards.all fun g => !g.2 na c

/-- `verifiesToRoot roots chain`: the verified chain (submitted certificates, plus the root if it
was not submitted) when there is a path through *all* submitted certificates *in order* to a
currently accepted root (RFC 6962 s3.1; ct-go `chainsEquivalent`), else nothing. -/
def verifiesToRoot (roots : List Bytes) (r : Req) : Option (List Cert) :=
  if r.parses ∧ r.linked ∧ r.anchor.der ∈ roots then
    some (if r.anchorSubmitted then r.chain else r.chain ++ [r.anchor])
  else none

/-- `ctfe.ValidateChain(req.Chain, NewCertValidationOpts(roots, …, &NotAfterStart, &NotAfterLimit,
false, [serverAuth]))`: parse, window, EKU, path. -/
def validateChain (c : Config) (roots : List Bytes) (r : Req) : Option (List Cert) :=
  if r.parses ∧ inWindow c r.notAfter ∧ r.serverAuth then verifiesToRoot roots r else none

/-- the verified chain the later checks look at (empty if validation failed) -/
def vchain (c : Config) (roots : List Bytes) (r : Req) : List Cert := (validateChain c roots r).getD []

def isPrecert (r : Req) : Bool := r.poison = .valid

/-- `preIssuer != nil`: a precertificate whose `chain[1]` has the CT EKU -/
def usesPreIssuer (ch : List Cert) : Bool :=
  match ch with
  | _ :: i :: _ => i.ctEku
  | _ => false

/-! ## The pending entry (`PendingLogEntry`) -/

structure Pending where
  certificate : Bytes
  isPrecert : Bool
  issuerKeyHash : Bytes
  issuers : List Bytes
  preCertificate : Bytes
deriving DecidableEq, Repr

def zeros32 : Bytes := List.replicate 32 0

/-- which element of the verified chain the issuer key hash is taken from -/
def ikhIndex (ch : List Cert) : Nat := if usesPreIssuer ch then 2 else 1

def spkiAt (ch : List Cert) (i : Nat) : Bytes := (ch[i]?.map (·.spkiHash)).getD zeros32

/-- the entry `addChainOrPreChain` builds from the verified chain -/
def entryOf (r : Req) (ch : List Cert) : Pending :=
  let leaf := (ch.head?.map (·.der)).getD []
  if isPrecert r then
    { certificate := if usesPreIssuer ch then r.tbsReissued else r.tbsPlain
      isPrecert := true
      issuerKeyHash := spkiAt ch (ikhIndex ch)
      issuers := ch.tail.map (·.der)
      preCertificate := leaf }
  else
    { certificate := leaf, isPrecert := false, issuerKeyHash := zeros32,
      issuers := ch.tail.map (·.der), preCertificate := [] }

/-! ## The ordered table of checks -/

inductive Check
  | readBody            -- io.ReadAll(reqBody)
  | parseJSON           -- json.Unmarshal(body, &req)
  | nonEmpty            -- len(req.Chain) == 0
  | validate            -- ctfe.ValidateChain
  | poison              -- ctfe.IsPrecertificate returned an error
  | hasIssuer           -- precertificate: len(chain) < 2
  | preIssuerHasIssuer  -- precertificate signing certificate: len(chain) < 3
  | buildTBS            -- x509.BuildPrecertTBS
  | endpointType        -- checkType(e)
deriving DecidableEq, Repr

/-- source order in `addChainOrPreChain` -/
def checks : List Check :=
  [.readBody, .parseJSON, .nonEmpty, .validate, .poison, .hasIssuer, .preIssuerHasIssuer, .buildTBS, .endpointType]

/-- `addChain` refuses entries with `le.IsPrecert`, `addPreChain` those with `!le.IsPrecert` -/
def typeRefused (ep : Endpoint) (entryIsPrecert : Bool) : Bool :=
  match ep with
  | .addChain => entryIsPrecert
  | .addPreChain => !entryIsPrecert

def Check.fails (c : Config) (roots : List Bytes) (r : Req) : Check → Bool
  | .readBody => r.body = .tooLarge
  | .parseJSON => r.body = .malformed
  | .nonEmpty => r.chain.isEmpty
  | .validate => (validateChain c roots r).isNone
  | .poison => r.poison = .invalid
  | .hasIssuer => isPrecert r && decide ((vchain c roots r).length < 2)
  | .preIssuerHasIssuer => isPrecert r && usesPreIssuer (vchain c roots r) && decide ((vchain c roots r).length < 3)
  | .buildTBS => isPrecert r && !r.defangOk
  | .endpointType => typeRefused r.endpoint (isPrecert r)

/-- the HTTP status each failing check is answered with: all client errors -/
def Check.status : Check → Nat
  | .readBody => 413
  | _ => 400

inductive Outcome
  | reject (why : Check)
  | admit (e : Pending) (chain : List Cert)
deriving Repr

def Outcome.isAdmit : Outcome → Bool
  | .admit .. => true
  | .reject _ => false

/-- `addChainOrPreChain` up to (not including) `addLeafToPool` -/
def admission (c : Config) (roots : List Bytes) (r : Req) : Outcome :=
  match checks.find? (·.fails c roots r) with
  | some k => .reject k
  | none => .admit (entryOf r (vchain c roots r)) (vchain c roots r)

/-! ## Waiting for the sequencer: status mapping of the tail of `addChainOrPreChain` -/

inductive Wait | sequenced | poolFull | evicted | sunset | failed
deriving DecidableEq, Repr

def waitStatus : Wait → Nat
  | .sequenced => 200
  | .poolFull => 503
  | .evicted => 503
  | .sunset => 410
  | .failed => 500

/-! ## State: roots, issuer objects, the pool -/

structure State where
  roots : List Bytes := []      -- accepted roots (DER) in pool order, no duplicates
  issuers : List Bytes := []    -- issuer/<sha256> objects present in the backend (by content)
  pool : List Pending := []     -- entries that entered a pool, oldest first
deriving Repr

def dedup : List Bytes → List Bytes
  | [] => []
  | x :: xs => if x ∈ dedup xs then dedup xs else x :: dedup xs

/-- first occurrence wins, order preserved (`PEMCertPool.AddCert`) -/
def poolOrder (l : List Bytes) : List Bytes := (dedup l.reverse).reverse

/-- `SetRootsFromPEM`: `none` = the bundle does not parse (a block that is not a certificate, or no
certificate at all → `AppendCertsFromPEM` false); on success the pool is *replaced*. -/
def setRoots (s : State) (pem : Option (List Bytes)) : State × Bool :=
  match pem with
  | some (c :: cs) => ({ s with roots := poolOrder (c :: cs) }, true)
  | _ => (s, false)

/-- … together with the outcome of persisting the bundle (`Backend.Upload("_roots.pem", …)`, before the swap): when
the storage refuses it the call fails and the pool — what validation uses and what get-roots reports — stays as it was. -/
def setRootsStored (s : State) (pem : Option (List Bytes)) (stored : Bool) : State × Bool :=
  if stored then setRoots s pem else (s, false)

/-- `get-roots` -/
def getRoots (s : State) : List Bytes := s.roots

/-- the deduplication key (`computeCacheHash` preimage, C07) -/
def sameKey (a b : Pending) : Bool :=
  a.isPrecert = b.isPrecert ∧ a.certificate = b.certificate ∧ (a.isPrecert → a.issuerKeyHash = b.issuerKeyHash)

/-- `addLeafToPool`, first half: every issuer is uploaded (if not there yet) … -/
def uploadIssuers (s : State) (e : Pending) : State :=
  { s with issuers := e.issuers.foldl (fun acc i => if i ∈ acc then acc else acc ++ [i]) s.issuers }

/-- … second half, under `poolMu`: the entry joins the pool unless an equal one is known. -/
def enterPool (s : State) (e : Pending) : State :=
  if s.pool.any (sameKey e) then s else { s with pool := s.pool ++ [e] }

/-- the states `addLeafToPool` goes through -/
def admitTrace (s : State) (e : Pending) : List State :=
  [uploadIssuers s e, enterPool (uploadIssuers s e) e]

structure Response where
  status : Nat
  outcome : Option Outcome   -- `none`: the request never reached `addChainOrPreChain`
deriving Repr

/-- `http.MaxBytesHandler(mux, 128*1024)` -/
def maxBodyBytes : Nat := 128 * 1024

/-- One request against the handler (`wait`: what the sequencer later reports for an admitted entry). -/
def handle (c : Config) (s : State) (r : Req) (wait : Wait := .sequenced) : State × Response :=
  match r.method with
  | .options => (s, ⟨204, none⟩)
  | .other => (s, ⟨405, none⟩)
  | .post =>
    match admission c s.roots r with
    | .reject k => (s, ⟨k.status, some (.reject k)⟩)
    | .admit e ch =>
      match wait with
      | .poolFull => (uploadIssuers s e, ⟨waitStatus .poolFull, some (.admit e ch)⟩)
      | w => (enterPool (uploadIssuers s e) e, ⟨waitStatus w, some (.admit e ch)⟩)

/-- The same request when the object store fails (without applying) the first issuer upload the request
triggers (`uploadIssuer` → `Backend.Upload` error): `addLeafToPool` returns the error before taking `poolMu`,
nothing is stored, the entry reaches no pool and the answer is 500. The in-memory "seen issuers" set is
only updated after a successful upload, so a retry uploads again. When every issuer of the entry is
already stored no upload is attempted and there is nothing to fail. -/
def handleIssuerFault (c : Config) (s : State) (r : Req) : State × Response :=
  match r.method with
  | .post =>
    match admission c s.roots r with
    | .reject _ => handle c s r
    | .admit e ch =>
      if e.issuers.all (fun i => s.issuers.contains i) then handle c s r
      else (s, ⟨waitStatus .failed, some (.admit e ch)⟩)
  | _ => handle c s r

/-! ## Operation sequences (for the root-pool and issuer invariants) -/

inductive Op
  | setRoots (pem : Option (List Bytes))
  | submit (r : Req) (wait : Wait)
  | restart            -- LoadLog: roots come back from `_roots.pem`; pools are empty again

def step (c : Config) (s : State) : Op → State
  | .setRoots pem => (setRoots s pem).1
  | .submit r w => (handle c s r w).1
  | .restart => s

def run (c : Config) (s : State) (ops : List Op) : State := ops.foldl (step c) s

/-- the bundle of the last successful `SetRootsFromPEM`, if any -/
def lastGoodRoots : List Op → Option (List Bytes)
  | [] => none
  | op :: rest =>
    match lastGoodRoots rest with
    | some l => some l
    | none =>
      match op with
      | .setRoots (some (c :: cs)) => some (c :: cs)
      | _ => none

/-! ## Source renderings (compared with the regenerated facts in `Tie/C09.lean`) -/

def statusName : Nat → String
  | 200 => "http.StatusOK"
  | 400 => "http.StatusBadRequest"
  | 410 => "http.StatusGone"
  | 413 => "http.StatusRequestEntityTooLarge"
  | 500 => "http.StatusInternalServerError"
  | 503 => "http.StatusServiceUnavailable"
  | n => toString n

/-- the call whose result the check looks at, the guard, and the nesting depth in the source -/
def Check.source : Check → (List String × String × Nat)
  | .readBody => (["call io.ReadAll(reqBody)"], "err != nil", 0)
  | .parseJSON => ([], "err := json.Unmarshal(body, &req); err != nil", 0)
  | .nonEmpty => ([], "len(req.Chain) == 0", 0)
  | .validate => (["call ctfe.ValidateChain(req.Chain, ctfe.NewCertValidationOpts(l.rootPool(), time.Time{}, false, false, &l.c.NotAfterStart, &l.c.NotAfterLimit, false, []x509.ExtKeyUsage{x509.ExtKeyUsageServerAuth}))"],
      "err != nil", 0)
  | .poison => ([], "isPrecert, err := ctfe.IsPrecertificate(chain[0]); err != nil", 0)
  | .hasIssuer => (["else if isPrecert"], "len(chain) < 2", 1)
  | .preIssuerHasIssuer => ([">if ct.IsPreIssuer(chain[1])"], "len(chain) < 3", 2)
  | .buildTBS => ([">call x509.BuildPrecertTBS(chain[0].RawTBSCertificate, preIssuer)"], "err != nil", 1)
  | .endpointType => ([], "err := checkType(e); err != nil", 0)

def pre (n : Nat) (s : String) : String := String.ofList (List.replicate n '>') ++ s

/-- `readBody` has one more return in the source: a read error that is *not* the size limit (the
transport failed; there is no request to reject and nobody to answer) stays a 500. That environment
fault is not an input of this model. -/
def Check.render (k : Check) : List String :=
  let (before, guard, d) := k.source
  match k with
  | .readBody =>
    before ++ [pre d ("if " ++ guard),
      pre (d + 1) "if mbe := new(http.MaxBytesError); errors.As(err, &mbe)",
      pre (d + 2) ("return " ++ statusName k.status),
      pre (d + 1) ("return " ++ statusName 500)]
  | _ => before ++ [pre d ("if " ++ guard), pre (d + 1) ("return " ++ statusName k.status)]

/-- the tail of `addChainOrPreChain`: pool, wait, status per wait result; then three internal
errors that no request can cause (encoding the extension, signing, encoding the response); success -/
def tailFlow : List String := [
  "call l.addLeafToPool(ctx, e, lowPriority)",
  "call waitLeaf(ctx)",
  "if err == errPoolFull || err == errEvicted",
  ">return " ++ statusName (waitStatus .poolFull),
  "else if errors.As(err, new(SunsetLogError))",
  ">return " ++ statusName (waitStatus .sunset),
  "else if err != nil",
  ">return " ++ statusName (waitStatus .failed)] ++
  (List.replicate 3 ["if err != nil", ">return " ++ statusName 500]).flatten ++
  ["return " ++ statusName (waitStatus .sequenced)]

def expectedFlow : List String := checks.flatMap Check.render ++ tailFlow

/-- how `entryOf` reads in the source: guard path, field, right-hand side -/
def expectedAssigns : List String := [
  "e := &PendingLogEntry{Certificate: chain[0].Raw}",
  "range chain[1:]: e.Issuers = append(e.Issuers, issuer.Raw)",
  "isPrecert/ct.IsPreIssuer(chain[1]): preIssuer = chain[1]",
  "isPrecert: e.IsPrecert = true",
  "isPrecert: e.Certificate = defangedTBS",
  "isPrecert: e.PreCertificate = chain[0].Raw",
  "isPrecert/preIssuer != nil: e.IssuerKeyHash = sha256.Sum256(chain[" ++ toString (ikhIndex [⟨[], [], false⟩, ⟨[], [], true⟩]) ++ "].RawSubjectPublicKeyInfo)",
  "isPrecert/!(preIssuer != nil): e.IssuerKeyHash = sha256.Sum256(chain[" ++ toString (ikhIndex [⟨[], [], false⟩, ⟨[], [], false⟩]) ++ "].RawSubjectPublicKeyInfo)"]

/-- the closure each endpoint passes as `checkType` -/
def expectedTypeCheck (ep : Endpoint) : List String :=
  [(if typeRefused ep true then "if le.IsPrecert" else "if !le.IsPrecert"), ">return fmtErrorf", "return nil"]

def expectedWindow : List String := windowGuards.map (·.1)

/-- `NewCertValidationOpts` parameters paired with the arguments `addChainOrPreChain` passes: the
roots are the current pool, the window is `[NotAfterStart, NotAfterLimit)` in that order, the only
accepted EKU is serverAuth, nothing else is enabled. -/
def expectedValidateOpts : List (String × String) := [
  ("trustedRoots", "l.rootPool()"), ("currentTime", "time.Time{}"), ("rejectExpired", "false"),
  ("rejectUnexpired", "false"), ("notAfterStart", "&l.c.NotAfterStart"), ("notAfterLimit", "&l.c.NotAfterLimit"),
  ("acceptOnlyCA", "false"), ("extKeyUsages", "[]x509.ExtKeyUsage{x509.ExtKeyUsageServerAuth}")]

/-- what `addChain` / `addPreChain` write: OPTIONS → 204 before anything else; otherwise exactly the
status `addChainOrPreChain` returned (`handle`: `Response.status`) -/
def expectedHandler : List String := [
  "if r.Method == http.MethodOptions",
  ">call rw.WriteHeader(http.StatusNoContent)",
  ">return",
  "call l.addChainOrPreChain(r.Context(), r.Body, func)",
  "if err != nil",
  ">if code == http.StatusServiceUnavailable",
  ">>call http.Error(…, code)",
  ">>return",
  ">call http.Error(…, code)",
  ">return",
  "call rw.WriteHeader(code)",
  "if _, err := rw.Write(rsp); err != nil",
  ">return"]

def endpointPath : Endpoint → String
  | .addChain => "add-chain"
  | .addPreChain => "add-pre-chain"

def endpointFunc : Endpoint → String
  | .addChain => "addChain"
  | .addPreChain => "addPreChain"

/-- `Handler()`: POST and OPTIONS of each endpoint reach its handler (anything else: 405 by the mux) -/
def expectedRoutes : List String :=
  ([Endpoint.addChain, .addPreChain].flatMap fun ep =>
    ["POST /ct/v1/" ++ endpointPath ep ++ " -> " ++ endpointFunc ep,
     "OPTIONS /ct/v1/" ++ endpointPath ep ++ " -> " ++ endpointFunc ep]) ++
  ["GET /ct/v1/get-roots -> getRoots"] ++
  ([Endpoint.addChain, .addPreChain].map fun ep =>
    endpointFunc ep ++ " := http.Handler(http.HandlerFunc(l." ++ endpointFunc ep ++ "))") ++
  ["getRoots := http.Handler(http.HandlerFunc(l.getRoots))"]

/-- `addLeafToPool` (`admitTrace`): the issuer loop comes before `poolMu` and before any append -/
def expectedAddLeafOrder : List String := [
  "call l.uploadIssuer(issuer) onerr=fail guard=[ range(leaf.Issuers)]",
  "call l.poolMu.Lock() onerr=ignored guard=[]",
  "assign p.pendingLeaves[n] = leaf guard=[l.c.PoolSize > 0 && n >= l.c.PoolSize range(p.lowPriority)]",
  "assign p.pendingLeaves = append(p.pendingLeaves, leaf) guard=[ !(l.c.PoolSize > 0 && n >= l.c.PoolSize)]"]

/-- `getRoots` (`getRoots`): the raw certificates of the current pool, in pool order -/
def expectedGetRoots : List String := [
  "call l.rootPool().RawCertificates()",
  "assign res.Certificates = make([][]byte, 0, len(roots))",
  "range roots",
  ">assign res.Certificates = append(res.Certificates, r.Raw)",
  "if err := json.NewEncoder(rw).Encode(res); err != nil"]

def expectedRootPool : List String := ["call l.rootsMu.RLock()", "defer l.rootsMu.RUnlock()", "return l.roots"]

/-- `SetRootsFromPEM` (`setRoots`): identical bytes → nothing to do; a *fresh* pool is filled; any
parse failure → error and the old pool stays; the swap happens under the write lock, after the
bundle was persisted. -/
def expectedSetRoots : List String := [
  "if bytes.Equal(pemBytes, l.RootsPEM())",
  ">return nil",
  "call x509util.NewPEMCertPool()",
  "if !roots.AppendCertsFromPEM(pemBytes)",
  ">return errors.New",
  "call l.rootsMu.Lock()",
  "defer l.rootsMu.Unlock()",
  "if err := l.c.Backend.Upload(ctx, \"_roots.pem\", pemBytes, optsRoots); err != nil",
  ">return fmt.Errorf",
  "assign l.roots = roots",
  "assign l.rootsPEM = bytes.Clone(pemBytes)",
  "return nil"]

end Submit
