import Model.TorchwoodPath
/-!
# cmd/skylight: the health endpoint (C20) and the read-path router (C19)

Core Lean only. Part 1 (`Skylight.Health`) is the conjunction `/health` computes, over *abstract
directory facts*: for every configured entry, which of the conditions that `checkLog`,
`witnessHealth.loadVerifiers`/`hashes` and `witnessHealth.check` test hold in the directory right now.
The conditions are enumerated in the order the code tests them (the first one that fails is the
one reported); `Tie/C20.lean` ties that order and the error texts to the source. Part 2
(`Skylight.Route`) is in `Model/SkylightRoute.lean`.
-/
namespace Skylight.Health

/-! ## logs: `checkLog` -/

/-- the conditions `checkLog` tests, in source order -/
inductive LogCond where
  | jsonRead        -- fs.ReadFile(log.v3.json)
  | jsonParses      -- json.Unmarshal
  | keyParses       -- x509.ParsePKIXPublicKey(log.PublicKeyDER)
  | verifierOk      -- sunlight.NewRFC6962Verifier(log.Name, key)
  | ckptRead        -- fs.ReadFile(checkpoint)
  | sigVerifies     -- note.Open under the (name, key) of log.v3.json
  | ckptParses      -- torchwood.ParseCheckpoint(n.Text)
  | originMatches   -- checkpoint.Origin = log.Name
  | sigTimestamp    -- sunlight.RFC6962SignatureTimestamp(n.Sigs[0])
  | limitParses     -- time.Parse(RFC3339, temporal_interval.end_exclusive)
  | hasFinal        -- (past) final_tree_head.sha256_root_hash present
  | finalHash       -- (past) = checkpoint.Hash
  | finalSize       -- (past) = checkpoint.N
  | finalTime       -- (past) = signature timestamp
  | fresh           -- (not past) time.Since(signature timestamp) ≤ 5 s
deriving DecidableEq, Repr

open LogCond in
/-- tested whatever the date -/
def LogCond.common : List LogCond :=
  [jsonRead, jsonParses, keyParses, verifierOk, ckptRead, sigVerifies, ckptParses, originMatches, sigTimestamp, limitParses]
open LogCond in
/-- tested when `time.Since(notAfterLimit) > 7*24h + 3s` -/
def LogCond.sunset : List LogCond := [hasFinal, finalHash, finalSize, finalTime]
open LogCond in
/-- tested otherwise -/
def LogCond.active : List LogCond := [fresh]

/-- the conditions that apply to a log; `past` = "more than a week and 3 s past NotAfterLimit" -/
def LogCond.applicable (past : Bool) : List LogCond :=
  LogCond.common ++ (if past then LogCond.sunset else LogCond.active)

/-- the text each failure is reported with (format string of the `fmt.Errorf`) -/
def LogCond.msg : LogCond → String
  | .jsonRead => "failed to read log.v3.json: %w"
  | .jsonParses => "failed to parse log.v3.json: %w"
  | .keyParses => "failed to parse public key: %w"
  | .verifierOk => "failed to create verifier: %w"
  | .ckptRead => "failed to read checkpoint: %w"
  | .sigVerifies => "failed to verify checkpoint note: %w"
  | .ckptParses => "failed to parse checkpoint: %w"
  | .originMatches => "origin mismatch: %q != %q"
  | .sigTimestamp => "failed to parse signature timestamp: %w"
  | .limitParses => "failed to parse NotAfterLimit: %w"
  | .hasFinal => "log is past NotAfterLimit + 1 week and has no final tree"
  | .finalHash => "mismatching final tree hash"
  | .finalSize => "mismatching final tree size"
  | .finalTime => "mismatching final tree timestamp"
  | .fresh => "checkpoint is too old: %v"

structure LogEntry where
  name : String            -- ShortName
  staging : Bool
  past : Bool
  holds : LogCond → Bool

/-- the first condition of the list that does not hold -/
def firstFail {κ : Type} (holds : κ → Bool) : List κ → Option κ
  | [] => none
  | k :: rest => if holds k then firstFail holds rest else some k

inductive LogRes where
  | ok | sunset | err (k : LogCond)
deriving DecidableEq, Repr

/-- `checkLog`: `nil`, `errLogSunset`, or the first failing condition -/
def checkLog (e : LogEntry) : LogRes :=
  match firstFail e.holds (LogCond.applicable e.past) with
  | some k => .err k
  | none => if e.past then .sunset else .ok

/-! ## witnesses and mirrors: `loadVerifiers`, `hashes`, `check` -/

/-- per witness (or mirror) directory, in source order. The `p…` conditions are about the
`witness.v0.json` of the enclosing witness directory, whose keys verify the pending checkpoints of a mirror. -/
inductive WitCond where
  | infoRead | infoParses | keysNonEmpty | keysValid
  | pInfoRead | pInfoParses | pKeysNonEmpty | pKeysValid
  | enumOk          -- fs.ReadDir(".")
deriving DecidableEq, Repr

open WitCond in
def WitCond.applicable (mirror : Bool) : List WitCond :=
  [infoRead, infoParses, keysNonEmpty, keysValid] ++
  (if mirror then [pInfoRead, pInfoParses, pKeysNonEmpty, pKeysValid] else []) ++ [enumOk]

/-- `name` is the JSON file the message mentions -/
def WitCond.msg : WitCond → String
  | .infoRead | .pInfoRead => "failed to read %s: %w"
  | .infoParses | .pInfoParses => "failed to parse %s: %w"
  | .keysNonEmpty | .pKeysNonEmpty => "%s lists no verifier keys"
  | .keysValid | .pKeysValid => "invalid verifier key in %s: %w"
  | .enumOk => "failed to enumerate logs: %w"

/-- per origin-hash sub-directory, in source order -/
inductive WLogCond where
  | ckptRead        -- fs.ReadFile(hash/checkpoint)
  | sigVerifies     -- note.Open under the published verifier keys
  | ckptParses
  | hashMatches     -- witness.OriginHash(origin) = directory name
  | edgeOk          -- (mirror) right-edge hashes load through the verifying tile reader
  | pendRead        -- (mirror) pending checkpoint of the witness directory
  | pendVerifies
  | pendParses
  | pendOrigin      -- pending.Origin = origin
  | notAhead        -- checkpoint.N ≤ pending.N
deriving DecidableEq, Repr

open WLogCond in
def WLogCond.applicable (mirror : Bool) : List WLogCond :=
  [ckptRead, sigVerifies, ckptParses, hashMatches] ++
  (if mirror then [edgeOk, pendRead, pendVerifies, pendParses, pendOrigin, notAhead] else [])

def WLogCond.msg : WLogCond → String
  | .ckptRead => "failed to read checkpoint: %w"
  | .sigVerifies => "failed to verify checkpoint: %w"
  | .ckptParses => "failed to parse checkpoint: %w"
  | .hashMatches => "origin %q hashes to %s, not %s"
  | .edgeOk => "failed to verify right-edge tiles: %w"
  | .pendRead => "failed to read pending checkpoint: %w"
  | .pendVerifies => "failed to verify pending checkpoint: %w"
  | .pendParses => "failed to parse pending checkpoint: %w"
  | .pendOrigin => "pending checkpoint origin %q does not match mirror origin %q"
  | .notAhead => "mirror checkpoint size %d is ahead of pending checkpoint size %d"

structure WLog where
  hash : String            -- directory name
  origin : String          -- origin line of the stored checkpoint
  holds : WLogCond → Bool

structure WitEntry where
  mirror : Bool
  staging : Bool
  holds : WitCond → Bool
  logs : List WLog         -- the origin-hash sub-directories, in directory order

def kindName (mirror : Bool) : String := if mirror then "mirror" else "witness"

/-- `check` returns the origin once the checkpoint is read, verified and parsed; the handler labels
the line with it, falling back to the directory name -/
def WLog.label (mirror : Bool) (l : WLog) : String :=
  kindName mirror ++ " " ++
    (if l.holds .ckptRead && l.holds .sigVerifies && l.holds .ckptParses then l.origin else l.hash)

/-! ## the handler -/

inductive ErrKind where
  | log (k : LogCond) | wit (k : WitCond) | wlog (k : WLogCond)
deriving DecidableEq, Repr

inductive Outcome where
  | ok | readOnly | ignored (k : ErrKind) | failed (k : ErrKind)
deriving DecidableEq, Repr

def Outcome.isFailed : Outcome → Bool
  | .failed _ => true
  | _ => false

abbrev Line := String × Outcome

def report (staging : Bool) (k : ErrKind) : Outcome := if staging then .ignored k else .failed k

def logLine (e : LogEntry) : Line :=
  match checkLog e with
  | .ok => (e.name, .ok)
  | .sunset => (e.name, .readOnly)      -- whatever `staging` says
  | .err k => (e.name, report e.staging (.log k))

def wlogLine (w : WitEntry) (l : WLog) : Line :=
  match firstFail l.holds (WLogCond.applicable w.mirror) with
  | none => (l.label w.mirror, .ok)
  | some k => (l.label w.mirror, report w.staging (.wlog k))

def witLines (w : WitEntry) : List Line :=
  match firstFail w.holds (WitCond.applicable w.mirror) with
  | some k => [(kindName w.mirror, report w.staging (.wit k))]
  | none => w.logs.map (wlogLine w)

structure Config where
  logs : List LogEntry
  wits : List WitEntry      -- a witness directory with a `mirror` sub-directory contributes two entries

def lines (c : Config) : List Line := c.logs.map logLine ++ c.wits.flatMap witLines

/-- HTTP status of `/health` -/
def status (c : Config) : Nat := if (lines c).any (·.2.isFailed) then 500 else 200

end Skylight.Health
