import Model.TorchwoodPath
/-!
# cmd/skylight: the health endpoint (C20) and the read-path router (C19)

Core Lean only. Part 1 (`Skylight.Health`) is the conjunction `/health` computes, over *abstract
directory facts*: for every configured entry, which of the conditions that `checkLog`,
`witnessHealth.loadVerifiers`/`hashes` and `witnessHealth.check` test hold in the directory right now.
The conditions are enumerated in the order the code tests them (the first one that fails is the
one reported); `Tie/C20.lean` ties that order and the error texts to the source. Part 2
(`Skylight.Route`, below) is the router: which file of which configured directory a GET request is
answered from, and with which headers.
-/
namespace Skylight.Health

/-! ## logs: `checkLog` -/

/-- the conditions `checkLog` tests, in source order -/
inductive LogCond where
  | jsonRead        -- fs.ReadFile(log.v3.json)
  | jsonParses      -- json.Unmarshal
  | keyParses       -- x509.ParsePKIXPublicKey(log.PublicKeyDER)
  | verifierOk      -- sunlight.NewRFC6962Verifier(log.Name, key)
  | ckptRead        -- fs.ReadFile(checkpoint)
  | sigVerifies     -- note.Open under the (name, key) of log.v3.json
  | ckptParses      -- torchwood.ParseCheckpoint(n.Text)
  | originMatches   -- checkpoint.Origin = log.Name
  | sigTimestamp    -- sunlight.RFC6962SignatureTimestamp(n.Sigs[0])
  | limitParses     -- time.Parse(RFC3339, temporal_interval.end_exclusive)
  | hasFinal        -- (past) final_tree_head.sha256_root_hash present
  | finalHash       -- (past) = checkpoint.Hash
  | finalSize       -- (past) = checkpoint.N
  | finalTime       -- (past) = signature timestamp
  | fresh           -- (not past) time.Since(signature timestamp) ≤ 5 s
deriving DecidableEq, Repr

open LogCond in
/-- tested whatever the date -/
def LogCond.common : List LogCond :=
  [jsonRead, jsonParses, keyParses, verifierOk, ckptRead, sigVerifies, ckptParses, originMatches, sigTimestamp, limitParses]
open LogCond in
/-- tested when `time.Since(notAfterLimit) > 7*24h + 3s` -/
def LogCond.sunset : List LogCond := [hasFinal, finalHash, finalSize, finalTime]
open LogCond in
/-- tested otherwise -/
def LogCond.active : List LogCond := [fresh]

/-- the conditions that apply to a log; `past` = "more than a week and 3 s past NotAfterLimit" -/
def LogCond.applicable (past : Bool) : List LogCond :=
  LogCond.common ++ (if past then LogCond.sunset else LogCond.active)

/-- the text each failure is reported with (format string of the `fmt.Errorf`) -/
def LogCond.msg : LogCond → String
  | .jsonRead => "failed to read log.v3.json: %w"
  | .jsonParses => "failed to parse log.v3.json: %w"
  | .keyParses => "failed to parse public key: %w"
  | .verifierOk => "failed to create verifier: %w"
  | .ckptRead => "failed to read checkpoint: %w"
  | .sigVerifies => "failed to verify checkpoint note: %w"
  | .ckptParses => "failed to parse checkpoint: %w"
  | .originMatches => "origin mismatch: %q != %q"
  | .sigTimestamp => "failed to parse signature timestamp: %w"
  | .limitParses => "failed to parse NotAfterLimit: %w"
  | .hasFinal => "log is past NotAfterLimit + 1 week and has no final tree"
  | .finalHash => "mismatching final tree hash"
  | .finalSize => "mismatching final tree size"
  | .finalTime => "mismatching final tree timestamp"
  | .fresh => "checkpoint is too old: %v"

structure LogEntry where
  name : String            -- ShortName
  staging : Bool
  past : Bool
  holds : LogCond → Bool

/-- the first condition of the list that does not hold -/
def firstFail {κ : Type} (holds : κ → Bool) : List κ → Option κ
  | [] => none
  | k :: rest => if holds k then firstFail holds rest else some k

inductive LogRes where
  | ok | sunset | err (k : LogCond)
deriving DecidableEq, Repr

/-- `checkLog`: `nil`, `errLogSunset`, or the first failing condition -/
def checkLog (e : LogEntry) : LogRes :=
  match firstFail e.holds (LogCond.applicable e.past) with
  | some k => .err k
  | none => if e.past then .sunset else .ok

/-! ## witnesses and mirrors: `loadVerifiers`, `hashes`, `check` -/

/-- per witness (or mirror) directory, in source order. The `p…` conditions are about the
`witness.v0.json` of the enclosing witness directory, whose keys verify the pending checkpoints of a mirror. -/
inductive WitCond where
  | infoRead | infoParses | keysNonEmpty | keysValid
  | pInfoRead | pInfoParses | pKeysNonEmpty | pKeysValid
  | enumOk          -- fs.ReadDir(".")
deriving DecidableEq, Repr

open WitCond in
def WitCond.applicable (mirror : Bool) : List WitCond :=
  [infoRead, infoParses, keysNonEmpty, keysValid] ++
  (if mirror then [pInfoRead, pInfoParses, pKeysNonEmpty, pKeysValid] else []) ++ [enumOk]

/-- `name` is the JSON file the message mentions -/
def WitCond.msg : WitCond → String
  | .infoRead | .pInfoRead => "failed to read %s: %w"
  | .infoParses | .pInfoParses => "failed to parse %s: %w"
  | .keysNonEmpty | .pKeysNonEmpty => "%s lists no verifier keys"
  | .keysValid | .pKeysValid => "invalid verifier key in %s: %w"
  | .enumOk => "failed to enumerate logs: %w"

/-- per origin-hash sub-directory, in source order -/
inductive WLogCond where
  | ckptRead        -- fs.ReadFile(hash/checkpoint)
  | sigVerifies     -- note.Open under the published verifier keys
  | ckptParses
  | hashMatches     -- witness.OriginHash(origin) = directory name
  | edgeOk          -- (mirror) right-edge hashes load through the verifying tile reader
  | pendRead        -- (mirror) pending checkpoint of the witness directory
  | pendVerifies
  | pendParses
  | pendOrigin      -- pending.Origin = origin
  | notAhead        -- checkpoint.N ≤ pending.N
deriving DecidableEq, Repr

open WLogCond in
def WLogCond.applicable (mirror : Bool) : List WLogCond :=
  [ckptRead, sigVerifies, ckptParses, hashMatches] ++
  (if mirror then [edgeOk, pendRead, pendVerifies, pendParses, pendOrigin, notAhead] else [])

def WLogCond.msg : WLogCond → String
  | .ckptRead => "failed to read checkpoint: %w"
  | .sigVerifies => "failed to verify checkpoint: %w"
  | .ckptParses => "failed to parse checkpoint: %w"
  | .hashMatches => "origin %q hashes to %s, not %s"
  | .edgeOk => "failed to verify right-edge tiles: %w"
  | .pendRead => "failed to read pending checkpoint: %w"
  | .pendVerifies => "failed to verify pending checkpoint: %w"
  | .pendParses => "failed to parse pending checkpoint: %w"
  | .pendOrigin => "pending checkpoint origin %q does not match mirror origin %q"
  | .notAhead => "mirror checkpoint size %d is ahead of pending checkpoint size %d"

structure WLog where
  hash : String            -- directory name
  origin : String          -- origin line of the stored checkpoint
  holds : WLogCond → Bool

structure WitEntry where
  mirror : Bool
  staging : Bool
  holds : WitCond → Bool
  logs : List WLog         -- the origin-hash sub-directories, in directory order

def kindName (mirror : Bool) : String := if mirror then "mirror" else "witness"

/-- `check` returns the origin once the checkpoint is read, verified and parsed; the handler labels
the line with it, falling back to the directory name -/
def WLog.label (mirror : Bool) (l : WLog) : String :=
  kindName mirror ++ " " ++
    (if l.holds .ckptRead && l.holds .sigVerifies && l.holds .ckptParses then l.origin else l.hash)

/-! ## the handler -/

inductive ErrKind where
  | log (k : LogCond) | wit (k : WitCond) | wlog (k : WLogCond)
deriving DecidableEq, Repr

inductive Outcome where
  | ok | readOnly | ignored (k : ErrKind) | failed (k : ErrKind)
deriving DecidableEq, Repr

def Outcome.isFailed : Outcome → Bool
  | .failed _ => true
  | _ => false

abbrev Line := String × Outcome

def report (staging : Bool) (k : ErrKind) : Outcome := if staging then .ignored k else .failed k

def logLine (e : LogEntry) : Line :=
  match checkLog e with
  | .ok => (e.name, .ok)
  | .sunset => (e.name, .readOnly)      -- whatever `staging` says
  | .err k => (e.name, report e.staging (.log k))

def wlogLine (w : WitEntry) (l : WLog) : Line :=
  match firstFail l.holds (WLogCond.applicable w.mirror) with
  | none => (l.label w.mirror, .ok)
  | some k => (l.label w.mirror, report w.staging (.wlog k))

def witLines (w : WitEntry) : List Line :=
  match firstFail w.holds (WitCond.applicable w.mirror) with
  | some k => [(kindName w.mirror, report w.staging (.wit k))]
  | none => w.logs.map (wlogLine w)

structure Config where
  logs : List LogEntry
  wits : List WitEntry      -- a witness directory with a `mirror` sub-directory contributes two entries

def lines (c : Config) : List Line := c.logs.map logLine ++ c.wits.flatMap witLines

/-- HTTP status of `/health` -/
def status (c : Config) : Nat := if (lines c).any (·.2.isFailed) then 500 else 200

end Skylight.Health


/-!
# Part 2 — the read path (C19)

`route cfg host path`: what a `GET` for `path` (the decoded `URL.Path`, request target in canonical
encoding) with the given `Host` is answered from. The composition in `main` is

    http.ServeMux (host-specific patterns first, path cleaned → 301 if it changes, trailing-slash redirect)
      → per log:      StripPrefix(prefix.Path) → logMux → FileServerFS(filesOnlyFS{root.FS()})
      → per witness:  {origin}/ and mirror/{origin}/: StripPrefix(prefix.Path/[mirror/]origin) → logMux
                      → handler that puts "/[mirror/]origin" back in front → FileServerFS(…)
                      witness.v0.json, mirror/mirror.v0.json: StripPrefix(prefix.Path) → FileServerFS(…)

Paths are handled as *segment lists*: `cleanParts` is `cleanPath` of net/http (path.Clean plus the
kept trailing slash) returning the segments of the cleaned path; the router only ever builds file
names out of these segments, which is what `C19_confined_model` exploits.
Not modelled: methods other than GET (405), the rate limiter (429), `/metrics`, `/health`, `/logs.json`
bodies, request targets whose escaping is not canonical (`%2e`, `%2f`: exercised by the harness against
the runtime oracle only), `Last-Modified` / range handling of the file server.
-/
namespace Skylight.Route
open TilePath

/-! ## net/http path cleaning -/

def dot : Bytes := [46]
def dotdot : Bytes := [46, 46]

/-- one element of `path.Clean`'s scan over a rooted path; the stack is kept reversed -/
def cleanStep (st : List Bytes) (s : Bytes) : List Bytes :=
  if s = [] ∨ s = dot then st
  else if s = dotdot then st.drop 1
  else s :: st

def cleanSegs (ss : List Bytes) : List Bytes := (ss.foldl cleanStep []).reverse

/-- `"/a/b"` for `["a","b"]`, `""` for `[]` -/
def joinSegs : List Bytes → Bytes
  | [] => []
  | s :: r => 47 :: s ++ joinSegs r

/-- segments of `cleanPath(p)` and whether it keeps a trailing slash -/
def cleanParts (p : Bytes) : List Bytes × Bool :=
  let q := match p with
    | 47 :: q => q
    | q => q
  let S := cleanSegs (split 47 q)
  (S, p.getLast? == some 47 && !S.isEmpty)

def render (S : List Bytes) (tr : Bool) : Bytes :=
  if S.isEmpty then [47] else joinSegs S ++ (if tr then [47] else [])

/-- net/http `cleanPath` -/
def cleanPath (p : Bytes) : Bytes := render (cleanParts p).1 (cleanParts p).2

/-- `"a/b"` for `["a","b"]` -/
def relPath : List Bytes → Bytes
  | [] => []
  | [s] => s
  | s :: r => s ++ 47 :: relPath r

/-! ## configuration -/

structure Entry where
  host : Bytes             -- prefix.Host
  pfx : List Bytes         -- segments of prefix.Path ([] for a host-only prefix)
deriving DecidableEq, Repr

structure Cfg where
  home : Bool              -- HomeRedirect configured
  logs : List Entry
  wits : List Entry

inductive RootId where
  | log (i : Nat) | wit (i : Nat)
deriving DecidableEq, Repr

/-! ## headers -/

inductive Kind where
  | checkpoint | logJSON | issuer | tile | data | partialData | names | witnessJSON | mirrorJSON
deriving DecidableEq, Repr

structure Hdrs where
  ctype : String
  gzip : Bool              -- Content-Encoding: gzip
  cache : String           -- Cache-Control ("" = not set)
deriving DecidableEq, Repr

def immutableCC : String := "public, max-age=604800, immutable"

/-- the tile the handler switches on: `sunlight.ParseTilePath`, falling back to
`torchwood.ParseTilePath`, falling back to the zero `tlog.Tile` (level 0) -/
def tileOf (tilePath : Bytes) : Tile :=
  match sunlightParse tilePath with
  | some t => t
  | none =>
    match torchwoodParse tilePath with
    | some t => t
    | none => ⟨0, 0, 0, 0⟩

/-- `switch tile.L` of the tile handler -/
def tileHeaders (t : Tile) : Kind × Hdrs :=
  if t.L = -1 then (if t.W < 256 then .partialData else .data, ⟨"application/octet-stream", true, immutableCC⟩)
  else if t.L = -2 then (.names, ⟨"application/jsonl; charset=utf-8", true, immutableCC⟩)
  else (.tile, ⟨"application/octet-stream", false, immutableCC⟩)

def checkpointHdrs : Hdrs := ⟨"text/plain; charset=utf-8", false, "no-store"⟩
def jsonHdrs : Hdrs := ⟨"application/json", false, ""⟩
def issuerHdrs : Hdrs := ⟨"application/pkix-cert", false, immutableCC⟩

/-! ## routing -/

inductive Outcome where
  /-- handed to the file server of `root`: the file named by the segments `rel` (with a trailing
  slash if `tr`), to be answered with `hdrs` (plus `Access-Control-Allow-Origin: *`) -/
  | file (root : RootId) (rel : List Bytes) (tr : Bool) (kind : Kind) (hdrs : Hdrs)
  | redirect               -- 301 (unclean path, missing trailing slash) or 302 (home)
  | notFound
  | special (name : String) -- /metrics, /health, /logs.json
deriving DecidableEq, Repr

/-- `logMux` on the path that is left after the prefix was stripped; `fp` are the segments the
witness handler puts back in front (`[]` for a log) -/
def logMux (home : Bool) (root : RootId) (fp : List Bytes) (R : List Bytes) (tr : Bool) : Outcome :=
  match R, tr with
  | [], _ => if home then .redirect else .notFound                                  -- "/{$}"
  | [c], false =>
    if c = ascii "checkpoint" then .file root (fp ++ R) false .checkpoint checkpointHdrs
    else if c = ascii "log.v3.json" then .file root (fp ++ R) false .logJSON jsonHdrs
    else if c = ascii "tile" then .redirect                                         -- "/tile" → "/tile/"
    else .notFound
  | [i, _], false =>
    if i = ascii "issuer" then .file root (fp ++ R) false .issuer issuerHdrs         -- "GET /issuer/{issuer}"
    else if i = ascii "tile" then
      let th := tileHeaders (tileOf (relPath R))
      .file root (fp ++ R) false th.1 th.2
    else .notFound
  | t :: rest, tr =>
    if t = ascii "tile" then                                                        -- "GET /tile/{tile...}"
      let tilePath := relPath (t :: rest) ++ (if tr || rest.isEmpty then [47] else [])
      let th := tileHeaders (tileOf tilePath)
      .file root (fp ++ t :: rest) (tr || rest.isEmpty) th.1 th.2
    else .notFound

def isPrefix : List Bytes → List Bytes → Bool
  | [], _ => true
  | _ :: _, [] => false
  | a :: as, b :: bs => a == b && isPrefix as bs

/-- the first entry of the list registered for this host whose prefix the path starts with -/
def findEntry (host : Bytes) (S : List Bytes) : List Entry → Nat → Option (Nat × Entry)
  | [], _ => none
  | e :: rest, i => if e.host == host && isPrefix e.pfx S then some (i, e) else findEntry host S rest (i + 1)

def witnessRoute (home : Bool) (j : Nat) (R : List Bytes) (tr : Bool) : Option Outcome :=
  let root := RootId.wit j
  match R, tr with
  | [], _ => none                                   -- "/p" or "/p/": no witness pattern
  | [w], false =>
    if w = ascii "witness.v0.json" then some (.file root [w] false .witnessJSON jsonHdrs)
    else some .redirect                             -- "/p/x" → "/p/x/" ({origin}/ matches exactly)
  | [m, x], false =>
    if m = ascii "mirror" then
      if x = ascii "mirror.v0.json" then some (.file root [m, x] false .mirrorJSON jsonHdrs)
      else some .redirect                           -- "/p/mirror/x" → "/p/mirror/x/" ("mirror/{origin}/" matches exactly)
    else some (logMux home root [m] [x] false)      -- {origin} = m
  | m :: o :: R', tr =>
    if m = ascii "mirror" then some (logMux home root [m, o] R' tr)
    else some (logMux home root [m] (o :: R') tr)
  | [o], true => some (logMux home root [o] [] true)

def hostless (home : Bool) (S : List Bytes) (tr : Bool) : Outcome :=
  match S, tr with
  | [], _ => if home then .redirect else .notFound
  | [x], false =>
    if x = ascii "metrics" then .special "metrics"
    else if x = ascii "health" then .special "health"
    else if x = ascii "logs.json" then .special "logs.json"
    else .notFound
  | _, _ => .notFound

def routeSegs (c : Cfg) (host : Bytes) (S : List Bytes) (tr : Bool) : Outcome :=
  match findEntry host S c.logs 0 with
  | some (i, e) =>
    let R := S.drop e.pfx.length
    if R.isEmpty && !tr && !e.pfx.isEmpty then .redirect      -- "/p" → "/p/"
    else logMux c.home (.log i) [] R tr
  | none =>
    match findEntry host S c.wits 0 with
    | some (j, e) =>
      match witnessRoute c.home j (S.drop e.pfx.length) tr with
      | some o => o
      | none => hostless c.home S tr
    | none => hostless c.home S tr

/-- a GET request as the server sees it -/
def route (c : Cfg) (host path : Bytes) : Outcome :=
  if cleanPath path ≠ path then .redirect
  else routeSegs c host (cleanParts path).1 (cleanParts path).2

/-! ## the file server's answer -/

/-- what opening a name under the `os.Root` gives: a regular file; nothing (also: a directory, which
`filesOnlyFS` hides); or an error other than "does not exist" (a path through a regular file, a
symbolic link leaving the root: the file server answers 500) -/
inductive FileState where
  | regular | absent | refused
deriving DecidableEq, Repr

inductive Response where
  | ok (root : RootId) (file : Bytes) (hdrs : Hdrs)   -- 200: the bytes of that regular file
  | moved                                              -- 301 / 302
  | notFound                                           -- 404: text/plain, no Content-Encoding, no Cache-Control
  | error                                              -- 500
  | special (name : String)
deriving DecidableEq, Repr

/-- `http.FileServerFS(filesOnlyFS{root.FS()})` -/
def respond (look : RootId → Bytes → FileState) : Outcome → Response
  | .file root rel tr _ hdrs =>
    if rel.getLast? = some (ascii "index.html") ∧ !tr then .moved        -- "…/index.html" → "./"
    else match look root (relPath rel) with
      | .regular => if tr then .moved else .ok root (relPath rel) hdrs
      | .absent => .notFound
      | .refused => .error
  | .redirect => .moved
  | .notFound => .notFound
  | .special n => .special n

end Skylight.Route
