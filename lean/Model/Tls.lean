import Model.Codec
/-!
An independent encoder for the TLS presentation language (RFC 5246 §4), written from the RFC without
using `Codec.enc` / `Codec.toBE`, and the RFC 6962 §3.4 `MerkleTreeLeaf` of a log entry as a value of it.
`Props/C10.lean` proves that sunlight's `MerkleTreeLeaf()` bytes equal this encoding. Core Lean only.
-/
namespace Tls

inductive Val where
  | uint (bytes : Nat) (v : Nat)              -- uintN, enums
  | opaqueFixed (bs : Bytes)                  -- opaque x[n]
  | opaqueVar (lenBytes : Nat) (bs : Bytes)   -- opaque x<0..2^(8·lenBytes)-1>
  | struct (fields : List Val)

/-- big-endian by repeated division, least significant byte last -/
def beBytes : Nat → Nat → Bytes
  | 0, _ => []
  | k+1, v => beBytes k (v / 256) ++ [UInt8.ofNat (v % 256)]

mutual
def Val.encode : Val → Bytes
  | .uint k v => beBytes k v
  | .opaqueFixed bs => bs
  | .opaqueVar k bs => beBytes k bs.length ++ bs
  | .struct fs => encodeAll fs
def encodeAll : List Val → Bytes
  | [] => []
  | f :: fs => f.encode ++ encodeAll fs
end

end Tls

namespace Codec
open Tls

/-- static-ct-api CTExtensions: a vector of `Extension { ExtensionType(1); opaque extension_data<0..2^16-1> }`;
a leaf_index extension (type 0) carrying a uint40, or nothing for archival RFC 6962 leaves -/
def ctExtensions (e : LogEntry) : Bytes :=
  if e.archival then [] else (Val.struct [.uint 1 0, .opaqueVar 2 (beBytes 5 e.leafIndex.toNat)]).encode

/-- RFC 6962 §3.4 -/
def MerkleTreeLeaf.ofEntry (e : LogEntry) : Val :=
  .struct [
    .uint 1 0,                                   -- Version version = v1(0)
    .uint 1 0,                                   -- MerkleLeafType leaf_type = timestamped_entry(0)
    .struct [                                    -- TimestampedEntry
      .uint 8 (u64 e.timestamp),                 --   uint64 timestamp
      .uint 2 (if e.isPrecert then 1 else 0),    --   LogEntryType entry_type: x509_entry(0), precert_entry(1)
      (if e.isPrecert then
        .struct [.opaqueFixed e.issuerKeyHash,   --   PreCert: opaque issuer_key_hash[32]
                 .opaqueVar 3 e.certificate]     --            TBSCertificate<1..2^24-1>
       else .opaqueVar 3 e.certificate),         --   ASN.1Cert<1..2^24-1>
      .opaqueVar 2 (ctExtensions e) ] ]          --   CtExtensions extensions<0..2^16-1>

end Codec
