import Model.Merkle
/-! More of the Merkle library (DESIGN.md §6.1): the subtree side of torchwood (`subtree.go`:
`ValidSubtree`, `SubtreeHash`, `runSubtreeProof`, `CheckSubtree`), the inclusion-proof runner of
tlog (`runRecordProof`, `CheckRecord`), the reference provers (`proveTree`, `proveSubtree`,
`proveRecord`: what `tlog.ProveTree`, `torchwood.ProveSubtree`, `tlog.ProveRecord` compute, stated
directly over the leaf list) and the collision-freeness hypotheses. Core only; the theorems are in
`Proofs/MerkleMore.lean`.

As in `Model/Merkle.lean`, every proof list is taken in REVERSE order (last hash of the Go slice
first) so that the recursion of the runners is structural: the Go code consumes `p[len(p)-1]`. -/
namespace Merkle

variable {H : Type} (node : H → H → H) (empty : H)

/-! ### collision-freeness hypotheses (DESIGN.md §5: explicit hypotheses, never axioms) -/

/-- What "SHA-256 is collision free" means for RFC 6962 trees whose leaves satisfy `isLeaf`
(for CT: `isLeaf x := ∃ data, x = SHA256(0x00 ‖ data)`): interior hashing is injective, and the
three kinds of tree hash (the empty tree, a leaf, an interior node) are never confused. Only
`node_inj` is needed to compare trees of the *same* size (`mth_inj`); the separation clauses are
what it takes for trees of different shapes (`mth_inj_of_collisionFree`). -/
structure CollisionFree (isLeaf : H → Prop) : Prop where
  node_inj : NodeInj node
  leaf_ne_node : ∀ x a b, isLeaf x → x ≠ node a b
  empty_ne_node : ∀ a b, empty ≠ node a b
  leaf_ne_empty : ∀ x, isLeaf x → x ≠ empty

/-! ### torchwood.ValidSubtree -/

/-- `maxN = 1 << 62` -/
def maxN : Nat := 2 ^ 62

/-- `bits.Len64(x)` for x < 2^64: the number of bits needed to write x -/
def bitsLen (x : Nat) : Nat := if x = 0 then 0 else x.log2 + 1

/-- `bitCeil(n) = 1 << bits.Len64(uint64(n-1))`, for 1 ≤ n ≤ 2^62 -/
def bitCeil (n : Nat) : Nat := 2 ^ bitsLen (n - 1)

/-- `torchwood.ValidSubtree(start, end)` for non-negative arguments (the handler has already
refused negative ones; the int64 subtraction cannot overflow for 0 ≤ start, end < 2^63). -/
def validSubtree (s e : Nat) : Bool :=
  if e ≤ s ∨ e - s > maxN then false
  else s &&& (bitCeil (e - s) - 1) == 0

/-- `torchwood.SubtreeHash(start, end, r)` where `r` serves the tree over the leaf list `B`:
tlog's `subTreeHash(lo, hi)` is the RFC 6962 hash of the leaves `[lo, hi)`. -/
def subtreeHash (B : List H) (s e : Nat) : H := mth node empty (rng B s e)

/-! ### torchwood.runSubtreeProof / CheckSubtree -/

/-- `runSubtreeProof(p, lo, hi, start, end, b, sh)`, proof reversed. `none` is `errProofFailed`
(or one of the "bad math" panics, which `checkSubtree`'s guards make unreachable: the arithmetic is
`straddle_start` / `align_right` in `Proofs/MerkleMore.lean`, used by `checkSubtree_complete`). The pair is (implied subtree hash, implied hash
of the node with leaves `[lo, hi)`). -/
def runSubtreeProof : List H → (lo hi s e : Nat) → (b : Bool) → (sh : H) → Option (H × H)
  | [], lo, hi, s, e, b, sh =>
    if lo = s ∧ hi = e ∧ b = true then some (sh, sh) else none
  | x :: rest, lo, hi, s, e, b, sh =>
    if ¬ (lo ≤ s ∧ s < e ∧ e ≤ hi) then none            -- panic("bad math")
    else if lo = s ∧ hi = e then
      if b then none else (if rest = [] then some (x, x) else none)
    else
      let k := split (hi - lo)
      if e ≤ lo + k then                                  -- subtree in the left child
        match runSubtreeProof rest lo (lo + k) s e b sh with
        | some (sh2, nh) => some (sh2, node nh x)
        | none => none
      else if lo + k ≤ s then                             -- subtree in the right child
        match runSubtreeProof rest (lo + k) hi s e b sh with
        | some (sh2, nh) => some (sh2, node x nh)
        | none => none
      else if s ≠ lo then none                            -- panic("bad math")
      else                                                -- subtree straddles the split
        match runSubtreeProof rest (lo + k) hi (lo + k) e false sh with
        | some (sh2, nh) => some (node x sh2, node x nh)
        | none => none

/-- `torchwood.CheckSubtree(p, t, th, start, end, sh)` (proof reversed) -/
def checkSubtree [DecidableEq H] (p : List H) (t : Nat) (th : H) (s e : Nat) (sh : H) : Bool :=
  if t > maxN ∨ e > t ∨ validSubtree s e = false then false else
  match runSubtreeProof node p 0 t s e true sh with
  | some (sh2, th2) => decide (sh2 = sh ∧ th2 = th)
  | none => false

/-! ### tlog.runRecordProof / CheckRecord -/

/-- `runRecordProof(p, lo, hi, n, leafHash)`, proof reversed -/
def runRecordProof : List H → (lo hi n : Nat) → (leaf : H) → Option H
  | [], lo, hi, _, leaf => if lo + 1 = hi then some leaf else none
  | x :: rest, lo, hi, n, leaf =>
    if ¬ (lo ≤ n ∧ n < hi) then none                     -- panic("bad math")
    else if lo + 1 = hi then none
    else
      let k := split (hi - lo)
      if n < lo + k then
        match runRecordProof rest lo (lo + k) n leaf with
        | some th => some (node th x)
        | none => none
      else
        match runRecordProof rest (lo + k) hi n leaf with
        | some th => some (node x th)
        | none => none

/-- `tlog.CheckRecord(p, t, th, n, h)` (proof reversed) -/
def checkRecord [DecidableEq H] (p : List H) (t : Nat) (th : H) (n : Nat) (h : H) : Bool :=
  if n ≥ t then false else
  match runRecordProof node p 0 t n h with
  | some th2 => decide (th2 = th)
  | none => false

/-! ### reference provers over a leaf list (what the Go provers compute; proofs in REVERSE order)

Fuel is the height budget; `hi - lo` (at most the list length) always suffices. -/

/-- `tlog.treeProof(lo, hi, n)`: consistency proof that `[lo,hi)` extends `[lo,n)`, reversed -/
def treeProofAux (B : List H) : Nat → (lo hi n : Nat) → List H
  | 0, _, _, _ => []
  | fuel + 1, lo, hi, n =>
    if n = hi then (if lo = 0 then [] else [mth node empty (rng B lo hi)])
    else
      let k := split (hi - lo)
      if n ≤ lo + k then mth node empty (rng B (lo + k) hi) :: treeProofAux B fuel lo (lo + k) n
      else mth node empty (rng B lo (lo + k)) :: treeProofAux B fuel (lo + k) hi n

/-- `tlog.ProveTree(t, n, r)` over the leaves `B.take t`, reversed -/
def proveTree (B : List H) (t n : Nat) : List H := treeProofAux node empty B (t + 1) 0 t n

/-- `torchwood.subtreeProof(lo, hi, start, end, b)`, reversed -/
def subtreeProofAux (B : List H) : Nat → (lo hi s e : Nat) → Bool → List H
  | 0, _, _, _, _, _ => []
  | fuel + 1, lo, hi, s, e, b =>
    if lo = s ∧ hi = e then (if b then [] else [mth node empty (rng B lo hi)])
    else
      let k := split (hi - lo)
      if e ≤ lo + k then mth node empty (rng B (lo + k) hi) :: subtreeProofAux B fuel lo (lo + k) s e b
      else if lo + k ≤ s then mth node empty (rng B lo (lo + k)) :: subtreeProofAux B fuel (lo + k) hi s e b
      else mth node empty (rng B lo (lo + k)) :: subtreeProofAux B fuel (lo + k) hi (lo + k) e false

/-- `torchwood.ProveSubtree(t, start, end, r)`, reversed -/
def proveSubtree (B : List H) (t s e : Nat) : List H := subtreeProofAux node empty B (t + 1) 0 t s e true

/-- `tlog.leafProof(lo, hi, n)`, reversed -/
def recordProofAux (B : List H) : Nat → (lo hi n : Nat) → List H
  | 0, _, _, _ => []
  | fuel + 1, lo, hi, n =>
    if lo + 1 = hi then []
    else
      let k := split (hi - lo)
      if n < lo + k then mth node empty (rng B (lo + k) hi) :: recordProofAux B fuel lo (lo + k) n
      else mth node empty (rng B lo (lo + k)) :: recordProofAux B fuel (lo + k) hi n

/-- `tlog.ProveRecord(t, n, r)`, reversed -/
def proveRecord (B : List H) (t n : Nat) : List H := recordProofAux node empty B (t + 1) 0 t n

end Merkle
