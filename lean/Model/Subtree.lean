import Model.Witness
/-!
# The witness' sign-subtree endpoint (C16). Core Lean only.

`processSignSubtreeRequest` of `internal/witness/witness.go` as a program (`program`: the
source-order list of tests with the error each returns) followed by the signing loop (`signAll`).
`signSubtree` is what `Props/C16.lean` is about, what `Driver/Subtree.lean` runs against the real
handler, and `listing` is what `Tie/C16.lean` compares with the regenerated source facts.

Same idealisations as `Model/Witness.lean`: symbolic signatures, notes at the level of parsed
signature lines, SHA-256 as the parameter `node`. The endpoint is stateless.
-/
namespace Subtree
open Checkpoint Witness

inductive BodyForm where
  | ok
  | noSeparator      -- no "\n\n"
  | fewLines         -- fewer than two lines before the blank line
  | noPrefix         -- first line does not start with "subtree "
  | noSpace          -- no space between start and end
  | badStart | badEnd   -- not canonical non-negative int64
  | badHash          -- second line is not a base64 hash
  | badProofHash     -- a proof line is not a base64 hash
deriving DecidableEq, Repr

structure SubReq where
  body : BodyForm
  start : Nat
  stop : Nat
  hash : Hash
  proof : List Hash          -- wire order
  note : NoteForm
deriving Repr

/-- `subtreeCosignedMessage(name, t, origin, start, end, hash)` (torchwood): label, u8-prefixed
cosigner name, timestamp, u8-prefixed origin, start, end, hash; `none` when a name or origin is not
1..255 bytes, or a number does not fit -/
def subtreeMessage (name : Bytes) (t : Nat) (origin : Bytes) (s e : Nat) (hash : Bytes) : Option Bytes :=
  if name.length = 0 ∨ name.length > 255 ∨ origin.length = 0 ∨ origin.length > 255 ∨
      t ≥ 2 ^ 63 ∨ s ≥ 2 ^ 63 ∨ e ≥ 2 ^ 63 ∨ hash.length ≠ 32 ∨ (t ≠ 0 ∧ s ≠ 0) then none
  else some (TilePath.ascii "subtree/v1\n" ++ [0] ++ Codec.toBE 1 name.length ++ name ++ Codec.toBE 8 t ++
    Codec.toBE 1 origin.length ++ origin ++ Codec.toBE 8 s ++ Codec.toBE 8 e ++ hash)

/-- the verifiers `note.Open` is given: `w.s2.Verifier()` and, when configured, `w.sm.Verifier()` -/
def ownKeys (cfg : Cfg) : List VKey := cfg.k2 :: cfg.mirror.toList

structure Env where
  cfg : Cfg
  req : SubReq

def Env.origin (e : Env) : Bytes := e.req.note.originLine

/-- `note.Open(noteBytes, note.VerifierList(verifiers...))` -/
def Env.opened (e : Env) : Except OpenErr (List SigLine) :=
  match e.req.note with
  | .wellformed n => noteOpen ((ownKeys e.cfg).map VKey.verifier) n
  | .truncated n =>
    match openLoop ((ownKeys e.cfg).map VKey.verifier) n.text n.sigs 0 [] [] with
    | .error err => .error err
    | .ok _ => .error .malformed
  | .malformed _ => .error .malformed

def Env.text (e : Env) : Bytes :=
  match e.req.note with
  | .wellformed n | .truncated n => n.text
  | .malformed _ => []

def Env.lines (e : Env) : List SigLine :=
  match e.req.note with
  | .wellformed n | .truncated n => n.sigs
  | .malformed _ => []

def Env.ckpt (e : Env) : Option Checkpoint := parseCheckpoint e.text

inductive Guard where
  | bodyCut | fewLines | subtreePrefix | space | startNum | endNum | validRange | hashParse | proofHashes
  | knownOrigin | noteSig | noteOther | parseCkpt | originCoherent | noExtension | endWithin | subtreeProof
deriving DecidableEq, Repr

structure Step where
  guard : Guard
  err : ErrClass
deriving DecidableEq, Repr

/-- processSignSubtreeRequest up to the signing loop, in source order -/
def program : List Step :=
  [⟨.bodyCut, .badRequest⟩, ⟨.fewLines, .badRequest⟩, ⟨.subtreePrefix, .badRequest⟩, ⟨.space, .badRequest⟩,
   ⟨.startNum, .badRequest⟩, ⟨.endNum, .badRequest⟩, ⟨.validRange, .badRequest⟩, ⟨.hashParse, .badRequest⟩,
   ⟨.proofHashes, .badRequest⟩, ⟨.knownOrigin, .unknownLog⟩, ⟨.noteSig, .invalidSignature⟩,
   ⟨.noteOther, .badRequest⟩, ⟨.parseCkpt, .badCheckpoint⟩, ⟨.originCoherent, .internal⟩,
   ⟨.noExtension, .extensions⟩, ⟨.endWithin, .badRequest⟩, ⟨.subtreeProof, .proof⟩]

section
variable (node : Hash → Hash → Hash)

def holds (g : Guard) (e : Env) : Bool :=
  match g with
  | .bodyCut => e.req.body != .noSeparator
  | .fewLines => e.req.body != .fewLines
  | .subtreePrefix => e.req.body != .noPrefix
  | .space => e.req.body != .noSpace
  | .startNum => e.req.body != .badStart
  | .endNum => e.req.body != .badEnd
  | .validRange => Merkle.validSubtree e.req.start e.req.stop
  | .hashParse => e.req.body != .badHash
  | .proofHashes => e.req.body != .badProofHash
  | .knownOrigin => (e.cfg.find e.origin).isSome
  | .noteSig => match e.opened with
    | .error .unverified | .error .invalidSignature => false
    | _ => true
  | .noteOther => match e.opened with
    | .ok _ => true
    | .error _ => false
  | .parseCkpt => e.ckpt.isSome
  | .originCoherent => match e.ckpt with
    | some c => c.origin == e.origin
    | none => false
  | .noExtension => match e.ckpt with
    | some c => c.ext == []
    | none => false
  | .endWithin => match e.ckpt with
    | some c => decide (e.req.stop ≤ c.n.toNat)
    | none => false
  | .subtreeProof => match e.ckpt with
    | some c => Merkle.checkSubtree node e.req.proof.reverse c.n.toNat c.hash e.req.start e.req.stop e.req.hash
    | none => false

def firstFail : List Step → Env → Option ErrClass
  | [], _ => none
  | s :: rest, e => if holds node s.guard e then firstFail rest e else some s.err

end

/-- the `for _, sig := range n.Sigs` loop: one signer per verified signature that carries the
name and key hash of `w.s2`, resp. of `w.sm` -/
def signersOf (cfg : Cfg) (verified : List SigLine) : List VKey :=
  verified.flatMap fun sig =>
    (if cfg.k2.matches sig then [cfg.k2] else []) ++
    (match cfg.mirror with
     | some m => if m.matches sig then [m] else []
     | none => [])

/-- the safety check of the signing loop: the signature lines of the submitted note that start
with the signer's name, over the RE-SERIALISED checkpoint, opened with that signer's verifier only -/
def reverify (k : VKey) (c : Checkpoint) (lines : List SigLine) : Bool :=
  match noteOpen [k.verifier] { text := formatCheckpoint c, sigs := lines.filter fun l => l.name == k.name } with
  | .ok _ => true
  | .error _ => false

/-- `s.SignSubtree(c.Origin, start, end, subtreeHash)`: a note signature line with timestamp 0 -/
def signLine (k : VKey) (origin : Bytes) (s e : Nat) (hash : Hash) : Option SigLine :=
  if Merkle.validSubtree s e = false then none else
  match subtreeMessage k.name 0 origin s e hash with
  | some m => some { name := k.name, hash := k.hash, sig := symSig k.key m }
  | none => none

/-- the signing loop; `none`: one of the internal errors (nothing is returned at all) -/
def signAll (c : Checkpoint) (lines : List SigLine) (s e : Nat) (hash : Hash) : List VKey → Option (List SigLine)
  | [] => some []
  | k :: rest =>
    if reverify k c lines then
      match signLine k c.origin s e hash with
      | some l => (signAll c lines s e hash rest).map (l :: ·)
      | none => none
    else none

section
variable (node : Hash → Hash → Hash)

/-- one sign-subtree request -/
def signSubtree (e : Env) : Resp :=
  match firstFail node program e with
  | some c => .err c 0
  | none =>
    match e.opened, e.ckpt with
    | .ok verified, some c =>
      match signAll c e.lines e.req.start e.req.stop e.req.hash (signersOf e.cfg verified) with
      | some sigs => .ok sigs
      | none => .err .internal 0
    | _, _ => .err .internal 0

end

/-! ## the listing of the source that the program stands for (tied in `Tie/C16.lean`) -/

def Guard.lines : Guard → ErrClass → List String
  | .bodyCut, c =>
    ["body, noteBytes, ok := bytes.Cut(body, []byte(\"\\n\\n\"))", s!"if !ok => return nil, {c.goName}"]
  | .fewLines, c =>
    ["lines := strings.Split(string(body), \"\\n\")", s!"if len(lines) < 2 => return nil, {c.goName}"]
  | .subtreePrefix, c =>
    ["startEnd, ok := strings.CutPrefix(lines[0], \"subtree \")", s!"if !ok => return nil, {c.goName}"]
  | .space, c =>
    ["startString, endString, ok := strings.Cut(startEnd, \" \")", s!"if !ok => return nil, {c.goName}"]
  | .startNum, c =>
    ["start, err := strconv.ParseInt(startString, 10, 64)",
     s!"if err != nil || start < 0 || startString != strconv.FormatInt(start, 10) => return nil, {c.goName}"]
  | .endNum, c =>
    ["end, err := strconv.ParseInt(endString, 10, 64)",
     s!"if err != nil || end < 0 || endString != strconv.FormatInt(end, 10) => return nil, {c.goName}"]
  | .validRange, c => [s!"if !torchwood.ValidSubtree(start, end) => return nil, {c.goName}"]
  | .hashParse, c => ["subtreeHash, err := tlog.ParseHash(lines[1])", s!"if err != nil => return nil, {c.goName}"]
  | .proofHashes, c =>
    ["proof := make(torchwood.SubtreeProof, len(lines[2:]))", "for i, h := range lines[2:] {",
     "  proof[i], err = tlog.ParseHash(h)", s!"  if err != nil => return nil, {c.goName}", "}"]
  | .knownOrigin, c =>
    ["origin, _, _ := strings.Cut(string(noteBytes), \"\\n\")",
     s!"if _, ok := w.metaForOrigin(origin); !ok => return nil, {c.goName}"]
  | .noteSig, c =>
    ["verifiers := []note.Verifier{w.s2.Verifier()}", "if w.sm != nil {",
     "  verifiers = append(verifiers, w.sm.Verifier())", "}",
     "n, err := note.Open(noteBytes, note.VerifierList(verifiers...))", "switch err.(type) {",
     s!"  case *note.UnverifiedNoteError, *note.InvalidSignatureError => return nil, {c.goName}", "}"]
  | .noteOther, c => [s!"if err != nil => return nil, {c.goName}"]
  | .parseCkpt, c => ["c, err := torchwood.ParseCheckpoint(n.Text)", s!"if err != nil => return nil, {c.goName}"]
  | .originCoherent, c => [s!"if origin != c.Origin => return nil, {c.goName}"]
  | .noExtension, c => [s!"if c.Extension != \"\" => return nil, {c.goName}"]
  | .endWithin, c => [s!"if c.N < end => return nil, {c.goName}"]
  | .subtreeProof, c =>
    [s!"if torchwood.CheckSubtree(proof, c.N, c.Hash, start, end, subtreeHash) != nil => return nil, {c.goName}"]

def Step.render (s : Step) : List String := s.guard.lines s.err

/-- the signing part (`signersOf`, `reverify`, `signLine`, `signAll`) -/
def listingLoop : List String :=
  ["var signers []*torchwood.CosignatureSigner", "for _, sig := range n.Sigs {",
   "  if w.s2.Name() == sig.Name && w.s2.KeyHash() == sig.Hash {", "    signers = append(signers, w.s2)", "  }",
   "  if w.sm != nil && w.sm.Name() == sig.Name && w.sm.KeyHash() == sig.Hash {",
   "    signers = append(signers, w.sm)", "  }", "}",
   "var sigs []byte", "for _, s := range signers {",
   "  noteSigs, err := splitSignatures(noteBytes, s.Name())",
   s!"  if err != nil => return nil, {ErrClass.internal.goName}",
   "  n := []byte(c.String())", "  n = append(n, []byte(\"\\n\")...)", "  n = append(n, noteSigs...)",
   s!"  if _, err := note.Open(n, note.VerifierList(s.Verifier())); err != nil => return nil, {ErrClass.internal.goName}",
   "  sig, err := s.SignSubtree(c.Origin, start, end, subtreeHash)",
   s!"  if err != nil => return nil, {ErrClass.internal.goName}",
   "  sigs = append(sigs, sig...)", "}", "return sigs, nil"]

def listing : List String := program.flatMap Step.render ++ listingLoop

def listingServe : List String :=
  ["rw.Header().Set(\"Access-Control-Allow-Origin\", \"*\")",
   "if r.Method == http.MethodOptions => rw.Header().Set(\"Access-Control-Allow-Headers\", \"Content-Type\"); rw.WriteHeader(http.StatusNoContent); return ",
   "body, err := io.ReadAll(r.Body)",
   s!"if err != nil => w.c.Log.DebugContext(r.Context(), \"error reading request body\", \"error\", err); http.Error(rw, err.Error(), {goStatus 500}); return ",
   "cosig, err := w.processSignSubtreeRequest(r.Context(), body)"]
  ++ listingSwitch ++
  ["if _, err := rw.Write(cosig); err != nil {",
   "  w.c.Log.DebugContext(r.Context(), \"error writing response\", \"error\", err)", "}"]

end Subtree
