/-! SHA-256 (FIPS 180-4), core Lean only. Used only to *execute* the model
byte-exactly in the driver; every theorem treats hashing abstractly. -/
namespace Sha256

def K : Array UInt32 := #[
  0x428a2f98, 0x71374491, 0xb5c0fbcf, 0xe9b5dba5, 0x3956c25b, 0x59f111f1, 0x923f82a4, 0xab1c5ed5,
  0xd807aa98, 0x12835b01, 0x243185be, 0x550c7dc3, 0x72be5d74, 0x80deb1fe, 0x9bdc06a7, 0xc19bf174,
  0xe49b69c1, 0xefbe4786, 0x0fc19dc6, 0x240ca1cc, 0x2de92c6f, 0x4a7484aa, 0x5cb0a9dc, 0x76f988da,
  0x983e5152, 0xa831c66d, 0xb00327c8, 0xbf597fc7, 0xc6e00bf3, 0xd5a79147, 0x06ca6351, 0x14292967,
  0x27b70a85, 0x2e1b2138, 0x4d2c6dfc, 0x53380d13, 0x650a7354, 0x766a0abb, 0x81c2c92e, 0x92722c85,
  0xa2bfe8a1, 0xa81a664b, 0xc24b8b70, 0xc76c51a3, 0xd192e819, 0xd6990624, 0xf40e3585, 0x106aa070,
  0x19a4c116, 0x1e376c08, 0x2748774c, 0x34b0bcb5, 0x391c0cb3, 0x4ed8aa4a, 0x5b9cca4f, 0x682e6ff3,
  0x748f82ee, 0x78a5636f, 0x84c87814, 0x8cc70208, 0x90befffa, 0xa4506ceb, 0xbef9a3f7, 0xc67178f2]

@[inline] def rotr (x : UInt32) (n : UInt32) : UInt32 := (x >>> n) ||| (x <<< (32 - n))

structure St where
  a : UInt32
  b : UInt32
  c : UInt32
  d : UInt32
  e : UInt32
  f : UInt32
  g : UInt32
  h : UInt32

def initSt : St := ⟨0x6a09e667, 0xbb67ae85, 0x3c6ef372, 0xa54ff53a, 0x510e527f, 0x9b05688c, 0x1f83d9ab, 0x5be0cd19⟩

@[inline] def be32 (b : ByteArray) (i : Nat) : UInt32 :=
  ((b.get! i).toUInt32 <<< 24) ||| ((b.get! (i+1)).toUInt32 <<< 16) |||
  ((b.get! (i+2)).toUInt32 <<< 8) ||| (b.get! (i+3)).toUInt32

def schedule (blk : ByteArray) (off : Nat) : Array UInt32 := Id.run do
  let mut w : Array UInt32 := Array.mkEmpty 64
  for i in [0:16] do
    w := w.push (be32 blk (off + 4*i))
  for i in [16:64] do
    let w15 := w[i-15]!
    let w2 := w[i-2]!
    let s0 := rotr w15 7 ^^^ rotr w15 18 ^^^ (w15 >>> 3)
    let s1 := rotr w2 17 ^^^ rotr w2 19 ^^^ (w2 >>> 10)
    w := w.push (w[i-16]! + s0 + w[i-7]! + s1)
  return w

def compress (st : St) (blk : ByteArray) (off : Nat) : St := Id.run do
  let w := schedule blk off
  let mut a := st.a
  let mut b := st.b
  let mut c := st.c
  let mut d := st.d
  let mut e := st.e
  let mut f := st.f
  let mut g := st.g
  let mut h := st.h
  for i in [0:64] do
    let s1 := rotr e 6 ^^^ rotr e 11 ^^^ rotr e 25
    let ch := (e &&& f) ^^^ ((~~~ e) &&& g)
    let t1 := h + s1 + ch + K[i]! + w[i]!
    let s0 := rotr a 2 ^^^ rotr a 13 ^^^ rotr a 22
    let mj := (a &&& b) ^^^ (a &&& c) ^^^ (b &&& c)
    let t2 := s0 + mj
    h := g; g := f; f := e; e := d + t1
    d := c; c := b; b := a; a := t1 + t2
  return ⟨st.a + a, st.b + b, st.c + c, st.d + d, st.e + e, st.f + f, st.g + g, st.h + h⟩

def pad (msg : ByteArray) : ByteArray := Id.run do
  let len := msg.size
  let mut m := msg.push 0x80
  while m.size % 64 != 56 do
    m := m.push 0
  let bits : UInt64 := (UInt64.ofNat len) * 8
  for i in [0:8] do
    m := m.push ((bits >>> (UInt64.ofNat (56 - 8*i))).toUInt8)
  return m

@[inline] def push32 (o : ByteArray) (x : UInt32) : ByteArray :=
  (((o.push (x >>> 24).toUInt8).push (x >>> 16).toUInt8).push (x >>> 8).toUInt8).push x.toUInt8

def hash (msg : ByteArray) : ByteArray := Id.run do
  let m := pad msg
  let mut st := initSt
  for i in [0:m.size/64] do
    st := compress st m (64*i)
  let mut o := ByteArray.emptyWithCapacity 32
  o := push32 o st.a; o := push32 o st.b; o := push32 o st.c; o := push32 o st.d
  o := push32 o st.e; o := push32 o st.f; o := push32 o st.g; o := push32 o st.h
  return o

end Sha256
