import Model.Mirror
/-! The listing of the add-entries functions of `internal/witness/witness.go` that the model of
`Model/Mirror.lean` stands for (compared with the regenerated source facts in `Tie/C15.lean`).

Lines are rendered from the model's own tables wherever the model has one: the error class of every
guard and its Go name (`EClass.goName`), the status the handler maps it to (`EClass.status` via
`goStatus`), the message of the framing errors (`EClass.msg`), the two mirror-info statuses the model
passes to `conflict` (`stConflict`, `stAccepted`), the constants `tileWidth`, `windowTiles`,
`maxProofHashes`. The rest of each line is the statement the corresponding model definition was
written from, in source order; a change of a guard, of an argument, of the order of effects or of an
error class changes the regenerated fact and breaks the tie. -/
namespace Mirror

def goStatus : Nat → String
  | 404 => "http.StatusNotFound"
  | 403 => "http.StatusForbidden"
  | 400 => "http.StatusBadRequest"
  | 415 => "http.StatusUnsupportedMediaType"
  | 422 => "http.StatusUnprocessableEntity"
  | 409 => "http.StatusConflict"
  | 202 => "http.StatusAccepted"
  | 500 => "http.StatusInternalServerError"
  | _ => "?"

/-- the package-level error value (or `internal` for an inline `fmtErrorf`) a class is returned as -/
def EClass.goName : EClass → String
  | .unknownLog => "errUnknownLog"
  | .noPending => "errNoPendingCheckpoint"
  | .notMirrored => "errNotMirrored"
  | .missingBody => "errMissingBody"
  | .badRequest => "errBadRequest"
  | .invalidProof => "errInvalidProof"
  | _ => "internal"

/-- the message of the framing errors of `serveAddEntries` -/
def EClass.msg : EClass → String
  | .ctype => "invalid content type"
  | .gzip => "failed to create gzip reader"
  | .noOrigin => "failed to read origin"
  | .noStart => "failed to read upload start"
  | .noEnd => "failed to read upload end"
  | .endLtStart => "upload end must be >= upload start"
  | .noTicket => "failed to read ticket"
  | _ => "?"

def W : String := toString tileWidth

/-- `httpError("<msg>", <status>); return ` of a framing error class -/
def hdrFail (c : EClass) : String := s!"httpError(\"{c.msg}\", {goStatus c.status}); return "

/-- `http.Error(rw, err.Error(), <status>); return ` -/
def errFail (c : EClass) : String := s!"http.Error(rw, err.Error(), {goStatus c.status}); return "

def listing_serveAddEntries : List String := [
  "httpError := func(error string, code int) { labels[\"error\"] = error http.Error(rw, error, code) }",
  s!"if r.Header.Get(\"Content-Type\") != \"application/octet-stream\" => {hdrFail .ctype}",
  "rc := http.NewResponseController(rw)",
  "if err := rc.SetReadDeadline(time.Now().Add(addEntriesTimeout)); err != nil {",
  "  w.c.Log.DebugContext(r.Context(), \"failed to set read deadline\", \"error\", err)",
  "}",
  "if err := rc.SetWriteDeadline(time.Now().Add(addEntriesTimeout + 15*time.Second)); err != nil {",
  "  w.c.Log.DebugContext(r.Context(), \"failed to set write deadline\", \"error\", err)",
  "}",
  "ctx, cancel := context.WithTimeout(r.Context(), addEntriesTimeout)",
  "defer cancel()",
  "rw.Header().Set(\"Accept-Encoding\", \"gzip\")",
  "body := r.Body",
  "if r.Header.Get(\"Content-Encoding\") == \"gzip\" {",
  "  gz, err := gzip.NewReader(r.Body)",
  s!"  if err != nil => {hdrFail .gzip}",
  "  defer gz.Close()",
  "  body = gz",
  "}",
  "origin, err := readUint16LengthPrefixed(body)",
  s!"if err != nil || len(origin) == 0 => {hdrFail .noOrigin}",
  "uploadStart, err := readUint64(body)",
  s!"if err != nil => {hdrFail .noStart}",
  "uploadEnd, err := readUint64(body)",
  s!"if err != nil => {hdrFail .noEnd}",
  s!"if uploadEnd < uploadStart => {hdrFail .endLtStart}",
  "ticket, err := readUint16LengthPrefixed(body)",
  s!"if err != nil => {hdrFail .noTicket}",
  "pending, err := w.processAddEntriesMetadata(ctx, string(origin), uploadStart, uploadEnd, ticket)",
  "switch err {",
  s!"  case {EClass.unknownLog.goName} => {errFail .unknownLog}",
  s!"  case {EClass.noPending.goName} => {errFail .noPending}",
  s!"  case {EClass.notMirrored.goName} => {errFail .notMirrored}",
  "}",
  "var mirrorConflict *mirrorConflictError",
  s!"if errors.As(err, &mirrorConflict) => httpErrorMirrorInfo(rw, mirrorConflict, {goStatus stConflict}); return ",
  s!"if err != nil => {errFail .internal}",
  "err = w.processAddEntriesPackages(ctx, body, uploadStart, uploadEnd, pending)",
  "switch err {",
  s!"  case {EClass.missingBody.goName}, {EClass.badRequest.goName} => {errFail .missingBody}",
  s!"  case {EClass.invalidProof.goName} => {errFail .invalidProof}",
  "}",
  s!"if errors.As(err, &mirrorConflict) => httpErrorMirrorInfo(rw, mirrorConflict, {goStatus stAccepted}); return ",
  s!"if err != nil => {errFail .internal}",
  "if testingOnlyBeforeAddEntriesCommit != nil {",
  "  testingOnlyBeforeAddEntriesCommit()",
  "}",
  "sigs, err := w.processAddEntriesCommit(ctx, pending)",
  s!"if errors.As(err, &mirrorConflict) => httpErrorMirrorInfo(rw, mirrorConflict, {goStatus stConflict}); return ",
  s!"if err != nil => {errFail .internal}",
  "if _, err := rw.Write(sigs); err != nil {",
  "  w.c.Log.DebugContext(ctx, \"error writing response\", \"error\", err)",
  "}"
]

def listing_httpErrorMirrorInfo : List String := [
  "rw.Header().Set(\"Content-Type\", \"text/x.tlog.mirror-info\")",
  "rw.WriteHeader(code)",
  "fmt.Fprintf(rw, \"%d\\n\", mirrorConflict.pending)",
  "fmt.Fprintf(rw, \"%d\\n\", mirrorConflict.next)",
  "fmt.Fprintf(rw, \"%s\\n\", base64.StdEncoding.EncodeToString(mirrorConflict.ticket))"
]

def listing_processAddEntriesMetadata : List String := [
  "l, ok := w.stateForOrigin(origin)",
  s!"if !ok => return nil, {EClass.unknownLog.goName}",
  s!"if !w.originIsMirrored(origin) || w.sm == nil => return nil, {EClass.notMirrored.goName}",
  "l.mu.Lock()",
  "defer l.mu.Unlock()",
  "pendingCheckpoint, err := l.checkpointLocked(ctx, w)",
  s!"if err != nil => return nil, {EClass.internal.goName}",
  s!"if len(pendingCheckpoint.Bytes) == 0 => return nil, {EClass.noPending.goName}",
  "mirrorCheckpoint, nextEntry, err := l.mirrorCheckpointLocked(ctx, w)",
  s!"if err != nil => return nil, {EClass.internal.goName}",
  s!"if mirrorCheckpoint.N > pendingCheckpoint.N => return nil, {EClass.internal.goName}",
  s!"if mirrorCheckpoint.N > nextEntry => return nil, {EClass.internal.goName}",
  s!"if nextEntry > pendingCheckpoint.N => return nil, {EClass.internal.goName}",
  "if uploadEnd < mirrorCheckpoint.N => return nil, w.mirrorConflict(pendingCheckpoint, nextEntry)",
  "var resolved *parsedCheckpoint",
  "switch  {",
  "  case uploadEnd == pendingCheckpoint.N {",
  "    resolved = pendingCheckpoint",
  "  }",
  "  case len(mirrorCheckpoint.Bytes) != 0 && uploadEnd == mirrorCheckpoint.N {",
  "    resolved = mirrorCheckpoint",
  "  }",
  "  case len(ticket) != 0 {",
  "    ticketCheckpoint, err := w.verifyTicket(origin, ticket)",
  "    if err == nil && uploadEnd == ticketCheckpoint.N {",
  "      resolved = ticketCheckpoint",
  "    }",
  "  }",
  "}",
  "if resolved == nil => return nil, w.mirrorConflict(pendingCheckpoint, nextEntry)",
  "excessEntries := min(uploadEnd, nextEntry) - uploadStart",
  s!"if uploadStart > nextEntry || excessEntries > {windowTiles}*{W} \{",
  "  if nextEntry <= uploadEnd => return nil, w.mirrorConflict(resolved, nextEntry)",
  "  return nil, w.mirrorConflict(pendingCheckpoint, nextEntry)",
  "}",
  "return resolved, nil"
]

def listing_mirrorConflict : List String := [
  "nonce := make([]byte, xaes256gcm.NonceSize, xaes256gcm.NonceSize+len(pending.Bytes)+xaes256gcm.Overhead)",
  "rand.Read(nonce)",
  "ad := make([]byte, 0, 1+len(w.c.MirrorName)+len(pending.Origin))",
  "ad = append(ad, byte(len(w.c.MirrorName)))",
  "ad = append(ad, w.c.MirrorName...)",
  "ad = append(ad, []byte(pending.Origin)...)",
  "ticket := w.ticketAEAD.Seal(nonce, nonce, pending.Bytes, ad)",
  "return &mirrorConflictError{pending: pending.N, next: nextEntry, ticket: ticket}"
]

def listing_mirrorConflictNext : List String := [
  "l, ok := w.stateForOrigin(resolved.Origin)",
  s!"if !ok => return {EClass.internal.goName}",
  "l.mu.Lock()",
  "defer l.mu.Unlock()",
  s!"if l.nextEntry == -1 => return {EClass.internal.goName}",
  "if l.nextEntry <= resolved.N => return w.mirrorConflict(resolved, l.nextEntry)",
  "pending, err := l.checkpointLocked(ctx, w)",
  s!"if err != nil => return {EClass.internal.goName}",
  "return w.mirrorConflict(pending, l.nextEntry)"
]

def listing_verifyTicket : List String := [
  "if len(ticket) < xaes256gcm.NonceSize => return nil, errors.New(\"invalid ticket: too short\")",
  "nonce := ticket[:xaes256gcm.NonceSize]",
  "ciphertext := ticket[xaes256gcm.NonceSize:]",
  "ad := make([]byte, 0, 1+len(w.c.MirrorName)+len(origin))",
  "ad = append(ad, byte(len(w.c.MirrorName)))",
  "ad = append(ad, w.c.MirrorName...)",
  "ad = append(ad, []byte(origin)...)",
  "checkpointBytes, err := w.ticketAEAD.Open(nil, nonce, ciphertext, ad)",
  "if err != nil => return nil, errors.New(\"invalid ticket: decryption failed\")",
  "n, err := note.Open(checkpointBytes, note.VerifierList(w.s2.Verifier()))",
  "if err != nil => return nil, errors.New(\"internal error: can't open ticket checkpoint\")",
  "c, err := torchwood.ParseCheckpoint(n.Text)",
  "if err != nil => return nil, errors.New(\"internal error: can't parse ticket checkpoint\")",
  "if c.Origin != origin => return nil, errors.New(\"internal error: incoherent ticket checkpoint\")",
  "n.UnverifiedSigs = slices.DeleteFunc(n.UnverifiedSigs, func(s note.Signature) bool { return s.Name == w.s1.Name() && s.Hash == w.s1.Verifier().KeyHash() })",
  "return &parsedCheckpoint{ Checkpoint: c, Bytes: checkpointBytes, UnverifiedSigs: n.UnverifiedSigs, }, nil"
]

def listing_processAddEntriesPackages : List String := [
  s!"if uploadEnd != pending.N => return {EClass.internal.goName}",
  "if uploadStart == uploadEnd => return nil",
  s!"roundedStart := uploadStart - (uploadStart % {W})",
  s!"roundedEnd := (uploadEnd + {tileWidth - 1}) / {W} * {W}",
  s!"numPackages := (roundedEnd - roundedStart) / {W}",
  "tilesCache := make(map[tlog.Tile][]byte)",
  "hashReader := torchwood.NewHashReaderOverlay(roundedStart, tlog.HashReaderFunc(func(indexes []int64) ([]tlog.Hash, error) { hashes := make([]tlog.Hash, 0, len(indexes)) for _, id := range indexes { t := tlog.TileForIndex(torchwood.TileHeight, id) roundedStartAtLevel := roundedStart >> (t.H * t.L) t.W = int(min(roundedStartAtLevel-(t.N<<t.H), 256)) data, ok := tilesCache[t] if !ok { key := \"mirror/\" + OriginHash(pending.Origin) + \"/\" + torchwood.TilePath(t) var err error data, err = w.c.Backend.Fetch(ctx, key) if err != nil { return nil, fmt.Errorf(\"failed to fetch tile %q: %w\", key, err) } tilesCache[t] = data } h, err := tlog.HashFromTile(t, data, id) if err != nil { return nil, fmt.Errorf(\"failed to read hash %d from tile: %w\", id, err) } hashes = append(hashes, h) } return hashes, nil }), )",
  "for i := range numPackages {",
  s!"  tileStart := roundedStart + i*{W}",
  "  start := max(uploadStart, tileStart)",
  s!"  end := min(uploadEnd, tileStart+{W})",
  "  if testingOnlyBeforeAddEntriesPackage != nil {",
  "    testingOnlyBeforeAddEntriesPackage(start)",
  "  }",
  "  var entries [][]byte",
  "  entryBytes := w.m.MirrorEntryBytes.WithLabelValues(pending.Origin)",
  "  for range end - start {",
  "    entry, err := readUint16LengthPrefixed(r)",
  "    if err != nil {",
  "      if i == 0 {",
  s!"        return {EClass.missingBody.goName}",
  "      } else {",
  "        return w.mirrorConflictNext(ctx, pending)",
  "      }",
  "    }",
  "    entryBytes.Observe(float64(len(entry)))",
  "    entries = append(entries, entry)",
  "  }",
  "  numHashes, err := readUint8(r)",
  "  if err != nil {",
  "    if i == 0 {",
  s!"      return {EClass.missingBody.goName}",
  "    } else {",
  "      return w.mirrorConflictNext(ctx, pending)",
  "    }",
  "  }",
  s!"  if numHashes > {maxProofHashes} => return {EClass.badRequest.goName}",
  "  var proof []tlog.Hash",
  "  for range numHashes {",
  "    var hash tlog.Hash",
  "    if _, err := io.ReadFull(r, hash[:]); err != nil {",
  "      if i == 0 {",
  s!"        return {EClass.missingBody.goName}",
  "      } else {",
  "        return w.mirrorConflictNext(ctx, pending)",
  "      }",
  "    }",
  "    proof = append(proof, hash)",
  "  }",
  "  if err := w.processAddEntriesPackage(ctx, hashReader, entries, proof, tileStart, end, pending); err != nil => return err",
  "}",
  "return nil"
]

def listing_processAddEntriesPackage : List String := [
  "if len(entries) < int(end-tileStart) {",
  "  var err error",
  "  entries, err = w.completeTileFromBackend(ctx, pending.Origin, entries, tileStart, end)",
  s!"  if err != nil => return {EClass.internal.goName}",
  "}",
  "for _, entry := range entries {",
  s!"  if err := hashReader.AppendRecordHash(tlog.RecordHash(entry)); err != nil => return {EClass.internal.goName}",
  "}",
  "subtreeHash, err := torchwood.SubtreeHash(tileStart, end, hashReader)",
  s!"if err != nil => return {EClass.internal.goName}",
  s!"if err := torchwood.CheckSubtree(proof, pending.N, pending.Hash, tileStart, end, subtreeHash); err != nil => return {EClass.invalidProof.goName}",
  "newTiles := tlog.NewTiles(torchwood.TileHeight, tileStart, end)",
  "for _, tile := range newTiles {",
  "  if tile.L == 0 {",
  "    dataTile := tile",
  "    dataTile.L = -1",
  s!"    if dataTile.N != tileStart/{W} || dataTile.W != len(entries) => return {EClass.internal.goName}",
  "    var data []byte",
  "    for _, entry := range entries {",
  "      data, err = torchwood.AppendTileEntry(data, entry)",
  s!"      if err != nil => return {EClass.internal.goName}",
  "    }",
  "    backendKey := \"mirror/\" + OriginHash(pending.Origin) + \"/\" + torchwood.TilePath(dataTile)",
  "    data, err = compress(data)",
  s!"    if err != nil => return {EClass.internal.goName}",
  s!"    if err := w.c.Backend.Upload(ctx, backendKey, data, optsDataTile); err != nil => return {EClass.internal.goName}",
  "  }",
  "  data, err := tlog.ReadTileData(tile, hashReader)",
  s!"  if err != nil => return {EClass.internal.goName}",
  "  backendKey := \"mirror/\" + OriginHash(pending.Origin) + \"/\" + torchwood.TilePath(tile)",
  s!"  if err := w.c.Backend.Upload(ctx, backendKey, data, optsHashTile); err != nil => return {EClass.internal.goName}",
  "}",
  "l, ok := w.stateForOrigin(pending.Origin)",
  s!"if !ok => return {EClass.internal.goName}",
  "l.mu.Lock()",
  "defer l.mu.Unlock()",
  "if end > l.nextEntry {",
  "  l.nextEntry = end",
  "}",
  "return nil"
]

def listing_completeTileFromBackend : List String := [
  s!"tile := tlog.Tile\{ H: torchwood.TileHeight, L: -1, N: tileStart / {W}, W: {W}, }",
  "nextEntry, err := w.nextEntryForOrigin(origin)",
  s!"if err != nil => return nil, {EClass.internal.goName}",
  s!"if nextEntry <= tileStart => return nil, {EClass.internal.goName}",
  s!"if nextEntry < tileStart+{W} \{",
  "  tile.W = int(nextEntry - tileStart)",
  "}",
  "backendKey := \"mirror/\" + OriginHash(origin) + \"/\" + torchwood.TilePath(tile)",
  "data, err := fetchAndDecompress(ctx, w.c.Backend, backendKey)",
  s!"if err != nil => return nil, {EClass.internal.goName}",
  "need := int(end-tileStart) - len(entries)",
  "allEntries := make([][]byte, 0, need+len(entries))",
  "for range need {",
  "  var entry []byte",
  "  entry, data, err = torchwood.ReadTileEntry(data)",
  s!"  if err != nil => return nil, {EClass.internal.goName}",
  "  allEntries = append(allEntries, entry)",
  "}",
  "allEntries = append(allEntries, entries...)",
  "return allEntries, nil"
]

def listing_processAddEntriesCommit : List String := [
  "l, ok := w.stateForOrigin(pending.Origin)",
  s!"if !ok => return nil, {EClass.internal.goName}",
  "l.mu.Lock()",
  "defer l.mu.Unlock()",
  "mirrorCheckpoint, nextEntry, err := l.mirrorCheckpointLocked(ctx, w)",
  s!"if err != nil => return nil, {EClass.internal.goName}",
  s!"if nextEntry < pending.N => return nil, {EClass.internal.goName}",
  s!"if pending.Origin != mirrorCheckpoint.Origin || pending.Origin != l.origin => return nil, {EClass.internal.goName}",
  "if pending.N < mirrorCheckpoint.N {",
  "  newPending, err := l.checkpointLocked(ctx, w)",
  s!"  if err != nil => return nil, {EClass.internal.goName}",
  "  return nil, w.mirrorConflict(newPending, nextEntry)",
  "}",
  s!"if err := w.ensureCutTiles(ctx, pending, nextEntry); err != nil => return nil, {EClass.internal.goName}",
  "signed, err := note.Sign(&note.Note{Text: pending.String(), Sigs: pending.UnverifiedSigs}, w.sm)",
  s!"if err != nil => return nil, {EClass.internal.goName}",
  "sigs, err := splitSignatures(signed, w.sm.Verifier().Name())",
  s!"if err != nil => return nil, {EClass.internal.goName}",
  "newLock, err := w.c.Lock.Replace(ctx, l.mirrorCheckpoint, signed)",
  s!"if err != nil => l.mirrorCheckpoint = nil; return nil, {EClass.internal.goName}",
  "l.mirrorCheckpoint = newLock",
  "backendKey := \"mirror/\" + OriginHash(pending.Origin) + \"/checkpoint\"",
  s!"if err := w.c.Backend.Upload(ctx, backendKey, signed, optsCheckpoint); err != nil => return nil, {EClass.internal.goName}",
  "return sigs, nil"
]

def listing_ensureCutTiles : List String := [
  s!"cutW := int(pending.N % {W})",
  "if cutW == 0 => return nil",
  "tileStart := pending.N - int64(cutW)",
  s!"hashTile := tlog.Tile\{H: torchwood.TileHeight, L: 0, N: tileStart / {W}, W: cutW}",
  "hashKey := \"mirror/\" + OriginHash(pending.Origin) + \"/\" + torchwood.TilePath(hashTile)",
  "if _, err := w.c.Backend.Fetch(ctx, hashKey); err == nil => return nil",
  "widestTile := hashTile",
  "widestTile.L = -1",
  s!"widestTile.W = int(min(nextEntry-tileStart, {W}))",
  "widestKey := \"mirror/\" + OriginHash(pending.Origin) + \"/\" + torchwood.TilePath(widestTile)",
  "data, err := fetchAndDecompress(ctx, w.c.Backend, widestKey)",
  s!"if err != nil => return {EClass.internal.goName}",
  "var cutData, cutHashes []byte",
  "for range cutW {",
  "  var entry []byte",
  "  entry, data, err = torchwood.ReadTileEntry(data)",
  s!"  if err != nil => return {EClass.internal.goName}",
  "  cutData, err = torchwood.AppendTileEntry(cutData, entry)",
  s!"  if err != nil => return {EClass.internal.goName}",
  "  h := tlog.RecordHash(entry)",
  "  cutHashes = append(cutHashes, h[:]...)",
  "}",
  "dataTile := hashTile",
  "dataTile.L = -1",
  "cutData, err = compress(cutData)",
  s!"if err != nil => return {EClass.internal.goName}",
  "dataKey := \"mirror/\" + OriginHash(pending.Origin) + \"/\" + torchwood.TilePath(dataTile)",
  s!"if err := w.c.Backend.Upload(ctx, dataKey, cutData, optsDataTile); err != nil => return {EClass.internal.goName}",
  s!"if err := w.c.Backend.Upload(ctx, hashKey, cutHashes, optsHashTile); err != nil => return {EClass.internal.goName}",
  "return nil"
]

def listing_mirrorCheckpointLocked : List String := [
  "if l.mirrorCheckpoint == nil {",
  "  lock, err := w.c.Lock.Fetch(ctx, backendKeyForMirrorCheckpoint(w.c, l.origin))",
  s!"  if err != nil => return nil, 0, {EClass.internal.goName}",
  "  l.mirrorCheckpoint = lock",
  "}",
  "p, err := w.openCheckpoint(l.origin, l.mirrorCheckpoint, note.VerifierList(w.sm.Verifier()))",
  "if err != nil => return nil, 0, err",
  "if l.nextEntry == -1 {",
  "  l.nextEntry = p.N",
  "}",
  "return p, l.nextEntry, nil"
]

def listing_nextEntryForOrigin : List String := [
  "l, ok := w.stateForOrigin(origin)",
  "if !ok => return 0, errUnknownLog",
  "l.mu.Lock()",
  "defer l.mu.Unlock()",
  "if l.nextEntry == -1 => return 0, internal",
  "return l.nextEntry, nil"
]

def listing_originIsMirrored : List String := [
  "l, ok := w.metaForOrigin(origin)",
  "if !ok => return false",
  "return l.Mirror"
]

def listing_backendKeyForMirrorCheckpoint : List String := [
  "h := sha256.New()",
  "h.Write(asn1.NullBytes)",
  "h.Write([]byte(\"mirror log\\n\"))",
  "h.Write(config.KeyEd25519.Public().(ed25519.PublicKey))",
  "h.Write([]byte(origin))",
  "return [32]byte(h.Sum(nil))"
]

def listing_newLogState : List String := [
  "return &logState{origin: origin, nextEntry: -1}"
]

def listing_readUint16LengthPrefixed : List String := [
  "var length [2]byte",
  "if _, err := io.ReadFull(r, length[:]); err != nil => return nil, err",
  "n := binary.BigEndian.Uint16(length[:])",
  "if n == 0 => return nil, nil",
  "buf := make([]byte, n)",
  "if _, err := io.ReadFull(r, buf); err != nil => return nil, err",
  "return buf, nil"
]

def listing_readUint64 : List String := [
  "var buf [8]byte",
  "if _, err := io.ReadFull(r, buf[:]); err != nil => return 0, err",
  "n := binary.BigEndian.Uint64(buf[:])",
  "if n > math.MaxInt64 => return 0, fmt.Errorf(\"uint64 value %d overflows int64\", n)",
  "return int64(n), nil"
]

def listing_optsTiles : List String := [
  "optsHashTile = &ctlog.UploadOptions{Immutable: true}",
  "optsDataTile = &ctlog.UploadOptions{Compressed: true, Immutable: true}"
]

end Mirror
