/-! The S3 backend as the storage contract was read off it: statement outlines of `internal/ctlog/s3.go`
(`Upload`, `Fetch`, `Discard`), compared with the regenerated outlines in Tie/S3.lean.

What the sequencer model's object store (the `Backend` contract) takes from `Upload`: the PUT is issued at once and, if
it has not returned after 75 ms, a second identical PUT (the hedge) is issued; `Upload` reports the hedge's outcome when the
hedge finished first and the main request's outcome otherwise, and it reports success ONLY when one of the two PutObject
calls returned without error — never because a context was cancelled. Nothing else about S3 (SDK retries, eventual
consistency of LIST, the order in which two hedged PUTs of different uploads land) is modelled: design note N5. -/
namespace S3Program

def upload : List String := [
  "start := time.Now()",
  "contentType := aws.String(\"application/octet-stream\")",
  "if opts != nil && opts.ContentType != \"\"",
  ">contentType = aws.String(opts.ContentType)",
  "var contentEncoding *string",
  "if opts != nil && opts.Compressed",
  ">contentEncoding = aws.String(\"gzip\")",
  "var cacheControl *string",
  "if opts != nil && opts.Immutable",
  ">cacheControl = aws.String(\"public, max-age=604800, immutable\")",
  "putObject := func() (*s3.PutObjectOutput, error) { return s.client.PutObject(ctx, &s3.PutObjectInput{ Bucket: aws.String(s.bucket), Key: aws.String(s.keyPrefix + key), Body: bytes.NewReader(data), ContentLength: aws.Int64(int64(len(data))), ContentEncoding: contentEncoding, ContentType: contentType, CacheControl: cacheControl, }) }",
  "ctx, cancel := context.WithCancelCause(ctx)",
  "hedgeErr := make(chan error, 1)",
  "go func() { timer := time.NewTimer(75 * time.Millisecond) defer timer.Stop() select { case <-ctx.Done(): case <-timer.C: s.hedgeRequests.Inc() _, err := putObject() s.log.DebugContext(ctx, \"S3 PUT hedge\", \"key\", key, \"err\", err) hedgeErr <- err cancel(errors.New(\"competing request succeeded\")) } }()",
  "_, err := putObject()",
  "select { case err = <-hedgeErr: s.hedgeWins.Inc() default: cancel(errors.New(\"competing request succeeded\")) }",
  "s.uploadSize.Observe(float64(len(data)))",
  "if err != nil",
  ">return fmtErrorf",
  "return nil"
]

def fetch : List String := [
  "out, err := s.client.GetObject(ctx, &s3.GetObjectInput{ Bucket: aws.String(s.bucket), Key: aws.String(s.keyPrefix + key), })",
  "if err != nil",
  ">return nil, fmtErrorf",
  "defer out.Body.Close()",
  "data, err := io.ReadAll(out.Body)",
  "if err != nil",
  ">return nil, fmtErrorf",
  "return data, nil"
]

def discard : List String := [
  "return nil"
]

end S3Program
