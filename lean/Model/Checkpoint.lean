import Model.Codec
import Model.TilePath
/-!
# Checkpoints, the RFC 6962 note verifier and signTreeHead. Core Lean only.

* `b64Encode` / `b64Decode`: Go's `base64.StdEncoding` as the code uses it (padded, NOT strict:
  unused trailing bits are not checked, `\r` and `\n` are skipped anywhere).
* `parseCheckpoint` / `formatCheckpoint`: `torchwood.ParseCheckpoint` / `Checkpoint.String`.
* `verifier`: the `verify` closure of `sunlight.NewRFC6962Verifier`. Raw cryptography is a
  parameter `cv key message signature` (DESIGN §5: symbolic signatures); `symCv` is the
  symbolic instance "a signature is valid iff it is the pair (key, message)".
* `signTreeHead`, `noteOpen`, `openCheckpoint`: the signing path of ctlog.go and the contract of
  `note.Sign` / `note.Open` at the level of parsed signature lines (name, key hash, signature bytes).
-/
namespace Checkpoint
open Codec TilePath

/-! ## base64.StdEncoding -/

def b64Char (n : Nat) : UInt8 :=
  if n < 26 then UInt8.ofNat (65 + n)
  else if n < 52 then UInt8.ofNat (97 + (n - 26))
  else if n < 62 then UInt8.ofNat (48 + (n - 52))
  else if n = 62 then 43 else 47

def b64Val (c : UInt8) : Option Nat :=
  if 65 ≤ c ∧ c ≤ 90 then some (c.toNat - 65)
  else if 97 ≤ c ∧ c ≤ 122 then some (c.toNat - 97 + 26)
  else if 48 ≤ c ∧ c ≤ 57 then some (c.toNat - 48 + 52)
  else if c = 43 then some 62
  else if c = 47 then some 63
  else none

def b64Encode : Bytes → Bytes
  | [] => []
  | [a] =>
    let v := a.toNat * 65536
    [b64Char (v / 262144 % 64), b64Char (v / 4096 % 64), 61, 61]
  | [a, b] =>
    let v := a.toNat * 65536 + b.toNat * 256
    [b64Char (v / 262144 % 64), b64Char (v / 4096 % 64), b64Char (v / 64 % 64), 61]
  | a :: b :: c :: rest =>
    let v := a.toNat * 65536 + b.toNat * 256 + c.toNat
    b64Char (v / 262144 % 64) :: b64Char (v / 4096 % 64) :: b64Char (v / 64 % 64) :: b64Char (v % 64) :: b64Encode rest

/-- quanta of the input with `\r`/`\n` already removed; padding (`=` is 61) only in the last quantum, nothing after
it; the bits that do not fill a byte are dropped without being checked (non-strict decoder). A `=` anywhere else
is not in the alphabet (`b64Val 61 = none`) and fails the general case. -/
def b64DecodeQuanta : Bytes → Option Bytes
  | [] => some []
  | a :: b :: c :: d :: rest =>
    if d = 61 ∧ rest = [] then
      if c = 61 then
        match b64Val a, b64Val b with
        | some x, some y => some [UInt8.ofNat ((x * 64 + y) / 16)]
        | _, _ => none
      else
        match b64Val a, b64Val b, b64Val c with
        | some x, some y, some z =>
          let v := (x * 64 + y) * 64 + z
          some [UInt8.ofNat (v / 1024), UInt8.ofNat (v / 4 % 256)]
        | _, _, _ => none
    else
      match b64Val a, b64Val b, b64Val c, b64Val d with
      | some x, some y, some z, some w =>
        let v := ((x * 64 + y) * 64 + z) * 64 + w
        match b64DecodeQuanta rest with
        | some out => some (UInt8.ofNat (v / 65536) :: UInt8.ofNat (v / 256 % 256) :: UInt8.ofNat (v % 256) :: out)
        | none => none
      | _, _, _, _ => none
  | _ => none

/-- `base64.StdEncoding.DecodeString` -/
def b64Decode (s : Bytes) : Option Bytes := b64DecodeQuanta (s.filter fun c => c ≠ 10 && c ≠ 13)

/-! ## torchwood.Checkpoint -/

structure Checkpoint where
  origin : Bytes
  n : Int
  hash : Bytes
  ext : Bytes
deriving DecidableEq, Repr

/-- `Checkpoint.String()` -/
def formatCheckpoint (c : Checkpoint) : Bytes :=
  c.origin ++ 10 :: fmtInt c.n ++ 10 :: b64Encode c.hash ++ 10 :: c.ext

/-- split at the first `\n` -/
def cutLine : Bytes → Option (Bytes × Bytes)
  | [] => none
  | b :: bs => if b = 10 then some ([], bs) else (cutLine bs).map fun (l, r) => (b :: l, r)

/-- the extension block is empty or a sequence of non-empty lines each terminated by `\n` -/
def extOk : Bytes → Bool → Bool
  | [], atLineStart => atLineStart
  | b :: bs, atLineStart => if b = 10 then (if atLineStart then false else extOk bs true) else extOk bs false

def maxCheckpointSize : Nat := 1000000

/-- `torchwood.ParseCheckpoint` -/
def parseCheckpoint (text : Bytes) : Option Checkpoint :=
  if (text.filter (· = 10)).length < 3 ∨ text.length > maxCheckpointSize then none
  else if !hasSuffix text [10] then none
  else
    match cutLine text with
    | none => none
    | some (l0, r0) =>
      match cutLine r0 with
      | none => none
      | some (l1, r1) =>
        match cutLine r1 with
        | none => none
        | some (l2, rest) =>
          match atoi l1 with
          | none => none
          | some n =>
            if n < 0 ∨ l1 ≠ fmtInt n then none else
            match b64Decode l2 with
            | none => none
            | some h =>
              if h.length ≠ 32 then none
              else if !extOk rest true then none
              else some { origin := l0, n := n, hash := h, ext := rest }

/-! ## the RFC 6962 note verifier (checkpoint.go) -/

inductive KeyKind where
  | rsa | ecdsa | other
deriving DecidableEq, Repr

structure PubKey where
  kind : KeyKind
  id : Bytes
deriving DecidableEq, Repr

/-- raw signature check `cv key message signature` (ECDSA/RSA over SHA-256, ML-DSA): a parameter -/
abbrev Crypto := PubKey → Bytes → Bytes → Bool

/-- which `sigAlg` byte the key type demands: `*rsa.PublicKey` ⇒ 1, `*ecdsa.PublicKey` ⇒ 3, anything else never verifies -/
def algOf : KeyKind → Option Nat
  | .rsa => some 1
  | .ecdsa => some 3
  | .other => none

/-- the `verify` closure of `NewRFC6962Verifier(name, key)` -/
def verifier (cv : Crypto) (name : Bytes) (key : PubKey) (msg sig : Bytes) : Bool :=
  match parseCheckpoint msg with
  | none => false
  | some c =>
    if c.origin ≠ name then false
    else if c.ext ≠ [] then false
    else
      match parseNoteSig sig with
      | none => false
      | some s =>
        if s.hashAlg ≠ 4 then false else
        match sthInput c.n.toNat s.timestamp c.hash with
        | none => false
        | some sth =>
          match algOf key.kind with
          | none => false
          | some alg => if s.sigAlg ≠ alg then false else cv key sth s.signature

/-- an independent CT verifier: checks a TreeHeadSignature over the STH rebuilt from the tuple -/
def independentVerify (cv : Crypto) (key : PubKey) (n ts : Nat) (root sigBytes : Bytes) : Bool :=
  match sthInput n ts root with
  | none => false
  | some sth => cv key sth sigBytes

/-- symbolic signing: the signature IS the pair (key, message), encoded injectively -/
def symSign (key : PubKey) (m : Bytes) : Bytes :=
  (match key.kind with | .rsa => 1 | .ecdsa => 3 | .other => 0) :: toBE 4 key.id.length ++ key.id ++ m

def symCv : Crypto := fun key m s => s == symSign key m

/-- `RFC6962SignatureTimestamp` applied to the signature bytes after the 4-byte key hash -/
def sigTimestamp (sig : Bytes) : Option Int :=
  match dec [.fixed 8] sig with
  | some ([ts], _) => if fromBE ts > maxInt64 then none else some (Int.ofNat (fromBE ts))
  | _ => none

/-- `NewRFC6962InjectedSigner(name, key, sig, timestamp).Sign(msg)`: refuses a signature that does not verify -/
def injectedSign (cv : Crypto) (name : Bytes) (key : PubKey) (treeHeadSignature : Bytes) (timestamp : Int)
    (msg : Bytes) : Option Bytes :=
  let blob := injectedBlob timestamp treeHeadSignature
  if verifier cv name key msg blob then some blob else none

/-! ## notes at the level of parsed signature lines -/

structure SigLine where
  name : Bytes
  hash : Nat      -- the uint32 key hash in front of the signature
  sig : Bytes     -- the signature bytes after the key hash
deriving DecidableEq, Repr

structure Note where
  text : Bytes
  sigs : List SigLine
deriving DecidableEq, Repr

structure NoteVerifier where
  name : Bytes
  hash : Nat
  verify : Bytes → Bytes → Bool

inductive OpenErr where
  | ambiguous | invalidSignature | unverified | malformed
  | missingSignature | badTimestamp | parse | future | origin | extension
deriving DecidableEq, Repr

/-- the signature loop of `note.Open`; `cnt` is `numSig` -/
def openLoop (known : List NoteVerifier) (text : Bytes) :
    List SigLine → Nat → List (Bytes × Nat) → List SigLine → Except OpenErr (List SigLine)
  | [], _, _, acc => .ok acc.reverse
  | s :: rest, cnt, seen, acc =>
    if cnt + 1 > 100 then .error .malformed else
    match known.filter (fun v => v.name = s.name ∧ v.hash = s.hash) with
    | [] => openLoop known text rest (cnt + 1) seen acc            -- unknown key: unverified signature, ignored
    | [v] =>
      if seen.contains (s.name, s.hash) then openLoop known text rest (cnt + 1) seen acc
      else if v.verify text s.sig then openLoop known text rest (cnt + 1) ((s.name, s.hash) :: seen) (s :: acc)
      else .error .invalidSignature
    | _ => .error .ambiguous

/-- `note.Open`: the verified signatures, or an error -/
def noteOpen (known : List NoteVerifier) (note : Note) : Except OpenErr (List SigLine) :=
  match openLoop known note.text note.sigs 0 [] [] with
  | .error e => .error e
  | .ok [] => .error .unverified
  | .ok l => .ok l

/-! ## signTreeHead / openCheckpoint (ctlog.go) -/

structure Config where
  name : Bytes
  key : PubKey          -- always ECDSA in ctlog.Config
  keyHash : Nat
  witnessKey : PubKey
  witnessKeyHash : Nat
deriving Repr

/-- `subtreeCosignedMessage(name, t, origin, 0, n, hash)` (torchwood): what the ML-DSA cosignature signs -/
def subtreeMessage (name : Bytes) (t : Nat) (origin : Bytes) (n : Nat) (hash : Bytes) : Option Bytes :=
  if name.length = 0 ∨ name.length > 255 ∨ t > maxInt64 then none
  else encChecked [.fixed 12, .lenp 1, .fixed 8, .lenp 1, .fixed 8, .fixed 8, .fixed 32]
    [ascii "subtree/v1\n" ++ [0], name, toBE 8 t, origin, toBE 8 0, toBE 8 n, hash]

/-- the ML-DSA cosignature verifier of `torchwood.NewCosignatureVerifierFromKey` (signature size check omitted:
signatures are symbolic) -/
def cosigVerify (cv : Crypto) (name : Bytes) (key : PubKey) (msg sig : Bytes) : Bool :=
  match dec [.fixed 8] sig with
  | some ([t], s) =>
    if fromBE t > maxInt64 then false else
    match parseCheckpoint msg with
    | none => false
    | some c =>
      if c.ext ≠ [] then false
      else if msg ≠ formatCheckpoint c then false
      else if c.origin.length = 0 ∨ c.origin.length > 255 then false
      else match subtreeMessage name (fromBE t) c.origin c.n.toNat c.hash with
        | none => false
        | some m => cv key m s
  | _ => false

def rfc6962Verifier (cv : Crypto) (c : Config) : NoteVerifier :=
  { name := c.name, hash := c.keyHash, verify := verifier cv c.name c.key }

def cosigVerifier (cv : Crypto) (c : Config) : NoteVerifier :=
  { name := c.name, hash := c.witnessKeyHash, verify := cosigVerify cv c.name c.witnessKey }

/-- `signTreeHead(c, tree)` with `sign` the raw signing primitive; `cosigTime` is `time.Now().Unix()`,
`grease` the two unverifiable lines, `swap` the outcome of the shuffle. `none` = error return. -/
def signTreeHead (cv : Crypto) (sign : PubKey → Bytes → Bytes) (c : Config) (n time : Int) (hash : Bytes)
    (cosigTime : Nat) (grease : List SigLine) (swap : Bool) : Option Note :=
  match sthInput (u64 n) (u64 time) hash with
  | none => none
  | some sthBytes =>
    match digitallySigned (sign c.key sthBytes) with
    | none => none
    | some ths =>
      let text := formatCheckpoint { origin := c.name, n := n, hash := hash, ext := [] }
      match injectedSign cv c.name c.key ths time text with
      | none => none
      | some blob =>
        match parseCheckpoint text with
        | none => none
        | some p =>
          if text ≠ formatCheckpoint p ∨ p.origin.length = 0 ∨ p.origin.length > 255 then none else
          match subtreeMessage c.name cosigTime p.origin p.n.toNat p.hash with
          | none => none
          | some m =>
            let rs : SigLine := { name := c.name, hash := c.keyHash, sig := blob }
            let ws : SigLine := { name := c.name, hash := c.witnessKeyHash, sig := toBE 8 cosigTime ++ sign c.witnessKey m }
            let own := if swap then [ws, rs] else [rs, ws]
            let g := grease.filter fun s => !(s.name = c.name ∧ (s.hash = c.keyHash ∨ s.hash = c.witnessKeyHash))
            some { text := text, sigs := g ++ own }

/-- what `signTreeHead` needs to succeed: a valid log name (no newline; the ML-DSA cosigner also needs 1..255
bytes), an ECDSA log key, distinct key hashes for the two signers, a tree head whose size and time are
non-negative int64 values with a 32-byte root, a UNIX time for the cosignature, and at most 98 grease lines
(`note.Open` refuses more than 100 signature lines) -/
structure SignPre (c : Config) (n time : Int) (hash : Bytes) (cosigTime : Nat) (grease : List SigLine) : Prop where
  name_nl : (10 : UInt8) ∉ c.name
  name_len : 1 ≤ c.name.length ∧ c.name.length ≤ 255
  key_ecdsa : c.key.kind = .ecdsa
  key_id : c.key.id.length ≤ 1000
  hashes : c.keyHash ≠ c.witnessKeyHash
  n_range : 0 ≤ n ∧ n ≤ 9223372036854775807
  t_range : 0 ≤ time ∧ time ≤ 9223372036854775807
  hash_len : hash.length = 32
  cosig : cosigTime ≤ 9223372036854775807
  grease_len : grease.length ≤ 98

/-- `openCheckpoint(config, b)` after the byte-level split of the note, for any two note verifiers `v1` (RFC 6962)
and `v2` (cosignature); `now` is `timeNowUnixMilli()` -/
def openCheckpointWith (v1 v2 : NoteVerifier) (name : Bytes) (now : Int) (note : Note) : Except OpenErr (Checkpoint × Int) :=
  match noteOpen [v1, v2] note with
  | .error e => .error e
  | .ok sigs =>
    match sigs.filter (fun s => s.hash = v1.hash) with
    | [] => .error .missingSignature
    | s :: _ =>
      match sigTimestamp s.sig with
      | none => .error .badTimestamp
      | some ts =>
        match parseCheckpoint note.text with
        | none => .error .parse
        | some p =>
          if now < ts then .error .future
          else if p.origin ≠ name then .error .origin
          else if p.ext ≠ [] then .error .extension
          else .ok (p, ts)

def openCheckpoint (cv : Crypto) (c : Config) (now : Int) (note : Note) : Except OpenErr (Checkpoint × Int) :=
  openCheckpointWith (rfc6962Verifier cv c) (cosigVerifier cv c) c.name now note

end Checkpoint
