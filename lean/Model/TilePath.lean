import Model.Bytes
/-!
# Tile coordinate paths: `tlog.Tile.Path`, `tlog.ParseTilePath` (golang.org/x/mod v0.37.0) and
sunlight's `TilePath` / `ParseTilePath` (tile.go). Core Lean only.

Go strings are byte strings; paths are `Bytes`. Go `int`/`int64` values are `Int`;
the one place where the code can overflow (`n = n*pathBase + int64(nn)`) wraps like Go does.
Functions are transliterated statement by statement, including the final canonical-form
re-check `path != t.Path()` of `tlog.ParseTilePath`.
-/
namespace TilePath

def ascii (s : String) : Bytes := s.toList.map (fun c => UInt8.ofNat c.toNat)

structure Tile where
  H : Int
  L : Int
  N : Int
  W : Int
deriving DecidableEq, Repr

/-! ## fmt / strconv / strings -/

def digit (n : Nat) : UInt8 := UInt8.ofNat (48 + n % 10)

/-- decimal digits of n, most significant first; `fuel` ≥ number of digits -/
def natDigits : Nat → Nat → Bytes
  | 0, _ => []
  | fuel+1, n => if n < 10 then [digit n] else natDigits fuel (n / 10) ++ [digit n]

/-- `strconv.Itoa` / `%d` for a natural number (a 64-bit value has at most 20 digits; fuel is generous) -/
def fmtNat (n : Nat) : Bytes := natDigits (n + 1) n

/-- `fmt.Sprintf("%d", x)` -/
def fmtInt (x : Int) : Bytes :=
  if x < 0 then 45 :: fmtNat x.natAbs else fmtNat x.natAbs

def padLeft (width : Nat) (s : Bytes) : Bytes := List.replicate (width - s.length) 48 ++ s

/-- `fmt.Sprintf("%03d", x)`: zero padding to width 3, the sign counts towards the width -/
def fmt03 (x : Int) : Bytes :=
  if x < 0 then 45 :: padLeft 2 (fmtNat x.natAbs) else padLeft 3 (fmtNat x.natAbs)

/-- int64 wrap-around -/
def wrap64 (x : Int) : Int := (x + 9223372036854775808) % 18446744073709551616 - 9223372036854775808

def isDigit (b : UInt8) : Bool := 48 ≤ b && b ≤ 57

def digitsVal : Bytes → Nat → Nat
  | [], acc => acc
  | b :: bs, acc => digitsVal bs (acc * 10 + (b.toNat - 48))

/-- `strconv.Atoi` (= `ParseInt(s, 10, 64)`): optional sign, at least one digit, only digits, int64 range -/
def atoi (s : Bytes) : Option Int :=
  match s with
  | [] => none
  | c :: rest =>
    let neg := c == 45
    let ds := if c == 45 || c == 43 then rest else s
    if ds = [] then none
    else if !ds.all isDigit then none
    else
      let v := digitsVal ds 0
      if neg then (if v ≤ 9223372036854775808 then some (-(Int.ofNat v)) else none)
      else (if v ≤ 9223372036854775807 then some (Int.ofNat v) else none)

/-- `strings.Split(s, sep)` for a one-byte separator -/
def split (sep : UInt8) : Bytes → List Bytes
  | [] => [[]]
  | b :: bs =>
    if b = sep then [] :: split sep bs
    else match split sep bs with
      | [] => [[b]]
      | x :: xs => (b :: x) :: xs

def hasSuffix (s suf : Bytes) : Bool := suf.length ≤ s.length && s.drop (s.length - suf.length) == suf

/-- `strings.CutPrefix` -/
def cutPrefix (s pre : Bytes) : Option Bytes :=
  if s.take pre.length = pre then some (s.drop pre.length) else none

/-- `strings.TrimPrefix` -/
def trimPrefix (s pre : Bytes) : Bytes := (cutPrefix s pre).getD s

/-! ## tlog.Tile.Path -/

abbrev pathBase : Int := 1000

/-- Go's `a % b` (remainder of truncated division) for `b > 0` -/
def goMod (a b : Int) : Int := if 0 ≤ a then a % b else -((-a) % b)

/-- the `for n >= pathBase` loop (`n /= pathBase` only runs on positive n, where every division
convention agrees); an int64 needs at most 6 rounds -/
def nStrLoop : Nat → Int → Bytes → Bytes
  | 0, _, acc => acc
  | fuel+1, n, acc =>
    if n ≥ pathBase then
      let n' := n / pathBase
      nStrLoop fuel n' (120 :: fmt03 (goMod n' pathBase) ++ 47 :: acc)
    else acc

def nStr (n : Int) : Bytes := nStrLoop 7 n (fmt03 (goMod n pathBase))

/-- Go `1 << uint(h)` on a 64-bit `int` -/
def shl1 (h : Int) : Int :=
  if 0 ≤ h ∧ h < 63 then (2 : Int) ^ h.toNat else if h = 63 then -9223372036854775808 else 0

def tlogPath (t : Tile) : Bytes :=
  let pStr := if t.W ≠ shl1 t.H then ascii ".p/" ++ fmtInt t.W else []
  let l := if t.L = -1 then ascii "data" else fmtInt t.L
  ascii "tile/" ++ fmtInt t.H ++ 47 :: l ++ 47 :: nStr t.N ++ pStr

/-! ## tlog.ParseTilePath -/

def parseN : List Bytes → Int → Option Int
  | [], n => some n
  | s :: rest, n =>
    match atoi (trimPrefix s (ascii "x")) with
    | none => none
    | some nn => if nn < 0 ∨ nn ≥ pathBase then none else parseN rest (wrap64 (n * pathBase + nn))

/-- everything of `ParseTilePath` before the final `path != t.Path()` test. `f` is handled through its
reverse: `f[len(f)-1]` and `f[len(f)-2]` are the first two elements of `f.reverse`. -/
def tlogParsePrelim (path : Bytes) : Option Tile :=
  let f := split 47 path
  if f.length < 4 ∨ f.getD 0 [] ≠ ascii "tile" then none else
  let isData := f.getD 2 [] = ascii "data"
  let f := if isData then f.set 2 (ascii "0") else f
  match atoi (f.getD 1 []), atoi (f.getD 2 []) with
  | some h, some l =>
    if h < 1 ∨ l < 0 ∨ h > 30 then none else
    let w := shl1 h
    match f.reverse with
    | last :: dotP :: before =>
      let wf : Option (Int × List Bytes) :=
        if hasSuffix dotP (ascii ".p") then
          match atoi last with
          | none => none
          | some ww =>
            if ww ≤ 0 ∨ ww ≥ w then none
            else some (ww, (dotP.take (dotP.length - 2) :: before).reverse)
        else some (w, f)
      match wf with
      | none => none
      | some (w, f) =>
        match parseN (f.drop 3) 0 with
        | none => none
        | some n => some { H := h, L := if isData then -1 else l, N := n, W := w }
    | _ => none
  | _, _ => none

def tlogParse (path : Bytes) : Option Tile :=
  match tlogParsePrelim path with
  | none => none
  | some t => if path ≠ tlogPath t then none else some t

/-! ## sunlight.TilePath / ParseTilePath -/

def tileHeight : Int := 8

/-- `none` = panic ("unexpected tile height") -/
def sunlightPath (t : Tile) : Option Bytes :=
  if t.H ≠ tileHeight then none
  else if t.L = -2 then
    some (ascii "tile/names/" ++ trimPrefix (tlogPath { t with L := -1 }) (ascii "tile/8/data/"))
  else some (ascii "tile/" ++ trimPrefix (tlogPath t) (ascii "tile/8/"))

def sunlightParse (path : Bytes) : Option Tile :=
  match cutPrefix path (ascii "tile/names/") with
  | some rest =>
    match tlogParse (ascii "tile/8/data/" ++ rest) with
    | none => none
    | some t => some { t with L := -2 }
  | none =>
    match cutPrefix path (ascii "tile/") with
    | some rest => tlogParse (ascii "tile/8/" ++ rest)
    | none => none

/-- the tiles sunlight can name: height 8, level ≥ -2, 0 ≤ N (int64), 1 ≤ W ≤ 256 -/
def TileDom (t : Tile) : Prop :=
  t.H = 8 ∧ -2 ≤ t.L ∧ t.L ≤ 9223372036854775807 ∧ 0 ≤ t.N ∧ t.N ≤ 9223372036854775807 ∧ 1 ≤ t.W ∧ t.W ≤ 256

instance (t : Tile) : Decidable (TileDom t) := by unfold TileDom; exact inferInstance

end TilePath
