/-! `S3Backend.Upload` (internal/ctlog/s3.go) as a decision over what became of the PUT requests it issued.

The statement outline of `Upload` is tied in Tie/S3.lean (Model/S3Program.lean). What the sequencer model's object store
takes from it is the Backend contract "Upload returned nil ⇒ the object is stored": here that is derived from the shape
of the hedged upload — the main PutObject call, the hedge issued after 75 ms, and the `select` that reports the hedge's
outcome when it is available as the main call returns and the main call's outcome otherwise — under one assumption about
the AWS SDK (a PutObject call returns nil only after one of its requests was answered 200, i.e. stored).
Engine `s3` runs the real backend against a planned S3 server and the driver evaluates `admissible` / `heldAfter` on
what that server saw. Core Lean only. -/
namespace S3Upload

/-- what became of one PUT request that reached the server -/
inductive Req | stored | rejected | dropped | aborted
  deriving DecidableEq, Repr

/-- what the bucket holds under the key once every request has been dealt with -/
inductive Held | none | pre | data
  deriving DecidableEq, Repr

def heldAfter (pre : Bool) (reqs : List Req) : Held :=
  if reqs.contains .stored then .data else if pre then .pre else .none

/-- outcome of one `putObject()` call (the SDK's retries folded in) with the requests it issued -/
structure Call where
  ok : Bool
  reqs : List Req

/-- the SDK assumption: a call that returns nil had one of its requests stored -/
def Call.Honest (c : Call) : Prop := c.ok = true → Req.stored ∈ c.reqs

/-- the converse SDK assumption: a call fails only if the caller's context was cancelled or one of its requests was
    not stored -/
def Call.Faithful (cancelled : Bool) (c : Call) : Prop := c.ok = false → cancelled = true ∨ ∃ r ∈ c.reqs, r ≠ Req.stored

/-- `Upload`'s return value: `select { case err = <-hedgeErr: … default: … }` after the main call returned.
    `hedge = none`: the hedge was not started or its result was not yet there. -/
def uploadOk (main : Call) (hedge : Option Call) : Bool :=
  match hedge with
  | some h => h.ok
  | none => main.ok

/-- every request of the upload, as the server saw them (any interleaving of the two calls' requests) -/
def IsAllReqs (main : Call) (hedgeStarted : Option Call) (all : List Req) : Prop :=
  ∀ r, r ∈ all ↔ (r ∈ main.reqs ∨ ∃ h, hedgeStarted = some h ∧ r ∈ h.reqs)

/-- what the driver checks on an observed upload: a nil return needs a stored request; an error needs a request that
    was not stored, a caller that hung up, or no request at all -/
def admissible (reqs : List Req) (cancelled : Bool) (ok : Bool) : Bool :=
  if ok then reqs.contains .stored
  else cancelled || reqs.isEmpty || reqs.any (· != .stored)

end S3Upload
