/-! Byte-string helpers shared by the models and the driver. Core only. -/

abbrev Bytes := List UInt8

namespace Bytes

def hexDigit (n : Nat) : Char :=
  if n < 10 then Char.ofNat (48 + n) else Char.ofNat (87 + n)

def toHex (bs : Bytes) : String :=
  String.ofList (bs.flatMap fun b => [hexDigit (b.toNat / 16), hexDigit (b.toNat % 16)])

def hexVal (c : Char) : Option Nat :=
  if '0' ≤ c ∧ c ≤ '9' then some (c.toNat - 48)
  else if 'a' ≤ c ∧ c ≤ 'f' then some (c.toNat - 87)
  else if 'A' ≤ c ∧ c ≤ 'F' then some (c.toNat - 55)
  else none

def ofHexChars : List Char → Option Bytes
  | [] => some []
  | [_] => none
  | a :: b :: rest => do
    let x ← hexVal a
    let y ← hexVal b
    let r ← ofHexChars rest
    pure (UInt8.ofNat (16 * x + y) :: r)

/-- "-" denotes the empty string in the line protocol. -/
def ofHex (s : String) : Option Bytes :=
  if s == "-" then some [] else ofHexChars s.toList

def toHexP (bs : Bytes) : String := if bs.isEmpty then "-" else toHex bs

def toByteArray (bs : Bytes) : ByteArray := ByteArray.mk bs.toArray

def ofByteArray (b : ByteArray) : Bytes := b.data.toList

def ofString (s : String) : Bytes := s.toUTF8.data.toList

end Bytes
