import Model.Witness
/-!
# The mirror's add-entries protocol (C15). Core Lean only.

`internal/witness/witness.go`: `serveAddEntries` → `processAddEntriesMetadata` (+ `mirrorConflict`,
`verifyTicket`, `mirrorCheckpointLocked`) → `processAddEntriesPackages` / `processAddEntriesPackage`
(+ `completeTileFromBackend`, `mirrorConflictNext`) → `processAddEntriesCommit` (+ `ensureCutTiles`),
as a transition system **per origin** whose steps are exactly the pieces between which the real
handler releases `l.mu` and can be overtaken by another request (the two `testingOnly…` hooks):

* `Ev.addCk`   one add-checkpoint request (`Witness.addCheckpoint`, the C14 model, unchanged);
* `Ev.mdata`   framing of the request header + `processAddEntriesMetadata` (atomic under `l.mu`);
* `Ev.pkg`     one entry package: read it from the body (or find the body truncated), complete the tile
               from the backend, hash, `CheckSubtree` against the *resolved* checkpoint, upload the new
               tiles, `nextEntry := max(nextEntry, end)`;
* `Ev.commit`  `processAddEntriesCommit`: `nextEntry ≥ pending.N`, `pending.N ≥ mirror.N`,
               `ensureCutTiles`, sign, `Lock.Replace`, upload;
* `Ev.restart` a new process: `l.checkpoint`, `l.mirrorCheckpoint` nil, `l.nextEntry = -1`, a fresh
               ticket key, every request in flight is gone.

Every lock / storage operation takes an injected outcome (ok, error after taking effect, error
without taking effect; fetches: ok / error). A request in flight is a `Req` (the resolved checkpoint,
the range, how many packages were processed, the overlay of record hashes appended so far); two
requests interleave at package granularity, a body may stop after any package (`PkgIn.trunc`).

The object store is `data n w` (entry bundle `tile/entries/<n>[.p/w]`) and `hash l n w` (hash tile
`tile/<l>/<n>[.p/w]`) under `mirror/<origin hash>/`; `enforce` says whether the backend refuses to
replace an immutable object by different bytes (`LocalBackend`) or overwrites (`S3Backend`).

Idealisations (DESIGN.md §5): SHA-256 is the parameters `node`, `emptyHash`, `leaf`
(`tlog.NodeHash`, the empty tree hash, `tlog.RecordHash`); signatures are symbolic (C14); a ticket is
the symbolic AEAD box `(key, mirror name, origin, payload)`; a mirror checkpoint is its tree head plus
a serial number standing for the randomness of its signature; gzip, the byte framing of entries in a
bundle and the tile path syntax are the harness' canonicaliser. `torchwood.HashReaderOverlay` +
`tlog.ReadTileData` are modelled by `hyb`: the hash of a complete subtree is read from the backend's
tile (widened to its width in the `[0, roundedStart)` tree, `tlog.HashFromTile`) when it lies below
`roundedStart`, computed from the appended record hashes when it lies above, and is the node hash of
its two halves when it straddles `roundedStart` (`tlog.StoredHashesForRecordHash`).
-/
namespace Mirror
open Witness Checkpoint

abbrev Entry := Bytes

/-! ## outcomes of mutating store operations -/

inductive Fault where
  | ok | errA | errN
deriving DecidableEq, Repr

def Fault.applied : Fault → Bool
  | .errN => false
  | _ => true

def Fault.isOk : Fault → Bool
  | .ok => true
  | _ => false

/-! ## constants of the code (tied in `Tie/C15.lean`) -/

/-- `torchwood.TileWidth` -/
def tileWidth : Nat := 256
/-- `excessEntries > 8*256` -/
def windowTiles : Nat := 8
def window : Nat := windowTiles * tileWidth
/-- `numHashes > 63` -/
def maxProofHashes : Nat := 63
/-- the status of a mirror-info response from the metadata and commit phases (`http.StatusConflict`) … -/
def stConflict : Nat := 409
/-- … and from the package phase, after a truncated body (`http.StatusAccepted`) -/
def stAccepted : Nat := 202

/-! ## configuration -/

structure MCfg where
  cfg : Cfg
  origin : Bytes
  /-- `logMeta.Mirror` of the stored config -/
  mirrorFlag : Bool

def MCfg.known (c : MCfg) : Bool := (c.cfg.find c.origin).isSome
/-- `w.originIsMirrored(origin) && w.sm != nil` -/
def MCfg.mirrored (c : MCfg) : Bool := c.mirrorFlag && c.cfg.mirror.isSome
def MCfg.mirrorName (c : MCfg) : Bytes := match c.cfg.mirror with | some k => k.name | none => []

/-! ## checkpoints as the handler holds them, tickets -/

/-- `parsedCheckpoint.Bytes`: nothing (the synthesised empty tree), a value of the witness' lock store
(the pending checkpoint: note + signing serial), or a value of the mirror's lock store -/
inductive Payload where
  | empty
  | pend (note : Note) (serial : Nat)
  | mir (ck : Nat × Hash) (serial : Nat)
deriving DecidableEq, Repr

/-- `*parsedCheckpoint` -/
structure PCk where
  ck : Nat × Hash
  payload : Payload
deriving DecidableEq, Repr

/-- `w.ticketAEAD.Seal(nonce, nonce, pending.Bytes, ad)` with `ad = len(mirror name) ‖ mirror name ‖ origin` -/
structure Ticket where
  key : Nat
  mirrorName : Bytes
  origin : Bytes
  payload : Payload
deriving DecidableEq, Repr

/-- the ticket field of a request: empty, bytes that no key opens (too short, random, bit-flipped,
extended), or a box -/
inductive TicketIn where
  | none | garbage | box (t : Ticket)
deriving DecidableEq, Repr

/-- a value of the mirror's lock store: `none` = the empty value `PullLogList` creates -/
abbrev MVal := Option ((Nat × Hash) × Nat)

/-! ## requests -/

/-- how far `serveAddEntries` gets through the header -/
inductive HdrForm where
  | ok | ctype | gzip | noOrigin | noStart | noEnd | endLtStart | noTicket
deriving DecidableEq, Repr

structure MetaReq where
  hdr : HdrForm
  start : Nat
  stop : Nat
  ticket : TicketIn
deriving Repr

/-- what the body yields for one package: all `end - start` entries, the hash count (≤ 63) and the
hashes; or the body ends somewhere inside; or the hash count is > 63 -/
inductive PkgIn where
  | full (entries : List Entry) (proof : List Hash)
  | trunc
  | many
deriving DecidableEq, Repr

/-- a request between `processAddEntriesMetadata` and its response -/
structure Req where
  ck : Nat × Hash
  payload : Payload
  start : Nat
  stop : Nat
  /-- packages processed so far -/
  i : Nat
  /-- record hashes appended to the overlay so far (from `roundedStart`) -/
  ov : List Hash
deriving DecidableEq, Repr

/-- `roundedStart := uploadStart - (uploadStart % 256)` -/
def Req.rs (r : Req) : Nat := r.start - r.start % 256
/-- `numPackages` (0 when `uploadStart == uploadEnd`: the loop is skipped) -/
def Req.numPackages (r : Req) : Nat :=
  if r.start = r.stop then 0 else ((r.stop + 255) / 256 * 256 - r.rs) / 256

/-! ## errors, responses -/

inductive EClass where
  | ctype | gzip | noOrigin | noStart | noEnd | endLtStart | noTicket
  | unknownLog | noPending | notMirrored | internal | missingBody | badRequest | invalidProof
deriving DecidableEq, Repr

def EClass.status : EClass → Nat
  | .ctype => 415
  | .gzip | .noOrigin | .noStart | .noEnd | .endLtStart | .noTicket | .missingBody | .badRequest => 400
  | .unknownLog => 404
  | .noPending | .invalidProof => 422
  | .notMirrored => 403
  | .internal => 500

inductive Resp where
  /-- no response yet: the request is parked before its next step -/
  | cont
  | err (c : EClass)
  /-- `httpErrorMirrorInfo`: status (409 or 202), pending size, next entry, ticket -/
  | info (status : Nat) (pending next : Nat) (t : Ticket)
  /-- 200 with the mirror's cosignature lines over this tree head -/
  | ok (ck : Nat × Hash)
  /-- an add-checkpoint response -/
  | w (r : Witness.Resp)
  /-- the event is not enabled in this state (unknown request id, wrong phase, malformed input) -/
  | ignored
deriving DecidableEq, Repr

/-! ## state -/

/-- store operations in the order they happen (what the acceptor matches) -/
inductive MEffect where
  | pfetch
  | mfetch
  | putData (n w : Nat) (applied : Bool) (es : List Entry)
  | putHash (l n w : Nat) (applied : Bool) (hs : List Hash)
  | mreplace (applied : Bool) (ck : Nat × Hash)
  | mupload (applied : Bool) (ck : Nat × Hash)
deriving DecidableEq, Repr

structure MState where
  /-- the witness side of this origin: pending checkpoint in the lock store, `l.checkpoint` of the
  process (instance 0), the chain of everything ever recorded -/
  w : OState
  /-- the mirror checkpoint in the lock store -/
  mlock : MVal
  /-- `mirror/<origin hash>/checkpoint` -/
  mpub : Option (Nat × Hash)
  data : Nat → Nat → Option (List Entry)
  hash : Nat → Nat → Nat → Option (List Hash)
  enforce : Bool
  /-- this process' ticket key -/
  key : Nat
  /-- `l.mirrorCheckpoint` (`none` = nil) -/
  mcache : Option MVal
  /-- `l.nextEntry` (`none` = -1) -/
  next : Option Nat
  reqs : Nat → Option Req
  /-- signing serial -/
  serial : Nat
  /-- ghost: every tree head ever stored as the mirror checkpoint, oldest first -/
  mhist : List (Nat × Hash)
  /-- ghost: every ticket ever handed out -/
  issued : List Ticket
  /-- ghost: tree heads whose mirror cosignature was returned with a 200 -/
  released : List (Nat × Hash)
  log : List MEffect

def MState.init (emptyHash : Hash) (enforce : Bool) : MState :=
  { w := OState.init emptyHash, mlock := none, mpub := none, data := fun _ _ => none,
    hash := fun _ _ _ => none, enforce := enforce, key := 0, mcache := none, next := none,
    reqs := fun _ => none, serial := 0, mhist := [], issued := [], released := [], log := [] }

def MState.setReq (st : MState) (rid : Nat) (r : Option Req) : MState :=
  { st with reqs := fun j => if j = rid then r else st.reqs j }

def payloadOf : LockVal → Payload
  | none => .empty
  | some (n, s) => .pend n s

section
variable (node : Hash → Hash → Hash) (emptyHash : Hash) (leaf : Entry → Hash)

/-- the tree head of a mirror lock value (`openCheckpoint`: empty ⇒ the empty tree) -/
def mirrorCk : MVal → Nat × Hash
  | none => (0, emptyHash)
  | some (ck, _) => ck

def mirrorP : MVal → PCk
  | none => ⟨(0, emptyHash), .empty⟩
  | some (ck, s) => ⟨ck, .mir ck s⟩

/-! ## the two cached lock reads -/

/-- `l.checkpointLocked(ctx, w)` -/
def fetchPending (c : MCfg) (f : Bool) (st : MState) : MState × Option PCk :=
  match st.w.cache 0 with
  | some v => (st, (openStored emptyHash c.cfg c.origin v).map fun k => ⟨k, payloadOf v⟩)
  | none =>
    let st1 : MState :=
      { st with log := st.log ++ [.pfetch],
                w := { st.w with log := st.w.log ++ [.lockFetch 0 (if f then .ok else .errN)] } }
    if f then
      let st2 : MState := { st1 with w := st1.w.setCache 0 (some st.w.lock) }
      (st2, (openStored emptyHash c.cfg c.origin st.w.lock).map fun k => ⟨k, payloadOf st.w.lock⟩)
    else (st1, none)

/-- `l.mirrorCheckpointLocked(ctx, w)`: also sets `l.nextEntry` when it is -1 -/
def fetchMirror (f : Bool) (st : MState) : MState × Option (PCk × Nat) :=
  let fin (v : MVal) (s : MState) : MState × Option (PCk × Nat) :=
    let p := mirrorP emptyHash v
    match s.next with
    | some x => (s, some (p, x))
    | none => ({ s with next := some p.ck.1 }, some (p, p.ck.1))
  match st.mcache with
  | some v => fin v st
  | none =>
    let st1 : MState := { st with log := st.log ++ [.mfetch] }
    if f then fin st.mlock { st1 with mcache := some st.mlock } else (st1, none)

/-! ## tickets -/

/-- `w.mirrorConflict(pending, nextEntry)` answered with `status` -/
def conflict (c : MCfg) (status : Nat) (p : PCk) (next : Nat) (st : MState) : MState × Resp :=
  let t : Ticket := { key := st.key, mirrorName := c.mirrorName, origin := c.origin, payload := p.payload }
  ({ st with issued := st.issued ++ [t] }, .info status p.ck.1 next t)

/-- `w.verifyTicket(origin, ticket)`: the box opens under this process' key with the associated data
of this mirror and this origin, the payload is a note carrying the witness' own ML-DSA cosignature,
and it parses to a checkpoint of this origin -/
def verifyTicket (c : MCfg) (key : Nat) : TicketIn → Option PCk
  | .box t =>
    if t.key = key ∧ t.mirrorName = c.mirrorName ∧ t.origin = c.origin then
      match t.payload with
      | .pend note _ =>
        match noteOpen [c.cfg.k2.verifier] note with
        | .ok _ => (ckOfNote c.origin note).map fun k => ⟨k, t.payload⟩
        | .error _ => none
      | _ => none
    else none
  | _ => none

/-- the `switch` of `processAddEntriesMetadata` -/
def resolve (c : MCfg) (key : Nat) (pend mir : PCk) (q : MetaReq) : Option PCk :=
  if q.stop = pend.ck.1 then some pend
  else if mir.payload ≠ .empty ∧ q.stop = mir.ck.1 then some mir
  else if q.ticket ≠ .none then
    match verifyTicket c key q.ticket with
    | some t => if q.stop = t.ck.1 then some t else none
    | none => none
  else none

def hdrErr : HdrForm → Option EClass
  | .ok => none
  | .ctype => some .ctype
  | .gzip => some .gzip
  | .noOrigin => some .noOrigin
  | .noStart => some .noStart
  | .noEnd => some .noEnd
  | .endLtStart => some .endLtStart
  | .noTicket => some .noTicket

/-! ## metadata -/

/-- `processAddEntriesMetadata` after both checkpoints are in hand: the sanity checks, the resolution of
the checkpoint the request proves against, the upload window -/
def metaDecide (c : MCfg) (rid : Nat) (q : MetaReq) (pend mir : PCk) (next : Nat) (st2 : MState) : MState × Resp :=
  if mir.ck.1 > pend.ck.1 then (st2, .err .internal) else
  if mir.ck.1 > next then (st2, .err .internal) else
  if next > pend.ck.1 then (st2, .err .internal) else
  if q.stop < mir.ck.1 then conflict c stConflict pend next st2 else
  match resolve c st2.key pend mir q with
  | none => conflict c stConflict pend next st2
  | some r =>
    if q.start > next ∨ min q.stop next - q.start > window then
      if next ≤ q.stop then conflict c stConflict r next st2 else conflict c stConflict pend next st2
    else
      (st2.setReq rid (some { ck := r.ck, payload := r.payload, start := q.start, stop := q.stop, i := 0, ov := [] }), .cont)

/-- … after the pending checkpoint is in hand -/
def metaMirror (c : MCfg) (rid : Nat) (q : MetaReq) (fm : Bool) (pend : PCk) (st1 : MState) : MState × Resp :=
  if pend.payload = .empty then (st1, .err .noPending) else
  match fetchMirror emptyHash fm st1 with
  | (st2, none) => (st2, .err .internal)
  | (st2, some (mir, next)) => metaDecide c rid q pend mir next st2

/-- the header of `serveAddEntries` and `processAddEntriesMetadata` -/
def metadata (c : MCfg) (rid : Nat) (q : MetaReq) (fp fm : Bool) (st : MState) : MState × Resp :=
  match hdrErr q.hdr with
  | some e => (st, .err e)
  | none =>
  if q.stop < q.start then (st, .ignored) else
  if (st.reqs rid).isSome then (st, .ignored) else
  if !c.known then (st, .err .unknownLog) else
  if !c.mirrored then (st, .err .notMirrored) else
  match fetchPending emptyHash c fp st with
  | (st1, none) => (st1, .err .internal)
  | (st1, some pend) => metaMirror emptyHash c rid q fm pend st1

/-! ## tiles -/

/-- `tlog.NewTiles(8, old, new)`: per level, the full tiles that became complete, then the partial one -/
def tilesAtLevel (level oldN newN : Nat) : List (Nat × Nat × Nat) :=
  ((List.range (newN / 256 - oldN / 256)).map fun k => (level, oldN / 256 + k, 256)) ++
  (if newN % 256 > 0 then [(level, newN / 256, newN % 256)] else [])

def newTilesFrom : Nat → Nat → Nat → Nat → List (Nat × Nat × Nat)
  | 0, _, _, _ => []
  | fuel + 1, level, oldN, newN =>
    if newN = 0 then []
    else (if oldN = newN then [] else tilesAtLevel level oldN newN) ++ newTilesFrom fuel (level + 1) (oldN / 256) (newN / 256)

def newTiles (old new : Nat) : List (Nat × Nat × Nat) := newTilesFrom (new + 1) 0 old new

/-- `tlog.HashFromTile` on the backend's tile holding the complete subtree of height `h` at leaf `a`
(`a + 2^h ≤ rs`): the tile of level `h / 8` widened to its width in the tree of size `rs` -/
def fromBackend (hashT : Nat → Nat → Nat → Option (List Hash)) (rs h a : Nat) : Option Hash :=
  let l := h / 8
  let k := h % 8
  let j := a / 256 ^ l
  let n := j / 256
  let off := j % 256
  let w := min (rs / 256 ^ l - 256 * n) 256
  match hashT l n w with
  | none => none
  | some tile =>
    if off + 2 ^ k ≤ tile.length then some (Merkle.mth node emptyHash (Merkle.rng tile off (off + 2 ^ k))) else none

/-- the stored hash of the complete subtree of height `h` at leaf `a` in the overlay tree: the
backend's tree of size `rs` extended by the record hashes `ov` -/
def hyb (hashT : Nat → Nat → Nat → Option (List Hash)) (rs : Nat) (ov : List Hash) : Nat → Nat → Option Hash
  | h, a =>
    if a + 2 ^ h ≤ rs then fromBackend node emptyHash hashT rs h a
    else if rs ≤ a then
      if a - rs + 2 ^ h ≤ ov.length then some (Merkle.mth node emptyHash (Merkle.rng ov (a - rs) (a - rs + 2 ^ h))) else none
    else match h with
      | 0 => none
      | h + 1 =>
        match hyb hashT rs ov h a, hyb hashT rs ov h (a + 2 ^ h) with
        | some x, some y => some (node x y)
        | _, _ => none

def allSome {α : Type} : List (Option α) → Option (List α)
  | [] => some []
  | none :: _ => none
  | some x :: rest => match allSome rest with | some xs => some (x :: xs) | none => none

/-- `tlog.ReadTileData(tile, hashReader)` -/
def tileData (hashT : Nat → Nat → Nat → Option (List Hash)) (rs : Nat) (ov : List Hash) (l n w : Nat) : Option (List Hash) :=
  allSome ((List.range w).map fun i => hyb node emptyHash hashT rs ov (8 * l) ((256 * n + i) * 256 ^ l))

/-! ## uploads -/

/-- `Backend.Upload(…, optsDataTile)` -/
def putData (st : MState) (n w : Nat) (es : List Entry) (f : Fault) : MState × Bool :=
  let clash := st.enforce && (match st.data n w with | some old => old != es | none => false)
  let applied := f.applied && !clash
  ({ st with data := if applied then (fun n' w' => if n' = n ∧ w' = w then some es else st.data n' w') else st.data,
             log := st.log ++ [.putData n w applied es] }, f.isOk && !clash)

/-- `Backend.Upload(…, optsHashTile)` -/
def putHash (st : MState) (l n w : Nat) (hs : List Hash) (f : Fault) : MState × Bool :=
  let clash := st.enforce && (match st.hash l n w with | some old => old != hs | none => false)
  let applied := f.applied && !clash
  ({ st with hash := if applied then (fun l' n' w' => if l' = l ∧ n' = n ∧ w' = w then some hs else st.hash l' n' w') else st.hash,
             log := st.log ++ [.putHash l n w applied hs] }, f.isOk && !clash)

def headFault : List Fault → Fault
  | [] => .ok
  | f :: _ => f

/-- the `for _, tile := range newTiles` loop of `processAddEntriesPackage`: `false` = an error left the loop -/
def uploadTiles (rs : Nat) (ov : List Hash) (all : List Entry) :
    List (Nat × Nat × Nat) → List Fault → MState → MState × Bool
  | [], _, st => (st, true)
  | (l, n, w) :: rest, outs, st =>
    let go (st1 : MState) (outs1 : List Fault) : MState × Bool :=
      match tileData node emptyHash st1.hash rs ov l n w with
      | none => (st1, false)
      | some hs =>
        match putHash st1 l n w hs (headFault outs1) with
        | (st2, true) => uploadTiles rs ov all rest outs1.tail st2
        | (st2, false) => (st2, false)
    if l = 0 then
      match putData st n w all (headFault outs) with
      | (st1, true) => go st1 outs.tail
      | (st1, false) => (st1, false)
    else go st outs

/-- `completeTileFromBackend` (when the client's entries do not fill the tile from its start) -/
def complete (st : MState) (tileStart stop : Nat) (xs : List Entry) (fc : Bool) : Option (List Entry) :=
  if xs.length < stop - tileStart then
    match st.next with
    | none => none
    | some next =>
      if next ≤ tileStart then none else
      let w := if next < tileStart + 256 then next - tileStart else 256
      if !fc then none else
      match st.data (tileStart / 256) w with
      | none => none
      | some tile =>
        let need := stop - tileStart - xs.length
        if tile.length < need then none else some (tile.take need ++ xs)
  else some xs

/-- `mirrorConflictNext` (answered 202) -/
def conflictNext (c : MCfg) (r : Req) (fp : Bool) (st : MState) : MState × Resp :=
  match st.next with
  | none => (st, .err .internal)
  | some next =>
    if next ≤ r.ck.1 then conflict c stAccepted ⟨r.ck, r.payload⟩ next st
    else match fetchPending emptyHash c fp st with
      | (st1, none) => (st1, .err .internal)
      | (st1, some p) => conflict c stAccepted p next st1

/-! ## one package -/

/-- the tile uploads of `processAddEntriesPackage` and the advance of `l.nextEntry` -/
def pkgUpload (rid : Nat) (r : Req) (all : List Entry) (ov' : List Hash) (tileStart stop : Nat) (outs : List Fault)
    (st0 : MState) : MState × Resp :=
  match uploadTiles node emptyHash r.rs ov' all (newTiles tileStart stop) outs st0 with
  | (st1, false) => (st1, .err .internal)
  | (st1, true) =>
    let nx := match st1.next with | some x => max x stop | none => stop
    (({ st1 with next := some nx } : MState).setReq rid (some { r with i := r.i + 1, ov := ov' }), .cont)

/-- `processAddEntriesPackage` for a package read completely from the body -/
def pkgFull (rid : Nat) (r : Req) (xs : List Entry) (proof : List Hash) (fc : Bool) (outs : List Fault)
    (tileStart stop : Nat) (st0 : MState) : MState × Resp :=
  match complete st0 tileStart stop xs fc with
  | none => (st0, .err .internal)
  | some all =>
    let ov' := r.ov ++ all.map leaf
    let sh := Merkle.mth node emptyHash (all.map leaf)
    if !Merkle.checkSubtree node proof.reverse r.ck.1 r.ck.2 tileStart stop sh then (st0, .err .invalidProof) else
    pkgUpload node emptyHash rid r all ov' tileStart stop outs st0

def pkgStep (c : MCfg) (rid : Nat) (inp : PkgIn) (fc fp : Bool) (outs : List Fault) (st : MState) : MState × Resp :=
  match st.reqs rid with
  | none => (st, .ignored)
  | some r =>
    if r.numPackages ≤ r.i then (st, .ignored) else
    let st0 := st.setReq rid none
    let tileStart := r.rs + 256 * r.i
    let start := max r.start tileStart
    let stop := min r.stop (tileStart + 256)
    match inp with
    | .trunc => if r.i = 0 then (st0, .err .missingBody) else conflictNext emptyHash c r fp st0
    | .many => (st0, .err .badRequest)
    | .full xs proof =>
      if xs.length ≠ stop - start then (st, .ignored) else
      pkgFull node emptyHash leaf rid r xs proof fc outs tileStart stop st0

/-! ## the commit -/

/-- `ensureCutTiles(ctx, pending, nextEntry)`: `false` = error -/
def ensureCut (n next : Nat) (fh fw : Bool) (ud uh : Fault) (st : MState) : MState × Bool :=
  let cutW := n % 256
  if cutW = 0 then (st, true) else
  let ts := n - cutW
  if fh && (st.hash 0 (ts / 256) cutW).isSome then (st, true) else
  let w := min (next - ts) 256
  if !fw then (st, false) else
  match st.data (ts / 256) w with
  | none => (st, false)
  | some tile =>
    if tile.length < cutW then (st, false) else
    let es := tile.take cutW
    match putData st (ts / 256) cutW es ud with
    | (st1, false) => (st1, false)
    | (st1, true) => putHash st1 0 (ts / 256) cutW (es.map leaf) uh

/-- the end of `processAddEntriesCommit`: sign, `Lock.Replace(l.mirrorCheckpoint, signed)`, upload -/
def commitRecord (r : Req) (rep up : Fault) (st2 : MState) : MState × Resp :=
  let new : MVal := some (r.ck, st2.serial)
  match st2.mcache with
  | none => (st2, .err .internal)
  | some v =>
    let canApply := decide (v = st2.mlock)
    let applied := canApply && rep.applied
    let st3 : MState :=
      { st2 with serial := st2.serial + 1,
                 mlock := if applied then new else st2.mlock,
                 mhist := if applied then st2.mhist ++ [r.ck] else st2.mhist,
                 log := st2.log ++ [.mreplace applied r.ck] }
    if !(canApply && rep.isOk) then ({ st3 with mcache := none }, .err .internal) else
    let st4 : MState :=
      { st3 with mcache := some new,
                 mpub := if up.applied then some r.ck else st3.mpub,
                 log := st3.log ++ [.mupload up.applied r.ck] }
    if !up.isOk then (st4, .err .internal) else
    ({ st4 with released := st4.released ++ [r.ck] }, .ok r.ck)

/-- `processAddEntriesCommit` once the mirror checkpoint is in hand -/
def commitDecide (c : MCfg) (r : Req) (fp fh fw : Bool) (ud uh rep up : Fault) (mir : PCk) (next : Nat)
    (st1 : MState) : MState × Resp :=
  if next < r.ck.1 then (st1, .err .internal) else
  if r.ck.1 < mir.ck.1 then
    match fetchPending emptyHash c fp st1 with
    | (st2, none) => (st2, .err .internal)
    | (st2, some p) => conflict c stConflict p next st2
  else
  match ensureCut leaf r.ck.1 next fh fw ud uh st1 with
  | (st2, false) => (st2, .err .internal)
  | (st2, true) => commitRecord r rep up st2

/-- `processAddEntriesCommit` -/
def commitStep (c : MCfg) (rid : Nat) (fm fp fh fw : Bool) (ud uh rep up : Fault) (st : MState) : MState × Resp :=
  match st.reqs rid with
  | none => (st, .ignored)
  | some r =>
    if r.i ≠ r.numPackages then (st, .ignored) else
    let st0 := st.setReq rid none
    match fetchMirror emptyHash fm st0 with
    | (st1, none) => (st1, .err .internal)
    | (st1, some (mir, next)) => commitDecide emptyHash leaf c r fp fh fw ud uh rep up mir next st1

/-! ## restart, add-checkpoint, the transition system -/

/-- `NewWitness` over the same stores -/
def restart (st : MState) : MState :=
  { st with w := st.w.restart 0, key := st.key + 1, mcache := none, next := none, reqs := fun _ => none }

inductive Ev where
  | addCk (e : Env)
  | mdata (rid : Nat) (q : MetaReq) (fp fm : Bool)
  | pkg (rid : Nat) (inp : PkgIn) (fc fp : Bool) (outs : List Fault)
  | commit (rid : Nat) (fm fp fh fw : Bool) (ud uh rep up : Fault)
  | restart

def step (c : MCfg) (st : MState) : Ev → MState × Resp
  | .addCk e =>
    if e.origin = c.origin ∧ e.inst = 0 then
      let r := addCheckpoint node emptyHash e st.w
      ({ st with w := r.1 }, .w r.2)
    else (st, .ignored)
  | .mdata rid q fp fm => metadata emptyHash c rid q fp fm st
  | .pkg rid inp fc fp outs => pkgStep node emptyHash leaf c rid inp fc fp outs st
  | .commit rid fm fp fh fw ud uh rep up => commitStep emptyHash leaf c rid fm fp fh fw ud uh rep up st
  | .restart => (restart st, .cont)

/-- What the adversary can put into the ticket field. A box is *admissible* when at least one of the
two primitives it rests on holds for it: the AEAD (a box under the live process key was sealed by
this process) or the signature scheme (a note carrying a valid cosignature of the witness' ML-DSA key
is a note the witness recorded — signatures computed for a request whose compare-and-swap failed
never leave the process, C14). `verifyTicket` checks both; the theorems need either. -/
def TicketAdm (c : MCfg) (st : MState) : TicketIn → Prop
  | .box t =>
    (t.key = st.key → t ∈ st.issued) ∨
    (∀ note serial, t.payload = .pend note serial → (∃ vs, noteOpen [c.cfg.k2.verifier] note = .ok vs) →
      ∀ k, ckOfNote c.origin note = some k → k ∈ st.w.hist)
  | _ => True

def Admissible (c : MCfg) (st : MState) : Ev → Prop
  | .mdata _ q _ _ => TicketAdm c st q.ticket
  | .addCk e => e.cfg = c.cfg
  | _ => True

/-- every state the per-origin machine can reach -/
inductive Reachable (c : MCfg) : MState → Prop
  | init (enforce : Bool) : Reachable c (MState.init emptyHash enforce)
  | step (st : MState) (ev : Ev) : Reachable c st → Admissible c st ev → Reachable c (step node emptyHash leaf c st ev).1

end

/-! ## what the property is stated with -/

section
variable (node : Hash → Hash → Hash) (emptyHash : Hash) (leaf : Entry → Hash)

/-- `E` is the log: the latest tree head the witness recorded for this origin commits to it -/
def Truth (st : MState) (E : List Entry) : Prop :=
  ∃ k, st.w.hist.getLast? = some k ∧ Opens node emptyHash k (E.map leaf)

/-- number of level-`8l` nodes of the tree of size `N` -/
def lvl (N l : Nat) : Nat := N / 256 ^ l

/-- `(l, n, w)` is a tile of the tree of size `N` (c2sp.org/tlog-tiles): a full tile, or the partial
right-edge tile of its level -/
def IsTile (N l n w : Nat) : Prop :=
  0 < w ∧ w ≤ 256 ∧ 256 * n + w ≤ lvl N l ∧ (w = 256 ∨ 256 * n + w = lvl N l)

/-- what hash tile `(l, n, w)` of the log with record hashes `B` contains -/
def tileOf (B : List Hash) (l n w : Nat) : List Hash :=
  (List.range w).map fun i => Merkle.mth node emptyHash (Merkle.rng B ((256 * n + i) * 256 ^ l) ((256 * n + i + 1) * 256 ^ l))

/-- what entry bundle `(n, w)` of the log contains -/
def bundleOf (E : List Entry) (n w : Nat) : List Entry := (E.drop (256 * n)).take w

/-- the store serves the whole tree of size `N` of the log `E`: every tile of that tree is present
with exactly the log's content (the exact right-edge partial tiles, which is more than the "or the
full tile extending it" the tile spec allows) -/
def Serves (st : MState) (E : List Entry) (N : Nat) : Prop :=
  ∀ l n w, IsTile N l n w →
    st.hash l n w = some (tileOf node emptyHash (E.map leaf) l n w) ∧
    (l = 0 → st.data n w = some (bundleOf E n w))

end

end Mirror
