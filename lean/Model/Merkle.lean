/-! RFC 6962 Merkle tree hash and transliterations of the tlog proof runners. Core only.
    The soundness theorems are in Proofs/Merkle.lean; this file keeps only the definitions
    and the arithmetic lemmas their termination proofs need. -/
namespace Merkle

/-- tlog.maxpow2 for n ≥ 2: the largest power of two strictly below n. -/
def split (n : Nat) : Nat := 2 ^ (n - 1).log2

theorem split_lt {n : Nat} (h : 2 ≤ n) : split n < n := by
  unfold split
  have : 2 ^ (n - 1).log2 ≤ n - 1 := Nat.log2_self_le (by omega)
  omega

theorem split_pos (n : Nat) : 0 < split n := by
  unfold split; exact Nat.pow_pos (by decide)

theorem le_two_split {n : Nat} (h : 2 ≤ n) : n ≤ 2 * split n := by
  unfold split
  have : n - 1 < 2 ^ ((n - 1).log2 + 1) := Nat.lt_log2_self
  rw [Nat.pow_succ] at this
  omega

/-- uniqueness: any m with split n < m ≤ n has the same split. -/
theorem split_eq_of_between {n m : Nat} (hn : 2 ≤ n) (h1 : split n < m) (h2 : m ≤ n) :
    split m = split n := by
  unfold split at *
  congr 1
  have hlo : 2 ^ (n - 1).log2 ≤ m - 1 := by omega
  have hhi : m - 1 < 2 ^ ((n - 1).log2 + 1) := by
    have : n - 1 < 2 ^ ((n - 1).log2 + 1) := Nat.lt_log2_self
    omega
  have hm : m - 1 ≠ 0 := by
    have : 0 < 2 ^ (n - 1).log2 := Nat.pow_pos (by decide)
    omega
  exact (Nat.log2_eq_iff hm).2 ⟨hlo, hhi⟩

variable {H : Type} (node : H → H → H) (empty : H)

/-- RFC 6962 Merkle tree hash over record hashes. -/
def mth : List H → H
  | [] => empty
  | [x] => x
  | x :: y :: rest =>
    let xs := x :: y :: rest
    let k := split xs.length
    node (mth (xs.take k)) (mth (xs.drop k))
termination_by xs => xs.length
decreasing_by
  · have h1 := split_lt (n := rest.length + 1 + 1) (by omega)
    simp only [List.length_take, List.length_cons] at *
    omega
  · have h1 := split_pos (rest.length + 1 + 1)
    simp only [List.length_drop, List.length_cons] at *
    omega

theorem mth_unfold (xs : List H) (h : 2 ≤ xs.length) :
    mth node empty xs =
      node (mth node empty (xs.take (split xs.length))) (mth node empty (xs.drop (split xs.length))) := by
  match xs, h with
  | x :: y :: rest, _ => rw [mth]

/-- elements lo..hi of B -/
def rng (B : List H) (lo hi : Nat) : List H := (B.drop lo).take (hi - lo)

theorem rng_length (B : List H) {lo hi : Nat} (h : hi ≤ B.length) (hl : lo ≤ hi) :
    (rng B lo hi).length = hi - lo := by
  unfold rng; simp [List.length_take, List.length_drop]; omega

theorem rng_take (B : List H) {lo k hi : Nat} (h2 : lo + k ≤ hi) :
    (rng B lo hi).take k = rng B lo (lo + k) := by
  unfold rng; rw [List.take_take]; congr 1; omega

theorem rng_drop (B : List H) {lo k hi : Nat} (h2 : lo + k ≤ hi) :
    (rng B lo hi).drop k = rng B (lo + k) hi := by
  unfold rng
  rw [List.drop_take, List.drop_drop]
  congr 1
  omega

/-- tlog.runTreeProof, proof given in REVERSE order (last hash first). -/
def runTreeProof : List H → (lo hi n : Nat) → (old : H) → Option (H × H)
  | [], lo, hi, n, old => if n = hi ∧ lo = 0 then some (old, old) else none
  | x :: rest, lo, hi, n, old =>
    if n = hi then
      if lo = 0 then none else (if rest = [] then some (x, x) else none)
    else
      let k := split (hi - lo)
      if n ≤ lo + k then
        match runTreeProof rest lo (lo + k) n old with
        | some (oh, th) => some (oh, node th x)
        | none => none
      else
        match runTreeProof rest (lo + k) hi n old with
        | some (oh, th) => some (node x oh, node x th)
        | none => none

def NodeInj : Prop := ∀ a b c d : H, node a b = node c d → a = c ∧ b = d

/-- tlog.CheckTree (proof reversed). -/
def checkTree (p : List H) (t : Nat) (th : H) (n : Nat) (h : H) [DecidableEq H] : Bool :=
  if t < 1 ∨ n < 1 ∨ n > t then false else
  match runTreeProof node p 0 t n h with
  | some (h2, th2) => decide (th2 = th ∧ h2 = h)
  | none => false

end Merkle
