import Model.MerkleMore
import Model.Checkpoint
/-!
# The witness' add-checkpoint protocol (C14). Core Lean only.

`internal/witness/witness.go`: `processAddCheckpointRequest` + `updateCheckpoint` (+ `checkpointLocked`,
`openCheckpoint`, `splitSignatures`) as a *program*: the source-order list of guards and store
effects, each with the error it returns (`programP`, `programU`). `run` interprets the program;
`addCheckpoint = run program` is what the theorems of `Props/C14.lean` are about, what
`Driver/Witness.lean` executes against the trace of the real handler, and `Step.render` is the
listing of the two functions that `Tie/C14.lean` compares with the regenerated source facts.

State is kept **per origin** (`OState`): the value in the lock store under
`backendKeyForCheckpoint(config, origin)`, the copy each witness instance caches in
`logState.checkpoint`, the published `<origin hash>/checkpoint` object, and ghost histories. A
request addressed to another origin does not touch it (the code keys `w.logs`, the lock store and
the bucket by origin; distinct origins give distinct SHA-256 keys — collision-freeness), and
`l.mu` makes the requests of one instance for one origin atomic, so one request is one step.
Several instances may be alive on the same stores (a restarted witness whose predecessor still
runs): instance `i` has its own cache `cache i`; a restart is `cache i := none`.

Idealisations (DESIGN.md §5): signatures are symbolic (`symSig key message`, verification is
equality); a note is taken at the level of parsed signature lines (`Checkpoint.Note`), the
byte-level split being the harness' canonicaliser; SHA-256 is a parameter `node`/`emptyHash`.
-/
namespace Witness
open Checkpoint

abbrev Hash := Bytes

/-! ## keys and symbolic signatures -/

/-- a note verifier key: the (name, key hash) pair of a vkey and the identity of the key behind it -/
structure VKey where
  name : Bytes
  hash : Nat
  key : Nat
deriving DecidableEq, Repr

/-- the signature by `key` over `msg` IS the pair (key, msg): `key+1` ones, a zero, the message -/
def symSig (key : Nat) (msg : Bytes) : Bytes := List.replicate (key + 1) 1 ++ 0 :: msg

def VKey.verifier (v : VKey) : NoteVerifier :=
  { name := v.name, hash := v.hash, verify := fun text sig => sig == symSig v.key text }

def VKey.sign (v : VKey) (text : Bytes) : SigLine :=
  { name := v.name, hash := v.hash, sig := symSig v.key text }

def VKey.matches (v : VKey) (s : SigLine) : Bool := v.name == s.name && v.hash == s.hash

structure LogCfg where
  origin : Bytes
  verifiers : List VKey
deriving Repr

/-- `witness.Config` + the stored log list: `k1` is the Ed25519 cosigner `w.s1`, `k2` the ML-DSA-44
cosigner `w.s2` (both named `Config.Name`), `mirror` is `w.sm` -/
structure Cfg where
  k1 : VKey
  k2 : VKey
  mirror : Option VKey
  logs : List LogCfg
deriving Repr

def Cfg.find (cfg : Cfg) (origin : Bytes) : Option LogCfg := cfg.logs.find? (·.origin == origin)

/-! ## requests -/

/-- how far the request body (the part before the blank line) gets through the parser -/
inductive BodyForm where
  | ok
  | noSeparator      -- no "\n\n"
  | noOldPrefix      -- first line does not start with "old "
  | badOldNumber     -- not a canonical non-negative int64
  | badProofHash     -- a proof line is not a base64 hash
deriving DecidableEq, Repr

/-- the signed note after the blank line: syntactically broken before any signature line is read (only
its first line matters, for the log lookup); text + signature lines; or text + the signature lines
that precede the first syntactically broken one (`note.Open` verifies as it parses, so an invalid
signature on an earlier line is reported before the syntax error) -/
inductive NoteForm where
  | malformed (firstLine : Bytes)
  | wellformed (note : Note)
  | truncated (note : Note)
deriving DecidableEq, Repr

structure AddReq where
  body : BodyForm
  old : Nat
  proof : List Hash          -- wire order
  note : NoteForm
deriving Repr

/-- `origin, _, _ := strings.Cut(string(noteBytes), "\n")` -/
def NoteForm.originLine : NoteForm → Bytes
  | .malformed l => l
  | .wellformed n | .truncated n => match cutLine n.text with
    | some (l, _) => l
    | none => n.text

/-! ## store operations and their injected outcomes -/

/-- what a store operation does: take effect or not, and what the caller sees (`die…`: the process
dies before the call returns) -/
inductive Out where
  | ok | errA | errN | dieA | dieN
deriving DecidableEq, Repr

def Out.applied : Out → Bool
  | .ok | .errA | .dieA => true
  | .errN | .dieN => false

inductive Seen where
  | ok | err | dead
deriving DecidableEq, Repr

def Out.seen : Out → Seen
  | .ok => .ok
  | .errA | .errN => .err
  | .dieA | .dieN => .dead

/-- a value of the lock store: `none` is the empty value `PullLogList` creates; otherwise the signed
note together with a serial number standing for the randomness of the signatures (ML-DSA signing
is randomised and cosignatures are timestamped: signing the same checkpoint twice does not give
the same bytes, which the byte-comparing compare-and-swap notices) -/
abbrev LockVal := Option (Note × Nat)

inductive Effect where
  | lockFetch (inst : Nat) (out : Out)
  | lockReplace (inst : Nat) (new : Note) (applied : Bool) (out : Out)
  | upload (inst : Nat) (obj : Note) (applied : Bool) (out : Out)
deriving DecidableEq, Repr

/-! ## per-origin state -/

structure OState where
  lock : LockVal
  cache : Nat → Option LockVal           -- `logState.checkpoint` of every instance; `none` = nil
  pub : Option Note
  /-- ghost: the (size, root) of every value ever stored in the lock store, oldest first; starts with the empty tree -/
  hist : List (Nat × Hash)
  /-- ghost: the (size, root) whose cosignatures were returned with status 200 -/
  released : List (Nat × Hash)
  /-- ghost: (key, message) of every signature computed with the witness keys -/
  signedMsgs : List (Nat × Bytes)
  /-- ghost: every store operation, in order -/
  log : List Effect

def OState.init (emptyHash : Hash) : OState :=
  { lock := none, cache := fun _ => none, pub := none, hist := [(0, emptyHash)], released := [],
    signedMsgs := [], log := [] }

def OState.setCache (st : OState) (i : Nat) (v : Option LockVal) : OState :=
  { st with cache := fun j => if j = i then v else st.cache j }

/-- a witness (re)start: `NewWitness` builds fresh `logState`s -/
def OState.restart (st : OState) (i : Nat) : OState := st.setCache i none

/-! ## errors and status codes -/

inductive ErrClass where
  | badRequest | unknownLog | invalidSignature | badCheckpoint | extensions | proof | conflict | internal
deriving DecidableEq, Repr

/-- the Go expression a `return nil, …` carries for each class -/
def ErrClass.goName : ErrClass → String
  | .badRequest => "errBadRequest"
  | .unknownLog => "errUnknownLog"
  | .invalidSignature => "errInvalidSignature"
  | .badCheckpoint => "errBadCheckpoint"
  | .extensions => "errExtensions"
  | .proof => "errProof"
  | .conflict => "&conflictError{known.N}"
  | .internal => "internal"

/-- `serveAddCheckpoint` / `serveSignSubtree`: error class ↦ HTTP status -/
def ErrClass.status : ErrClass → Nat
  | .unknownLog => 404
  | .invalidSignature => 403
  | .badRequest | .badCheckpoint | .extensions => 400
  | .proof => 422
  | .conflict => 409
  | .internal => 500

inductive Resp where
  | err (c : ErrClass) (known : Nat)     -- `known`: the recorded size sent with a 409 (0 otherwise)
  | ok (sigs : List SigLine)
  | dead                                 -- no response: the process died
deriving DecidableEq, Repr

def Resp.status : Resp → Nat
  | .err c _ => c.status
  | .ok _ => 200
  | .dead => 0

/-! ## the environment of one request and the values derived from it -/

structure Env where
  cfg : Cfg
  inst : Nat
  req : AddReq
  fetchOut : Out
  replaceOut : Out
  uploadOut : Out

def Env.origin (e : Env) : Bytes := e.req.note.originLine

def Env.logCfg (e : Env) : Option LogCfg := e.cfg.find e.origin

/-- `note.Open(noteBytes, v)` with the verifiers configured for the log -/
def Env.opened (e : Env) : Except OpenErr (List SigLine) :=
  match e.req.note, e.logCfg with
  | .wellformed n, some lc => noteOpen (lc.verifiers.map VKey.verifier) n
  | .truncated n, some lc =>
    match openLoop (lc.verifiers.map VKey.verifier) n.text n.sigs 0 [] [] with
    | .error err => .error err
    | .ok _ => .error .malformed
  | _, _ => .error .malformed

def Env.text (e : Env) : Bytes :=
  match e.req.note with
  | .wellformed n | .truncated n => n.text
  | .malformed _ => []

/-- `torchwood.ParseCheckpoint(n.Text)` -/
def Env.ckpt (e : Env) : Option Checkpoint := parseCheckpoint e.text

def Env.newSize (e : Env) : Nat := match e.ckpt with | some c => c.n.toNat | none => 0
def Env.newHash (e : Env) : Hash := match e.ckpt with | some c => c.hash | none => []

/-- `torchwood.Checkpoint{Origin: origin, Tree: tlog.Tree{N: newSize, Hash: newHash}}.String()` -/
def Env.reencoded (e : Env) : Bytes :=
  match e.ckpt with
  | some c => formatCheckpoint { origin := c.origin, n := c.n, hash := c.hash, ext := [] }
  | none => []

/-- what the two cosigners demand of the text they sign (`formatCosignatureV1`, `formatSubtreeV1`,
`subtreeCosignedMessage`): it parses, re-serialises to itself, has no extension lines, and the
origin is 1..255 bytes. (The length test is stated on the origin being formatted; it is the origin
of the parse whenever the parse succeeds, `Checkpoint.parse_format`.) -/
def signable (c : Checkpoint) : Bool :=
  decide (1 ≤ c.origin.length ∧ c.origin.length ≤ 255) &&
  match parseCheckpoint (formatCheckpoint c) with
  | some p => formatCheckpoint p == formatCheckpoint c && p.ext == []
  | none => false

/-- the checkpoint the witness re-encodes: `Checkpoint{Origin: origin, Tree: tlog.Tree{N: newSize, Hash: newHash}}` -/
def Env.reCkpt (e : Env) : Option Checkpoint :=
  e.ckpt.map fun c => { origin := c.origin, n := c.n, hash := c.hash, ext := [] }

/-- `note.Sign(&note.Note{Text: …, Sigs: submitted.Sigs}, w.s1, w.s2)`: the verified log signatures
(minus any that carry a cosigner's name and key hash), then the two cosignatures -/
def Env.signed (e : Env) : Option Note :=
  match e.opened, e.reCkpt with
  | .ok sigs, some c =>
    let text := formatCheckpoint c
    if signable c then
      let kept := sigs.filter fun s => !(e.cfg.k1.matches s || e.cfg.k2.matches s)
      some { text := text, sigs := kept ++ [e.cfg.k1.sign text, e.cfg.k2.sign text] }
    else none
  | _, _ => none

/-- `splitSignatures(signed, w.s1.Verifier().Name())` -/
def ownLines (cfg : Cfg) (n : Note) : List SigLine := n.sigs.filter fun s => s.name == cfg.k1.name

section
variable (node : Hash → Hash → Hash) (emptyHash : Hash)

/-- `openCheckpoint(origin, lock, note.VerifierList(w.s1.Verifier(), w.s2.Verifier()))` -/
def openStored (cfg : Cfg) (origin : Bytes) : LockVal → Option (Nat × Hash)
  | none => some (0, emptyHash)
  | some (note, _) =>
    match noteOpen [cfg.k1.verifier, cfg.k2.verifier] note with
    | .error _ => none
    | .ok _ =>
      match parseCheckpoint note.text with
      | none => none
      | some c => if c.origin ≠ origin then none else some (c.n.toNat, c.hash)

/-- `known` in `updateCheckpoint`: the parse of the cached copy -/
def known (e : Env) (st : OState) : Option (Nat × Hash) :=
  match st.cache e.inst with
  | none => none
  | some v => openStored emptyHash e.cfg e.origin v

/-! ## the program -/

inductive Guard where
  -- processAddCheckpointRequest
  | bodyCut | linesNonEmpty | oldPrefix | oldNumber | proofHashes | knownOrigin | noteSig | noteOther
  | parseCkpt | originCoherent | noExtension
  -- updateCheckpoint
  | stateFound | mutex | oldLeNew | zeroRoot | fetchRecorded | sizeMatches | consistency | sign | split
  | casGuard | lockReplace | upload
deriving DecidableEq, Repr

structure Step where
  guard : Guard
  err : ErrClass
deriving DecidableEq, Repr

/-- processAddCheckpointRequest, in source order -/
def programP : List Step :=
  [⟨.bodyCut, .badRequest⟩, ⟨.linesNonEmpty, .badRequest⟩, ⟨.oldPrefix, .badRequest⟩, ⟨.oldNumber, .badRequest⟩,
   ⟨.proofHashes, .badRequest⟩, ⟨.knownOrigin, .unknownLog⟩, ⟨.noteSig, .invalidSignature⟩,
   ⟨.noteOther, .badRequest⟩, ⟨.parseCkpt, .badCheckpoint⟩, ⟨.originCoherent, .internal⟩,
   ⟨.noExtension, .extensions⟩]

/-- updateCheckpoint, in source order -/
def programU : List Step :=
  [⟨.stateFound, .internal⟩, ⟨.mutex, .internal⟩, ⟨.oldLeNew, .badRequest⟩, ⟨.zeroRoot, .proof⟩,
   ⟨.fetchRecorded, .internal⟩, ⟨.sizeMatches, .conflict⟩, ⟨.consistency, .proof⟩, ⟨.sign, .internal⟩,
   ⟨.split, .internal⟩, ⟨.casGuard, .internal⟩, ⟨.lockReplace, .internal⟩, ⟨.upload, .internal⟩]

def program : List Step := programP ++ programU

inductive Verdict where
  | pass | fail | dead
deriving DecidableEq, Repr

def Verdict.ofBool (b : Bool) : Verdict := if b then .pass else .fail

/-- the guards that only test (they leave the state alone) -/
def holds (g : Guard) (e : Env) (st : OState) : Bool :=
  match g with
  | .bodyCut => e.req.body != .noSeparator
  | .linesNonEmpty => true                       -- `strings.Split` never returns an empty slice
  | .oldPrefix => e.req.body != .noOldPrefix
  | .oldNumber => e.req.body != .badOldNumber
  | .proofHashes => e.req.body != .badProofHash
  | .knownOrigin => e.logCfg.isSome
  | .noteSig => match e.opened with
    | .error .unverified | .error .invalidSignature => false
    | _ => true
  | .noteOther => match e.opened with
    | .ok _ => true
    | .error _ => false
  | .parseCkpt => e.ckpt.isSome
  | .originCoherent => match e.ckpt with
    | some c => c.origin == e.origin
    | none => false
  | .noExtension => match e.ckpt with
    | some c => c.ext == []
    | none => false
  | .stateFound => true                          -- `w.logs` and `w.meta` have the same keys
  | .mutex => true                               -- `l.mu.Lock()`: what makes the request one step
  | .oldLeNew => decide (e.req.old ≤ e.newSize)
  | .zeroRoot => !(e.newSize == 0 && e.newHash != emptyHash)
  | .sizeMatches => match known emptyHash e st with
    | some k => k.1 == e.req.old
    | none => false
  | .consistency => match known emptyHash e st with
    | some k =>
      if e.req.old ≠ 0 then Merkle.checkTree node e.req.proof.reverse e.newSize e.newHash k.1 k.2
      else e.req.proof.isEmpty
    | none => false
  | .sign => e.signed.isSome
  | .split => true                               -- `splitSignatures` of a `note.Sign` output cannot fail
  | .casGuard => true                            -- `l.checkpoint.Bytes()` is what `known` was parsed from
  | .fetchRecorded | .lockReplace | .upload => true

/-- `l.checkpointLocked(ctx, w)`: fetch from the lock store if nothing is cached, then open -/
def execFetch (e : Env) (st : OState) : OState × Verdict :=
  match st.cache e.inst with
  | some _ => (st, .ofBool (known emptyHash e st).isSome)
  | none =>
    let st1 := { st with log := st.log ++ [.lockFetch e.inst e.fetchOut] }
    match e.fetchOut.seen with
    | .dead => (st1, .dead)
    | .err => (st1, .fail)
    | .ok =>
      let st2 := st1.setCache e.inst (some st.lock)
      (st2, .ofBool (known emptyHash e st2).isSome)

/-- `w.c.Lock.Replace(ctx, l.checkpoint, signed)` and what happens to `l.checkpoint` afterwards.
The store compares the cached copy with the stored value; when they differ nothing is written and
the caller sees an error whatever was injected. -/
def execReplace (e : Env) (st : OState) : OState × Verdict :=
  match st.cache e.inst, e.signed with
  | some v, some s =>
    let canApply := decide (v = st.lock)
    let applied := canApply && e.replaceOut.applied
    let stamp := st.signedMsgs.length
    let st1 : OState :=
      { st with
        log := st.log ++ [.lockReplace e.inst s applied e.replaceOut]
        signedMsgs := st.signedMsgs ++ [(e.cfg.k1.key, s.text), (e.cfg.k2.key, s.text)]
        lock := if applied then some (s, stamp) else st.lock
        hist := if applied then st.hist ++ [(e.newSize, e.newHash)] else st.hist }
    let seen := if canApply then e.replaceOut.seen else (if e.replaceOut.seen = .dead then .dead else .err)
    match seen with
    | .ok => (st1.setCache e.inst (some (some (s, stamp))), .pass)
    | .err => (st1.setCache e.inst none, .fail)
    | .dead => (st1, .dead)
  | _, _ => (st, .fail)

/-- `w.c.Backend.Upload(ctx, backendKey, signed, optsCheckpoint)` -/
def execUpload (e : Env) (st : OState) : OState × Verdict :=
  match e.signed with
  | some s =>
    let applied := e.uploadOut.applied
    let st1 : OState :=
      { st with
        log := st.log ++ [.upload e.inst s applied e.uploadOut]
        pub := if applied then some s else st.pub }
    match e.uploadOut.seen with
    | .ok => (st1, .pass)
    | .err => (st1, .fail)
    | .dead => (st1, .dead)
  | none => (st, .fail)

def exec (g : Guard) (e : Env) (st : OState) : OState × Verdict :=
  match g with
  | .fetchRecorded => execFetch emptyHash e st
  | .lockReplace => execReplace e st
  | .upload => execUpload e st
  | g => (st, .ofBool (holds node emptyHash g e st))

/-- the error response of a failing step -/
def failResp (s : Step) (e : Env) (st : OState) : Resp :=
  .err s.err (if s.err = .conflict then (match known emptyHash e st with | some k => k.1 | none => 0) else 0)

/-- `return sigs, nil` -/
def finish (e : Env) (st : OState) : OState × Resp :=
  match e.signed with
  | some s => ({ st with released := st.released ++ [(e.newSize, e.newHash)] }, .ok (ownLines e.cfg s))
  | none => (st, .err .internal 0)

/-- run the steps in order; `none`: all of them passed -/
def runGuards : List Step → Env → OState → OState × Option Resp
  | [], _, st => (st, none)
  | s :: rest, e, st =>
    match exec node emptyHash s.guard e st with
    | (st', .pass) => runGuards rest e st'
    | (st', .fail) => (st', some (failResp emptyHash s e st'))
    | (st', .dead) => (st', some .dead)

def run (steps : List Step) (e : Env) (st : OState) : OState × Resp :=
  match runGuards node emptyHash steps e st with
  | (st', none) => finish e st'
  | (st', some r) => (st', r)

/-- the steps that only test -/
def Guard.isPure : Guard → Bool
  | .fetchRecorded | .lockReplace | .upload => false
  | _ => true

/-- the response of the first step of a list of tests that does not hold -/
def firstFail : List Step → Env → OState → Option Resp
  | [], _, _ => none
  | s :: rest, e, st =>
    if holds node emptyHash s.guard e st then firstFail rest e st else some (failResp emptyHash s e st)

/-- one add-checkpoint request, start to finish -/
def addCheckpoint (e : Env) (st : OState) : OState × Resp := run node emptyHash program e st

end

/-! ## what the property is stated with -/

section
variable (node : Hash → Hash → Hash) (emptyHash : Hash)

/-- the leaf-hash list `B` opens the tree head `c = (size, root)` -/
def Opens (c : Nat × Hash) (B : List Hash) : Prop := B.length = c.1 ∧ Merkle.mth node emptyHash B = c.2

/-- `b` extends `a`: every tree that opens `b` has, as its first `a.1` leaves, a tree that opens `a` -/
def Consistent (a b : Nat × Hash) : Prop := a.1 ≤ b.1 ∧ ∀ B, Opens node emptyHash b B → Opens node emptyHash a (B.take a.1)

/-- the tree head a signed note stands for (text only; `openStored` also demands the witness' own signature) -/
def ckOfNote (origin : Bytes) (note : Note) : Option (Nat × Hash) :=
  match parseCheckpoint note.text with
  | none => none
  | some c => if c.origin ≠ origin then none else some (c.n.toNat, c.hash)

/-- the tree head a stored value stands for -/
def ckOf (origin : Bytes) : LockVal → Option (Nat × Hash)
  | none => some (0, emptyHash)
  | some (note, _) => ckOfNote origin note

/-- every state the per-origin machine can reach: any number of witness instances on the same
stores, any requests addressed to this origin (well formed or not, any proof, any signatures), any
outcome of every store operation (including the death of the process before or after it takes
effect), restarts of any instance at any time -/
inductive Reachable (cfg : Cfg) (o : Bytes) : OState → Prop
  | init : Reachable cfg o (OState.init emptyHash)
  | add (e : Env) (st : OState) : Reachable cfg o st → e.cfg = cfg → e.origin = o →
      Reachable cfg o (addCheckpoint node emptyHash e st).1
  | restart (i : Nat) (st : OState) : Reachable cfg o st → Reachable cfg o (st.restart i)

end

/-! ## the listing of the source that the program stands for (tied in `Tie/C14.lean`) -/

def Guard.lines : Guard → ErrClass → List String
  | .bodyCut, c =>
    ["body, noteBytes, ok := bytes.Cut(body, []byte(\"\\n\\n\"))", s!"if !ok => return nil, {c.goName}"]
  | .linesNonEmpty, c =>
    ["lines := strings.Split(string(body), \"\\n\")", s!"if len(lines) < 1 => return nil, {c.goName}"]
  | .oldPrefix, c =>
    ["size, ok := strings.CutPrefix(lines[0], \"old \")", s!"if !ok => return nil, {c.goName}"]
  | .oldNumber, c =>
    ["oldSize, err := strconv.ParseInt(size, 10, 64)",
     s!"if err != nil || oldSize < 0 || size != strconv.FormatInt(oldSize, 10) => return nil, {c.goName}"]
  | .proofHashes, c =>
    ["proof := make(tlog.TreeProof, len(lines[1:]))", "for i, h := range lines[1:] {",
     "  proof[i], err = tlog.ParseHash(h)", s!"  if err != nil => return nil, {c.goName}", "}"]
  | .knownOrigin, c =>
    ["origin, _, _ := strings.Cut(string(noteBytes), \"\\n\")", "v, ok := w.verifiersForOrigin(origin)",
     s!"if !ok => return nil, {c.goName}"]
  | .noteSig, c =>
    ["n, err := note.Open(noteBytes, v)", "switch err.(type) {",
     s!"  case *note.UnverifiedNoteError, *note.InvalidSignatureError => return nil, {c.goName}", "}"]
  | .noteOther, c => [s!"if err != nil => return nil, {c.goName}"]
  | .parseCkpt, c => ["c, err := torchwood.ParseCheckpoint(n.Text)", s!"if err != nil => return nil, {c.goName}"]
  | .originCoherent, c => [s!"if origin != c.Origin => return nil, {c.goName}"]
  | .noExtension, c => [s!"if c.Extension != \"\" => return nil, {c.goName}"]
  | .stateFound, c => ["l, ok := w.stateForOrigin(origin)", s!"if !ok => return nil, {c.goName}"]
  | .mutex, _ => ["l.mu.Lock()", "defer l.mu.Unlock()"]
  | .oldLeNew, c => [s!"if oldSize > newSize => return nil, {c.goName}"]
  | .zeroRoot, c => [s!"if newSize == 0 && newHash != emptyTreeHash => return nil, {c.goName}"]
  | .fetchRecorded, _ => ["known, err := l.checkpointLocked(ctx, w)", "if err != nil => return nil, err"]
  | .sizeMatches, c => [s!"if known.N != oldSize => return nil, {c.goName}"]
  | .consistency, c =>
    ["if oldSize != 0 {",
     s!"  if err := tlog.CheckTree(proof, newSize, newHash, known.N, known.Hash); err != nil => return nil, {c.goName}",
     "} else {", s!"  if len(proof) != 0 => return nil, {c.goName}", "}"]
  | .sign, c =>
    ["signed, err := note.Sign(&note.Note{Text: torchwood.Checkpoint{ Origin: origin, Tree: tlog.Tree{N: newSize, Hash: newHash}, }.String(), Sigs: submitted.Sigs}, w.s1, w.s2)",
     s!"if err != nil => return nil, {c.goName}"]
  | .split, c =>
    ["sigs, err := splitSignatures(signed, w.s1.Verifier().Name())", s!"if err != nil => return nil, {c.goName}"]
  | .casGuard, c => [s!"if !bytes.Equal(l.checkpoint.Bytes(), known.Bytes) => return nil, {c.goName}"]
  | .lockReplace, c =>
    ["newLock, err := w.c.Lock.Replace(ctx, l.checkpoint, signed)",
     s!"if err != nil => l.checkpoint = nil; return nil, {c.goName}", "l.checkpoint = newLock"]
  | .upload, c =>
    ["backendKey := OriginHash(origin) + \"/checkpoint\"",
     s!"if err := w.c.Backend.Upload(ctx, backendKey, signed, optsCheckpoint); err != nil => return nil, {c.goName}"]

def Step.render (s : Step) : List String := s.guard.lines s.err

/-- the expected listing of `processAddCheckpointRequest` -/
def listingP : List String :=
  programP.flatMap Step.render ++ ["return w.updateCheckpoint(ctx, c.Origin, oldSize, c.N, c.Hash, proof, n)"]

/-- the expected listing of `updateCheckpoint` -/
def listingU : List String := programU.flatMap Step.render ++ ["return sigs, nil"]

/-- the callee of `fetchRecorded`: `checkpointLocked` (what `execFetch` models) -/
def listingCheckpointLocked : List String :=
  ["if l.checkpoint == nil {",
   "  lock, err := w.c.Lock.Fetch(ctx, backendKeyForCheckpoint(w.c, l.origin))",
   s!"  if err != nil => return nil, {ErrClass.internal.goName}",
   "  l.checkpoint = lock", "}",
   "return w.openCheckpoint(l.origin, l.checkpoint, note.VerifierList(w.s1.Verifier(), w.s2.Verifier()))"]

/-- `openCheckpoint` (what `openStored` models) -/
def listingOpenCheckpoint : List String :=
  ["checkpoint := lock.Bytes()",
   "if len(checkpoint) == 0 => return &parsedCheckpoint{ Checkpoint: torchwood.Checkpoint{ Origin: origin, Tree: tlog.Tree{N: 0, Hash: emptyTreeHash}, }, }, nil",
   "n, err := note.Open(checkpoint, v)", s!"if err != nil => return nil, {ErrClass.internal.goName}",
   "c, err := torchwood.ParseCheckpoint(n.Text)", s!"if err != nil => return nil, {ErrClass.internal.goName}",
   s!"if c.Origin != origin => return nil, {ErrClass.internal.goName}",
   "return &parsedCheckpoint{ Checkpoint: c, Bytes: lock.Bytes(), UnverifiedSigs: n.UnverifiedSigs, }, nil"]

/-- the status switch of `serveAddCheckpoint` / `serveSignSubtree`, from `ErrClass.status` -/
def goStatus : Nat → String
  | 404 => "http.StatusNotFound"
  | 403 => "http.StatusForbidden"
  | 400 => "http.StatusBadRequest"
  | 422 => "http.StatusUnprocessableEntity"
  | 409 => "http.StatusConflict"
  | 500 => "http.StatusInternalServerError"
  | _ => "?"

def switchCase (cs : List ErrClass) : String :=
  match cs with
  | [] => "?"
  | c :: _ =>
    s!"  case {", ".intercalate (cs.map ErrClass.goName)} => http.Error(rw, err.Error(), {goStatus c.status}); return "

/-- the classes the `switch err` lists, grouped as the source groups them -/
def switchGroups : List (List ErrClass) :=
  [[.unknownLog], [.invalidSignature], [.badRequest, .badCheckpoint, .extensions], [.proof]]

def listingSwitch : List String :=
  ["switch err {"] ++ switchGroups.map switchCase ++ ["}",
   s!"if err != nil => http.Error(rw, err.Error(), {goStatus ErrClass.internal.status}); return "]

def listingServeAdd : List String :=
  ["rw.Header().Set(\"Access-Control-Allow-Origin\", \"*\")",
   "if r.Method == http.MethodOptions => rw.Header().Set(\"Access-Control-Allow-Headers\", \"Content-Type\"); rw.WriteHeader(http.StatusNoContent); return ",
   "body, err := io.ReadAll(r.Body)",
   s!"if err != nil => w.c.Log.DebugContext(r.Context(), \"error reading request body\", \"error\", err); http.Error(rw, err.Error(), {goStatus 500}); return ",
   "cosig, err := w.processAddCheckpointRequest(r.Context(), body)",
   s!"if err, ok := err.(*conflictError); ok => rw.Header().Set(\"Content-Type\", \"text/x.tlog.size\"); rw.WriteHeader({goStatus ErrClass.conflict.status}); fmt.Fprintf(rw, \"%d\\n\", err.known); return "]
  ++ listingSwitch ++
  ["if _, err := rw.Write(cosig); err != nil {",
   "  w.c.Log.DebugContext(r.Context(), \"error writing response\", \"error\", err)", "}"]

end Witness
