import Model.Bytes
/-! C05 — lock backends as compare-and-swap registers (DESIGN.md §8 C05). Core only.

* `CasSpec`: the abstract register the `LockBackend` contract describes
  (`internal/ctlog/ctlog.go`): state `Id → Option Val`; `fetch / create / replace`.
* one-step models of the three backends, built from the statements the code issues
  (`sqlite.go`, `dynamodb.go`, `etag.go`), each over an explicit server contract:
  - SQLite: table `checkpoints(logID PRIMARY KEY, body NOT NULL)`; a statement executes
    atomically (the backend additionally holds its own mutex around statement + `changes()`).
  - DynamoDB: `PutItem` evaluates its `ConditionExpression` and writes atomically;
    `GetItem` with `ConsistentRead` returns the current item.
  - ETag object storage: `PutObject` evaluates `If-Match` and writes atomically; `If-Match: ""`
    means "only if absent" (the convention `etag.go` relies on); the ETag is a function `tag`
    of the content with `TagContract tag` (equal ETag ⇒ equal content; never empty).
* `Cmd` programs: what a client of the Go API can do (a `Replace` can only name a handle a
  previous `Fetch`/`Replace` returned).
* histories with invoke/return stamps, `Linearizable`, and the executable `checkWitness`.

The theorems are in `Proofs/Lock.lean` and `Props/C05.lean`. -/
namespace Lock

abbrev Id := Bytes
abbrev Val := Bytes

/-! ## The specification: a compare-and-swap register per log ID -/

abbrev State := Id → Option Val

def State.empty : State := fun _ => none

def State.set (s : State) (id : Id) (v : Val) : State :=
  fun i => if i = id then some v else s i

inductive Op where
  | fetch (id : Id)
  | create (id : Id) (v : Val)
  | replace (id : Id) (old new : Val)
  deriving DecidableEq, Repr

def Op.id : Op → Id
  | .fetch id => id
  | .create id _ => id
  | .replace id _ _ => id

inductive Res where
  | val (v : Val)   -- Fetch succeeded and returned v
  | notFound        -- Fetch: the log does not exist (ErrLogNotFound)
  | ok              -- Create / Replace succeeded
  | exists_         -- Create refused: a checkpoint already exists
  | conflict        -- Replace refused: stored value is not the expected one (or is missing)
  | badHandle       -- (programs only) Replace named a handle that was never returned
  | other           -- any other error; the specification never returns it
  deriving DecidableEq, Repr

namespace CasSpec

def step (s : State) : Op → State × Res
  | .fetch id =>
    match s id with
    | some v => (s, .val v)
    | none => (s, .notFound)
  | .create id v =>
    match s id with
    | none => (s.set id v, .ok)
    | some _ => (s, .exists_)
  | .replace id old new =>
    if s id = some old then (s.set id new, .ok) else (s, .conflict)

/-- Sequential run: results in order. -/
def run (s : State) : List Op → List Res
  | [] => []
  | o :: os => (step s o).2 :: run (step s o).1 os

def final (s : State) : List Op → State
  | [] => s
  | o :: os => final (step s o).1 os

end CasSpec

/-! ## Backends as seen through the Go API

`H` is the `LockedCheckpoint` handle; `Fetch` returns one, `Replace` consumes one and returns one. -/

structure Backend where
  S : Type
  H : Type
  init : S
  fetch : S → Id → Option H
  create : S → Id → Val → S × Bool
  replace : S → H → Val → S × Option H
  hid : H → Id
  hbody : H → Val

/-- Client programs: `replace k new` uses the k-th handle obtained so far. -/
inductive Cmd where
  | fetch (id : Id)
  | create (id : Id) (v : Val)
  | replace (k : Nat) (new : Val)
  deriving DecidableEq, Repr

/-- One command against a backend: new server state, new handle list, result. -/
def Backend.stepCmd (b : Backend) (s : b.S) (hs : List b.H) : Cmd → b.S × List b.H × Res
  | .fetch id =>
    match b.fetch s id with
    | some h => (s, hs ++ [h], .val (b.hbody h))
    | none => (s, hs, .notFound)
  | .create id v =>
    match b.create s id v with
    | (s', true) => (s', hs, .ok)
    | (s', false) => (s', hs, .exists_)
  | .replace k new =>
    match hs[k]? with
    | none => (s, hs, .badHandle)
    | some h =>
      match b.replace s h new with
      | (s', some h') => (s', hs ++ [h'], .ok)
      | (s', none) => (s', hs, .conflict)

def Backend.runFrom (b : Backend) (s : b.S) (hs : List b.H) : List Cmd → List Res
  | [] => []
  | c :: cs =>
    let r := b.stepCmd s hs c
    r.2.2 :: b.runFrom r.1 r.2.1 cs

/-- Results of a whole program from the initial (empty) store. -/
def Backend.run (b : Backend) (cs : List Cmd) : List Res := b.runFrom b.init [] cs

/-- The specification on programs: a handle is `(id, body)`; every call is one `CasSpec.step`. -/
def specStepCmd (t : State) (hs : List (Id × Val)) : Cmd → State × List (Id × Val) × Res
  | .fetch id =>
    let r := CasSpec.step t (.fetch id)
    match r.2 with
    | .val v => (r.1, hs ++ [(id, v)], r.2)
    | _ => (r.1, hs, r.2)
  | .create id v =>
    let r := CasSpec.step t (.create id v)
    (r.1, hs, r.2)
  | .replace k new =>
    match hs[k]? with
    | none => (t, hs, .badHandle)
    | some h =>
      let r := CasSpec.step t (.replace h.1 h.2 new)
      (r.1, if r.2 = .ok then hs ++ [(h.1, new)] else hs, r.2)

def specRunFrom (t : State) (hs : List (Id × Val)) : List Cmd → List Res
  | [] => []
  | c :: cs =>
    let r := specStepCmd t hs c
    r.2.2 :: specRunFrom r.1 r.2.1 cs

def specRun (cs : List Cmd) : List Res := specRunFrom State.empty [] cs

/-! ## SQLite (`sqlite.go`) -/
namespace Sqlite

/-- `checkpoints (logID BLOB PRIMARY KEY, body BLOB NOT NULL)`: at most one row per logID. -/
abbrev Table := Id → Option Val

inductive OnConflict where
  | doNothing
  | doUpdate
  deriving DecidableEq, Repr

/-- The statement shapes the model gives a meaning to. -/
inductive Stmt where
  | select                       -- rows with logID = ?1, column body
  | update (matchBody : Bool)    -- SET body = ?1 WHERE logID = ?2 [AND body = ?3]
  | insert (c : OnConflict)      -- (logID, body) VALUES (?1, ?2) ON CONFLICT(logID) …
  deriving DecidableEq, Repr

/-- Exact SQL text (whitespace-normalised) of each statement shape. -/
def Stmt.render : Stmt → String
  | .select => "SELECT body FROM checkpoints WHERE logID = ?"
  | .update true => "UPDATE checkpoints SET body = ? WHERE logID = ? AND body = ?"
  | .update false => "UPDATE checkpoints SET body = ? WHERE logID = ?"
  | .insert .doNothing => "INSERT INTO checkpoints (logID, body) VALUES (?, ?) ON CONFLICT(logID) DO NOTHING"
  | .insert .doUpdate => "INSERT INTO checkpoints (logID, body) VALUES (?, ?) ON CONFLICT(logID) DO UPDATE SET body = excluded.body"

def execSelect (t : Table) (id : Id) : Option Val := t id

/-- `UPDATE`: new table and `changes()`. -/
def execUpdate (matchBody : Bool) (t : Table) (new : Val) (id : Id) (old : Val) : Table × Nat :=
  match t id with
  | some cur => if !matchBody || cur = old then (State.set t id new, 1) else (t, 0)
  | none => (t, 0)

/-- `INSERT … ON CONFLICT`: new table and `changes()`. -/
def execInsert (c : OnConflict) (t : Table) (id : Id) (v : Val) : Table × Nat :=
  match t id with
  | none => (State.set t id v, 1)
  | some _ =>
    match c with
    | .doNothing => (t, 0)
    | .doUpdate => (State.set t id v, 1)

/-- What the Go methods do around the statements. -/
structure Program where
  fetchStmt : Stmt
  replaceStmt : Stmt
  createStmt : Stmt
  replaceChecksChanges : Bool   -- `if b.conn.Changes() == 0 { return error }` after the UPDATE
  createChecksChanges : Bool    -- idem after the INSERT
  holdsMutex : Bool             -- `b.mu.Lock(); defer b.mu.Unlock()` first in every method
  pragmas : List String
  deriving Repr

/-- The program in `sqlite.go` (tied to the source by `Tie/C05.lean`). -/
def program : Program where
  fetchStmt := .select
  replaceStmt := .update true
  createStmt := .insert .doNothing
  replaceChecksChanges := true
  createChecksChanges := true
  holdsMutex := true
  pragmas := ["PRAGMA synchronous = FULL", "PRAGMA fullfsync = TRUE;"]

structure Handle where
  logID : Id
  body : Val
  deriving DecidableEq, Repr

/-- One call = mutex + statement + `changes()` test, executed atomically (server contract). -/
def backend (p : Program) : Backend where
  S := Table
  H := Handle
  init := State.empty
  fetch t id :=
    match p.fetchStmt with
    | .select => (execSelect t id).map fun v => ⟨id, v⟩
    | _ => none
  create t id v :=
    match p.createStmt with
    | .insert c =>
      let r := execInsert c t id v
      (r.1, !p.createChecksChanges || r.2 != 0)
    | _ => (t, false)
  replace t h new :=
    match p.replaceStmt with
    | .update mb =>
      let r := execUpdate mb t new h.logID h.body
      if p.replaceChecksChanges && r.2 == 0 then (r.1, none) else (r.1, some ⟨h.logID, new⟩)
    | _ => (t, none)
  hid h := h.logID
  hbody h := h.body

end Sqlite

/-! ## DynamoDB (`dynamodb.go`) -/
namespace Dynamo

/-- Items have exactly the attributes `logID` (key) and `checkpoint`. `stale` is what an
eventually-consistent read may still return. -/
structure Server where
  cur : Id → Option Val
  stale : Id → Option Val

inductive Cond where
  | none
  | attrNotExists (attr : String)
  | attrEq (attr : String) (placeholder : String)
  deriving DecidableEq, Repr

def Cond.render : Cond → String
  | .none => ""
  | .attrNotExists a => "attribute_not_exists(" ++ a ++ ")"
  | .attrEq a p => a ++ " = " ++ p

/-- Condition against the current item with that key; `arg` is the value bound to the placeholder. -/
def Cond.eval (c : Cond) (item : Option Val) (arg : Val) : Bool :=
  match c with
  | .none => true
  | .attrNotExists a =>
    match item with
    | Option.none => true
    | some _ => !(a == "logID" || a == "checkpoint")
  | .attrEq a _ =>
    match item with
    | Option.none => false
    | some cur => a == "checkpoint" && cur == arg

def getItem (s : Server) (id : Id) (consistent : Bool) : Option Val :=
  if consistent then s.cur id else s.stale id

/-- Conditional `PutItem` is atomic: evaluate, then write (server contract). -/
def putItem (s : Server) (id : Id) (v : Val) (c : Cond) (arg : Val) : Server × Bool :=
  if c.eval (s.cur id) arg then ({ s with cur := State.set s.cur id v }, true) else (s, false)

structure Program where
  consistentRead : Bool
  replaceCond : Cond
  createCond : Cond
  deriving Repr

def program : Program where
  consistentRead := true
  replaceCond := .attrEq "checkpoint" ":old"
  createCond := .attrNotExists "logID"

structure Handle where
  logID : Id
  body : Val
  deriving DecidableEq, Repr

def backend (p : Program) : Backend where
  S := Server
  H := Handle
  init := ⟨State.empty, State.empty⟩
  fetch s id := (getItem s id p.consistentRead).map fun v => ⟨id, v⟩
  create s id v := putItem s id v p.createCond []
  replace s h new :=
    match putItem s h.logID new p.replaceCond h.body with
    | (s', true) => (s', some ⟨h.logID, new⟩)
    | (s', false) => (s', none)
  hid h := h.logID
  hbody h := h.body

end Dynamo

/-! ## ETag object storage (`etag.go`) -/
namespace ETag

abbrev Tag := String

/-- Server contract on ETags: equal ETag ⇒ equal content; an ETag is never the empty string. -/
structure TagContract (tag : Val → Tag) : Prop where
  inj : ∀ a b, tag a = tag b → a = b
  nonempty : ∀ a, tag a ≠ ""

/-- Objects by key; the key is the hex of the log ID (injective), so keys are modelled by `Id`. -/
abbrev Objects := Id → Option Val

/-- How the `If-Match` header of a `PutObject` is formed. -/
inductive IfMatch where
  | absent                 -- header not sent
  | lit (s : String)       -- a constant
  | handleETag             -- the ETag stored in the handle
  deriving DecidableEq, Repr

def getObject (tag : Val → Tag) (o : Objects) (key : Id) : Option (Val × Tag) :=
  (o key).map fun v => (v, tag v)

/-- Conditional `PutObject` is atomic (server contract). `hdr = none`: unconditional;
`some ""`: only if absent; `some e`: only if present with ETag `e`. Returns the new ETag. -/
def putObject (tag : Val → Tag) (o : Objects) (key : Id) (body : Val) (hdr : Option Tag) :
    Objects × Option Tag :=
  match hdr with
  | none => (State.set o key body, some (tag body))
  | some e =>
    if e = "" then
      match o key with
      | none => (State.set o key body, some (tag body))
      | some _ => (o, none)
    else
      match o key with
      | some cur => if tag cur = e then (State.set o key body, some (tag body)) else (o, none)
      | none => (o, none)

structure Program where
  replaceIfMatch : IfMatch
  createIfMatch : IfMatch
  deriving Repr

def program : Program where
  replaceIfMatch := .handleETag
  createIfMatch := .lit ""

structure Handle where
  key : Id
  body : Val
  eTag : Tag
  deriving DecidableEq, Repr

def IfMatch.header (m : IfMatch) (h : Option Handle) : Option Tag :=
  match m with
  | .absent => none
  | .lit s => some s
  | .handleETag => h.map (·.eTag)

def backend (tag : Val → Tag) (p : Program) : Backend where
  S := Objects
  H := Handle
  init := State.empty
  fetch o id := (getObject tag o id).map fun r => ⟨id, r.1, r.2⟩
  create o id v :=
    match putObject tag o id v (p.createIfMatch.header none) with
    | (o', some _) => (o', true)
    | (o', none) => (o', false)
  replace o h new :=
    match putObject tag o h.key new (p.replaceIfMatch.header (some h)) with
    | (o', some e) => (o', some ⟨h.key, new, e⟩)
    | (o', none) => (o', none)
  hid h := h.key
  hbody h := h.body

/-- A handle is well formed when its ETag is the ETag of its body (true of every handle the
backend returns: both come from one atomic response). -/
def Handle.WF (tag : Val → Tag) (h : Handle) : Prop := h.eTag = tag h.body

end ETag

/-! ## What the source must say for the statement tables above to be the code's

`Tie/C05.lean` proves the regenerated facts equal these renderings of `Sqlite.program`,
`Dynamo.program`, `ETag.program` (so a changed SQL text, bound-argument order, condition, flag or
header no longer matches any statement the models give a meaning to). -/
namespace Source

def quote (s : String) : String := "\"" ++ s ++ "\""

inductive Method where
  | fetch | replace | create
  deriving DecidableEq, Repr

/-- Meaning of each `?` of a statement, in order. -/
inductive Role where
  | key | newBody | oldBody
  deriving DecidableEq, Repr

def sqlParams : Sqlite.Stmt → List Role
  | .select => [.key]
  | .update true => [.newBody, .key, .oldBody]
  | .update false => [.newBody, .key]
  | .insert _ => [.key, .newBody]

/-- The Go expression that carries each role in each method of `sqlite.go`. -/
def sqliteGoArg : Method → Role → String
  | .fetch, .key => "logID[:]"
  | .create, .key => "logID[:]"
  | .replace, .key => "o.logID[:]"
  | .replace, .oldBody => "o.body"
  | _, .newBody => "new"
  | _, .oldBody => "?"

def sqliteStmtOf (p : Sqlite.Program) : Method → Sqlite.Stmt
  | .fetch => p.fetchStmt
  | .replace => p.replaceStmt
  | .create => p.createStmt

/-- `sqlitex.Exec(b.conn, <sql>, <row callback or nil>, <bound arguments>…)` -/
def sqliteExec (p : Sqlite.Program) (m : Method) : List String :=
  let st := sqliteStmtOf p m
  let cb := match st with | .select => "func" | _ => "nil"
  ["sqlitex.Exec(b.conn, " ++ quote st.render ++ ", " ++ cb ++ ", " ++
    ", ".intercalate ((sqlParams st).map (sqliteGoArg m)) ++ ")"]

/-- Effect skeleton of a method: mutex first, the nil→empty normalisation of the new value
(NULL is not an empty blob), the statement, then the `changes()` / missing-row test. -/
def sqliteSkel (p : Sqlite.Program) (m : Method) : List String :=
  (if p.holdsMutex then ["call b.mu.Lock() onerr=ignored guard=[]", "defer b.mu.Unlock()"] else []) ++
  (match m with | .fetch => [] | _ => ["guard [new == nil] -> continue"]) ++
  ["call sqlitex.Exec(b.conn) onerr=fail guard=[]"] ++
  (match m with
   | .fetch => ["guard [body == nil] -> fail"]
   | .replace => if p.replaceChecksChanges then
       ["call b.conn.Changes() onerr=cond guard=[]", "guard [b.conn.Changes() == 0] -> fail"] else []
   | .create => if p.createChecksChanges then
       ["call b.conn.Changes() onerr=cond guard=[]", "guard [b.conn.Changes() == 0] -> fail"] else [])

/-- Return statements: statement error; missing row / zero changes; success (with the handle). -/
def sqliteReturns : Method → List String
  | .fetch => ["nil, err", "nil, ErrLogNotFound", "&sqliteCheckpoint{logID: logID, body: body}, nil"]
  | .replace => ["nil, fmtErrorf", "nil, fmtErrorf", "&sqliteCheckpoint{logID: o.logID, body: new}, nil"]
  | .create => ["fmt.Errorf", "errors.New", "nil"]

def sqliteOpen (p : Sqlite.Program) : List String :=
  ["sqlite.OpenConn(path, sqlite.OpenFlagsDefault & ^sqlite.SQLITE_OPEN_CREATE)"] ++
  p.pragmas.map fun s => "sqlitex.ExecTransient(conn, " ++ quote s ++ ", nil)"

def goBool (b : Bool) : String := if b then "true" else "false"

def attrB (e : String) : String := "&types.AttributeValueMemberB{Value: " ++ e ++ "}"

def dynamoFetchInput (p : Dynamo.Program) : List String :=
  ["TableName = aws.String(b.table)",
   "Key = map[string]types.AttributeValue{ " ++ quote "logID" ++ ": " ++ attrB "logID[:]" ++ ", }",
   "ConsistentRead = aws.Bool(" ++ goBool p.consistentRead ++ ")"]

/-- `PutItemInput`: the item (`logID`, `checkpoint` := the new value), the condition, and the value
bound to the condition's placeholder (the handle's body). -/
def dynamoPutInput (c : Dynamo.Cond) (idExpr : String) : List String :=
  ["TableName = aws.String(b.table)",
   "Item = map[string]types.AttributeValue{ " ++ quote "logID" ++ ": " ++ attrB idExpr ++ ", " ++
     quote "checkpoint" ++ ": " ++ attrB "new" ++ ", }"] ++
  (match c with
   | .none => []
   | .attrNotExists _ => ["ConditionExpression = aws.String(" ++ quote c.render ++ ")"]
   | .attrEq _ ph =>
     ["ConditionExpression = aws.String(" ++ quote c.render ++ ")",
      "ExpressionAttributeValues = map[string]types.AttributeValue{ " ++ quote ph ++ ": " ++
        attrB "o.body" ++ ", }"])

def dynamoReturns : Method → List String
  | .fetch => ["nil, err", "nil, ErrLogNotFound",
      "&dynamoDBCheckpoint{logID: logID, body: resp.Item[\"checkpoint\"].(*types.AttributeValueMemberB).Value}, nil"]
  | .replace => ["nil, fmtErrorf", "&dynamoDBCheckpoint{body: new, logID: o.logID}, nil"]
  | .create => ["err"]

def etagHeaders (m : ETag.IfMatch) : List String :=
  match m with
  | .absent => []
  | .lit s => ["awshttp.AddHeaderValue(" ++ quote "If-Match" ++ ", " ++ quote s ++ ")"]
  | .handleETag => ["awshttp.AddHeaderValue(" ++ quote "If-Match" ++ ", o.eTag)"]

def etagPutInput (keyExpr : String) : List String :=
  ["Bucket = aws.String(b.bucket)", "Key = aws.String(" ++ keyExpr ++ ")",
   "Body = bytes.NewReader(new)", "ContentLength = aws.Int64(int64(len(new)))",
   "ContentType = aws.String(\"text/plain; charset=utf-8\")"]

/-- The handle a call returns: body and ETag of one response. -/
def etagHandle (keyExpr bodyExpr : String) : List String :=
  ["key = " ++ keyExpr, "body = " ++ bodyExpr, "eTag = *out.ETag"]

end Source

/-! ## Concurrent histories -/

/-- One completed call: what was asked, what came back, logical invoke / return stamps. -/
structure Event where
  op : Op
  res : Res
  inv : Nat
  ret : Nat
  deriving DecidableEq, Repr

abbrev History := List Event

/-- `a` may be ordered before `b`: `b` did not return before `a` was invoked. -/
def mayPrecede (a b : Event) : Prop := ¬ b.ret < a.inv

/-- The sequential specification accepts the events in this order with exactly these results. -/
def Accepts (s : State) (evs : List Event) : Prop :=
  CasSpec.run s (evs.map (·.op)) = evs.map (·.res)

/-- `evs` is a linearisation of `h` from state `s`: the same events, in a total order that
respects real-time precedence, and the sequential register yields the recorded results. -/
def LinearizedBy (s : State) (h : History) (evs : List Event) : Prop :=
  evs.Perm h ∧ evs.Pairwise mayPrecede ∧ Accepts s evs

def Linearizable (s : State) (h : History) : Prop := ∃ evs, LinearizedBy s h evs

/-! ### Executable witness checker -/

def rtOrdered : List Event → Bool
  | [] => true
  | a :: rest => rest.all (fun b => !(decide (b.ret < a.inv))) && rtOrdered rest

def accepts (s : State) : List Event → Bool
  | [] => true
  | e :: es =>
    let r := CasSpec.step s e.op
    r.2 == e.res && accepts r.1 es

/-- The events of `h` in the proposed order (indices into `h`). -/
def reorder (h : History) (σ : List Nat) : List Event := σ.filterMap (h[·]?)

/-- Is `σ` (a list of indices into `h`) a linearisation of `h` from state `s`? -/
def checkWitnessFrom (s : State) (h : History) (σ : List Nat) : Bool :=
  σ.isPerm (List.range h.length) && rtOrdered (reorder h σ) && accepts s (reorder h σ)

def checkWitness (h : History) (σ : List Nat) : Bool := checkWitnessFrom State.empty h σ

/-! ### Vocabulary for the history-level properties -/

/-- The value a *successful* write on `id` stores. -/
def Event.wrote (id : Id) (e : Event) : Option Val :=
  match e.op, e.res with
  | .create i v, .ok => if i = id then some v else none
  | .replace i _ n, .ok => if i = id then some n else none
  | _, _ => none

/-- Successful replace on `id` whose expected predecessor is `old`. -/
def Event.okReplaceFrom (id : Id) (old : Val) (e : Event) : Bool :=
  match e.op, e.res with
  | .replace i o _, .ok => i == id && o == old
  | _, _ => false

def Event.okCreate (id : Id) (e : Event) : Bool :=
  match e.op, e.res with
  | .create i _, .ok => i == id
  | _, _ => false

/-- Every successfully written value of an id is new: distinct from the initial one and from
every other successful write (sunlight: strictly increasing checkpoint timestamps). -/
def FreshWrites (s : State) (h : History) : Prop :=
  ∀ id, ((s id).toList ++ h.filterMap (Event.wrote id)).Nodup

/-- At most one successful replace per predecessor value. -/
def OneSuccessor (h : History) : Prop :=
  ∀ id old, (h.filter (Event.okReplaceFrom id old)).length ≤ 1

/-- Value of `id` after the successful writes in `evs`, starting from `v`. -/
def lastWrite (id : Id) (v : Val) : List Event → Val
  | [] => v
  | e :: es => lastWrite id ((e.wrote id).getD v) es

end Lock
