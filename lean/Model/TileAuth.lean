import Model.Merkle
/-! Authentication of hash tiles against a tree head — the logic of `tlog.TileHashReader.ReadHashes`
(golang.org/x/mod/sumdb/tlog, pinned), which `ctlog.LoadLog` (C08) and the monitoring client (C12) rely on.

A hash tile at tile level `L` (height 8) holds hashes of complete subtrees of `256^L` leaves. The reader
(1) fetches the right-edge tile of every level and recombines their entries to the tree hash, which must equal the
trusted root; (2) for every other (full) tile it needs, checks that the tile hashes to its entry in the parent tile,
walking up until it reaches a tile it has already authenticated. `tlog` expresses (1) through stored-hash indexes of the
peaks of the tree; the value it computes is the RFC 6962 root written as a fold over the per-level edge entries, which
is how it is modelled here (`edgeFold`). Definitions only; the soundness theorems are in Proofs/TileAuth.lean.
Core Lean only. -/
namespace TileAuth
open Merkle
variable {H : Type} (node : H → H → H) (empty : H)

/-- hashes of the consecutive blocks of `s` leaves of `B`; the last block may be shorter (absent when empty) -/
def items (s : Nat) (B : List H) : List H :=
  if _h : s = 0 ∨ B.length ≤ s then (if B = [] then [] else [mth node empty B])
  else mth node empty (B.take s) :: items s (B.drop s)
termination_by B.length
decreasing_by
  simp only [List.length_drop]
  omega

/-- the hashes of the FULL blocks of `s` leaves: what hash tiles at that level store, in order -/
def level (s : Nat) (B : List H) : List H := (items node empty s B).take (B.length / s)

/-- the leaves left over below a block boundary of size `s` -/
def remainder (s : Nat) (B : List H) : List H := B.drop (B.length / s * s)

/-- width of the right-edge tile at level `L` of a tree of `n` leaves (may be 0) -/
def edgeWidth (n L : Nat) : Nat := n / 256 ^ L % 256

/-- the authentic content of the right-edge tile at level `L` -/
def trueEdge (L : Nat) (B : List H) : List H :=
  (level node empty (256 ^ L) B).drop (B.length / 256 ^ L / 256 * 256)

/-- step of the recombination: the entries of this level's edge tile, followed by what the lower levels hash to -/
def edgeStep (acc : Option H) (es : List H) : Option H :=
  let l := es ++ acc.toList
  if l = [] then none else some (mth node empty l)

/-- the tree hash recombined from the right-edge tiles, listed from level 0 upward -/
def edgeFold (edges : List (List H)) : Option H := edges.foldl (edgeStep node empty) none

/-- the authentic content of the tile at level `L`, index `N`, width `W` -/
def trueTile (L N W : Nat) (B : List H) : List H :=
  ((level node empty (256 ^ L) B).drop (N * 256)).take W

/-- `tileHash`: a full tile hashes to the root of the complete tree over its 256 entries -/
def tileHash (es : List H) : H := mth node empty es

end TileAuth

namespace TileAuth
open Merkle
variable {H : Type} (node : H → H → H) (empty : H)

/-! ### executable reader: what the driver runs against `tlog.TileHashReader` (engine `tilereader`) -/

/-- a fetched hash tile: coordinates and entries (the width is the number of entries) -/
structure TileData (H : Type) where
  L : Nat
  N : Nat
  es : List H

def findTile (tiles : List (TileData H)) (L N W : Nat) : Option (List H) :=
  (tiles.find? fun t => t.L == L && t.N == N && t.es.length == W).map (·.es)

/-- the right-edge tile of level `L` among the fetched tiles (`[]` when the size prescribes none) -/
def edgeAt (n : Nat) (tiles : List (TileData H)) (L : Nat) : Option (List H) :=
  if edgeWidth n L = 0 then some [] else findTile tiles L (n / 256 ^ L / 256) (edgeWidth n L)

def edgesFn (n : Nat) (tiles : List (TileData H)) : Nat → List H := fun L => (edgeAt n tiles L).getD []

/-- recombination of the edge tiles of levels `0 … L-1` -/
def edgeFx (e : Nat → List H) : Nat → Option H
  | 0 => none
  | L + 1 => edgeStep node empty (edgeFx e L) (e L)

/-- the content of tile `(L, N)` once it is authenticated: the edge tile of its level, or a full tile that hashes
    to its entry in the (authenticated) parent -/
def chainUp [DecidableEq H] : Nat → Nat → List (TileData H) → Nat → Nat → Option (List H)
  | 0, _, _, _, _ => none
  | fuel + 1, n, tiles, L, N =>
    if N = n / 256 ^ L / 256 then edgeAt n tiles L
    else match findTile tiles L N 256, chainUp fuel n tiles (L + 1) (N / 256) with
      | some es, some pes => if pes[N % 256]? = some (tileHash node empty es) then some es else none
      | _, _ => none

/-- number of tile levels of a tree of `n` leaves (at most 8: 64-bit sizes) -/
def numLevels (n : Nat) : Nat := ((List.range 9).find? fun T => n < 256 ^ T).getD 9

/-- `ReadHashes([StoredHashIndex(0, i)])`: the record hash of leaf `i`, or refusal -/
def readLeafHash [DecidableEq H] (n : Nat) (root : H) (tiles : List (TileData H)) (i : Nat) : Option H :=
  let T := numLevels n
  if n = 0 ∨ n ≤ i ∨ ¬ n < 256 ^ T then none
  else if !((List.range T).all fun L => (edgeAt n tiles L).isSome) then none
  else if edgeFx node empty (edgesFn n tiles) T ≠ some root then none
  else match chainUp node empty (T + 1) n tiles 0 (i / 256) with
    | some es => es[i % 256]?
    | none => none

end TileAuth

namespace TileAuth
open Merkle
variable {H : Type} (node : H → H → H) (empty : H)

/-! ### `tlog.TileHashReader` AS IT IS at the pinned version (finding F10)

`ReadHashes` authenticates the non-edge tiles it fetched in a loop that starts at index `len(stx)` of its tile list,
where `stx` are the PEAKS of the tree (one per set bit of the size), although the edge tiles that open the list are
fewer whenever two peaks share a tile (one per tile level with a non-empty edge tile). The first
`popcount n − #edge tiles` tiles of the parent chain — the highest ones — are therefore never compared with their parent
entry. `readLeafHashTlog` is the reader with exactly that omission; `readLeafHash` (above) is the reader without it,
which is the one `readLeafHash_sound` is about. The driver compares the real code with `readLeafHashTlog`. -/

def popcount : Nat → Nat → Nat
  | 0, _ => 0
  | fuel + 1, n => if n = 0 then 0 else n % 2 + popcount fuel (n / 2)

/-- number of tile levels whose right-edge tile is not empty -/
def edgeTileCount (n : Nat) : Nat := ((List.range 9).filter fun L => edgeWidth n L != 0).length

/-- how many fetched non-edge tiles `ReadHashes` leaves unauthenticated -/
def tlogSkipped (n : Nat) : Nat := popcount 64 n - edgeTileCount n

/-- number of non-edge tiles on the way up from the level-0 tile `N0` -/
def chainLen : Nat → Nat → Nat → Nat → Nat
  | 0, _, _, _ => 0
  | fuel + 1, n, L, N => if N = n / 256 ^ L / 256 then 0 else 1 + chainLen fuel n (L + 1) (N / 256)

/-- `chainUp` with the parent comparison of the tile at level `L` performed only when `chk L` -/
def chainUpChk [DecidableEq H] (chk : Nat → Bool) : Nat → Nat → List (TileData H) → Nat → Nat → Option (List H)
  | 0, _, _, _, _ => none
  | fuel + 1, n, tiles, L, N =>
    if N = n / 256 ^ L / 256 then edgeAt n tiles L
    else match findTile tiles L N 256, chainUpChk chk fuel n tiles (L + 1) (N / 256) with
      | some es, some pes =>
        if chk L then (if pes[N % 256]? = some (tileHash node empty es) then some es else none)
        else (if (pes[N % 256]?).isSome then some es else none)   -- the parent entry must exist (HashFromTile), nothing more
      | _, _ => none

def readLeafHashWith [DecidableEq H] (chk : Nat → Bool) (n : Nat) (root : H) (tiles : List (TileData H)) (i : Nat) : Option H :=
  let T := numLevels n
  if n = 0 ∨ n ≤ i ∨ ¬ n < 256 ^ T then none
  else if !((List.range T).all fun L => (edgeAt n tiles L).isSome) then none
  else if edgeFx node empty (edgesFn n tiles) T ≠ some root then none
  else match chainUpChk node empty chk (T + 1) n tiles 0 (i / 256) with
    | some es => es[i % 256]?
    | none => none

/-- the pinned `tlog.TileHashReader`: the tile at level `L` of a chain of `m` non-edge tiles sits at position `m-1-L`
    behind the edge tiles; it is compared with its parent only from position `tlogSkipped n` on -/
def readLeafHashTlog [DecidableEq H] (n : Nat) (root : H) (tiles : List (TileData H)) (i : Nat) : Option H :=
  let m := chainLen 9 n 0 (i / 256)
  readLeafHashWith node empty (fun L => decide (tlogSkipped n ≤ m - 1 - L)) n root tiles i

end TileAuth
