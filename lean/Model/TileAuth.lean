import Model.Merkle
/-! Authentication of hash tiles against a tree head — the logic of `tlog.TileHashReader.ReadHashes`
(golang.org/x/mod/sumdb/tlog, pinned), which `ctlog.LoadLog` (C08) and the monitoring client (C12) rely on.

A hash tile at tile level `L` (height 8) holds hashes of complete subtrees of `256^L` leaves. The reader
(1) fetches the right-edge tile of every level and recombines their entries to the tree hash, which must equal the
trusted root; (2) for every other (full) tile it needs, checks that the tile hashes to its entry in the parent tile,
walking up until it reaches a tile it has already authenticated. `tlog` expresses (1) through stored-hash indexes of the
peaks of the tree; the value it computes is the RFC 6962 root written as a fold over the per-level edge entries, which
is how it is modelled here (`edgeFold`). Definitions only; the soundness theorems are in Proofs/TileAuth.lean.
Core Lean only. -/
namespace TileAuth
open Merkle
variable {H : Type} (node : H → H → H) (empty : H)

/-- hashes of the consecutive blocks of `s` leaves of `B`; the last block may be shorter (absent when empty) -/
def items (s : Nat) (B : List H) : List H :=
  if _h : s = 0 ∨ B.length ≤ s then (if B = [] then [] else [mth node empty B])
  else mth node empty (B.take s) :: items s (B.drop s)
termination_by B.length
decreasing_by
  simp only [List.length_drop]
  omega

/-- the hashes of the FULL blocks of `s` leaves: what hash tiles at that level store, in order -/
def level (s : Nat) (B : List H) : List H := (items node empty s B).take (B.length / s)

/-- the leaves left over below a block boundary of size `s` -/
def remainder (s : Nat) (B : List H) : List H := B.drop (B.length / s * s)

/-- width of the right-edge tile at level `L` of a tree of `n` leaves (may be 0) -/
def edgeWidth (n L : Nat) : Nat := n / 256 ^ L % 256

/-- the authentic content of the right-edge tile at level `L` -/
def trueEdge (L : Nat) (B : List H) : List H :=
  (level node empty (256 ^ L) B).drop (B.length / 256 ^ L / 256 * 256)

/-- step of the recombination: the entries of this level's edge tile, followed by what the lower levels hash to -/
def edgeStep (acc : Option H) (es : List H) : Option H :=
  let l := es ++ acc.toList
  if l = [] then none else some (mth node empty l)

/-- the tree hash recombined from the right-edge tiles, listed from level 0 upward -/
def edgeFold (edges : List (List H)) : Option H := edges.foldl (edgeStep node empty) none

/-- the authentic content of the tile at level `L`, index `N`, width `W` -/
def trueTile (L N W : Nat) (B : List H) : List H :=
  ((level node empty (256 ^ L) B).drop (N * 256)).take W

/-- `tileHash`: a full tile hashes to the root of the complete tree over its 256 entries -/
def tileHash (es : List H) : H := mth node empty es

end TileAuth
