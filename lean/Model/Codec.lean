import Model.Bytes
/-!
# Byte codecs of sunlight (tile.go, extensions.go, ctlog.go, checkpoint.go). Core Lean only.

Layer 1: a tiny schema language for *flat* sequences of fixed-width and
length-prefixed fields (`Field`, `enc`, `dec`, `Fits`), with generic round-trip
and canonicity theorems in `Proofs/Codec.lean`.

Layer 2: every sunlight encoder is `enc (spec.map (·.field)) (spec.map (·.val …))`
for a `FieldSpec` list that also carries the Go source text of the
corresponding `cryptobyte` builder call (`w`) and reader call (`r`).
`Tie/C10.lean` compares these source texts with what `tools/extract` finds in
/repo today, so the schema the theorems are instantiated with is the schema of
the code.

Go panics (`BytesOrPanic` after a length-prefix overflow or `SetError`) are `none`.
-/
namespace Codec

/-! ## big endian -/

/-- big-endian, exactly k bytes (truncating, like `byte(v >> …)`) -/
def toBE : Nat → Nat → Bytes
  | 0, _ => []
  | k+1, n => UInt8.ofNat (n / 256 ^ k % 256) :: toBE k (n % 256 ^ k)

def fromBE : Bytes → Nat
  | [] => 0
  | b :: bs => b.toNat * 256 ^ bs.length + fromBE bs

/-! ## flat schemas -/

/-- a field is either n raw bytes or a k-byte big-endian length followed by that many bytes -/
inductive Field where
  | fixed (n : Nat)
  | lenp (k : Nat)
deriving DecidableEq, Repr

def Field.fits : Field → Bytes → Prop
  | .fixed n, v => v.length = n
  | .lenp k, v => v.length < 256 ^ k

instance (f : Field) (v : Bytes) : Decidable (f.fits v) := by
  cases f <;> simp only [Field.fits] <;> exact inferInstance

def encField : Field → Bytes → Bytes
  | .fixed _, v => v
  | .lenp k, v => toBE k v.length ++ v

def decField : Field → Bytes → Option (Bytes × Bytes)
  | .fixed n, bs => if n ≤ bs.length then some (bs.take n, bs.drop n) else none
  | .lenp k, bs =>
    if k ≤ bs.length then
      let l := fromBE (bs.take k)
      let r := bs.drop k
      if l ≤ r.length then some (r.take l, r.drop l) else none
    else none

def enc : List Field → List Bytes → Bytes
  | f :: fs, v :: vs => encField f v ++ enc fs vs
  | _, _ => []

def dec : List Field → Bytes → Option (List Bytes × Bytes)
  | [], bs => some ([], bs)
  | f :: fs, bs =>
    match decField f bs with
    | none => none
    | some (v, r) =>
      match dec fs r with
      | none => none
      | some (vs, r') => some (v :: vs, r')

def Fits : List Field → List Bytes → Prop
  | [], [] => True
  | f :: fs, v :: vs => f.fits v ∧ Fits fs vs
  | _, _ => False

def Fits.decide : (fs : List Field) → (vs : List Bytes) → Decidable (Fits fs vs)
  | [], [] => isTrue trivial
  | [], _ :: _ => isFalse (fun h => h)
  | _ :: _, [] => isFalse (fun h => h)
  | f :: fs, v :: vs =>
    match (inferInstance : Decidable (f.fits v)), Fits.decide fs vs with
    | isTrue a, isTrue b => isTrue ⟨a, b⟩
    | isFalse a, _ => isFalse (fun h => a h.1)
    | _, isFalse b => isFalse (fun h => b h.2)

instance (fs : List Field) (vs : List Bytes) : Decidable (Fits fs vs) := Fits.decide fs vs

/-- the cryptobyte builder: an overflowing length prefix makes `BytesOrPanic` panic / `Bytes` fail -/
def encChecked (fs : List Field) (vs : List Bytes) : Option Bytes :=
  if Fits fs vs then some (enc fs vs) else none

instance instDecidableEqExcept {ε α : Type} [DecidableEq ε] [DecidableEq α] : DecidableEq (Except ε α)
  | .ok a, .ok b => if h : a = b then isTrue (by rw [h]) else isFalse (by intro hc; cases hc; exact h rfl)
  | .error a, .error b => if h : a = b then isTrue (by rw [h]) else isFalse (by intro hc; cases hc; exact h rfl)
  | .ok _, .error _ => isFalse (by intro h; cases h)
  | .error _, .ok _ => isFalse (by intro h; cases h)

/-! ## Go integers -/

def maxInt64 : Nat := 9223372036854775807

/-- Go `uint64(x)` for an `int64` x -/
def u64 (x : Int) : Nat := (x % 18446744073709551616).toNat

/-! ## LogEntry (tile.go) -/

structure LogEntry where
  certificate : Bytes
  isPrecert : Bool
  issuerKeyHash : Bytes          -- [32]byte in Go
  chainFingerprints : List Bytes -- [][32]byte in Go
  preCertificate : Bytes
  leafIndex : Int
  archival : Bool
  timestamp : Int
deriving DecidableEq, Repr

def zeros32 : Bytes := List.replicate 32 0

/-- one `cryptobyte` field: its wire shape, the Go source of the builder call and of the
reader call (closed vocabulary of `tools/extract/facts_C10.go`), and its value. -/
structure FieldSpec (α : Type) where
  field : Field
  w : String
  r : String
  val : α → Bytes

def schemaOf {α} (s : List (FieldSpec α)) : List Field := s.map (·.field)
def valuesOf {α} (s : List (FieldSpec α)) (a : α) : List Bytes := s.map (·.val a)
def writesOf {α} (s : List (FieldSpec α)) : List String := s.map (·.w)
def readsOf {α} (s : List (FieldSpec α)) : List String := s.map (·.r)
def encSpec {α} (s : List (FieldSpec α)) (a : α) : Option Bytes := encChecked (schemaOf s) (valuesOf s a)

/-! ### extensions.go -/

/-- `MarshalExtensions` body: extension_type, then `extension_data<0..2^16-1>` holding the uint40 -/
def extSpec : List (FieldSpec Nat) := [
  { field := .fixed 1, w := "b.AddUint8(0)", r := "extensions.ReadUint8(&extensionType)", val := fun _ => [0] },
  { field := .lenp 2, w := "b.AddUint16LengthPrefixed{guard(e.LeafIndex < 0 || e.LeafIndex >= 1<<40 -> b.SetError) addUint40(b, uint64(e.LeafIndex))}",
    r := "extensions.ReadUint16LengthPrefixed(&extensionData)", val := fun i => toBE 5 i } ]

def extSchema : List Field := schemaOf extSpec

/-- `MarshalExtensions(Extensions{LeafIndex: i})`; `none` is the error return -/
def marshalExtensions (i : Int) : Option Bytes :=
  if i < 0 ∨ i ≥ 1099511627776 then none else encSpec extSpec i.toNat

inductive ExtErr where
  | invalid      -- "invalid extension"
  | leafIndex    -- "invalid leaf_index extension"
  | missing      -- "missing leaf_index extension"
deriving DecidableEq, Repr

/-- `ParseExtensions`: skips unknown extension types, returns at the FIRST type-0 extension
(whatever follows it is not looked at). Each iteration consumes ≥ 3 bytes, so `fuel = length` suffices. -/
def parseExtensionsAux : Nat → Bytes → Except ExtErr Int
  | 0, _ => .error .missing
  | fuel+1, b =>
    if b = [] then .error .missing else
    match dec [.fixed 1, .lenp 2] b with
    | some ([ty, ext], rest) =>
      if ty = [0] then
        if ext.length = 5 then .ok (Int.ofNat (fromBE ext)) else .error .leafIndex
      else parseExtensionsAux fuel rest
    | _ => .error .invalid

def parseExtensions (b : Bytes) : Except ExtErr Int := parseExtensionsAux b.length b

/-! ### tile.go: TileLeaf and MerkleTreeLeaf -/

/-- the value of the extensions field: `addExtensions` writes `AddUint16(0)` for archival leaves
(= an empty `<0..2^16-1>` vector) and the marshalled leaf_index extension otherwise -/
def extensionsOf (e : LogEntry) : Option Bytes :=
  if e.archival then some [] else marshalExtensions e.leafIndex

/-- the builder calls of `addExtensions` on its two paths: `AddUint16(0)` is the empty `<0..2^16-1>` vector -/
def addExtensionsWrites (archival : Bool) : List String :=
  if archival then ["b.AddUint16(0)"]
  else ["b.AddUint16LengthPrefixed{MarshalExtensions(Extensions{LeafIndex: e.LeafIndex}) guard(err != nil -> b.SetError) b.AddBytes(ext)}"]

/-- `addUint40`: five bytes, most significant first (= `toBE 5`) -/
def addUint40Writes : List String :=
  ["b.AddBytes([]byte{byte(v >> 32), byte(v >> 24), byte(v >> 16), byte(v >> 8), byte(v)})"]

abbrev LeafEnv := LogEntry × Bytes   -- the entry and its extensions bytes

def fVersion : FieldSpec LeafEnv :=
  { field := .fixed 1, w := "b.AddUint8(0)", r := "", val := fun _ => [0] }
def fLeafType : FieldSpec LeafEnv :=
  { field := .fixed 1, w := "b.AddUint8(0)", r := "", val := fun _ => [0] }
def fTimestamp : FieldSpec LeafEnv :=
  { field := .fixed 8, w := "b.AddUint64(uint64(e.Timestamp))", r := "s.ReadUint64(&timestamp)",
    val := fun x => toBE 8 (u64 x.1.timestamp) }
def fEntryType0 : FieldSpec LeafEnv :=
  { field := .fixed 2, w := "b.AddUint16(0)", r := "s.ReadUint16(&entryType)", val := fun _ => toBE 2 0 }
def fEntryType1 : FieldSpec LeafEnv :=
  { field := .fixed 2, w := "b.AddUint16(1)", r := "s.ReadUint16(&entryType)", val := fun _ => toBE 2 1 }
def fIssuerKeyHash : FieldSpec LeafEnv :=
  { field := .fixed 32, w := "b.AddBytes(e.IssuerKeyHash[:])", r := "s.CopyBytes(e.IssuerKeyHash[:])",
    val := fun x => x.1.issuerKeyHash }
def fCertificate : FieldSpec LeafEnv :=
  { field := .lenp 3, w := "b.AddUint24LengthPrefixed{b.AddBytes(e.Certificate)}",
    r := "s.ReadUint24LengthPrefixed((*cryptobyte.String)(&e.Certificate))", val := fun x => x.1.certificate }
def fExtensions : FieldSpec LeafEnv :=
  { field := .lenp 2, w := "addExtensions(b, e)", r := "s.ReadUint16LengthPrefixed(&extensions)", val := fun x => x.2 }
def fPreCertificate : FieldSpec LeafEnv :=
  { field := .lenp 3, w := "b.AddUint24LengthPrefixed{b.AddBytes(e.PreCertificate)}",
    r := "s.ReadUint24LengthPrefixed((*cryptobyte.String)(&e.PreCertificate))", val := fun x => x.1.preCertificate }
def fFingerprints : FieldSpec LeafEnv :=
  { field := .lenp 2, w := "b.AddUint16LengthPrefixed{range(e.ChainFingerprints) b.AddBytes(f[:])}",
    r := "s.ReadUint16LengthPrefixed(&fingerprints)", val := fun x => x.1.chainFingerprints.flatten }

def headerSpec : List (FieldSpec LeafEnv) := [fTimestamp, fEntryType0]   -- the type value is irrelevant to the reader
def x509BodySpec : List (FieldSpec LeafEnv) := [fCertificate, fExtensions, fFingerprints]
def precertBodySpec : List (FieldSpec LeafEnv) := [fIssuerKeyHash, fCertificate, fExtensions, fPreCertificate, fFingerprints]

/-- the builder-call sequence of `AppendTileLeaf` on each of its two paths -/
def tileLeafSpec (isPrecert : Bool) : List (FieldSpec LeafEnv) :=
  if isPrecert then fTimestamp :: fEntryType1 :: precertBodySpec
  else fTimestamp :: fEntryType0 :: x509BodySpec

/-- the builder-call sequence of `MerkleTreeLeaf` on each of its two paths -/
def merkleLeafSpec (isPrecert : Bool) : List (FieldSpec LeafEnv) :=
  if isPrecert then [fVersion, fLeafType, fTimestamp, fEntryType1, fIssuerKeyHash, fCertificate, fExtensions]
  else [fVersion, fLeafType, fTimestamp, fEntryType0, fCertificate, fExtensions]

def headerSchema : List Field := schemaOf headerSpec
def x509Body : List Field := schemaOf x509BodySpec
def precertBody : List Field := schemaOf precertBodySpec

/-- `AppendTileLeaf(t, e)`; `none` = panic in `BytesOrPanic` -/
def appendTileLeaf (t : Bytes) (e : LogEntry) : Option Bytes :=
  match extensionsOf e with
  | none => none
  | some ext => (encSpec (tileLeafSpec e.isPrecert) (e, ext)).map (t ++ ·)

/-- `(*LogEntry).MerkleTreeLeaf()`; `none` = panic -/
def merkleTreeLeaf (e : LogEntry) : Option Bytes :=
  match extensionsOf e with
  | none => none
  | some ext => encSpec (merkleLeafSpec e.isPrecert) (e, ext)

inductive LeafErr where
  | header        -- "invalid data tile"
  | x509          -- "invalid data tile x509_entry"
  | precert       -- "invalid data tile precert_entry"
  | unknownType   -- "invalid data tile: unknown type %d"
  | extensions    -- "invalid data tile extensions"
  | fingerprints  -- "invalid data tile fingerprints"
  | archival      -- ReadTileLeaf only: "leaf is missing leaf index extension"
deriving DecidableEq, Repr

/-- the extension block inside a tile leaf: empty (archival) or exactly one leaf_index extension
(`extensionType != 0`, exact 5-byte data, nothing after it) -/
def readLeafExt (ext : Bytes) : Except LeafErr (Bool × Int) :=
  if ext = [] then .ok (true, 0) else
  match dec extSchema ext with
  | some ([ty, data], rest) =>
    if ty = [0] ∧ data.length = 5 ∧ rest = [] then .ok (false, Int.ofNat (fromBE data)) else .error .extensions
  | _ => .error .extensions

/-- `for !fingerprints.Empty() { CopyBytes(f[:]) }` with fuel (each round consumes 32 bytes) -/
def splitFps : Nat → Bytes → Option (List Bytes)
  | 0, bs => if bs = [] then some [] else none
  | fuel+1, bs =>
    if bs = [] then some []
    else if 32 ≤ bs.length then (splitFps fuel (bs.drop 32)).map (bs.take 32 :: ·)
    else none

def finishLeaf (ts : Nat) (isPrecert : Bool) (ikh cert ext pre fps rest : Bytes) : Except LeafErr (LogEntry × Bytes) :=
  match readLeafExt ext with
  | .error err => .error err
  | .ok (archival, idx) =>
    match splitFps fps.length fps with
    | none => .error .fingerprints
    | some l => .ok ({ certificate := cert, isPrecert := isPrecert, issuerKeyHash := ikh, chainFingerprints := l,
                       preCertificate := pre, leafIndex := idx, archival := archival, timestamp := Int.ofNat ts }, rest)

/-- `readTileLeaf` = `ReadTileLeafMaybeArchival` -/
def readTileLeaf (tile : Bytes) : Except LeafErr (LogEntry × Bytes) :=
  match dec headerSchema tile with
  | some ([ts, ty], s) =>
    if fromBE ts > maxInt64 then .error .header else
    match fromBE ty with
    | 0 =>
      match dec x509Body s with
      | some ([cert, ext, fps], rest) => finishLeaf (fromBE ts) false zeros32 cert ext [] fps rest
      | _ => .error .x509
    | 1 =>
      match dec precertBody s with
      | some ([ikh, cert, ext, pre, fps], rest) => finishLeaf (fromBE ts) true ikh cert ext pre fps rest
      | _ => .error .precert
    | _ => .error .unknownType
  | _ => .error .header

/-- `ReadTileLeaf`: additionally refuses archival leaves -/
def readTileLeafStrict (tile : Bytes) : Except LeafErr (LogEntry × Bytes) :=
  match readTileLeaf tile with
  | .error e => .error e
  | .ok (e, rest) => if e.archival then .error .archival else .ok (e, rest)

/-- what the real encoder needs, plus what the decoder guarantees (`WF` of DESIGN §8 C10) -/
def WF (e : LogEntry) : Prop :=
  e.certificate.length < 16777216 ∧
  0 ≤ e.timestamp ∧ e.timestamp ≤ 9223372036854775807 ∧
  e.issuerKeyHash.length = 32 ∧
  (∀ f ∈ e.chainFingerprints, f.length = 32) ∧ e.chainFingerprints.length ≤ 2047 ∧
  (if e.isPrecert then e.preCertificate.length < 16777216 else e.issuerKeyHash = zeros32 ∧ e.preCertificate = []) ∧
  (if e.archival then e.leafIndex = 0 else 0 ≤ e.leafIndex ∧ e.leafIndex < 1099511627776)

instance (e : LogEntry) : Decidable (WF e) := by unfold WF; exact inferInstance

/-- exactly when `AppendTileLeaf` does not panic (no constraint on the timestamp or on ignored fields) -/
def Encodable (e : LogEntry) : Prop :=
  e.certificate.length < 16777216 ∧
  e.chainFingerprints.flatten.length < 65536 ∧
  (e.isPrecert = true → e.issuerKeyHash.length = 32 ∧ e.preCertificate.length < 16777216) ∧
  (e.archival = false → 0 ≤ e.leafIndex ∧ e.leafIndex < 1099511627776)

instance (e : LogEntry) : Decidable (Encodable e) := by unfold Encodable; exact inferInstance

/-- the fields of an entry the Merkle leaf commits to -/
def covered (e : LogEntry) : Int × Bool × Bytes × Bytes × Bool × Int :=
  (e.timestamp, e.isPrecert, e.certificate, (if e.isPrecert then e.issuerKeyHash else []), e.archival,
   (if e.archival then 0 else e.leafIndex))

/-! ### ctlog.go / recompute-cache.go: computeCacheHash preimage -/

abbrev CacheEnv := Bytes × Bytes   -- Certificate, IssuerKeyHash

def cacheSpec (isPrecert : Bool) : List (FieldSpec CacheEnv) :=
  if isPrecert then [
    { field := .fixed 2, w := "b.AddUint16(1)", r := "", val := fun _ => toBE 2 1 },
    { field := .fixed 32, w := "b.AddBytes(IssuerKeyHash[:])", r := "", val := fun x => x.2 },
    { field := .lenp 3, w := "b.AddUint24LengthPrefixed{b.AddBytes(Certificate)}", r := "", val := fun x => x.1 } ]
  else [
    { field := .fixed 2, w := "b.AddUint16(0)", r := "", val := fun _ => toBE 2 0 },
    { field := .lenp 3, w := "b.AddUint24LengthPrefixed{b.AddBytes(Certificate)}", r := "", val := fun x => x.1 } ]

/-- the bytes `computeCacheHash` hashes; `none` = panic -/
def cachePreimage (cert : Bytes) (isPrecert : Bool) (ikh : Bytes) : Option Bytes :=
  encSpec (cacheSpec isPrecert) (cert, ikh)

/-! ### ctlog.go: digitallySign framing; checkpoint.go: RFC6962NoteSignature -/

/-- `digitallySign`: hash = sha256(4), signature = ecdsa(3), `opaque signature<0..2^16-1>` -/
def digitallySignedSpec : List (FieldSpec Bytes) := [
  { field := .fixed 1, w := "b.AddUint8(4)", r := "s.ReadUint8(&hashAlg)", val := fun _ => [4] },
  { field := .fixed 1, w := "b.AddUint8(3)", r := "s.ReadUint8(&sigAlg)", val := fun _ => [3] },
  { field := .lenp 2, w := "b.AddUint16LengthPrefixed{b.AddBytes(sig)}",
    r := "s.ReadUint16LengthPrefixed((*cryptobyte.String)(&signature))", val := fun s => s } ]

def digitallySigned (sig : Bytes) : Option Bytes := encSpec digitallySignedSpec sig

/-- what `NewRFC6962InjectedSigner` builds: `uint64 timestamp ‖ TreeHeadSignature` (the signature bytes as they are) -/
def injectedSpec : List (FieldSpec (Int × Bytes)) := [
  { field := .fixed 8, w := "b.AddUint64(uint64(timestamp))", r := "s.ReadUint64(&timestamp)", val := fun x => toBE 8 (u64 x.1) } ]

def injectedBlob (timestamp : Int) (treeHeadSignature : Bytes) : Bytes :=
  enc (schemaOf injectedSpec) (valuesOf injectedSpec (timestamp, treeHeadSignature)) ++ treeHeadSignature

/-- the shape the verifier parses: timestamp, hash alg, sig alg, `signature<0..2^16-1>`, nothing after -/
def noteSigSchema : List Field := schemaOf injectedSpec ++ schemaOf digitallySignedSpec

structure NoteSig where
  timestamp : Nat
  hashAlg : Nat
  sigAlg : Nat
  signature : Bytes
deriving DecidableEq, Repr

def NoteSig.encode (x : NoteSig) : Bytes :=
  enc noteSigSchema [toBE 8 x.timestamp, toBE 1 x.hashAlg, toBE 1 x.sigAlg, x.signature]

/-- the values the wire format can carry -/
def NoteSig.WF (x : NoteSig) : Prop :=
  x.timestamp < 18446744073709551616 ∧ x.hashAlg < 256 ∧ x.sigAlg < 256 ∧ x.signature.length < 65536

instance (x : NoteSig) : Decidable x.WF := by unfold NoteSig.WF; exact inferInstance

/-- the reads of the verify closure, without the `hashAlg != 4` test (kept separate: it is a guard) -/
def parseNoteSig (sig : Bytes) : Option NoteSig :=
  match dec noteSigSchema sig with
  | some ([ts, h, a, s], rest) =>
    if rest = [] then some { timestamp := fromBE ts, hashAlg := fromBE h, sigAlg := fromBE a, signature := s } else none
  | _ => none

/-! ### ct.SerializeSTHSignatureInput (certificate-transparency-go; RFC 6962 §3.5 TreeHeadSignature input) -/

/-- version v1(0), signature_type tree_hash(1), uint64 timestamp, uint64 tree_size, sha256_root_hash[32] -/
def sthSchema : List Field := [.fixed 1, .fixed 1, .fixed 8, .fixed 8, .fixed 32]

/-- `none` = ct-go's "invalid TreeHash length" error -/
def sthInput (treeSize timestamp : Nat) (root : Bytes) : Option Bytes :=
  if root.length = 32 then some (enc sthSchema [[0], [1], toBE 8 timestamp, toBE 8 treeSize, root]) else none

end Codec
