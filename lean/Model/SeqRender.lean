import Model.Bytes
import Model.Sha256
import Model.Sequencer
/-! Byte-level rendering of the abstract sequencer model: what the Static CT layout prescribes for a
leaf sequence (TileLeaf / MerkleTreeLeaf encodings, RFC 6962 hashes, hash/data/names tile contents).
Executed by the driver to compare with what the real code uploaded. Core only. -/

namespace SeqRender
open Seq

structure EntryRec where
  pre : Bool
  cert : Bytes
  ikh : Bytes
  precert : Bytes
  issuers : List Bytes
  names : Option Bytes     -- rest of the names-tile JSON line after `{"Timestamp":<ts>`; none = unparseable
deriving Inhabited

def be (k : Nat) (n : Nat) : Bytes :=
  (List.range k).map fun i => UInt8.ofNat (n / 256 ^ (k - 1 - i) % 256)

def sha (b : Bytes) : Bytes := Bytes.ofByteArray (Sha256.hash (Bytes.toByteArray b))

def extension (idx : Nat) : Bytes := [0, 0, 5] ++ be 5 idx

/-- TimestampedEntry part shared by TileLeaf and MerkleTreeLeaf (after the timestamp) -/
def signedEntry (e : EntryRec) : Bytes :=
  if e.pre then be 2 1 ++ e.ikh ++ be 3 e.cert.length ++ e.cert
  else be 2 0 ++ be 3 e.cert.length ++ e.cert

def merkleTreeLeaf (e : EntryRec) (idx ts : Nat) : Bytes :=
  [0, 0] ++ be 8 ts ++ signedEntry e ++ be 2 (extension idx).length ++ extension idx

def tileLeaf (e : EntryRec) (idx ts : Nat) : Bytes :=
  let fps := e.issuers.flatMap sha
  be 8 ts ++ signedEntry e ++ be 2 (extension idx).length ++ extension idx ++
    (if e.pre then be 3 e.precert.length ++ e.precert else []) ++
    be 2 fps.length ++ fps

def leafHash (e : EntryRec) (idx ts : Nat) : ByteArray :=
  Sha256.hash (Bytes.toByteArray ([0] ++ merkleTreeLeaf e idx ts))

def nodeHash (l r : ByteArray) : ByteArray :=
  Sha256.hash ((ByteArray.mk #[1]) ++ l ++ r)

def emptyHash : ByteArray := Sha256.hash ByteArray.empty

/-- RFC 6962 MTH over hs[lo, hi) -/
partial def mthRange (hs : Array ByteArray) (lo hi : Nat) : ByteArray :=
  if hi ≤ lo then emptyHash
  else if hi - lo = 1 then hs[lo]!
  else
    let k := 2 ^ (hi - lo - 1).log2
    nodeHash (mthRange hs lo (lo + k)) (mthRange hs (lo + k) hi)

def natToDec (n : Nat) : Bytes := Bytes.ofString (toString n)

def namesLine (e : EntryRec) (ts : Nat) : Bytes :=
  match e.names with
  | none => []
  | some rest => Bytes.ofString "{\"Timestamp\":" ++ natToDec ts ++ rest ++ [10]

structure Ctx where
  entries : Array EntryRec

def Ctx.entry (c : Ctx) (eid : Nat) : EntryRec := c.entries[eid]!

def leafHashes (c : Ctx) (tr : Tree) : Array ByteArray :=
  (tr.zipIdx.map fun (l, i) => leafHash (c.entry l.eid) i l.ts).toArray

def rootOf (c : Ctx) (tr : Tree) : ByteArray :=
  let hs := leafHashes c tr
  mthRange hs 0 hs.size

/-- expected content of tile `t` for tree `tr` (which must cover the tile) -/
def tileContent (c : Ctx) (hs : Array ByteArray) (tr : Tree) (t : TileId) : ByteArray :=
  match t.kind with
  | .data =>
    let xs := (tr.zipIdx.drop t.lo).take (t.hi - t.lo)
    Bytes.toByteArray (xs.flatMap fun (l, i) => tileLeaf (c.entry l.eid) i l.ts)
  | .names =>
    let xs := (tr.drop t.lo).take (t.hi - t.lo)
    Bytes.toByteArray (xs.flatMap fun l => namesLine (c.entry l.eid) l.ts)
  | .hash L =>
    let span := 256 ^ L
    (List.range t.W).foldl (fun acc j =>
      let a := (t.N * 256 + j) * span
      acc ++ mthRange hs a (a + span)) ByteArray.empty

end SeqRender
