import Model.Codec
import Model.MerkleMore
import Model.Checkpoint
/-! # C12 — the monitoring client's acceptance conditions (`client.go`)

What `sunlight.Client` checks before it yields / returns anything, over an *adversarial* server:
the data tiles, inclusion proofs, SCTs and checkpoint notes below are arbitrary inputs.

* `cutEntry` — `client.go: cutEntry`: decode one TileLeaf (`ReadTileLeafMaybeArchival`), hash
  `RecordHash(e.MerkleTreeLeaf())`, return the consumed prefix.
* `scanTile` — the per-tile loop of `torchwood.Client.Entries` with sunlight's wrapper around it
  (`Client.Entries` / `AllEntries`): an entry is yielded at index `i` only if the hash `cutEntry`
  computed equals the `i`-th **authenticated** leaf hash, and if it re-parses (strictly, unless
  archival leaves are allowed) with nothing left over. Where the authenticated hashes come from is
  the tile-reader contract (`tlog.TileHashReader`: every tile is hashed up to the tree head before
  any of its hashes is used) — an explicit hypothesis of the theorems, not modelled.
* `clientEntry` — `Client.Entry`: cut `index mod 256 + 1` entries, `tlog.CheckRecord` of the proof
  against the tree head (here the proof is an arbitrary input: no contract needed), strict parse,
  index check.
* `checkInclusion` — `Client.CheckInclusion`: SCT version, log ID, `ParseExtensions`, `Entry`,
  timestamp, signature over `entry.MerkleTreeLeaf()`.
* `clientCheckpoint` — `Client.Checkpoint`: name = first line, RFC 6962 note verifier for the
  configured key, `note.Open`, `ParseCheckpoint`, origin check.

Hashing is abstract (`HashFn`); signatures are a parameter (`Checkpoint.Crypto`, and `sigVerify`
for SCTs). Core Lean only. -/
namespace ClientV
open Codec Merkle

structure HashFn (H : Type) where
  leaf : Bytes → H      -- tlog.RecordHash
  node : H → H → H      -- tlog.NodeHash
  empty : H             -- hash of the empty tree

/-- a tree head as the caller passes it (`tlog.Tree`) -/
structure Tree (H : Type) where
  n : Nat
  root : H

/-- `TileWidth` -/
def tileWidth : Nat := 256

variable {H : Type}

/-- The list `L` of MerkleTreeLeaf byte strings is what the tree head commits to. -/
def Opens (hf : HashFn H) (t : Tree H) (L : List Bytes) : Prop :=
  L.length = t.n ∧ mth hf.node hf.empty (L.map hf.leaf) = t.root

/-- `cutEntry(tile)`: consumed prefix, record hash, rest -/
def cutEntry (hf : HashFn H) (tile : Bytes) : Option (Bytes × H × Bytes) :=
  match readTileLeaf tile with
  | .error _ => none
  | .ok (e, rest) =>
    match merkleTreeLeaf e with
    | none => none
    | some m => some (tile.take (tile.length - rest.length), hf.leaf m, rest)

/-- sunlight's wrapper: `ReadTileLeaf` (or `…MaybeArchival`) of the yielded bytes, nothing left over -/
def parseEntry (allowArchival : Bool) (entry : Bytes) : Option LogEntry :=
  match (if allowArchival then readTileLeaf entry else readTileLeafStrict entry) with
  | .ok (e, []) => some e
  | _ => none

/-- One data tile in `Entries`: `hs` are the authenticated hashes of its `W` leaves, `i` the index
of its first leaf, `start` the first index the caller wants. Result: the yielded pairs, and
whether the tile was consumed without error. Entries are yielded one by one: what was yielded
before an error stays yielded. -/
def scanTile [DecidableEq H] (hf : HashFn H) (allow : Bool) (start : Nat) :
    Nat → Bytes → List H → List (Nat × LogEntry) × Bool
  | _, data, [] => ([], data = [])                 -- "unexpected leftover data in tile"
  | i, data, h :: hs =>
    if data = [] then ([], false)                  -- "unexpected end of tile data"
    else
      match cutEntry hf data with
      | none => ([], false)                        -- "failed to cut entry"
      | some (entry, rh, rest) =>
        if rh ≠ h then ([], false)                 -- "hash mismatch for entry"
        else if i < start then scanTile hf allow start (i + 1) rest hs
        else
          match parseEntry allow entry with
          | none => ([], false)
          | some e =>
            let r := scanTile hf allow start (i + 1) rest hs
            ((i, e) :: r.1, r.2)

/-- `Entry`: cut `k + 1` entries from the tile, keep the last -/
def cutNth (hf : HashFn H) : Nat → Bytes → Option (Bytes × H)
  | 0, data => if data = [] then none else (cutEntry hf data).map fun x => (x.1, x.2.1)
  | k + 1, data =>
    if data = [] then none else
    match cutEntry hf data with
    | none => none
    | some (_, _, rest) => cutNth hf k rest

/-- `Client.Entry(tree, index)` given the served data tile and the inclusion proof computed from the
served hash tiles (reversed, as in `Model/Merkle*.lean`) -/
def clientEntry [DecidableEq H] (hf : HashFn H) (allow : Bool) (t : Tree H) (index : Nat)
    (data : Bytes) (proof : List H) : Option LogEntry :=
  if index ≥ t.n then none else
  match cutNth hf (index % tileWidth) data with
  | none => none
  | some (entry, rh) =>
    if !checkRecord hf.node proof t.n t.root index rh then none else
    match parseEntry allow entry with
    | none => none
    | some e => if !e.archival ∧ e.leafIndex ≠ Int.ofNat index then none else some e

/-! ## SCT inclusion -/

structure SCT where
  version : Nat
  logId : Bytes
  timestamp : Nat     -- uint64
  extensions : Bytes
  signature : Bytes   -- the DigitallySigned blob
deriving DecidableEq, Repr

/-- Go `int64(x)` for a `uint64` x -/
def i64 (x : Nat) : Int := if x < 9223372036854775808 then Int.ofNat x else Int.ofNat x - 18446744073709551616

/-- `Client.CheckInclusion`. `keyId` = SHA-256 of the configured key's SPKI, `sigVerify m s` =
`tls.VerifySignature(configured key, m, s)`, `served i` = the data tile and the proof the server
makes the client see for index `i`. -/
def checkInclusion [DecidableEq H] (hf : HashFn H) (allow : Bool) (keyId : Bytes) (sigVerify : Bytes → Bytes → Bool)
    (t : Tree H) (served : Nat → Bytes × List H) (s : SCT) : Option LogEntry :=
  if s.version ≠ 0 then none
  else if s.logId ≠ keyId then none
  else
    match parseExtensions s.extensions with
    | .error _ => none
    | .ok idx =>
      match clientEntry hf allow t idx.toNat (served idx.toNat).1 (served idx.toNat).2 with
      | none => none
      | some e =>
        if e.timestamp ≠ i64 s.timestamp then none
        else
          match merkleTreeLeaf e with
          | none => none
          | some m => if sigVerify m s.signature then some e else none

/-! ## Checkpoint -/

open Checkpoint in
/-- the origin line the client takes the log's name from: `strings.Cut(signedNote, "\n")` -/
def firstLine (text : Bytes) : Bytes := ((cutLine text).map (·.1)).getD text

open Checkpoint in
/-- `Client.Checkpoint` on a fetched note. `kh name` is the key hash `NewRFC6962Verifier(name, key)`
derives for the configured key. -/
def clientCheckpoint (cv : Crypto) (key : PubKey) (kh : Bytes → Nat) (note : Note) : Option Checkpoint.Checkpoint :=
  let name := firstLine note.text
  let v : NoteVerifier := { name := name, hash := kh name, verify := verifier cv name key }
  match noteOpen [v] note with
  | .error _ => none
  | .ok _ =>
    match parseCheckpoint note.text with
    | none => none
    | some c => if c.origin ≠ name then none else some c

/-! ## Source renderings (compared with the regenerated facts in `Tie/C12.lean`) -/

/-- `cutEntry` -/
def expectedCutEntry : List String := [
  "call ReadTileLeafMaybeArchival(tile)",
  "if err != nil",
  ">return nil, tlog.Hash{}, nil, err",
  "assign rh = tlog.RecordHash(e.MerkleTreeLeaf())",
  "assign entry = tile[:len(tile)-len(rest)]",
  "return entry, rh, rest, nil"]

/-- the wrapper of `Entries` and of `AllEntries` around each yielded entry (`parseEntry`) -/
def expectedEntriesWrapper (inner : String) : List String := [
  "range c.c." ++ inner ++ "(ctx, tree, start)",
  ">if c.cc.AllowRFC6962ArchivalLeafs",
  ">>call ReadTileLeafMaybeArchival(e)",
  ">else",
  ">>call ReadTileLeaf(e)",
  ">if err != nil",
  ">>return",
  ">if len(rest) > 0",
  ">>return",
  ">if !yield(i, entry)",
  ">>return"]

/-- `Entry` (`clientEntry` after torchwood's part) -/
def expectedEntry : List String := [
  "call c.c.Entry(ctx, tree, index)",
  "if err != nil",
  ">return nil, nil, err",
  "if c.cc.AllowRFC6962ArchivalLeafs",
  ">call ReadTileLeafMaybeArchival(e)",
  "else",
  ">call ReadTileLeaf(e)",
  "if err != nil",
  ">return nil, nil, fmt.Errorf",
  "if len(rest) > 0",
  ">return nil, nil, fmt.Errorf",
  "if !entry.RFC6962ArchivalLeaf && entry.LeafIndex != index",
  ">return nil, nil, fmt.Errorf",
  "return entry, proof, nil"]

/-- `CheckInclusion` (`checkInclusion`), every guard in source order -/
def expectedCheckInclusion : List String := [
  "if _, err := tls.Unmarshal(sct, &s); err != nil",
  ">return nil, nil, fmt.Errorf",
  "if s.SCTVersion != ct.V1",
  ">return nil, nil, fmt.Errorf",
  "call x509.MarshalPKIXPublicKey(c.cc.PublicKey)",
  "if err != nil",
  ">return nil, nil, fmt.Errorf",
  "if logID := sha256.Sum256(spki); s.LogID.KeyID != logID",
  ">return nil, nil, fmt.Errorf",
  "call ParseExtensions(s.Extensions)",
  "if err != nil",
  ">return nil, nil, fmt.Errorf",
  "call c.Entry(ctx, tree, ext.LeafIndex)",
  "if err != nil",
  ">return nil, nil, fmt.Errorf",
  "if entry.Timestamp != int64(s.Timestamp)",
  ">return nil, nil, fmt.Errorf",
  "if err := tls.VerifySignature(c.cc.PublicKey, entry.MerkleTreeLeaf(), tls.DigitallySigned(s.Signature)); err != nil",
  ">return nil, nil, fmt.Errorf",
  "return entry, proof, nil"]

/-- `Checkpoint` (`clientCheckpoint`) -/
def expectedCheckpoint : List String := [
  "call c.r.ReadEndpoint(ctx, \"checkpoint\")",
  "if err != nil",
  ">return torchwood.Checkpoint{}, nil, fmt.Errorf",
  "assign name := strings.Cut(string(signedNote), \"\\n\")",
  "call NewRFC6962Verifier(name, c.cc.PublicKey)",
  "if err != nil",
  ">return torchwood.Checkpoint{}, nil, fmt.Errorf",
  "call note.Open(signedNote, note.VerifierList(verifier))",
  "if err != nil",
  ">return torchwood.Checkpoint{}, nil, fmt.Errorf",
  "call torchwood.ParseCheckpoint(n.Text)",
  "if err != nil",
  ">return torchwood.Checkpoint{}, nil, fmt.Errorf",
  "if checkpoint.Origin != name",
  ">return torchwood.Checkpoint{}, nil, fmt.Errorf",
  "return checkpoint, n, nil"]

/-- the per-tile loop of `torchwood.Client.Entries` (pinned torchwood): `scanTile` -/
def expectedTorchwoodTileLoop : List String := [
  "if len(data) == 0",
  "call c.cut(data)",
  "if err != nil",
  "if rh != hashes[i-base]",
  "if i < start",
  "if !yield(i, entry)",
  "if len(data) != 0"]

/-- `torchwood.Client.Entry`: `clientEntry` before sunlight's part -/
def expectedTorchwoodEntry : List String := [
  "if index < 0 || index >= tree.N",
  "call c.tr.ReadTiles(ctx, []tlog.Tile{dataTile})",
  "if err != nil",
  "range index - dataTile.N*TileWidth + 1",
  ">if len(tile) == 0",
  ">call c.cut(tile)",
  ">if err != nil",
  "call tlog.ProveRecord(tree.N, index, TileHashReaderWithContext(ctx, tree, c.tr))",
  "if err != nil",
  "if err := tlog.CheckRecord(proof, tree.N, tree.Hash, index, rh); err != nil"]

end ClientV
