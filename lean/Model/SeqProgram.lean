import Model.Sequencer
/-! The order of effects and error classes of one sequencing round, as the model's `RoundPc` walk
assumes them. `roundProgram.flatMap Row.render` is compared (Tie/Seq.lean) with the effect skeleton
of `sequencePool` regenerated from /repo; Proofs/SeqProgram.lean links each row to `Seq.step`. -/
namespace Seq

inductive ErrClass where
  | fatal      -- wrapped in errFatal: the sequencer stops
  | failPool   -- the pool's waiters get the error, the sequencer goes on
  | ignored    -- logged only
  | unchecked
deriving DecidableEq, Repr

inductive Effect where
  | clockRead | timeGuard | stageUpload | signTreeHead | lockReplace | commitMem | applyStaged
  | ckptUpload | discardStaging | cachePut
deriving DecidableEq, Repr

structure Row where
  eff : Effect
  onErr : ErrClass
  guarded : Bool     -- only when the round has tiles to upload (len(tileUploads) > 0)
deriving DecidableEq, Repr

/-- the walk of `RoundPc`: clock → stage → cas → tiles → ckpt → discard → done -/
def roundProgram : List Row := [
  ⟨.clockRead, .unchecked, false⟩,
  ⟨.timeGuard, .fatal, false⟩,
  ⟨.stageUpload, .failPool, true⟩,
  ⟨.signTreeHead, .failPool, false⟩,
  ⟨.lockReplace, .fatal, false⟩,
  ⟨.commitMem, .unchecked, false⟩,
  ⟨.applyStaged, .fatal, false⟩,
  ⟨.ckptUpload, .failPool, false⟩,
  ⟨.discardStaging, .ignored, true⟩,
  ⟨.cachePut, .ignored, false⟩]

def ErrClass.render : ErrClass → String
  | .fatal => "fatal" | .failPool => "fail" | .ignored => "continue" | .unchecked => "unchecked"

def guardStr (g : Bool) : String := if g then "len(tileUploads) > 0" else ""

def Row.render (r : Row) : List String :=
  match r.eff with
  | .clockRead => [s!"call timeNowUnixMilli() onerr={r.onErr.render} guard=[{guardStr r.guarded}]"]
  | .timeGuard => [s!"guard [timestamp <= l.tree.Time] -> {r.onErr.render}"]
  | .stageUpload => [s!"call l.c.Backend.Upload(stagingPath) onerr={r.onErr.render} guard=[{guardStr r.guarded}]"]
  | .signTreeHead => [s!"call signTreeHead(l.c) onerr={r.onErr.render} guard=[{guardStr r.guarded}]"]
  | .lockReplace => [s!"call l.c.Lock.Replace(l.lockCheckpoint) onerr={r.onErr.render} guard=[{guardStr r.guarded}]"]
  | .commitMem => [
      "assign p.timestamp = timestamp guard=[]",
      "assign p.firstLeafIndex = l.tree.N guard=[]",
      "assign l.tree = tree guard=[]",
      "assign l.lockCheckpoint = newLock guard=[]",
      "assign l.edgeTiles = edgeTiles guard=[]"]
  | .applyStaged => [s!"call applyStagedUploads(l.c) onerr={r.onErr.render} guard=[{guardStr r.guarded}]"]
  | .ckptUpload => [s!"call l.c.Backend.Upload(\"checkpoint\") onerr={r.onErr.render} guard=[{guardStr r.guarded}]"]
  | .discardStaging => [s!"call l.c.Backend.Discard(stagingPath) onerr={r.onErr.render} guard=[{guardStr r.guarded}]"]
  | .cachePut => [s!"call l.cachePut(sequencedLeaves) onerr={r.onErr.render} guard=[{guardStr r.guarded}]"]

def expectedSequencePool : List String := roundProgram.flatMap Row.render

/-- kernel-reducible prefix test -/
def hasPrefix (p l : String) : Bool := p.toList.isPrefixOf l.toList

/-- the part of an extracted skeleton the round program speaks about -/
def relevant (l : String) : Bool :=
  hasPrefix "call l.c." l || hasPrefix "call applyStagedUploads" l || hasPrefix "call l.cachePut" l ||
  hasPrefix "call timeNowUnixMilli" l || hasPrefix "call signTreeHead" l ||
  hasPrefix "guard [timestamp" l || hasPrefix "assign l." l || hasPrefix "assign p.timestamp" l ||
  hasPrefix "assign p.firstLeafIndex" l

/-- deferred epilogue of sequencePool: the pool's error is stored and `done` is closed on every exit path -/
def expectedDefer : List String := [
  "defer-begin guard=[]",
  "assign p.err = err guard=[defer <err != nil>]",
  "guard [!errors.Is(err, errFatal)] -> continue",
  "call close(p.done) onerr=ignored guard=[defer]",
  "defer-end"]

/-- `sequence`: rotation under the mutex, the round, and clearing inSequencing afterwards (under the
    mutex again): `launchRound` rotates atomically, `roundEnd` clears the in-sequencing keys -/
def expectedSequence : List String := [
  "call l.poolMu.Lock() onerr=ignored guard=[]",
  "call newPool() onerr=unchecked guard=[]",
  "assign l.currentPool = newPool() guard=[]",
  "assign l.inSequencing = p.byHash guard=[]",
  "call l.poolMu.Unlock() onerr=ignored guard=[]",
  "call l.sequencePool(p) onerr=unchecked guard=[]",
  "call l.poolMu.Lock() onerr=ignored guard=[]",
  "assign l.inSequencing = nil guard=[]",
  "call l.poolMu.Unlock() onerr=ignored guard=[]"]

/-- `RunSequencer`: on every tick either the sunset check stops the loop or exactly one `sequence`
    runs (there is no other effect in the loop); when the loop ends, for whatever reason, the current
    pool gets the error and is closed under the mutex -/
def expectedRunSequencer : List String := [
  "defer-begin guard=[]",
  "call l.poolMu.Lock() onerr=ignored guard=[defer]",
  "defer l.poolMu.Unlock()",
  "assign l.currentPool.err = err guard=[defer]",
  "assign l.currentPool.err = err guard=[defer]",
  "call close(l.currentPool.done) onerr=ignored guard=[defer]",
  "defer-end",
  "select [<-ctx.Done()] -> fail",
  "select [<-t.C] -> fail",
  "call l.AcceptingSubmissions() onerr=cond guard=[ for select(<-t.C)]",
  "call l.sequence() onerr=fail guard=[ for select(<-t.C)]"]

/-- `addLeafToPool`: the decision order of the model's `submitted` rule — issuers first (outside the
    mutex), then under the mutex: closed pool, current pool's table, in-sequencing table, cache, the
    size test with the two rejections, eviction of ONE low-priority slot whose index the newcomer
    takes over (`n = nn`, then `break`), or append; low-priority registration; table registration -/
def expectedAddLeaf : List String := [
  "call l.uploadIssuer(issuer) onerr=fail guard=[ range(leaf.Issuers)]",
  "call l.poolMu.Lock() onerr=ignored guard=[]",
  "defer l.poolMu.Unlock()",
  "lookup p.err guard=[]",
  "lookup p.byHash[h] guard=[]",
  "lookup l.inSequencing[h] guard=[]",
  "call l.cacheGet(leaf) onerr=fail guard=[]",
  "assign n = len(p.pendingLeaves) guard=[]",
  "guard [l.c.PoolSize > 0 && n >= l.c.PoolSize] -> fail",
  "guard [lowPriority || len(p.lowPriority) == 0] -> fail",
  "call cancel() onerr=ignored guard=[l.c.PoolSize > 0 && n >= l.c.PoolSize range(p.lowPriority)]",
  "assign n = nn guard=[l.c.PoolSize > 0 && n >= l.c.PoolSize range(p.lowPriority)]",
  "assign p.pendingLeaves[n] = leaf guard=[l.c.PoolSize > 0 && n >= l.c.PoolSize range(p.lowPriority)]",
  "break guard=[l.c.PoolSize > 0 && n >= l.c.PoolSize range(p.lowPriority)]",
  "assign p.pendingLeaves = append(p.pendingLeaves, leaf) guard=[ !(l.c.PoolSize > 0 && n >= l.c.PoolSize)]",
  "guard [lowPriority] -> continue",
  "assign p.lowPriority[n] = func() { close(cancelChan) } guard=[lowPriority]",
  "assign p.byHash[h] = f guard=[]"]

/-- `uploadIssuer`: the issuer is marked as seen only after it was found equal in, or uploaded to, the
    object store, and the whole check-or-upload runs under the issuers mutex (`issuersSeen` in the model
    is extended by the fetch-ok-equal and upload-ok events only) -/
def expectedUploadIssuer : List String := [
  "call l.issuersMu.RLock() onerr=ignored guard=[]",
  "lookup l.issuers[fingerprint] guard=[]",
  "call l.issuersMu.RUnlock() onerr=ignored guard=[]",
  "call l.issuersMu.Lock() onerr=ignored guard=[]",
  "defer l.issuersMu.Unlock()",
  "call l.c.Backend.Fetch(path) onerr=fail guard=[]",
  "call l.c.Backend.Upload(path) onerr=unchecked guard=[ <err != nil>]",
  "assign l.issuers[fingerprint] = true guard=[]"]

/-- applyStagedUploads: every upload runs in the group and the group is awaited before returning -/
def expectedApply : List String := [
  "break guard=[ for && err == io.EOF]",
  "go-begin guard=[ for]",
  "call config.Backend.Upload(key) onerr=returned guard=[go]",
  "go-end",
  "call g.Wait() onerr=returned guard=[]"]

/-- CreateLog's effect order -/
def expectedCreate : List String := [
  "call config.Lock.Fetch(logID) onerr=onok:fail guard=[]",
  "call config.Backend.Fetch(\"checkpoint\") onerr=onok:fail guard=[]",
  "call initCache(config.Cache) onerr=fail guard=[]",
  "call timeNowUnixMilli() onerr=unchecked guard=[]",
  "call signTreeHead(config) onerr=fail guard=[]",
  "call config.Lock.Create(logID) onerr=fail guard=[]",
  "call config.Backend.Upload(\"checkpoint\") onerr=fail guard=[]",
  "call config.Backend.Upload(\"_roots.pem\") onerr=fail guard=[]"]

/-- LoadLog's comparison of the published checkpoint with the lock checkpoint, and recovery order -/
def expectedLoadCore : List String := [
  "call config.Lock.Fetch(logID) onerr=fail guard=[]",
  "call openCheckpoint(config) onerr=fail guard=[]",
  "call config.Backend.Fetch(\"checkpoint\") onerr=fail guard=[]",
  "call openCheckpoint(config) onerr=fail guard=[]",
  "case [c1.N == c.N && c1.Hash != c.Hash] -> fail",
  "case [c1.N > c.N] -> fail",
  "case [c1.N < c.N] -> fail",
  "call config.Backend.Fetch(legacyStagingPath(c.Tree)) onerr=onok:fail guard=[ case(c1.N < c.N)]",
  "call legacyStagingPath(c.Tree) onerr=onok:fail guard=[ case(c1.N < c.N)]",
  "call fetchAndDecompress(config.Backend) onerr=fail guard=[ case(c1.N < c.N)]",
  "call stagingPath(c.Tree) onerr=fail guard=[ case(c1.N < c.N)]",
  "call applyStagedUploads(config) onerr=fail guard=[ case(c1.N < c.N)]",
  "call initCache(config.Cache) onerr=fail guard=[]",
  "guard [c.N > 0] -> fail",
  "call tlog.TileHashReader(c.Tree) onerr=fail guard=[c.N > 0]",
  "call fetchAndDecompress(config.Backend) onerr=fail guard=[c.N > 0]",
  "call sunlight.ReadTileLeaf(b) onerr=fail guard=[c.N > 0 for]",
  "call tlog.RecordHash(e.MerkleTreeLeaf()) onerr=unchecked guard=[c.N > 0 for]",
  "call tlog.HashFromTile(edgeTiles[0].Tile) onerr=fail guard=[c.N > 0 for]",
  "call config.Backend.Fetch(\"_roots.pem\") onerr=continue guard=[]",
  "call newPool() onerr=returned guard=[]"]

def loadRelevant (l : String) : Bool := hasPrefix "call " l || hasPrefix "case " l || hasPrefix "guard [c.N" l

/-- openCheckpoint: the refusal of checkpoints from the future -/
def expectedOpenGuards : List String := [
  "call timeNowUnixMilli() onerr= guard=[]",
  "guard [now < timestamp] -> fail"]

end Seq
