import Driver.Util
namespace Driver.Aftersun
/-- stub: engine not implemented yet -/
def main : IO UInt32 := do
  IO.println "MISMATCH 0 engine aftersun has no driver yet"
  return 0
end Driver.Aftersun
