import Driver.Util
import Model.Aftersun
/-! Driver for engine `aftersun` (C18), function mode.

The harness lists every root directory of a run of the built `partial-aftersun` binary as it was
before the run, says what the published checkpoint of each root is worth, and reports the exit
status and every path that disappeared. The driver evaluates `Aftersun.runRoots` — the definitions
`Props/C18.lean` is about — on that listing and compares deletions (per root, as sets) and status.

  case <id> <family>
  root <ri> log|mirror ok <N> | missing | bad
  e <ri> <hex path> d|f <size>          (every file and directory under the root)
  run <exit status>
  del <ri> f|d <hex path>
  end <id>
-/
namespace Driver.Aftersun
open _root_.Aftersun TilePath

structure Item where
  parent : Bytes
  name : Bytes
  path : Bytes
  isDir : Bool
  size : Nat

structure RootIn where
  kind : Kind
  size : SizeRes
  items : Array Item := #[]
  dels : List Del := []

structure St where
  t : Driver.Tally := {}
  caseId : String := ""
  roots : Array RootIn := #[]
  exit : Nat := 0
  active : Bool := false

/-- split a path at its last '/' -/
def splitLast (p : Bytes) : Bytes × Bytes :=
  let r := p.reverse
  let name := (r.takeWhile (· ≠ 47)).reverse
  let rest := r.dropWhile (· ≠ 47)
  ((rest.drop 1).reverse, name)

def bytesLt : Bytes → Bytes → Bool
  | [], [] => false
  | [], _ :: _ => true
  | _ :: _, [] => false
  | a :: as, b :: bs => if a < b then true else if b < a then false else bytesLt as bs

def insertSorted (e : Ent) : List Ent → List Ent
  | [] => [e]
  | x :: xs => if bytesLt e.name x.name then e :: x :: xs else x :: insertSorted e xs

def mkFS (items : Array Item) : FS where
  readDir p :=
    let isDir := p.isEmpty || items.any (fun it => it.path == p && it.isDir)
    if !isDir then none
    else some (items.foldl (fun acc it => if it.parent == p then insertSorted ⟨it.name, it.isDir, it.size⟩ acc else acc) [])
  stat p :=
    match items.find? (fun it => it.path == p) with
    | some it => some ⟨it.name, it.isDir, it.size⟩
    | none => none

def showDel : Del → String
  | .file p => "f:" ++ Bytes.toHexP p
  | .dir p => "d:" ++ Bytes.toHexP p

def sortStrings (l : List String) : List String := (l.toArray.qsort (· < ·)).toList

def statusName : Status → String
  | .ok => "ok" | .abort => "abort" | .panic => "panic" | .fuel => "fuel"

/-- classify every `.p` directory of a root with the model's own guards (coverage report only) -/
def classify (r : RootIn) (fs : FS) (t : Driver.Tally) : Driver.Tally :=
  match r.size with
  | .ok n =>
    r.items.foldl (fun t it =>
      if it.isDir && hasSuffix it.name dotP && it.name.head? != some (120 : UInt8) then
        let full := it.path.take (it.path.length - 2)
        match fs.stat full with
        | none => t.bump "pdir:no-sibling"
        | some _ =>
          match parserOf r.kind full with
          | none => t.bump "pdir:unparsable"
          | some tile =>
            match atOrRightOfEdge tile n with
            | none => t.bump "pdir:panic"
            | some true => t.bump "pdir:at-or-right-of-edge"
            | some false => t.bump "pdir:left-of-edge"
      else t) t
  | _ => t

def finishCase (s : St) (lineno : Nat) : IO St := do
  let roots := s.roots.toList.map fun r => ({ kind := r.kind, fs := mkFS r.items, size := r.size } : Root)
  let out := runRoots 64 roots 0
  let mut t := s.t
  let mut bad := false
  if out.2 ≠ s.exit then
    bad := true
    IO.println s!"MISMATCH {lineno} case {s.caseId}: exit status: implementation {s.exit}, model {out.2}"
  let mut i := 0
  for (r, ds) in s.roots.toList.zip out.1 do
    -- a partial-tile entry that is an (empty) directory is reported by the harness as a directory
    let kindOf (d : Del) : Del := match d with
      | .file p => if r.items.any (fun it => it.path == p && it.isDir) then .dir p else .file p
      | d => d
    let want := sortStrings (ds.map (showDel ∘ kindOf))
    let got := sortStrings (r.dels.map showDel)
    if want ≠ got then
      bad := true
      let onlyModel := want.filter (fun x => !got.contains x)
      let onlyImpl := got.filter (fun x => !want.contains x)
      IO.println s!"MISMATCH {lineno} case {s.caseId} root {i}: deletions differ: only-model={onlyModel.take 4} only-implementation={onlyImpl.take 4} (model {want.length}, implementation {got.length})"
    -- coverage
    let fs := mkFS r.items
    t := classify r fs t
    match r.size with
    | .ok n =>
      let res := cleanRoot fs (parserOf r.kind) n 64
      t := t.bump ("root:" ++ statusName res.2)
      if res.2 == .fuel then
        bad := true
        IO.println s!"MISMATCH {lineno} case {s.caseId} root {i}: model ran out of fuel"
    | .missing => t := t.bump "root:no-checkpoint"
    | .bad => t := t.bump "root:bad-checkpoint"
    for d in ds do
      t := match d with
        | .file _ => t.bump "del:file"
        | .dir _ => t.bump "del:dir"
    i := i + 1
  t := t.bump s!"exit:{out.2}"
  t := if bad then { t with mismatches := t.mismatches + 1 } else { t with ok := t.ok + 1 }
  return { t := t }

def step (s : St) (lineno : Nat) (line : String) : IO St := do
  let s := { s with t := { s.t with lines := s.t.lines + 1 } }
  match Driver.words line with
  | ["case", id, _fam] => return { s with caseId := id, roots := #[], exit := 0, active := true }
  | "root" :: _ri :: kind :: rest =>
    let k := if kind == "mirror" then Kind.mirror else Kind.log
    let sz : SizeRes := match rest with
      | ["ok", n] => .ok n.toNat!
      | ["missing"] => .missing
      | _ => .bad
    return { s with roots := s.roots.push { kind := k, size := sz } }
  | ["e", ri, hp, k, sz] =>
    match Bytes.ofHex hp with
    | none =>
      IO.println s!"MISMATCH {lineno} bad hex"
      return { s with t := { s.t with mismatches := s.t.mismatches + 1 } }
    | some p =>
      let (parent, name) := splitLast p
      let i := ri.toNat!
      if h : i < s.roots.size then
        let r := s.roots[i]
        let r := { r with items := r.items.push { parent, name, path := p, isDir := k == "d", size := sz.toNat! } }
        return { s with roots := s.roots.set i r }
      else return s
  | ["run", code] => return { s with exit := code.toNat! }
  | ["del", ri, k, hp] =>
    match Bytes.ofHex hp with
    | none => return s
    | some p =>
      let i := ri.toNat!
      if h : i < s.roots.size then
        let r := s.roots[i]
        let d := if k == "d" then Del.dir p else Del.file p
        return { s with roots := s.roots.set i { r with dels := d :: r.dels } }
      else return s
  | ["end", _] => if s.active then finishCase s lineno else return s
  | [] => return s
  | _ =>
    IO.println s!"MISMATCH {lineno} unparsable line: {line.take 80}"
    return { s with t := { s.t with mismatches := s.t.mismatches + 1 } }

def main : IO UInt32 := do
  let s ← Driver.foldLines ({} : St) step
  IO.println s.t.summary
  return 0

end Driver.Aftersun
