import Driver.Util
import Model.Checkpoint
import Model.Sha256
/-!
Driver for engine `ckpt` (C11). Line protocol `<op> <args…> = <implementation result…>`; the model
result is recomputed with the definitions of `Model/Checkpoint.lean` / `Model/Codec.lean`.

  b64d  bytes = OK <hex> | ERR                      base64.StdEncoding.DecodeString
  b64e  bytes = <hex>                               base64.StdEncoding.EncodeToString
  sth   n ts root = <hex> | ERR                     ct.SerializeSTHSignatureInput
  dsig  rawsig = <hex> | ERR                        digitallySign framing of the raw ECDSA signature
  ckparse text = OK origin n hash ext | ERR         torchwood.ParseCheckpoint
  ckfmt origin n hash ext = <hex>                   Checkpoint.String
  verify name kind msg sig cvsth cvsig cvans = 0|1  NewRFC6962Verifier(name,key).Verify(msg,sig); the raw
        signature check is answered by the harness: `cv _ m s := m = cvsth ∧ s = cvsig ∧ cvans`
  inject name kind ths ts msg cvsth cvsig cvans = OK <blob> | ERR    NewRFC6962InjectedSigner(...).Sign(msg)
  sigts bytes = OK ts | ERR                         RFC6962SignatureTimestamp (bytes include the 4-byte key hash)
  keyhash name keyid = <uint32>                     verifier.KeyHash()
  signed name n ts root blob = OK text ts hashAlg sigAlg | ERR      signTreeHead (symbolic signatures decide only success)
  open name now kh1 kh2 text k (sname shash sig v1ok v2ok)*k = OK origin n hash ts | ERR <class>   openCheckpoint
-/
namespace Driver.Ckpt
open _root_.Codec _root_.Checkpoint

def hx (bs : Bytes) : String := Bytes.toHexP bs

def kindOf (s : String) : Option KeyKind :=
  if s == "ecdsa" then some .ecdsa else if s == "rsa" then some .rsa else if s == "other" then some .other else none

def openErr : OpenErr → String
  | .ambiguous => "ambiguous" | .invalidSignature => "invalid-signature" | .unverified => "unverified"
  | .malformed => "malformed" | .missingSignature => "missing-signature" | .badTimestamp => "bad-timestamp"
  | .parse => "parse" | .future => "future" | .origin => "origin" | .extension => "extension"

def tableCv (cvsth cvsig : String) (cvans : String) : Option Crypto := do
  let ans := cvans == "1"
  if cvsth == "-" then pure (fun _ _ _ => false) else
  let m0 ← Bytes.ofHex cvsth
  let s0 ← Bytes.ofHex cvsig
  pure (fun _ m s => m == m0 && s == s0 && ans)

structure OpenSig where
  line : SigLine
  v1ok : Bool
  v2ok : Bool

def parseSigs : Nat → List String → Option (List OpenSig)
  | 0, [] => some []
  | k+1, sname :: shash :: sig :: a :: b :: rest => do
    let l : SigLine := { name := ← Bytes.ofHex sname, hash := ← shash.toNat?, sig := ← Bytes.ofHex sig }
    let tl ← parseSigs k rest
    pure ({ line := l, v1ok := a == "1", v2ok := b == "1" } :: tl)
  | _, _ => none

def eval (op : String) (a : List String) : Option (String × String) :=
  match op, a with
  | "b64d", [b] => do
    match b64Decode (← Bytes.ofHex b) with
    | some o => pure (s!"OK {hx o}", "b64d-ok")
    | none => pure ("ERR", "b64d-err")
  | "b64e", [b] => do pure (hx (b64Encode (← Bytes.ofHex b)), "b64e")
  | "sth", [n, ts, root] => do
    match sthInput (← n.toNat?) (← ts.toNat?) (← Bytes.ofHex root) with
    | some o => pure (hx o, "sth-ok")
    | none => pure ("ERR", "sth-err")
  | "dsig", [raw] => do
    match digitallySigned (← Bytes.ofHex raw) with
    | some o => pure (hx o, "dsig-ok")
    | none => pure ("ERR", "dsig-err")
  | "ckparse", [t] => do
    match parseCheckpoint (← Bytes.ofHex t) with
    | some c => pure (s!"OK {hx c.origin} {c.n} {hx c.hash} {hx c.ext}", if c.ext.isEmpty then "ckparse-ok" else "ckparse-ok-ext")
    | none => pure ("ERR", "ckparse-err")
  | "ckfmt", [o, n, h, e] => do
    pure (hx (formatCheckpoint { origin := ← Bytes.ofHex o, n := ← n.toInt?, hash := ← Bytes.ofHex h, ext := ← Bytes.ofHex e }), "ckfmt")
  | "verify", [name, kind, msg, sig, cvsth, cvsig, cvans] => do
    let cv ← tableCv cvsth cvsig cvans
    let r := verifier cv (← Bytes.ofHex name) { kind := ← kindOf kind, id := [] } (← Bytes.ofHex msg) (← Bytes.ofHex sig)
    pure (if r then "1" else "0", s!"verify-{kind}-{if r then "accept" else "reject"}")
  | "inject", [name, kind, ths, ts, msg, cvsth, cvsig, cvans] => do
    let cv ← tableCv cvsth cvsig cvans
    match injectedSign cv (← Bytes.ofHex name) { kind := ← kindOf kind, id := [] } (← Bytes.ofHex ths) (← ts.toInt?) (← Bytes.ofHex msg) with
    | some b => pure (s!"OK {hx b}", "inject-ok")
    | none => pure ("ERR", "inject-refused")
  | "sigts", [b] => do
    match sigTimestamp ((← Bytes.ofHex b).drop 4) with
    | some ts => if (← Bytes.ofHex b).length < 4 then pure ("ERR", "sigts-err") else pure (s!"OK {ts}", "sigts-ok")
    | none => pure ("ERR", "sigts-err")
  | "keyhash", [name, keyid] => do
    let pre := (← Bytes.ofHex name) ++ [10, 5] ++ (← Bytes.ofHex keyid)
    let h := Bytes.ofByteArray (Sha256.hash (Bytes.toByteArray pre))
    pure (toString (fromBE (h.take 4)), "keyhash")
  | "signed", [name, n, ts, root, blob] => do
    let key : PubKey := { kind := .ecdsa, id := [1] }
    let wkey : PubKey := { kind := .other, id := [2] }
    let cfg : Config := { name := ← Bytes.ofHex name, key := key, keyHash := 1, witnessKey := wkey, witnessKeyHash := 2 }
    let ts ← ts.toInt?
    match signTreeHead symCv symSign cfg (← n.toInt?) ts (← Bytes.ofHex root) 0 [] false with
    | none => pure ("ERR", "signed-err")
    | some note =>
      let blob ← Bytes.ofHex blob
      match parseNoteSig blob with
      | none => pure (s!"OK {hx note.text} BADBLOB", "signed-badblob")
      | some s =>
        if s.encode == blob && (digitallySigned s.signature).map (injectedBlob ts) == some blob
        then pure (s!"OK {hx note.text} {s.timestamp} {s.hashAlg} {s.sigAlg}", "signed-ok")
        else pure (s!"OK {hx note.text} BADBLOB", "signed-badblob")
  | "open", name :: now :: kh1 :: kh2 :: text :: k :: rest => do
    let name ← Bytes.ofHex name
    let sigs ← parseSigs (← k.toNat?) rest
    let look (pick : OpenSig → Bool) (hash : Nat) : Bytes → Bytes → Bool := fun _ sig =>
      match sigs.find? (fun s => s.line.sig == sig && s.line.hash == hash && s.line.name == name) with
      | some s => pick s
      | none => false
    let kh1 ← kh1.toNat?
    let kh2 ← kh2.toNat?
    let v1 : NoteVerifier := { name := name, hash := kh1, verify := look (·.v1ok) kh1 }
    let v2 : NoteVerifier := { name := name, hash := kh2, verify := look (·.v2ok) kh2 }
    match openCheckpointWith v1 v2 name (← now.toInt?) { text := ← Bytes.ofHex text, sigs := sigs.map (·.line) } with
    | .ok (c, ts) => pure (s!"OK {hx c.origin} {c.n} {hx c.hash} {ts}", "open-ok")
    | .error e => pure (s!"ERR {openErr e}", s!"open-{openErr e}")
  | _, _ => none

def main : IO UInt32 := do
  let t ← Driver.foldLines ({} : Driver.Tally) fun t n l => do
    let t := { t with lines := t.lines + 1 }
    match l.splitOn " = " with
    | [lhs, impl] =>
      match Driver.words lhs with
      | op :: args =>
        match eval op args with
        | some (model, br) =>
          if model == impl then return { t.bump br with ok := t.ok + 1 }
          else
            IO.println s!"MISMATCH {n} {op} model=[{model.take 300}] impl=[{impl.take 300}] args=[{(String.intercalate " " args).take 600}]"
            return { t with mismatches := t.mismatches + 1 }
        | none => IO.println s!"MISMATCH {n} bad-args {lhs.take 200}"; return { t with mismatches := t.mismatches + 1 }
      | [] => IO.println s!"MISMATCH {n} empty"; return { t with mismatches := t.mismatches + 1 }
    | _ => IO.println s!"MISMATCH {n} bad-line {l.take 200}"; return { t with mismatches := t.mismatches + 1 }
  IO.println t.summary
  return 0
end Driver.Ckpt
