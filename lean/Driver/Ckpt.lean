import Driver.Util
namespace Driver.Ckpt
/-- stub: engine not implemented yet -/
def main : IO UInt32 := do
  IO.println "MISMATCH 0 engine ckpt has no driver yet"
  return 0
end Driver.Ckpt
