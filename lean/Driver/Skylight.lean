import Driver.Util
namespace Driver.Skylight
/-- stub: engine not implemented yet -/
def main : IO UInt32 := do
  IO.println "MISMATCH 0 engine skylight has no driver yet"
  return 0
end Driver.Skylight
