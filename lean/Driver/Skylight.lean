import Driver.Util
import Model.Skylight
/-! Driver for engine `skylight` (C19), function mode.

The harness describes the configuration of a running skylight binary, lists the regular files of
every configured directory (independent walk, with SHA-256), and reports every GET it made with a
canonically encoded target together with the status, the headers of interest and the SHA-256 of a
200 body. The driver evaluates `Skylight.Route.respond ∘ route` — the definitions `Props/C19.lean`
is about — and compares.

  cfg <variant> home <0|1>
  entry log|wit <idx> <hex host> <hex segment,… | ->
  f log|wit <idx> <hex relative path> <sha256>
  req <id> <hex Host> <hex path> | <status> <hex content-type> <gzip 0|1> <hex cache-control> <acao 0|1> <sha256 | ->
  endcfg <variant>
-/
namespace Driver.Skylight
open Skylight.Route TilePath

structure FileRec where
  root : RootId
  rel : Bytes
  sum : String

structure St where
  t : Driver.Tally := {}
  home : Bool := false
  logs : Array Entry := #[]
  wits : Array Entry := #[]
  files : Array FileRec := #[]

def unhex (s : String) : Bytes := (Bytes.ofHex s).getD []
def str (b : Bytes) : String := String.ofList (b.map fun c => Char.ofNat c.toNat)

/-- `stripHostPort` of net/http for the hosts the harness uses (`name` or `name:digits`) -/
def stripPort (h : Bytes) : Bytes :=
  let r := h.reverse
  let digits := r.takeWhile (fun c => 48 ≤ c && c ≤ 57)
  match r.drop digits.length with
  | 58 :: rest => if digits.isEmpty then h else rest.reverse
  | _ => h

def kindName : Kind → String
  | .checkpoint => "checkpoint" | .logJSON => "log.v3.json" | .issuer => "issuer" | .tile => "tile" | .data => "data"
  | .partialData => "partial" | .names => "names" | .witnessJSON => "witness.v0.json" | .mirrorJSON => "mirror.v0.json"

def step (s : St) (lineno : Nat) (line : String) : IO St := do
  let s := { s with t := { s.t with lines := s.t.lines + 1 } }
  match Driver.words line with
  | ["cfg", _, "home", h] => return { s with home := h == "1", logs := #[], wits := #[], files := #[] }
  | ["entry", kind, _idx, host, segs] =>
    let pfx := if segs == "-" then [] else (segs.splitOn ",").map unhex
    let e : Entry := ⟨unhex host, pfx⟩
    if kind == "log" then return { s with logs := s.logs.push e } else return { s with wits := s.wits.push e }
  | ["f", kind, idx, rel, sum] =>
    let root := if kind == "log" then RootId.log idx.toNat! else RootId.wit idx.toNat!
    return { s with files := s.files.push ⟨root, unhex rel, sum⟩ }
  | ["req", id, host, path, "|", status, ctype, gz, cache, acao, body] =>
    let cfg : Cfg := ⟨s.home, s.logs.toList, s.wits.toList⟩
    -- regular if listed. A path that runs through a listed regular file fails with ENOTDIR; net/http then
    -- stats the components through `filesOnlyFS`, which hides directories: the answer is 404 if the first
    -- component is that regular file and 500 (refused) if it lies deeper; else absent
    let look (r : RootId) (p : Bytes) : FileState :=
      if s.files.any (fun f => f.root == r && f.rel == p) then .regular
      else if s.files.any (fun f => f.root == r && f.rel.contains 47 && (f.rel ++ [47]).isPrefixOf p) then .refused
      else .absent
    let out := route cfg (stripPort (unhex host)) (unhex path)
    let resp := respond look out
    let st := status.toNat!
    let mut t := s.t
    let mut err : Option String := none
    match resp with
    | .ok root file hdrs =>
      let sum := (s.files.find? (fun f => f.root == root && f.rel == file)).map (·.sum)
      if st ≠ 200 then err := some s!"model: 200 file {str file}; implementation: status {st}"
      else if (some body != sum) then err := some s!"body is not the file {str file}"
      else if str (unhex ctype) ≠ hdrs.ctype then err := some s!"Content-Type {str (unhex ctype)}, model {hdrs.ctype}"
      else if (gz == "1") ≠ hdrs.gzip then err := some s!"Content-Encoding gzip={gz}, model {hdrs.gzip}"
      else if str (unhex cache) ≠ hdrs.cache then err := some s!"Cache-Control {str (unhex cache)}, model {hdrs.cache}"
      else if acao ≠ "1" then err := some "Access-Control-Allow-Origin missing"
      match out with
      | .file _ _ _ k _ => t := t.bump ("200:" ++ kindName k)
      | _ => pure ()
    | .moved =>
      if st ≠ 301 ∧ st ≠ 302 then err := some s!"model: redirect; implementation: status {st}"
      t := t.bump "redirect"
    | .notFound =>
      if st ≠ 404 then err := some s!"model: 404; implementation: status {st}"
      else if gz == "1" ∨ cache ≠ "-" then err := some s!"404 carries Content-Encoding/Cache-Control"
      match out with
      | .file .. => t := t.bump "404:no-such-file"
      | _ => t := t.bump "404:no-route"
    | .error =>
      if st ≠ 500 then err := some s!"model: 500; implementation: status {st}"
      t := t.bump "500:not-a-directory"
    | .special n => t := t.bump ("special:" ++ n)
    match err with
    | some e =>
      IO.println s!"MISMATCH {lineno} req {id} Host {str (unhex host)} GET {str (unhex path)}: {e}"
      return { s with t := { t with mismatches := t.mismatches + 1 } }
    | none => return { s with t := { t with ok := t.ok + 1 } }
  | ["endcfg", _] => return s
  | [] => return s
  | _ =>
    IO.println s!"MISMATCH {lineno} unparsable line: {line.take 80}"
    return { s with t := { s.t with mismatches := s.t.mismatches + 1 } }

def main : IO UInt32 := do
  let s ← Driver.foldLines ({} : St) step
  IO.println s.t.summary
  return 0

end Driver.Skylight
