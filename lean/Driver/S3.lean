import Driver.Util
import Model.S3Upload
/-! Driver for engine `s3`: one line per upload of the real `ctlog.S3Backend` against the planned S3 server,

  up <opts> <caller cancelled 0|1> <prior content 0|1> <request outcomes, comma separated | -> = <ok|err> <none|pre|data|other>

checked against `S3Upload.admissible` (is this return value possible given what became of the requests?) and
`S3Upload.heldAfter` (what the bucket must hold afterwards). -/
namespace Driver.S3
open S3Upload

def parseReq (s : String) : Option Req :=
  match s with
  | "stored" => some .stored | "rejected" => some .rejected | "dropped" => some .dropped | "aborted" => some .aborted
  | _ => none

def heldName : Held → String
  | .none => "none" | .pre => "pre" | .data => "data"

def eval (lhs : List String) (res held : String) : Option (Option String × String) :=
  match lhs with
  | ["up", _opts, cn, pn, reqs] => do
    let rs ← if reqs == "-" then some [] else (reqs.splitOn ",").mapM parseReq
    let cancelled := cn == "1"
    let pre := pn == "1"
    let ok ← (match res with | "ok" => some true | "err" => some false | _ => none)
    let want := heldName (heldAfter pre rs)
    let br := s!"{res}-{if cancelled then "cancelled" else "attended"}-{if rs.contains .stored then "stored" else "unstored"}-requests{min rs.length 4}"
    if !admissible rs cancelled ok then
      pure (some s!"Upload returned {res}, which is not possible for these requests (caller cancelled: {cancelled})", br)
    else if want != held then
      pure (some s!"the bucket holds {held}, the model says {want}", br)
    else pure (none, br)
  | _ => none

def main : IO UInt32 := do
  let t ← Driver.foldLines ({} : Driver.Tally) fun t n l => do
    let t := { t with lines := t.lines + 1 }
    match l.splitOn " = " with
    | [lhs, rhs] =>
      match Driver.words rhs with
      | [res, held] =>
        match eval (Driver.words lhs) res held with
        | some (none, br) => return { t.bump br with ok := t.ok + 1 }
        | some (some m, _) =>
          IO.println s!"MISMATCH {n} {m} :: {l.take 200}"
          return { t with mismatches := t.mismatches + 1 }
        | none => IO.println s!"MISMATCH {n} bad-args {l.take 200}"; return { t with mismatches := t.mismatches + 1 }
      | _ => IO.println s!"MISMATCH {n} bad-result {l.take 200}"; return { t with mismatches := t.mismatches + 1 }
    | _ => IO.println s!"MISMATCH {n} bad-line {l.take 200}"; return { t with mismatches := t.mismatches + 1 }
  IO.println t.summary
  return 0
end Driver.S3
