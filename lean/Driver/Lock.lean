import Driver.Util
import Model.Lock
/-! Driver for engine `lock` (C05).

Sequential cases (function mode): every call the harness made on a real backend is replayed on
the specification (`Lock.specStepCmd`, i.e. `CasSpec.step`) *and* on that backend's one-step model
(`Sqlite.backend`/`Dynamo.backend`/`ETag.backend` with their `program`); all three results must agree.

  begin <backend> <case>
  c fetch <id> <res…>            res = val <hex> | notFound | other
  c create <id> <val> <res>      res = ok | exists | other
  c replace <k> <new> <res>      res = ok | conflict | badHandle | other
  reopen                         (no model step: the store must persist)
  end

Concurrent histories (history mode): the recorded events and the linearisation proposed by the
harness's untrusted search are checked with the verified `Lock.checkWitness`.

  hbegin <backend> <hid>
  e <i> <inv> <ret> fetch <id> <res…> | create <id> <val> <res> | replace <id> <old> <new> <res>
  hend <i0,i1,…|none>
-/
namespace Driver.Lock
open _root_.Lock

/-- Executable ETag function for the ETag model (quote, hex, quote): injective and never empty. -/
def hexTag (v : Val) : ETag.Tag := "\"" ++ Bytes.toHex v ++ "\""

def bSqlite : Backend := Sqlite.backend Sqlite.program
def bDynamo : Backend := Dynamo.backend Dynamo.program
def bETag : Backend := ETag.backend hexTag ETag.program

/-- A backend model with its current server state and the handles returned so far. -/
inductive Sim where
  | sqlite (s : Sqlite.Table) (hs : List Sqlite.Handle)
  | dynamo (s : Dynamo.Server) (hs : List Dynamo.Handle)
  | etag (s : ETag.Objects) (hs : List ETag.Handle)

def Sim.ofName : String → Option Sim
  | "sqlite" => some (.sqlite bSqlite.init [])
  | "dynamo" => some (.dynamo bDynamo.init [])
  | "etag" => some (.etag bETag.init [])
  | _ => none

def Sim.step : Sim → Cmd → Sim × Res
  | .sqlite s hs, c => let r := bSqlite.stepCmd s hs c; (.sqlite r.1 r.2.1, r.2.2)
  | .dynamo s hs, c => let r := bDynamo.stepCmd s hs c; (.dynamo r.1 r.2.1, r.2.2)
  | .etag s hs, c => let r := bETag.stepCmd s hs c; (.etag r.1 r.2.1, r.2.2)

def parseRes : List String → Option Res
  | ["val", h] => (Bytes.ofHex h).map Res.val
  | ["notFound"] => some .notFound
  | ["ok"] => some .ok
  | ["exists"] => some .exists_
  | ["conflict"] => some .conflict
  | ["badHandle"] => some .badHandle
  | ["other"] => some .other
  | _ => none

def showRes : Res → String
  | .val v => s!"val {Bytes.toHexP v}"
  | .notFound => "notFound"
  | .ok => "ok"
  | .exists_ => "exists"
  | .conflict => "conflict"
  | .badHandle => "badHandle"
  | .other => "other"

def resKind : Res → String
  | .val v => if v.isEmpty then "val-empty" else if v.contains 0 then "val-nul" else "val"
  | r => showRes r

def parseCmd : List String → Option (Cmd × Res)
  | "fetch" :: id :: res => do
    let i ← Bytes.ofHex id
    let r ← parseRes res
    pure (.fetch i, r)
  | "create" :: id :: v :: res => do
    let i ← Bytes.ofHex id
    let v ← Bytes.ofHex v
    let r ← parseRes res
    pure (.create i v, r)
  | "replace" :: k :: v :: res => do
    let k ← k.toNat?
    let v ← Bytes.ofHex v
    let r ← parseRes res
    pure (.replace k v, r)
  | _ => none

def parseOp : List String → Option (Op × Res)
  | "fetch" :: id :: res => do
    let i ← Bytes.ofHex id
    let r ← parseRes res
    pure (.fetch i, r)
  | "create" :: id :: v :: res => do
    let i ← Bytes.ofHex id
    let v ← Bytes.ofHex v
    let r ← parseRes res
    pure (.create i v, r)
  | "replace" :: id :: o :: n :: res => do
    let i ← Bytes.ofHex id
    let o ← Bytes.ofHex o
    let n ← Bytes.ofHex n
    let r ← parseRes res
    pure (.replace i o n, r)
  | _ => none

def parseOrder (s : String) : Option (List Nat) :=
  if s == "none" then none
  else if s == "-" then some []
  else (s.splitOn ",").mapM (·.toNat?)

structure St where
  t : Driver.Tally := {}
  sim : Option Sim := none                    -- backend model of the open sequential case
  spec : State × List (Id × Val) := (State.empty, [])
  caseName : String := ""
  hist : Option (Array Event) := none         -- open history
  hname : String := ""

def St.bad (st : St) (n : Nat) (msg : String) : IO St := do
  IO.println s!"MISMATCH {n} {msg}"
  return { st with t := { st.t with mismatches := st.t.mismatches + 1 } }

def St.good (st : St) (branch : String) : St :=
  { st with t := { st.t.bump branch with ok := st.t.ok + 1 } }

def onLine (st : St) (n : Nat) (l : String) : IO St := do
  let st := { st with t := { st.t with lines := st.t.lines + 1 } }
  match Driver.words l with
  | ["begin", backend, name] =>
    match Sim.ofName backend with
    | some m => return { (st.good "case") with sim := some m, spec := (State.empty, []), caseName := backend ++ "/" ++ name }
    | none => st.bad n s!"unknown backend {backend}"
  | ["reopen"] => return st.good "reopen"
  | ["end"] => return { (st.good "end") with sim := none }
  | "c" :: rest =>
    match st.sim, parseCmd rest with
    | some m, some (c, implRes) =>
      let rs := specStepCmd st.spec.1 st.spec.2 c
      let (m', modelRes) := m.step c
      let st := { st with sim := some m', spec := (rs.1, rs.2.1) }
      if rs.2.2 == implRes && modelRes == implRes then
        return st.good s!"{rest.headD "?"}:{resKind implRes}"
      else
        st.bad n s!"{st.caseName} {" ".intercalate rest}: spec={showRes rs.2.2} backend-model={showRes modelRes} impl={showRes implRes}"
    | none, _ => st.bad n "call outside a case"
    | _, none => st.bad n s!"unparsable call: {l}"
  | ["hbegin", backend, name] =>
    return { (st.good "history") with hist := some #[], hname := backend ++ "/" ++ name }
  | "e" :: i :: inv :: ret :: rest =>
    match st.hist, i.toNat?, inv.toNat?, ret.toNat?, parseOp rest with
    | some h, some i, some inv, some ret, some (op, res) =>
      if i != h.size then st.bad n s!"{st.hname}: event index {i}, expected {h.size}"
      else if ret < inv then st.bad n s!"{st.hname}: event {i} returns before it is invoked"
      else return { (st.good s!"ev-{rest.headD "?"}:{resKind res}") with hist := some (h.push ⟨op, res, inv, ret⟩) }
    | none, _, _, _, _ => st.bad n "event outside a history"
    | _, _, _, _, _ => st.bad n s!"unparsable event: {l}"
  | ["hend", order] =>
    match st.hist with
    | none => st.bad n "hend outside a history"
    | some h =>
      let st := { st with hist := none }
      match parseOrder order with
      | none => st.bad n s!"{st.hname}: no linearisation proposed for a history of {h.size} events"
      | some σ =>
        if checkWitness h.toList σ then return st.good "witness-accepted"
        else st.bad n s!"{st.hname}: checkWitness rejects the proposed order of {h.size} events"
  | [] => return st
  | _ => st.bad n s!"bad-line: {l}"

def main : IO UInt32 := do
  let st ← Driver.foldLines ({} : St) onLine
  IO.println st.t.summary
  return 0
end Driver.Lock
