import Driver.Util
namespace Driver.Lock
/-- stub: engine not implemented yet -/
def main : IO UInt32 := do
  IO.println "MISMATCH 0 engine lock has no driver yet"
  return 0
end Driver.Lock
