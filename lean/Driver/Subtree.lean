import Driver.Util
import Driver.Witness
import Model.Subtree
/-! Driver for engine `subtree` (C16): `Subtree.signSubtree` against the real sign-subtree handler
(decision and the signers of a 200), and function-mode diffs of `Merkle.validSubtree` /
`Merkle.checkSubtree` against `torchwood.ValidSubtree` / `torchwood.CheckSubtree`. Line protocol
at the top of `harness/internal/eng/subtree.go`; the scenario header lines are the witness engine's. -/
namespace Driver.Subtree
open _root_.Checkpoint _root_.Subtree
open _root_.Witness (Hash Resp symSig)
open Driver.Witness (node emptyHash Desc parseDescs parseNote parseHashes showDescs)

def parseForm : String → Option Subtree.BodyForm
  | "ok" => some .ok | "noSeparator" => some .noSeparator | "fewLines" => some .fewLines
  | "noPrefix" => some .noPrefix | "noSpace" => some .noSpace | "badStart" => some .badStart
  | "badEnd" => some .badEnd | "badHash" => some .badHash | "badProofHash" => some .badProofHash
  | _ => none

structure Pending where
  rid : Nat
  resp : Resp
  origin : Bytes
  start : Nat
  stop : Nat
  hash : Hash

structure St where
  w : Driver.Witness.St := {}
  pending : List Pending := []

def St.bad (st : St) (n : Nat) (msg : String) : IO St := do
  IO.println s!"MISMATCH {n} [{st.w.scenario}] {msg}"
  return { st with w := { st.w with t := { st.w.t with mismatches := st.w.t.mismatches + 1 } } }

def St.good (st : St) (branch : String) : St := { st with w := st.w.good branch }

/-- which registry key made this subtree line -/
def whoSub (ids : List Nat) (origin : Bytes) (s e : Nat) (hash : Hash) (l : SigLine) : Option Nat :=
  match subtreeMessage l.name 0 origin s e hash with
  | some m => ids.find? fun k => l.sig == symSig k m
  | none => none

def onLine (st : St) (n : Nat) (l : String) : IO St := do
  match Driver.words l with
  | ["sreq", rid, form, s, e, hash, proof, note] =>
    let st := { st with w := { st.w with t := { st.w.t with lines := st.w.t.lines + 1 } } }
    match rid.toNat?, parseForm form, s.toNat?, e.toNat?, Bytes.ofHex hash, parseHashes proof, parseNote note, st.w.cfg with
    | some rid, some form, some s, some e, some hash, some proof, some note, some cfg =>
      let req : SubReq := { body := form, start := s, stop := e, hash := hash, proof := proof, note := note }
      let env : Subtree.Env := { cfg := cfg, req := req }
      let resp := signSubtree node env
      let pd : Pending := { rid := rid, resp := resp, origin := env.origin, start := s, stop := e, hash := hash }
      return { (st.good s!"sreq:{Driver.Witness.respClass resp}") with pending := st.pending ++ [pd] }
    | _, _, _, _, _, _, _, _ => st.bad n s!"unparsable request: {l.take 200}"
  | ["sresp", rid, status, payload] =>
    let st := { st with w := { st.w with t := { st.w.t with lines := st.w.t.lines + 1 } } }
    match rid.toNat? with
    | none => st.bad n s!"bad-line: {l.take 160}"
    | some rid =>
      match st.pending.find? (·.rid == rid) with
      | none => st.bad n s!"response to a request the model knows nothing about: {l.take 160}"
      | some p =>
        let st := { st with pending := st.pending.filter (·.rid != rid) }
        match p.resp with
        | .dead => st.bad n "model: dead (impossible)"
        | .err c _ =>
          if status == toString c.status && payload == "-" then return st.good s!"sresp:{c.status}-{reprStr c}"
          else st.bad n s!"request {rid}: status {status} {payload}, model {c.status} ({reprStr c})"
        | .ok sigs =>
          let want : List Desc := sigs.map fun sl => (sl.name, sl.hash, whoSub st.w.ids p.origin p.start p.stop p.hash sl)
          match parseDescs payload with
          | some ds =>
            if status == "200" && ds == want then return st.good s!"sresp:200:{sigs.length}"
            else st.bad n s!"request {rid}: status {status} lines {payload}, model 200 {showDescs want}"
          | none => st.bad n s!"request {rid}: status {status} {payload}, model 200"
  | ["vs", s, e, res] =>
    let st := { st with w := { st.w with t := { st.w.t with lines := st.w.t.lines + 1 } } }
    match s.toNat?, e.toNat? with
    | some s, some e =>
      let m := Merkle.validSubtree s e
      if (res == "1") == m then return st.good s!"validSubtree:{res}"
      else st.bad n s!"ValidSubtree({s},{e}) impl={res} model={m}"
    | _, _ => st.bad n s!"bad-line: {l.take 160}"
  | ["cs", t, th, s, e, sh, proof, res] =>
    let st := { st with w := { st.w with t := { st.w.t with lines := st.w.t.lines + 1 } } }
    match t.toNat?, Bytes.ofHex th, s.toNat?, e.toNat?, Bytes.ofHex sh, parseHashes proof with
    | some t, some th, some s, some e, some sh, some proof =>
      let m := Merkle.checkSubtree node proof.reverse t th s e sh
      if (res == "1") == m then return st.good s!"checkSubtree:{res}"
      else st.bad n s!"CheckSubtree(t={t},[{s},{e})) impl={res} model={m}"
    | _, _, _, _, _, _ => st.bad n s!"bad-line: {l.take 160}"
  | _ =>
    -- scenario header, and the add-checkpoint lines of the round-trip scenarios: the witness driver's
    let w ← Driver.Witness.onLine st.w n l
    return { st with w := w }

def main : IO UInt32 := do
  let st ← Driver.foldLines ({} : St) onLine
  let st ← if st.pending.isEmpty then pure st else st.bad 0 s!"{st.pending.length} request(s) never answered in the trace"
  IO.println st.w.t.summary
  return 0
end Driver.Subtree
