import Driver.Util
namespace Driver.Subtree
/-- stub: engine not implemented yet -/
def main : IO UInt32 := do
  IO.println "MISMATCH 0 engine subtree has no driver yet"
  return 0
end Driver.Subtree
