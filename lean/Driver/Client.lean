import Driver.Util
import Model.ClientV
import Model.Sha256
/-! Driver for engine `client` (C12): byte-exact re-run of the client's acceptance conditions
(`ClientV.scanTile`, `clientEntry`, `checkInclusion`, `clientCheckpoint` — the definitions
`Props/C12.lean` is about) on what the real `sunlight.Client` was served, with real SHA-256 as the
`HashFn`. ECDSA is an oracle table: `valid=` lists the (message, signature) pairs the harness
verified under the configured key.

  tile  <case> allow= start= i0= hs=<32-byte hashes> data=<tile> => ok=<0|1> y=<i:leafhash16,…|->
  entry <case> allow= n= root= idx= data=<tile|-> proof=<hashes, top sibling first|-> => ok <leafhash16> | err
  incl  <case> allow= n= root= keyid= sct=<bad | version,logid,timestamp,ext,sig> data= proof= valid=<msg:sig|-> => ok <leafhash16> | err
  ckpt  <case> keyid= kh= text= sigs=<name:hash:sig,…|-> valid=<msg:sig,…|-> => ok <origin> <n> <root> | err
  ckpt  <case> malformed => err -/
namespace Driver.Client
open _root_.ClientV Codec

def sha (b : Bytes) : Bytes := Bytes.ofByteArray (Sha256.hash (Bytes.toByteArray b))

/-- RFC 6962 hashing: `tlog.RecordHash`, `tlog.NodeHash` -/
def shaHF : HashFn Bytes := ⟨fun b => sha (0 :: b), fun a b => sha (1 :: a ++ b), sha []⟩

def kv (ws : List String) (k : String) : Option String :=
  (ws.find? (·.startsWith (k ++ "="))).map fun w => (w.drop (k.length + 1)).toString

def bit (s : String) : Option Bool := if s == "1" then some true else if s == "0" then some false else none

def chunks32 : Nat → Bytes → List Bytes
  | 0, _ => []
  | fuel + 1, bs => if bs.isEmpty then [] else bs.take 32 :: chunks32 fuel (bs.drop 32)

def hashList (s : String) : Option (List Bytes) := do
  let b ← Bytes.ofHex s
  pure (chunks32 b.length b)

def tag (e : LogEntry) : String :=
  match merkleTreeLeaf e with
  | some m => (Bytes.toHex (shaHF.leaf m)).take 16 |>.toString
  | none => "?"

def items (s : String) : List String := if s == "-" then [] else s.splitOn ","

def pairOf (s : String) : Option (Bytes × Bytes) :=
  match s.splitOn ":" with
  | [a, b] => do pure (← Bytes.ofHex a, ← Bytes.ofHex b)
  | _ => none

structure St where
  t : Driver.Tally := {}

def St.bad (st : St) (n : Nat) (msg : String) : IO St := do
  IO.println s!"MISMATCH {n} {msg}"
  return { st with t := { st.t with mismatches := st.t.mismatches + 1 } }

def St.good (st : St) (branch : String) : St :=
  { st with t := { st.t.bump branch with ok := st.t.ok + 1 } }

def kindOf (name : String) : String := (name.splitOn "/").getLastD "?"

def compare (st : St) (n : Nat) (name kind model impl : String) : IO St :=
  if model == impl then return st.good s!"{kind}:{kindOf name}:{if model.startsWith "err" || model.startsWith "ok=0" then "reject" else "accept"}"
  else st.bad n s!"{kind} {name}: model={model} impl={impl}"

def onLine (st : St) (n : Nat) (l : String) : IO St := do
  let st := { st with t := { st.t with lines := st.t.lines + 1 } }
  let ws := Driver.words l
  let (facts, implWs) := ws.span (· != "=>")
  let impl := " ".intercalate (implWs.drop 1)
  match facts with
  | "tile" :: name :: rest =>
    match bit ((kv rest "allow").getD ""), ((kv rest "start").getD "").toNat?, ((kv rest "i0").getD "").toNat?,
          hashList ((kv rest "hs").getD ""), Bytes.ofHex ((kv rest "data").getD "") with
    | some allow, some start, some i0, some hs, some data =>
      let (ys, ok) := scanTile shaHF allow start i0 data hs
      let y := if ys.isEmpty then "-" else ",".intercalate (ys.map fun (i, e) => s!"{i}:{tag e}")
      compare st n name "tile" s!"ok={if ok then 1 else 0} y={y}" impl
    | _, _, _, _, _ => st.bad n s!"unparsable tile line {name}"
  | "entry" :: name :: rest =>
    match bit ((kv rest "allow").getD ""), ((kv rest "n").getD "").toNat?, Bytes.ofHex ((kv rest "root").getD ""),
          ((kv rest "idx").getD "").toInt?, Bytes.ofHex ((kv rest "data").getD ""), hashList ((kv rest "proof").getD "") with
    | some allow, some tn, some root, some idx, some data, some proof =>
      let model :=
        if idx < 0 then "err" else
        match clientEntry shaHF allow ⟨tn, root⟩ idx.toNat data proof with
        | some e => s!"ok {tag e}"
        | none => "err"
      compare st n name "entry" model impl
    | _, _, _, _, _, _ => st.bad n s!"unparsable entry line {name}"
  | "incl" :: name :: rest =>
    match bit ((kv rest "allow").getD ""), ((kv rest "n").getD "").toNat?, Bytes.ofHex ((kv rest "root").getD ""),
          Bytes.ofHex ((kv rest "keyid").getD ""), Bytes.ofHex ((kv rest "data").getD ""), hashList ((kv rest "proof").getD "") with
    | some allow, some tn, some root, some keyId, some data, some proof =>
      let sctS := (kv rest "sct").getD ""
      let valid := (kv rest "valid").getD "-"
      let vp := if valid == "-" then none else pairOf valid
      let sigVerify : Bytes → Bytes → Bool := fun m s => vp == some (m, s)
      let model :=
        if sctS == "bad" then "err" else
        match sctS.splitOn "," with
        | [v, lid, ts, ext, sig] =>
          match v.toNat?, Bytes.ofHex lid, ts.toNat?, Bytes.ofHex ext, Bytes.ofHex sig with
          | some v, some lid, some ts, some ext, some sig =>
            match checkInclusion shaHF allow keyId sigVerify ⟨tn, root⟩ (fun _ => (data, proof)) ⟨v, lid, ts, ext, sig⟩ with
            | some e => s!"ok {tag e}"
            | none => "err"
          | _, _, _, _, _ => "unparsable-sct"
        | _ => "unparsable-sct"
      compare st n name "incl" model impl
    | _, _, _, _, _, _ => st.bad n s!"unparsable incl line {name}"
  | ["ckpt", name, "malformed"] => compare st n name "ckpt-malformed" "err" impl
  | "ckpt" :: name :: rest =>
    match Bytes.ofHex ((kv rest "keyid").getD ""), ((kv rest "kh").getD "").toNat?, Bytes.ofHex ((kv rest "text").getD "") with
    | some keyId, some kh, some text =>
      let sigs := (items ((kv rest "sigs").getD "-")).filterMap fun s =>
        match s.splitOn ":" with
        | [nm, h, sg] => do pure (⟨← Bytes.ofHex nm, ← h.toNat?, ← Bytes.ofHex sg⟩ : Checkpoint.SigLine)
        | _ => none
      let valid := (items ((kv rest "valid").getD "-")).filterMap pairOf
      let key : Checkpoint.PubKey := { kind := .ecdsa, id := keyId }
      let cv : Checkpoint.Crypto := fun k m s => k == key && valid.contains (m, s)
      let model :=
        match clientCheckpoint cv key (fun _ => kh) { text := text, sigs := sigs } with
        | some c => s!"ok {Bytes.toHexP c.origin} {c.n} {Bytes.toHex c.hash}"
        | none => "err"
      compare st n name "ckpt" model impl
    | _, _, _ => st.bad n s!"unparsable ckpt line {name}"
  | [] => return st
  | _ => st.bad n s!"bad-line: {(l.take 80).toString}"

def main : IO UInt32 := do
  let st ← Driver.foldLines ({} : St) onLine
  IO.println st.t.summary
  return 0
end Driver.Client
