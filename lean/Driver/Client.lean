import Driver.Util
namespace Driver.Client
/-- stub: engine not implemented yet -/
def main : IO UInt32 := do
  IO.println "MISMATCH 0 engine client has no driver yet"
  return 0
end Driver.Client
