import Driver.Util
import Model.Sha256
namespace Driver.Selftest
/-- `sha <hex> <expected>` lines: recompute the SHA-256 and compare. -/
def main : IO UInt32 := do
  let t ← Driver.foldLines ({} : Driver.Tally) fun t n l => do
    let t := { t with lines := t.lines + 1 }
    match Driver.words l with
    | ["sha", h, exp] =>
      match Bytes.ofHex h with
      | some bs =>
        let got := Bytes.toHex (Bytes.ofByteArray (Sha256.hash (Bytes.toByteArray bs)))
        if got == exp then return { t.bump "sha" with ok := t.ok + 1 }
        else
          IO.println s!"MISMATCH {n} sha model={got} impl={exp}"
          return { t with mismatches := t.mismatches + 1 }
      | none => IO.println s!"MISMATCH {n} bad-hex"; return { t with mismatches := t.mismatches + 1 }
    | _ => IO.println s!"MISMATCH {n} bad-op"; return { t with mismatches := t.mismatches + 1 }
  IO.println t.summary
  return 0
end Driver.Selftest
