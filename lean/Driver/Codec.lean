import Driver.Util
namespace Driver.Codec
/-- stub: engine not implemented yet -/
def main : IO UInt32 := do
  IO.println "MISMATCH 0 engine codec has no driver yet"
  return 0
end Driver.Codec
