import Driver.Util
import Model.Codec
import Model.TilePath
import Model.Sha256
/-!
Driver for engine `codec` (C10). Line protocol: `<op> <args…> = <implementation result…>`.
The driver recomputes the result with the model definitions of `Model/Codec.lean` and
`Model/TilePath.lean` (the ones `Props/C10.lean` is about) and compares strings.

  leaf  t0 ts pre cert ikh fps precert idx arch = <appendHex|PANIC> <mtlHex|PANIC>
  read  tile   = OK ts pre cert ikh fps precert idx arch rest | ERR <class>     (ReadTileLeafMaybeArchival)
  reads tile   = idem                                                            (ReadTileLeaf)
  mext  idx    = <hex> | ERR
  pext  bytes  = OK idx | ERR <class>
  cache cert pre ikh = <sha256 hex> | PANIC
  tpath H L N W  = <pathHex> | PANIC        (sunlight.TilePath)
  tlpath H L N W = <pathHex>                (tlog.Tile.Path)
  tparse path  = OK H L N W | ERR           (sunlight.ParseTilePath)
  tlparse path = OK H L N W | ERR           (tlog.ParseTilePath)
-/
namespace Driver.Codec
open _root_.Codec

def hx (bs : Bytes) : String := Bytes.toHexP bs

def chunk32 : Nat → Bytes → List Bytes
  | 0, _ => []
  | fuel+1, bs => if bs.isEmpty then [] else bs.take 32 :: chunk32 fuel (bs.drop 32)

def bit (s : String) : Option Bool := if s == "1" then some true else if s == "0" then some false else none

def leafErr : LeafErr → String
  | .header => "header" | .x509 => "x509" | .precert => "precert" | .unknownType => "unknown-type"
  | .extensions => "extensions" | .fingerprints => "fingerprints" | .archival => "archival"

def extErr : ExtErr → String
  | .invalid => "invalid" | .leafIndex => "leaf-index" | .missing => "missing"

def b01 (b : Bool) : String := if b then "1" else "0"

def showEntry (e : LogEntry) (rest : Bytes) : String :=
  s!"OK {e.timestamp} {b01 e.isPrecert} {hx e.certificate} {hx e.issuerKeyHash} {hx e.chainFingerprints.flatten} {hx e.preCertificate} {e.leafIndex} {b01 e.archival} {hx rest}"

def showRead (r : Except LeafErr (LogEntry × Bytes)) : String × String :=
  match r with
  | .error e => (s!"ERR {leafErr e}", s!"err-{leafErr e}")
  | .ok (e, rest) => (showEntry e rest,
      s!"ok-{if e.isPrecert then "precert" else "x509"}-{if e.archival then "archival" else "indexed"}")

def showTile (t : TilePath.Tile) : String := s!"OK {t.H} {t.L} {t.N} {t.W}"

/-- model result and the branch id reached, or `none` if the line is malformed -/
def eval (op : String) (a : List String) : Option (String × String) :=
  match op, a with
  | "leaf", [t0, ts, pre, cert, ikh, fps, precert, idx, arch] => do
    let t0 ← Bytes.ofHex t0
    let fpsB ← Bytes.ofHex fps
    let e : LogEntry := {
      certificate := ← Bytes.ofHex cert, isPrecert := ← bit pre, issuerKeyHash := ← Bytes.ofHex ikh,
      chainFingerprints := chunk32 fpsB.length fpsB, preCertificate := ← Bytes.ofHex precert,
      leafIndex := ← idx.toInt?, archival := ← bit arch, timestamp := ← ts.toInt? }
    let a := match appendTileLeaf t0 e with | some b => hx b | none => "PANIC"
    let m := match merkleTreeLeaf e with | some b => hx b | none => "PANIC"
    let br := s!"leaf-{if e.isPrecert then "precert" else "x509"}-{if e.archival then "archival" else "indexed"}{if a == "PANIC" then "-panic" else ""}"
    pure (s!"{a} {m}", br)
  | "read", [tile] => do
    let (s, b) := showRead (readTileLeaf (← Bytes.ofHex tile))
    pure (s, "read-" ++ b)
  | "reads", [tile] => do
    let (s, b) := showRead (readTileLeafStrict (← Bytes.ofHex tile))
    pure (s, "reads-" ++ b)
  | "mext", [idx] => do
    match marshalExtensions (← idx.toInt?) with
    | some b => pure (hx b, "mext-ok")
    | none => pure ("ERR", "mext-err")
  | "pext", [b] => do
    match parseExtensions (← Bytes.ofHex b) with
    | .ok i => pure (s!"OK {i}", "pext-ok")
    | .error e => pure (s!"ERR {extErr e}", s!"pext-{extErr e}")
  | "cache", [cert, pre, ikh] => do
    match cachePreimage (← Bytes.ofHex cert) (← bit pre) (← Bytes.ofHex ikh) with
    | some p => pure (Bytes.toHex (Bytes.ofByteArray (Sha256.hash (Bytes.toByteArray p))), if pre == "1" then "cache-precert" else "cache-x509")
    | none => pure ("PANIC", "cache-panic")
  | "tpath", [h, l, n, w] => do
    let t : TilePath.Tile := { H := ← h.toInt?, L := ← l.toInt?, N := ← n.toInt?, W := ← w.toInt? }
    match TilePath.sunlightPath t with
    | some p => pure (hx p, if t.L = -2 then "tpath-names" else if t.L = -1 then "tpath-data" else "tpath-hash")
    | none => pure ("PANIC", "tpath-panic")
  | "tlpath", [h, l, n, w] => do
    let t : TilePath.Tile := { H := ← h.toInt?, L := ← l.toInt?, N := ← n.toInt?, W := ← w.toInt? }
    pure (hx (TilePath.tlogPath t), "tlpath")
  | "tparse", [p] => do
    match TilePath.sunlightParse (← Bytes.ofHex p) with
    | some t => pure (showTile t, if t.L = -2 then "tparse-names" else if t.L = -1 then "tparse-data" else "tparse-hash")
    | none => pure ("ERR", "tparse-err")
  | "tlparse", [p] => do
    match TilePath.tlogParse (← Bytes.ofHex p) with
    | some t => pure (showTile t, "tlparse-ok")
    | none => pure ("ERR", "tlparse-err")
  | _, _ => none

def main : IO UInt32 := do
  let t ← Driver.foldLines ({} : Driver.Tally) fun t n l => do
    let t := { t with lines := t.lines + 1 }
    match l.splitOn " = " with
    | [lhs, impl] =>
      match Driver.words lhs with
      | op :: args =>
        match eval op args with
        | some (model, br) =>
          if model == impl then return { t.bump br with ok := t.ok + 1 }
          else
            IO.println s!"MISMATCH {n} {op} model=[{model.take 300}] impl=[{impl.take 300}] args=[{(String.intercalate " " args).take 400}]"
            return { t with mismatches := t.mismatches + 1 }
        | none => IO.println s!"MISMATCH {n} bad-args {lhs.take 200}"; return { t with mismatches := t.mismatches + 1 }
      | [] => IO.println s!"MISMATCH {n} empty"; return { t with mismatches := t.mismatches + 1 }
    | _ => IO.println s!"MISMATCH {n} bad-line {l.take 200}"; return { t with mismatches := t.mismatches + 1 }
  IO.println t.summary
  return 0
end Driver.Codec
