import Driver.Util
namespace Driver.Submit
/-- stub: engine not implemented yet -/
def main : IO UInt32 := do
  IO.println "MISMATCH 0 engine submit has no driver yet"
  return 0
end Driver.Submit
