import Driver.Util
import Model.Submit
/-! Driver for engine `submit` (C09): function-mode diff of the real `Log.Handler()` with
`Submit.handle` / `Submit.setRoots` / `Submit.getRoots` (the definitions `Props/C09.lean` is about).

  scenario <name> <startNs> <limitNs>
  cert <id> <sha256(der)> <sha256(spki)> <ctEku 0|1>
  setroots <ids|-> <bundle parses 0|1> <ok|err> <bundle persisted 0|1>
  getroots <status> <fingerprints in order|->
  restart
  sub <name> ep=… m=… body=… chain=<ids|-> parses= na= eku= linked= anchor=<id|-> anchorsub= poison= defang= tbs=<h>,<h>
        => <status> grew=<n> <none | x509 <sha256(cert)> | pre <sha256(tbs)> <ikh> <sha256(precert)>> iss=<fingerprints|->
  end

Certificates are opaque to the model: the driver uses the SHA-256 of a DER string wherever the
model has the string (`Cert.der`, `Pending.certificate`, …); `tbs=` are the hashes of the harness'
own DER-level defang (without / with the issuer swap). -/
namespace Driver.Submit
open _root_.Submit

structure St where
  t : Driver.Tally := {}
  cfg : Config := ⟨0, 0⟩
  s : State := {}
  certs : List (String × Cert) := []
  name : String := ""

def St.bad (st : St) (n : Nat) (msg : String) : IO St := do
  IO.println s!"MISMATCH {n} {st.name}: {msg}"
  return { st with t := { st.t with mismatches := st.t.mismatches + 1 } }

def St.good (st : St) (branch : String) : St :=
  { st with t := { st.t.bump branch with ok := st.t.ok + 1 } }

def lookup (st : St) (id : String) : Option Cert := (st.certs.find? (·.1 == id)).map (·.2)

def ids (s : String) : List String := if s == "-" then [] else s.splitOn ","

def kv (ws : List String) (k : String) : Option String :=
  (ws.find? (·.startsWith (k ++ "="))).map fun w => (w.drop (k.length + 1)).toString

def bit (s : String) : Option Bool := if s == "1" then some true else if s == "0" then some false else none

def hexList (s : String) : Option (List Bytes) := (ids s).mapM Bytes.ofHex

def showHexList (l : List Bytes) : String := if l.isEmpty then "-" else ",".intercalate (l.map Bytes.toHex)

def parseReq (st : St) (ws : List String) : Option Req := do
  let ep ← match ← kv ws "ep" with
    | "add-chain" => some Endpoint.addChain
    | "add-pre-chain" => some Endpoint.addPreChain
    | _ => none
  let m := match ← kv ws "m" with
    | "POST" => Method.post
    | "OPTIONS" => Method.options
    | _ => Method.other
  let body ← match ← kv ws "body" with
    | "ok" => some BodyFact.ok
    | "malformed" => some BodyFact.malformed
    | "toolarge" => some BodyFact.tooLarge
    | _ => none
  let chain ← (ids (← kv ws "chain")).mapM (lookup st)
  let anchorId ← kv ws "anchor"
  let anchor ← if anchorId == "-" then some (⟨[], [], false⟩ : Cert) else lookup st anchorId
  let poison ← match ← kv ws "poison" with
    | "none" => some Poison.none
    | "valid" => some Poison.valid
    | "invalid" => some Poison.invalid
    | _ => none
  let tbs := (← kv ws "tbs").splitOn ","
  let tbsOf (s : String) : Option Bytes := if s == "-" then some [] else Bytes.ofHex s
  let (t1, t2) ← match tbs with
    | [a, b] => some (← tbsOf a, ← tbsOf b)
    | _ => none
  pure { endpoint := ep, method := m, body := body, chain := chain, parses := ← bit (← kv ws "parses"),
         notAfter := ← (← kv ws "na").toInt?, serverAuth := ← bit (← kv ws "eku"), linked := ← bit (← kv ws "linked"),
         anchor := anchor, anchorSubmitted := ← bit (← kv ws "anchorsub"), poison := poison,
         defangOk := ← bit (← kv ws "defang"), tbsPlain := t1, tbsReissued := t2 }

/-- what the model says was stored, in the format of the trace -/
def showStored (o : Option Outcome) : String × String :=
  match o with
  | some (.admit e _) =>
    if e.isPrecert then (s!"pre {Bytes.toHex e.certificate} {Bytes.toHex e.issuerKeyHash} {Bytes.toHex e.preCertificate}", showHexList e.issuers)
    else (s!"x509 {Bytes.toHex e.certificate}", showHexList e.issuers)
  | _ => ("none", "-")

def checkName : Check → String
  | .readBody => "body-too-large" | .parseJSON => "body-malformed" | .nonEmpty => "empty-chain"
  | .validate => "validate-chain" | .poison => "poison-invalid" | .hasIssuer => "precert-without-issuer"
  | .preIssuerHasIssuer => "signing-cert-without-issuer" | .buildTBS => "defang-fails" | .endpointType => "wrong-endpoint"

def validateWhy (c : Config) (roots : List Bytes) (r : Req) : String :=
  if !r.parses then "unparsable"
  else if r.notAfter < c.start then "before-start"
  else if !(r.notAfter < c.limit) then "at-or-after-limit"
  else if !r.serverAuth then "no-serverauth"
  else if !r.linked then "no-path"
  else if !(roots.contains r.anchor.der) then "root-not-accepted"
  else "?"

def branchOf (c : Config) (roots : List Bytes) (r : Req) (resp : Response) : String :=
  match resp.outcome with
  | none => s!"method:{resp.status}"
  | some (.reject .validate) => s!"reject:validate-chain:{validateWhy c roots r}"
  | some (.reject k) => s!"reject:{checkName k}"
  | some (.admit e ch) =>
    if !e.isPrecert then s!"admit:x509:len{ch.length}"
    else if usesPreIssuer ch then s!"admit:precert-signing-cert:len{ch.length}"
    else s!"admit:precert:len{ch.length}"

def onLine (st : St) (n : Nat) (l : String) : IO St := do
  let st := { st with t := { st.t with lines := st.t.lines + 1 } }
  match Driver.words l with
  | ["scenario", name, a, b] =>
    match a.toInt?, b.toInt? with
    | some a, some b => return { (st.good "scenario") with cfg := ⟨a, b⟩, s := {}, certs := [], name := name }
    | _, _ => st.bad n s!"bad scenario line: {l}"
  | ["cert", id, fp, spki, ct] =>
    match Bytes.ofHex fp, Bytes.ofHex spki, bit ct with
    | some fp, some spki, some ct => return { (st.good "cert") with certs := (id, ⟨fp, spki, ct⟩) :: st.certs }
    | _, _, _ => st.bad n s!"bad cert line: {l}"
  | ["setroots", idl, ok, res, stored] =>
    match (ids idl).mapM (lookup st), bit ok, bit stored with
    | some cs, some ok, some stored =>
      let pem : Option (List Bytes) := if ok then some (cs.map (·.der)) else none
      let (s', good) := setRootsStored st.s pem stored
      let model := if good then "ok" else "err"
      let st := { st with s := s' }
      if model == res then return st.good s!"setroots:{res}"
      else st.bad n s!"SetRootsFromPEM: model={model} impl={res}"
    | _, _, _ => st.bad n s!"bad setroots line: {l}"
  | ["restart"] => return st.good "restart"
  | ["getroots", status, fps] =>
    let model := showHexList (getRoots st.s)
    if status == "200" && fps == model then return st.good (if (getRoots st.s).isEmpty then "getroots:empty" else "getroots")
    else st.bad n s!"get-roots: model=200 {model} impl={status} {fps}"
  | ["end"] => return st.good "end"
  | "sub" :: name :: rest =>
    let (facts, impl) := rest.span (· != "=>")
    let faulted := facts.contains "issuerfault=1"
    let facts := facts.filter (· != "issuerfault=1")
    match parseReq st facts, impl with
    | some r, _ :: status :: grew :: more =>
      let (s', resp) := if faulted then handleIssuerFault st.cfg st.s r else handle st.cfg st.s r
      -- what the log holds for this entry: the pending entry of the FIRST admission with this deduplication key (a
      -- resubmission through another chain is answered with that one; its chain fingerprints are the first chain's)
      let held : Option Outcome := match resp.outcome with
        | some (.admit e ch) => some (.admit ((s'.pool.find? (sameKey e)).getD e) ch)
        | o => o
      let (stored, iss) := showStored held
      let stored := if resp.status == 200 then stored else "none"
      let iss := if resp.status == 200 then iss else "-"
      let modelLine := s!"{resp.status} grew={s'.pool.length - st.s.pool.length} {stored} iss={iss}"
      let implLine := " ".intercalate (status :: grew :: more)
      let b := (if faulted then "issuer-fault:" else "") ++ branchOf st.cfg st.s.roots r resp
      let st := { st with s := s' }
      if modelLine == implLine then return st.good b
      else st.bad n s!"{name} [{b}]: model={modelLine} impl={implLine}"
    | _, _ => st.bad n s!"unparsable sub line: {l}"
  | [] => return st
  | _ => st.bad n s!"bad-line: {l}"

def main : IO UInt32 := do
  let st ← Driver.foldLines ({} : St) onLine
  IO.println st.t.summary
  return 0
end Driver.Submit
