import Driver.Util
import Model.Witness
import Model.Sha256
/-! Driver for engine `witness` (C14): trace acceptor for `Witness.addCheckpoint` plus a function-mode
diff of `Merkle.checkTree` against `tlog.CheckTree`. The line protocol is documented at the top of
`harness/internal/eng/witness.go`.

Acceptor: on a `req` line the model runs the whole request (`addCheckpoint` with the injected store
outcomes of the line) on the state of the origin the note is addressed to; the store operations it
performs (the new suffix of `OState.log`) and its response are remembered under the request id and
must then be matched, in order, by the `ef` and `resp` lines of that request. Signed notes are
compared as (text, per line: name, key hash, which registry key — if any — made it over that
text), which is what the harness derives from the real bytes with the real verifiers. -/
namespace Driver.Witness
open _root_.Witness _root_.Checkpoint

def sha (b : Bytes) : Bytes := Bytes.ofByteArray (Sha256.hash (Bytes.toByteArray b))

/-- tlog.NodeHash -/
def node (l r : Hash) : Hash := sha (1 :: (l ++ r))
/-- the hash of the empty tree -/
def emptyHash : Hash := sha []

abbrev Desc := Bytes × Nat × Option Nat

/-- which registry key made this line over `text` -/
def who (ids : List Nat) (text : Bytes) (l : SigLine) : Option Nat := ids.find? fun k => l.sig == symSig k text

def describe (ids : List Nat) (text : Bytes) (ls : List SigLine) : List Desc :=
  ls.map fun l => (l.name, l.hash, who ids text l)

def parseWho (s : String) : Option (Option Nat) :=
  if s == "x" then some none else s.toNat?.map some

def parseDesc (s : String) : Option Desc :=
  match s.splitOn "." with
  | [n, h, w] => do
    let n ← Bytes.ofHex n
    let h ← h.toNat?
    let w ← parseWho w
    pure (n, h, w)
  | _ => none

def parseDescs (s : String) : Option (List Desc) :=
  if s == "-" then some [] else (s.splitOn ";").mapM parseDesc

def lineOf (text : Bytes) (d : Desc) : SigLine :=
  { name := d.1, hash := d.2.1, sig := match d.2.2 with | some k => symSig k text | none => [] }

/-- "M:<first line>" | "W:<text>:<lines>" | "T:<text>:<lines before the malformed one>" -/
def parseNote (s : String) : Option NoteForm :=
  match s.splitOn ":" with
  | ["M", l] => (Bytes.ofHex l).map NoteForm.malformed
  | ["W", t, ls] => do
    let t ← Bytes.ofHex t
    let ds ← parseDescs ls
    pure (.wellformed { text := t, sigs := ds.map (lineOf t) })
  | ["T", t, ls] => do
    let t ← Bytes.ofHex t
    let ds ← parseDescs ls
    pure (.truncated { text := t, sigs := ds.map (lineOf t) })
  | _ => none

def parseOut : String → Option Out
  | "ok" => some .ok | "errA" => some .errA | "errN" => some .errN | "dieA" => some .dieA | "dieN" => some .dieN
  | _ => none

def parseForm : String → Option BodyForm
  | "ok" => some .ok | "noSeparator" => some .noSeparator | "noOldPrefix" => some .noOldPrefix
  | "badOldNumber" => some .badOldNumber | "badProofHash" => some .badProofHash
  | _ => none

def parseHashes (s : String) : Option (List Hash) :=
  if s == "-" then some [] else (s.splitOn ",").mapM Bytes.ofHex

structure Pending where
  rid : Nat
  effects : List Effect
  resp : Resp
  text : Bytes          -- the re-encoded text the response lines are made over
  origin : Bytes

structure St where
  t : Driver.Tally := {}
  keys : List (Nat × Bytes × Nat) := []
  k1 : Option VKey := none
  k2 : Option VKey := none
  mirror : Option VKey := none
  logs : List LogCfg := []
  states : List (Bytes × OState) := []
  pending : List Pending := []
  scenario : String := ""

def St.bad (st : St) (n : Nat) (msg : String) : IO St := do
  IO.println s!"MISMATCH {n} [{st.scenario}] {msg}"
  return { st with t := { st.t with mismatches := st.t.mismatches + 1 } }

def St.good (st : St) (branch : String) : St :=
  { st with t := { st.t.bump branch with ok := st.t.ok + 1 } }

def St.vkey (st : St) (id : Nat) : Option VKey :=
  (st.keys.find? (·.1 == id)).map fun (i, n, h) => { name := n, hash := h, key := i }

def St.ids (st : St) : List Nat := st.keys.map (·.1)

def St.cfg (st : St) : Option Cfg := do
  let k1 ← st.k1
  let k2 ← st.k2
  pure { k1 := k1, k2 := k2, mirror := st.mirror, logs := st.logs }

def St.stateOf (st : St) (o : Bytes) : OState :=
  match st.states.find? (·.1 == o) with
  | some (_, s) => s
  | none => OState.init emptyHash

def St.setState (st : St) (o : Bytes) (s : OState) : St :=
  { st with states := (o, s) :: st.states.filter (·.1 != o) }

def respClass : Resp → String
  | .err c _ => s!"{c.status}-{reprStr c}"
  | .ok _ => "200"
  | .dead => "dead"

def showDescs (ds : List Desc) : String :=
  if ds.isEmpty then "-" else
  ";".intercalate (ds.map fun (n, h, w) => s!"{Bytes.toHexP n}.{h}.{match w with | some k => toString k | none => "x"}")

def onLine (st : St) (n : Nat) (l : String) : IO St := do
  let st := { st with t := { st.t with lines := st.t.lines + 1 } }
  match Driver.words l with
  | ["scenario", name] =>
    if !st.pending.isEmpty then
      let st' ← st.bad n s!"{st.pending.length} request(s) of the previous scenario never completed in the trace"
      return { st' with keys := [], k1 := none, k2 := none, mirror := none, logs := [], states := [], pending := [], scenario := name }
    return { (st.good "scenario") with keys := [], k1 := none, k2 := none, mirror := none, logs := [], states := [], pending := [], scenario := name }
  | ["key", id, name, hash] =>
    match id.toNat?, Bytes.ofHex name, hash.toNat? with
    | some i, some nm, some h => return { st with keys := st.keys ++ [(i, nm, h)] }
    | _, _, _ => st.bad n s!"bad-line: {l}"
  | ["cfg", a, b, m] =>
    match a.toNat?.bind st.vkey, b.toNat?.bind st.vkey with
    | some k1, some k2 =>
      let mir := if m == "-" then none else m.toNat?.bind st.vkey
      return { st with k1 := some k1, k2 := some k2, mirror := mir }
    | _, _ => st.bad n s!"bad-line: {l}"
  | ["log", origin, ids] =>
    match Bytes.ofHex origin, (if ids == "-" then some [] else (ids.splitOn ",").mapM fun s => s.toNat?.bind st.vkey) with
    | some o, some ks => return { st with logs := st.logs ++ [({ origin := o, verifiers := ks } : LogCfg)] }
    | _, _ => st.bad n s!"bad-line: {l}"
  | ["start", _] => return st.good "start"
  | ["req", rid, inst, form, old, proof, note, f, r, u] =>
    match rid.toNat?, inst.toNat?, parseForm form, old.toNat?, parseHashes proof, parseNote note,
          parseOut f, parseOut r, parseOut u, st.cfg with
    | some rid, some inst, some form, some old, some proof, some note, some f, some r, some u, some cfg =>
      let req : AddReq := { body := form, old := old, proof := proof, note := note }
      let e : Env := { cfg := cfg, inst := inst, req := req, fetchOut := f, replaceOut := r, uploadOut := u }
      let o := e.origin
      let s := st.stateOf o
      let (s', resp) := addCheckpoint node emptyHash e s
      let effects := s'.log.drop s.log.length
      let text := match e.reCkpt with | some c => formatCheckpoint c | none => []
      let st := st.setState o s'
      let pd : Pending := { rid := rid, effects := effects, resp := resp, text := text, origin := o }
      let st := { st with pending := st.pending ++ [pd] }
      return st.good s!"req:{respClass resp}:ops{effects.length}"
    | _, _, _, _, _, _, _, _, _, _ => st.bad n s!"unparsable request: {l.take 200}"
  | "ef" :: rid :: kind :: origin :: rest =>
    match rid.toNat?, Bytes.ofHex origin with
    | some rid, some o =>
      match st.pending.find? (·.rid == rid) with
      | none => st.bad n s!"store operation of a request the model knows nothing about: {l.take 160}"
      | some p =>
        let upd (p' : Pending) : St := { st with pending := st.pending.map fun q => if q.rid == rid then p' else q }
        if o != p.origin then st.bad n s!"request {rid}: {kind} touches origin {origin}, the request is for {Bytes.toHexP p.origin}"
        else
        match p.effects, kind, rest with
        | .lockFetch _ _ :: more, "fetch", [] => return (upd { p with effects := more }).good "ef:fetch"
        | .lockReplace _ new applied _ :: more, "replace", [a, noteS] =>
          match parseNote noteS with
          | some (.wellformed nt) =>
            if (a == "1") != applied then st.bad n s!"request {rid}: lock write applied={a}, model says {applied}"
            else if nt.text != new.text || describe st.ids nt.text nt.sigs != describe st.ids new.text new.sigs then
              st.bad n s!"request {rid}: the note written to the lock store differs: impl text={Bytes.toHexP nt.text} lines={showDescs (describe st.ids nt.text nt.sigs)} model text={Bytes.toHexP new.text} lines={showDescs (describe st.ids new.text new.sigs)}"
            else return (upd { p with effects := more }).good s!"ef:replace:{a}"
          | _ => st.bad n s!"request {rid}: a malformed note was written to the lock store"
        | .upload _ obj applied _ :: more, "upload", [a, noteS] =>
          match parseNote noteS with
          | some (.wellformed nt) =>
            if (a == "1") != applied then st.bad n s!"request {rid}: upload applied={a}, model says {applied}"
            else if nt.text != obj.text || describe st.ids nt.text nt.sigs != describe st.ids obj.text obj.sigs then
              st.bad n s!"request {rid}: the published note differs from the model's"
            else return (upd { p with effects := more }).good s!"ef:upload:{a}"
          | _ => st.bad n s!"request {rid}: a malformed note was published"
        | exp :: _, _, _ =>
          st.bad n s!"request {rid}: store operation `{kind}` is not the next one the protocol allows (model expects {reprStr exp |>.take 60})"
        | [], _, _ => st.bad n s!"request {rid}: store operation `{kind}` after the model's request has no more operations"
    | _, _ => st.bad n s!"bad-line: {l.take 160}"
  | ["resp", rid, status, payload] =>
    match rid.toNat? with
    | none => st.bad n s!"bad-line: {l.take 160}"
    | some rid =>
      match st.pending.find? (·.rid == rid) with
      | none => st.bad n s!"response to a request the model knows nothing about: {l.take 160}"
      | some p =>
        let st := { st with pending := st.pending.filter (·.rid != rid) }
        if !p.effects.isEmpty then
          st.bad n s!"request {rid}: answered {status} although the model still expects {p.effects.length} store operation(s)"
        else
        match p.resp with
        | .dead => if status == "dead" then return st.good "resp:dead" else st.bad n s!"request {rid}: status {status}, model: process dies"
        | .err c k =>
          let want := toString c.status
          let wantP := if c == .conflict then toString k else "-"
          if status == want && payload == wantP then return st.good s!"resp:{want}-{reprStr c}"
          else st.bad n s!"request {rid}: status {status} {payload}, model {want} {wantP} ({reprStr c})"
        | .ok sigs =>
          match parseDescs payload with
          | some ds =>
            if status == "200" && ds == describe st.ids p.text sigs then return st.good "resp:200"
            else st.bad n s!"request {rid}: status {status} lines {payload}, model 200 {showDescs (describe st.ids p.text sigs)}"
          | none => st.bad n s!"request {rid}: status {status} {payload}, model 200"
  | ["ct", t, th, nn, h, proof, res] =>
    match t.toNat?, Bytes.ofHex th, nn.toNat?, Bytes.ofHex h, parseHashes proof with
    | some t, some th, some nn, some h, some proof =>
      let m := Merkle.checkTree node proof.reverse t th nn h
      if (res == "1") == m then return st.good s!"checkTree:{res}"
      else st.bad n s!"CheckTree({t},{nn}) impl={res} model={m}"
    | _, _, _, _, _ => st.bad n s!"bad-line: {l.take 160}"
  | ["cr", t, th, nn, h, proof, res] =>
    match t.toNat?, Bytes.ofHex th, nn.toNat?, Bytes.ofHex h, parseHashes proof with
    | some t, some th, some nn, some h, some proof =>
      let m := Merkle.checkRecord node proof.reverse t th nn h
      if (res == "1") == m then return st.good s!"checkRecord:{res}"
      else st.bad n s!"CheckRecord({t},{nn}) impl={res} model={m}"
    | _, _, _, _, _ => st.bad n s!"bad-line: {l.take 160}"
  | [] => return st
  | _ => st.bad n s!"bad-line: {l.take 160}"

def main : IO UInt32 := do
  let st ← Driver.foldLines ({} : St) onLine
  let st ← if st.pending.isEmpty then pure st else st.bad 0 s!"{st.pending.length} request(s) never completed in the trace"
  IO.println st.t.summary
  return 0
end Driver.Witness
