import Driver.Util
namespace Driver.Witness
/-- stub: engine not implemented yet -/
def main : IO UInt32 := do
  IO.println "MISMATCH 0 engine witness has no driver yet"
  return 0
end Driver.Witness
