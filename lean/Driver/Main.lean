import Driver.Util
import Driver.Selftest
import Driver.Seq
import Driver.Codec
import Driver.Ckpt
import Driver.Lock
import Driver.Localfs
import Driver.Aftersun
import Driver.Skylight
import Driver.Health
import Driver.Witness
import Driver.Subtree
import Driver.Submit
import Driver.Client
import Driver.Mirror
import Driver.Recompute
import Driver.Merkle

def main (args : List String) : IO UInt32 := do
  match args with
  | "selftest" :: _ => Driver.Selftest.main
  | "seq" :: _ => Driver.Seq.main
  | "codec" :: _ => Driver.Codec.main
  | "ckpt" :: _ => Driver.Ckpt.main
  | "lock" :: _ => Driver.Lock.main
  | "localfs" :: _ => Driver.Localfs.main
  | "aftersun" :: _ => Driver.Aftersun.main
  | "skylight" :: _ => Driver.Skylight.main
  | "health" :: _ => Driver.Health.main
  | "witness" :: _ => Driver.Witness.main
  | "subtree" :: _ => Driver.Subtree.main
  | "submit" :: _ => Driver.Submit.main
  | "client" :: _ => Driver.Client.main
  | "mirror" :: _ => Driver.Mirror.main
  | "recompute" :: _ => Driver.Recompute.main
  | "merkle" :: _ => Driver.Merkle.main
  | _ =>
    IO.eprintln s!"drv: unknown engine {args}"
    return 2
