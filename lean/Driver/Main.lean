import Driver.Util
import Driver.Selftest

def main (args : List String) : IO UInt32 := do
  match args with
  | "selftest" :: _ => Driver.Selftest.main
  | _ =>
    IO.eprintln s!"drv: unknown engine {args}"
    return 2
