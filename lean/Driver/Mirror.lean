import Driver.Util
namespace Driver.Mirror
/-- stub: engine not implemented yet -/
def main : IO UInt32 := do
  IO.println "MISMATCH 0 engine mirror has no driver yet"
  return 0
end Driver.Mirror
