import Driver.Util
import Driver.Witness
import Model.Mirror
import Model.Sha256
/-! Driver for engine `mirror` (C15): trace acceptor for `Mirror.step`. The line protocol is documented
at the top of `harness/internal/mirroreng/` (engine `mirror`).

Every step line of the trace (`req` = an add-checkpoint request, `ae` = header + metadata of an
add-entries request, `ap` = one package, `ac` = the commit, `start` = a restart) is one event of the
transition system the theorems of `Props/C15.lean` are about; the model runs it with the injected
outcomes of the line on the state of the origin the request is addressed to. The store operations the
model performs (the new suffix of `MState.log`, resp. of `OState.log` for add-checkpoint) and its
response are remembered under the request id and must then be matched, in order, by the `aef`/`ef`
and `aresp`/`resp` lines of that request, byte for byte where bytes are concerned (tile contents are
compared as entry lists / hash lists, computed by the model with real SHA-256). Tickets are opaque
to the harness: a mirror-info response binds the ticket id it was delivered under to the box the
model issued at that point; a later request names the id. -/
namespace Driver.Mirror
open _root_.Witness _root_.Checkpoint _root_.Mirror

def sha (b : Bytes) : Bytes := Bytes.ofByteArray (Sha256.hash (Bytes.toByteArray b))
/-- tlog.NodeHash -/
def node (l r : Hash) : Hash := sha (1 :: (l ++ r))
/-- the hash of the empty tree -/
def emptyHash : Hash := sha []
/-- tlog.RecordHash -/
def leaf (e : Entry) : Hash := sha (0 :: e)

structure LogDef where
  origin : Bytes
  verifiers : List VKey
  mirrored : Bool

/-- what the model expects next from a request -/
structure Pending where
  rid : Nat
  origin : Bytes
  /-- add-checkpoint request: the witness' store operations still to be seen -/
  weffects : List Effect := []
  effects : List MEffect := []
  /-- `none`: the request is parked before its next step -/
  resp : Option Mirror.Resp := none
  /-- add-checkpoint: the re-encoded text the response lines are made over -/
  text : Bytes := []

structure St where
  t : Driver.Tally := {}
  keys : List (Nat × Bytes × Nat) := []
  k1 : Option VKey := none
  k2 : Option VKey := none
  mirror : Option VKey := none
  logs : List LogDef := []
  enforce : Bool := false
  epoch : Nat := 0
  states : List (Bytes × MState) := []
  pending : List Pending := []
  tickets : List (Nat × Ticket) := []
  scenario : String := ""

def St.bad (st : St) (n : Nat) (msg : String) : IO St := do
  IO.println s!"MISMATCH {n} [{st.scenario}] {msg}"
  return { st with t := { st.t with mismatches := st.t.mismatches + 1 } }

def St.good (st : St) (branch : String) : St :=
  { st with t := { st.t.bump branch with ok := st.t.ok + 1 } }

def St.vkey (st : St) (id : Nat) : Option VKey :=
  (st.keys.find? (·.1 == id)).map fun (i, n, h) => { name := n, hash := h, key := i }

def St.ids (st : St) : List Nat := st.keys.map (·.1)

def St.cfg (st : St) : Option Cfg := do
  let k1 ← st.k1
  let k2 ← st.k2
  pure { k1 := k1, k2 := k2, mirror := st.mirror,
         logs := st.logs.map fun l => ({ origin := l.origin, verifiers := l.verifiers } : LogCfg) }

def St.mcfg (st : St) (o : Bytes) : Option MCfg := do
  let cfg ← st.cfg
  let flag := match st.logs.find? (·.origin == o) with | some l => l.mirrored | none => false
  pure { cfg := cfg, origin := o, mirrorFlag := flag }

/-- the state of an origin; a fresh state has the process key of the current epoch -/
def St.stateOf (st : St) (o : Bytes) : MState :=
  match st.states.find? (·.1 == o) with
  | some (_, s) => s
  | none => { MState.init emptyHash st.enforce with key := st.epoch }

def St.setState (st : St) (o : Bytes) (s : MState) : St :=
  { st with states := (o, s) :: st.states.filter (·.1 != o) }

def St.findP (st : St) (rid : Nat) : Option Pending := st.pending.find? (·.rid == rid)
def St.setP (st : St) (p : Pending) : St :=
  if st.pending.any (·.rid == p.rid) then { st with pending := st.pending.map fun q => if q.rid == p.rid then p else q }
  else { st with pending := st.pending ++ [p] }
def St.dropP (st : St) (rid : Nat) : St := { st with pending := st.pending.filter (·.rid != rid) }

def parseBool (s : String) : Option Bool :=
  if s == "ok" || s == "1" then some true else if s == "err" || s == "0" then some false else none

def parseFault : String → Option Fault
  | "ok" => some .ok | "errA" => some .errA | "errN" => some .errN | _ => none

def parseFaults (s : String) : Option (List Fault) :=
  if s == "-" then some [] else (s.splitOn ",").mapM parseFault

def parseEntry (s : String) : Option Entry := if s == "e" then some [] else Bytes.ofHexChars s.toList

def parseEntries (s : String) : Option (List Entry) :=
  if s == "-" then some [] else (s.splitOn ",").mapM parseEntry

def parseHashList (s : String) : Option (List Hash) :=
  if s == "-" then some [] else (s.splitOn ",").mapM fun h => Bytes.ofHexChars h.toList

def parseHdr : String → Option HdrForm
  | "ok" => some .ok | "ctype" => some .ctype | "gzip" => some .gzip | "noOrigin" => some .noOrigin
  | "noStart" => some .noStart | "noEnd" => some .noEnd | "endLtStart" => some .endLtStart
  | "noTicket" => some .noTicket | _ => none

def className : EClass → String
  | .ctype => "ctype" | .gzip => "gzip" | .noOrigin => "noOrigin" | .noStart => "noStart" | .noEnd => "noEnd"
  | .endLtStart => "endLtStart" | .noTicket => "noTicket" | .unknownLog => "unknownLog" | .noPending => "noPending"
  | .notMirrored => "notMirrored" | .internal => "internal" | .missingBody => "missingBody"
  | .badRequest => "badRequest" | .invalidProof => "invalidProof"

def showEntries (es : List Entry) : String :=
  if es.isEmpty then "-" else ",".intercalate (es.map fun e => if e.isEmpty then "e" else Bytes.toHex e)

def showHashes (hs : List Hash) : String :=
  if hs.isEmpty then "-" else ",".intercalate (hs.map Bytes.toHex)

def showEffect : MEffect → String
  | .pfetch => "pfetch"
  | .mfetch => "mfetch"
  | .putData n w a es => s!"put data {n} {w} {if a then 1 else 0} ({es.length} entries)"
  | .putHash l n w a hs => s!"put hash {l} {n} {w} {if a then 1 else 0} ({hs.length} hashes)"
  | .mreplace a ck => s!"mreplace {if a then 1 else 0} {ck.1} {Bytes.toHex ck.2}"
  | .mupload a ck => s!"mupload {if a then 1 else 0} {ck.1} {Bytes.toHex ck.2}"

def showResp : Mirror.Resp → String
  | .cont => "(parked)"
  | .err c => s!"{c.status} err {className c}"
  | .info s p n _ => s!"{s} info {p} {n}"
  | .ok ck => s!"200 sigs {ck.1} {Bytes.toHex ck.2}"
  | .w r => s!"add-checkpoint {Driver.Witness.respClass r}"
  | .ignored => "(event not enabled in the model)"

def respBranch : Mirror.Resp → String
  | .cont => "cont"
  | .err c => s!"{c.status}-{className c}"
  | .info s _ _ _ => s!"{s}-info"
  | .ok _ => "200"
  | .w r => s!"w:{Driver.Witness.respClass r}"
  | .ignored => "ignored"

/-- run one add-entries event on the origin's state and remember what must be observed -/
def runEv (st : St) (n : Nat) (rid : Nat) (o : Bytes) (ev : Ev) (kind : String) : IO St := do
  match st.mcfg o with
  | none => st.bad n "no configuration line before the first request"
  | some c =>
    let s := st.stateOf o
    let (s', resp) := Mirror.step node emptyHash leaf c s ev
    let effects := s'.log.drop s.log.length
    match resp with
    | .ignored => st.bad n s!"request {rid}: step `{kind}` is not enabled in the model's state"
    | _ =>
      let st := st.setState o s'
      let p : Pending := { rid := rid, origin := o, effects := effects,
                           resp := match resp with | .cont => none | r => some r }
      return (st.setP p).good s!"{kind}:{respBranch resp}:ops{effects.length}"

def onLine (st : St) (n : Nat) (l : String) : IO St := do
  let st := { st with t := { st.t with lines := st.t.lines + 1 } }
  match Driver.words l with
  | ["scenario", name] =>
    let unfinished := st.pending.filter fun p => p.resp.isSome || !p.effects.isEmpty || !p.weffects.isEmpty
    let st ← if unfinished.isEmpty then pure st
      else st.bad n s!"{unfinished.length} request(s) of the previous scenario: the model still expects operations or a response"
    let st1 := st.good "scenario"
    return { t := st1.t, scenario := name }
  | ["enforce", b] => return { st with enforce := b == "1" }
  | ["key", id, name, hash] =>
    match id.toNat?, Bytes.ofHex name, hash.toNat? with
    | some i, some nm, some h => return { st with keys := st.keys ++ [(i, nm, h)] }
    | _, _, _ => st.bad n s!"bad-line: {l}"
  | ["cfg", a, b, m] =>
    match a.toNat?.bind st.vkey, b.toNat?.bind st.vkey with
    | some k1, some k2 =>
      let mir := if m == "-" then none else m.toNat?.bind st.vkey
      return { st with k1 := some k1, k2 := some k2, mirror := mir }
    | _, _ => st.bad n s!"bad-line: {l}"
  | ["log", origin, ids, mir] =>
    match Bytes.ofHex origin, (if ids == "-" then some [] else (ids.splitOn ",").mapM fun s => s.toNat?.bind st.vkey) with
    | some o, some ks => return { st with logs := st.logs ++ [{ origin := o, verifiers := ks, mirrored := mir == "1" }] }
    | _, _ => st.bad n s!"bad-line: {l}"
  | ["start", ep] =>
    match ep.toNat? with
    | none => st.bad n s!"bad-line: {l}"
    | some 0 => return st.good "start"
    | some e =>
      -- a new process: every origin restarts, requests in flight are gone
      let mid := st.pending.filter fun p => p.resp.isSome || !p.effects.isEmpty || !p.weffects.isEmpty
      let st ← if mid.isEmpty then pure st
        else st.bad n s!"restart while the model still expects operations or a response of {mid.length} request(s)"
      let states := st.states.map fun (o, s) => (o, Mirror.restart s)
      return { (st.good "restart") with states := states, pending := [], epoch := e }
  | ["req", rid, _inst, form, old, proof, note, f, r, u] =>
    match rid.toNat?, Driver.Witness.parseForm form, old.toNat?, Driver.Witness.parseHashes proof,
          Driver.Witness.parseNote note, Driver.Witness.parseOut f, Driver.Witness.parseOut r,
          Driver.Witness.parseOut u, st.cfg with
    | some rid, some form, some old, some proof, some note, some f, some r, some u, some cfg =>
      let req : AddReq := { body := form, old := old, proof := proof, note := note }
      let e : Env := { cfg := cfg, inst := 0, req := req, fetchOut := f, replaceOut := r, uploadOut := u }
      let o := e.origin
      match st.mcfg o with
      | none => st.bad n "no configuration"
      | some c =>
        let s := st.stateOf o
        let (s', resp) := Mirror.step node emptyHash leaf c s (.addCk e)
        let weffects := s'.w.log.drop s.w.log.length
        let text := match e.reCkpt with | some ck => formatCheckpoint ck | none => []
        let st := st.setState o s'
        let p : Pending := { rid := rid, origin := o, weffects := weffects, resp := some resp, text := text }
        return (st.setP p).good s!"req:{respBranch resp}:ops{weffects.length}"
    | _, _, _, _, _, _, _, _, _ => st.bad n s!"unparsable request: {l.take 200}"
  | "ef" :: rid :: kind :: origin :: rest =>
    match rid.toNat?, Bytes.ofHex origin with
    | some rid, some o =>
      match st.findP rid with
      | none => st.bad n s!"store operation of a request the model knows nothing about: {l.take 160}"
      | some p =>
        if o != p.origin then st.bad n s!"request {rid}: {kind} touches origin {origin}, the request is for {Bytes.toHexP p.origin}"
        else
        match p.weffects, kind, rest with
        | .lockFetch _ _ :: more, "fetch", [] => return (st.setP { p with weffects := more }).good "ef:fetch"
        | .lockReplace _ new applied _ :: more, "replace", [a, noteS] =>
          match Driver.Witness.parseNote noteS with
          | some (.wellformed nt) =>
            if (a == "1") != applied then st.bad n s!"request {rid}: lock write applied={a}, model says {applied}"
            else if nt.text != new.text || Driver.Witness.describe st.ids nt.text nt.sigs != Driver.Witness.describe st.ids new.text new.sigs then
              st.bad n s!"request {rid}: the note written to the lock store differs from the model's"
            else return (st.setP { p with weffects := more }).good s!"ef:replace:{a}"
          | _ => st.bad n s!"request {rid}: a malformed note was written to the lock store"
        | .upload _ obj applied _ :: more, "upload", [a, noteS] =>
          match Driver.Witness.parseNote noteS with
          | some (.wellformed nt) =>
            if (a == "1") != applied then st.bad n s!"request {rid}: upload applied={a}, model says {applied}"
            else if nt.text != obj.text || Driver.Witness.describe st.ids nt.text nt.sigs != Driver.Witness.describe st.ids obj.text obj.sigs then
              st.bad n s!"request {rid}: the published note differs from the model's"
            else return (st.setP { p with weffects := more }).good s!"ef:upload:{a}"
          | _ => st.bad n s!"request {rid}: a malformed note was published"
        | _ :: _, _, _ => st.bad n s!"request {rid}: store operation `{kind}` is not the next one the protocol allows"
        | [], _, _ => st.bad n s!"request {rid}: store operation `{kind}` after the model's request has no more operations"
    | _, _ => st.bad n s!"bad-line: {l.take 160}"
  | ["resp", rid, status, payload] =>
    match rid.toNat? with
    | none => st.bad n s!"bad-line: {l.take 160}"
    | some rid =>
      match st.findP rid with
      | none => st.bad n s!"response to a request the model knows nothing about: {l.take 160}"
      | some p =>
        let st := st.dropP rid
        if !p.weffects.isEmpty then
          st.bad n s!"request {rid}: answered {status} although the model still expects {p.weffects.length} store operation(s)"
        else
        match p.resp with
        | some (.w (.dead)) => if status == "dead" then return st.good "resp:dead" else st.bad n s!"request {rid}: status {status}, model: process dies"
        | some (.w (.err c k)) =>
          let want := toString c.status
          let wantP := if c == .conflict then toString k else "-"
          if status == want && payload == wantP then return st.good s!"resp:{want}-{reprStr c}"
          else st.bad n s!"request {rid}: status {status} {payload}, model {want} {wantP} ({reprStr c})"
        | some (.w (.ok sigs)) =>
          match Driver.Witness.parseDescs payload with
          | some ds =>
            if status == "200" && ds == Driver.Witness.describe st.ids p.text sigs then return st.good "resp:200"
            else st.bad n s!"request {rid}: status {status} lines {payload}, model 200 {Driver.Witness.showDescs (Driver.Witness.describe st.ids p.text sigs)}"
          | none => st.bad n s!"request {rid}: status {status} {payload}, model 200"
        | _ => st.bad n s!"request {rid}: an add-checkpoint response for a request that is not one"
  | ["ae", rid, hdr, origin, start, stop, ticket, fp, fm] =>
    match rid.toNat?, parseHdr hdr, start.toNat?, stop.toNat?, parseBool fp, parseBool fm with
    | some rid, some hdr, some start, some stop, some fp, some fm =>
      let o := (Bytes.ofHex origin).getD []
      let tk : Option TicketIn :=
        if ticket == "-" then some .none
        else if ticket == "bad" then some .garbage
        else if ticket.startsWith "tk" then
          ((ticket.drop 2).toString.toNat?.bind fun id => st.tickets.find? (·.1 == id)).map fun (_, t) => TicketIn.box t
        else none
      match tk with
      | none => st.bad n s!"request {rid}: ticket `{ticket}` was never delivered in a mirror-info response"
      | some tk =>
        if st.findP rid |>.isSome then st.bad n s!"request id {rid} reused" else
        let q : MetaReq := { hdr := hdr, start := start, stop := stop, ticket := tk }
        if hdr == .endLtStart || (hdr == .ok && stop < start) then
          -- `uploadEnd < uploadStart` is a framing error of the handler
          let p : Pending := { rid := rid, origin := o, resp := some (.err .endLtStart) }
          return (st.setP p).good "ae:400-endLtStart:ops0"
        else runEv st n rid o (.mdata rid q fp fm) "ae"
    | _, _, _, _, _, _ => st.bad n s!"bad-line: {l.take 200}"
  | "ap" :: rid :: i :: kind :: rest =>
    match rid.toNat?, i.toNat? with
    | some rid, some i =>
      match st.findP rid with
      | none => st.bad n s!"package step of a request the model does not have in flight: {l.take 120}"
      | some p =>
        if p.resp.isSome || !p.effects.isEmpty then
          st.bad n s!"request {rid}: a package is read although the model still expects {p.effects.length} operation(s) / a response of the previous step"
        else
        let mi := match (st.stateOf p.origin).reqs rid with | some r => r.i | none => 0
        if mi != i then st.bad n s!"request {rid}: package index {i}, the model is at package {mi}" else
        match kind, rest with
        | "full", [entries, proof, fc, outs] =>
          match parseEntries entries, parseHashList proof, parseBool fc, parseFaults outs with
          | some es, some pr, some fc, some outs => runEv st n rid p.origin (.pkg rid (.full es pr) fc true outs) "ap-full"
          | _, _, _, _ => st.bad n s!"bad-line: {l.take 200}"
        | "trunc", [fp] =>
          match parseBool fp with
          | some fp => runEv st n rid p.origin (.pkg rid .trunc true fp []) "ap-trunc"
          | none => st.bad n s!"bad-line: {l.take 200}"
        | "many", _ => runEv st n rid p.origin (.pkg rid .many true true []) "ap-many"
        | _, _ => st.bad n s!"bad-line: {l.take 200}"
    | _, _ => st.bad n s!"bad-line: {l.take 200}"
  | ["ac", rid, fm, fp, fh, fw, ud, uh, rep, up] =>
    match rid.toNat?, parseBool fm, parseBool fp, parseBool fh, parseBool fw, parseFault ud, parseFault uh,
          parseFault rep, parseFault up with
    | some rid, some fm, some fp, some fh, some fw, some ud, some uh, some rep, some up =>
      match st.findP rid with
      | none => st.bad n s!"commit of a request the model does not have in flight: {l.take 120}"
      | some p =>
        if p.resp.isSome || !p.effects.isEmpty then
          st.bad n s!"request {rid}: commit although the model still expects {p.effects.length} operation(s) / a response of the previous step"
        else runEv st n rid p.origin (.commit rid fm fp fh fw ud uh rep up) "ac"
    | _, _, _, _, _, _, _, _, _ => st.bad n s!"bad-line: {l.take 200}"
  | "aef" :: rid :: rest =>
    match rid.toNat? with
    | none => st.bad n s!"bad-line: {l.take 160}"
    | some rid =>
      match st.findP rid with
      | none => st.bad n s!"store operation of a request the model knows nothing about: {l.take 160}"
      | some p =>
        match p.effects with
        | [] => st.bad n s!"request {rid}: store operation `{" ".intercalate (rest.take 5)}` but the model expects no (more) operation in this step"
        | exp :: more =>
          let ok (b : String) : IO St := return (st.setP { p with effects := more }).good b
          let no : IO St := st.bad n s!"request {rid}: store operation `{(" ".intercalate rest).take 100}` — the model expects `{showEffect exp}`"
          match exp, rest with
          | .pfetch, ["pfetch"] => ok "aef:pfetch"
          | .mfetch, ["mfetch"] => ok "aef:mfetch"
          | .putData tn tw a es, ["put", "data", sn, sw, sa, ses] =>
            if sn.toNat? == some tn && sw.toNat? == some tw && (sa == "1") == a then
              if parseEntries ses == some es then ok s!"aef:data:{sa}"
              else st.bad n s!"request {rid}: entry bundle {tn}/{tw} differs: impl {ses.take 80}… model {(showEntries es).take 80}…"
            else no
          | .putHash tl tn tw a hs, ["put", "hash", sl, sn, sw, sa, shs] =>
            if sl.toNat? == some tl && sn.toNat? == some tn && sw.toNat? == some tw && (sa == "1") == a then
              if parseHashList shs == some hs then ok s!"aef:hash{tl}:{sa}"
              else st.bad n s!"request {rid}: hash tile {tl}/{tn}/{tw} differs: impl {shs.take 80}… model {(showHashes hs).take 80}…"
            else no
          | .mreplace a ck, ["mreplace", sa, sn, sroot] =>
            if (sa == "1") == a && sn.toNat? == some ck.1 && Bytes.ofHex sroot == some ck.2 then ok s!"aef:mreplace:{sa}" else no
          | .mupload a ck, ["mupload", sa, sn, sroot] =>
            if (sa == "1") == a && sn.toNat? == some ck.1 && Bytes.ofHex sroot == some ck.2 then ok s!"aef:mupload:{sa}" else no
          | _, _ => no
  | "aresp" :: rid :: status :: rest =>
    match rid.toNat? with
    | none => st.bad n s!"bad-line: {l.take 160}"
    | some rid =>
      match st.findP rid with
      | none => st.bad n s!"response to a request the model knows nothing about: {l.take 160}"
      | some p =>
        let st := st.dropP rid
        if !p.effects.isEmpty then
          st.bad n s!"request {rid}: answered {status} although the model still expects `{showEffect (p.effects.headD .pfetch)}` (+{p.effects.length - 1})"
        else
        match p.resp with
        | none => st.bad n s!"request {rid}: answered {status} {" ".intercalate rest |>.take 60}, but in the model the request continues with its next step"
        | some r =>
          let no : IO St := st.bad n s!"request {rid}: response {status} {(" ".intercalate rest).take 80}, model {showResp r}"
          match r, rest with
          | .err c, ["err", cls] =>
            if status == toString c.status && cls == className c then return st.good s!"aresp:{status}-{cls}" else no
          | .info s pn nx t, ["info", spn, snx, stk] =>
            if status == toString s && spn.toNat? == some pn && snx.toNat? == some nx && stk.startsWith "tk" then
              match (stk.drop 2).toString.toNat? with
              | some tid => return { (st.good s!"aresp:{status}-info") with tickets := (tid, t) :: st.tickets }
              | none => no
            else no
          | .ok ck, ["sigs", sn, sroot] =>
            if status == "200" && sn.toNat? == some ck.1 && Bytes.ofHex sroot == some ck.2 then return st.good "aresp:200" else no
          | _, _ => no
  | [] => return st
  | _ => st.bad n s!"bad-line: {l.take 160}"

def main : IO UInt32 := do
  let st ← Driver.foldLines ({} : St) onLine
  let unfinished := st.pending.filter fun p => p.resp.isSome || !p.effects.isEmpty || !p.weffects.isEmpty
  let st ← if unfinished.isEmpty then pure st
    else st.bad 0 s!"{unfinished.length} request(s): the model still expects operations or a response at the end of the trace"
  IO.println st.t.summary
  return 0
end Driver.Mirror
