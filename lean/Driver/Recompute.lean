import Driver.Util
namespace Driver.Recompute
/-- stub: engine not implemented yet -/
def main : IO UInt32 := do
  IO.println "MISMATCH 0 engine recompute has no driver yet"
  return 0
end Driver.Recompute
