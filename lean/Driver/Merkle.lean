import Driver.Util
namespace Driver.Merkle
/-- stub: engine not implemented yet -/
def main : IO UInt32 := do
  IO.println "MISMATCH 0 engine merkle has no driver yet"
  return 0
end Driver.Merkle
