import Driver.Util
namespace Driver.Health
/-- stub: engine not implemented yet -/
def main : IO UInt32 := do
  IO.println "MISMATCH 0 engine health has no driver yet"
  return 0
end Driver.Health
