import Driver.Util
import Model.Skylight
/-! Driver for engine `health` (C20), function mode.

Per case the harness states, for every configured entry, which conditions hold in the directory it
built (bit strings in the order of the constructors of `LogCond`, `WitCond`, `WLogCond`), and what the
built skylight binary answered. The driver evaluates `Skylight.Health.status` / `lines` — the
definitions `Props/C20.lean` is about — and compares status and lines (as multisets: the handler walks
a Go map).

  hcase <id>
  log <hex name> <staging> <past> <15 bits>
  wit <i> <mirror> <staging> <9 bits>
  wl <i> <hash> <hex origin> <10 bits>
  res <status>
  line <hex label> ok|readOnly|ignored|failed <kind | ->        kind = log:<n> | wit:<n> | wlog:<n> | other
  end <id>
-/
namespace Driver.Health
open Skylight.Health

def logConds : List LogCond :=
  [.jsonRead, .jsonParses, .keyParses, .verifierOk, .ckptRead, .sigVerifies, .ckptParses, .originMatches, .sigTimestamp,
   .limitParses, .hasFinal, .finalHash, .finalSize, .finalTime, .fresh]
def witConds : List WitCond :=
  [.infoRead, .infoParses, .keysNonEmpty, .keysValid, .pInfoRead, .pInfoParses, .pKeysNonEmpty, .pKeysValid, .enumOk]
def wlogConds : List WLogCond :=
  [.ckptRead, .sigVerifies, .ckptParses, .hashMatches, .edgeOk, .pendRead, .pendVerifies, .pendParses, .pendOrigin, .notAhead]

def idxOf {α : Type} [DecidableEq α] (l : List α) (a : α) : Nat := (l.findIdx? (· == a)).getD 0

/-- a bit string as a truth assignment on an enumeration -/
def holdsOf {α : Type} [DecidableEq α] (l : List α) (bits : String) : α → Bool :=
  let bs := bits.toList
  fun a => bs.getD (idxOf l a) '1' == '1'

def unhexStr (s : String) : String :=
  match Bytes.ofHex s with
  | some b => String.ofList (b.map fun c => Char.ofNat c.toNat)
  | none => s

def showKind : ErrKind → String
  | .log k => s!"log:{idxOf logConds k}"
  | .wit k => s!"wit:{idxOf witConds k}"
  | .wlog k => s!"wlog:{idxOf wlogConds k}"

def showLine (ln : Line) : String :=
  match ln.2 with
  | .ok => s!"{ln.1} ok -"
  | .readOnly => s!"{ln.1} readOnly -"
  | .ignored k => s!"{ln.1} ignored {showKind k}"
  | .failed k => s!"{ln.1} failed {showKind k}"

def sortStrings (l : List String) : List String := (l.toArray.qsort (· < ·)).toList

structure St where
  t : Driver.Tally := {}
  caseId : String := ""
  logs : Array LogEntry := #[]
  wits : Array WitEntry := #[]
  status : Nat := 0
  got : List String := []

def finishCase (s : St) (lineno : Nat) : IO St := do
  let cfg : Config := { logs := s.logs.toList, wits := s.wits.toList }
  let wantStatus := status cfg
  let want := sortStrings ((lines cfg).map showLine)
  let got := sortStrings s.got
  let mut t := s.t
  let mut bad := false
  if wantStatus ≠ s.status then
    bad := true
    IO.println s!"MISMATCH {lineno} case {s.caseId}: status: implementation {s.status}, model {wantStatus}"
  if want ≠ got then
    bad := true
    let onlyModel := want.filter (fun x => !got.contains x)
    let onlyImpl := got.filter (fun x => !want.contains x)
    IO.println s!"MISMATCH {lineno} case {s.caseId}: lines differ: only-model={onlyModel.take 3} only-implementation={onlyImpl.take 3}"
  t := t.bump s!"status:{wantStatus}"
  for ln in lines cfg do
    t := match ln.2 with
      | .ok => t.bump "ok"
      | .readOnly => t.bump "readOnly"
      | .ignored k => t.bump ("ignored:" ++ showKind k)
      | .failed k => t.bump ("failed:" ++ showKind k)
  t := if bad then { t with mismatches := t.mismatches + 1 } else { t with ok := t.ok + 1 }
  return { t := t }

def step (s : St) (lineno : Nat) (line : String) : IO St := do
  let s := { s with t := { s.t with lines := s.t.lines + 1 } }
  match Driver.words line with
  | ["hcase", id] => return { s with caseId := id, logs := #[], wits := #[], status := 0, got := [] }
  | ["log", name, staging, past, bits] =>
    return { s with logs := s.logs.push ⟨unhexStr name, staging == "1", past == "1", holdsOf logConds bits⟩ }
  | ["wit", _i, mirror, staging, bits] =>
    return { s with wits := s.wits.push ⟨mirror == "1", staging == "1", holdsOf witConds bits, []⟩ }
  | ["wl", i, hash, origin, bits] =>
    let i := i.toNat!
    if h : i < s.wits.size then
      let w := s.wits[i]
      return { s with wits := s.wits.set i { w with logs := w.logs ++ [⟨hash, unhexStr origin, holdsOf wlogConds bits⟩] } }
    else return s
  | ["res", code] => return { s with status := code.toNat! }
  | ["line", label, cls, kind] =>
    let k := if kind == "-" then "-" else kind
    return { s with got := s!"{unhexStr label} {cls} {k}" :: s.got }
  | ["end", _] => finishCase s lineno
  | [] => return s
  | _ =>
    IO.println s!"MISMATCH {lineno} unparsable line: {line.take 80}"
    return { s with t := { s.t with mismatches := s.t.mismatches + 1 } }

def main : IO UInt32 := do
  let s ← Driver.foldLines ({} : St) step
  IO.println s.t.summary
  return 0

end Driver.Health
