import Model.Bytes
/-! Shared line-protocol plumbing for the driver. -/
namespace Driver

structure Tally where
  lines : Nat := 0
  ok : Nat := 0
  mismatches : Nat := 0
  branches : List (String × Nat) := []

def Tally.bump (t : Tally) (b : String) : Tally :=
  let rec go : List (String × Nat) → List (String × Nat)
    | [] => [(b, 1)]
    | (k, v) :: rest => if k == b then (k, v + 1) :: rest else (k, v) :: go rest
  { t with branches := go t.branches }

def Tally.summary (t : Tally) : String :=
  let bs := String.intercalate "," (t.branches.map fun (k, v) => s!"{k}:{v}")
  s!"SUMMARY lines={t.lines} ok={t.ok} mismatches={t.mismatches} branches={bs}"

/-- Fold `f` over stdin lines with a state; `f` returns the new state and lines to print. -/
partial def foldLines {σ : Type} (init : σ) (f : σ → Nat → String → IO σ) : IO σ := do
  let stdin ← IO.getStdin
  let rec loop (s : σ) (n : Nat) : IO σ := do
    let line ← stdin.getLine
    if line.isEmpty then return s
    let l := (line.dropEndWhile (fun c => c == '\n' || c == '\r')).toString
    let s' ← f s n l
    loop s' (n + 1)
  loop init 1

def words (s : String) : List String := (s.splitOn " ").filter (· ≠ "")

end Driver
