import Driver.Util
import Model.LocalFS
import Generated.Facts
/-! Driver for engine `localfs` (C13): trace acceptor + crash-state computation.

The harness runs the real `LocalBackend` under strace and prints, per world (fresh directory tree):

  world <name>
  dir <path>                          backend directory (world-relative, components in hex, `.` = world)
  prep mkdir <path> | prep file <path> <cid>      pre-made by the harness, synced
  def <cid> hex <hex> | take <cid> <n> | flip <cid> <i> | app <cid> <hex>
  op upload <keyhex> <cid> <imm> | op fetch <keyhex> | op discard <keyhex>
  s <syscall …>                       observed system calls of that call, normalised
  ret ok [<cid>] | invalidKey | mismatch | error | hang | killed
  endworld

For every call the model's `uploadTrace`/`fetchTrace`/`discardTrace` (instantiated with the
`Program` the regenerated facts select) is computed in the current model state and must equal the
observed system calls one by one (`killed`: be a prefix); the model state then advances with `run`.
For every accepted upload the driver computes the crash states: every prefix of the trace × every
subset of pending directory-entry changes × a few choices of junk for un-synced files, and checks
"old or new" with the very `crash` / `FS.object` the theorems are about (from quiescent pre-states a
failure is a MISMATCH: it would contradict `C13_atomic_durable`; from pre-states left by a killed
process it is tallied as `durability-lost-after-kill`, candidate finding F4). -/
namespace Driver.Localfs
open LocalFS

/-- The model instance the current source selects (buffer expression of `compareFile`). -/
def currentProgram : Option Program := (BufExpr.parse Generated.c13_compare_buf).map fun e => { buf := e }

/-! ### Hex and paths (stack-safe for multi-megabyte contents) -/

def hexNib (c : UInt8) : Nat :=
  if 48 ≤ c ∧ c ≤ 57 then c.toNat - 48 else if 97 ≤ c ∧ c ≤ 102 then c.toNat - 87 else 0

def unhex (s : String) : Bytes :=
  if s == "-" then [] else
    let cs := s.toUTF8
    let n := cs.size / 2
    let rec go (i : Nat) (acc : List UInt8) : List UInt8 :=
      match i with
      | 0 => acc
      | k + 1 => go k (UInt8.ofNat (16 * hexNib cs[2 * k]! + hexNib cs[2 * k + 1]!) :: acc)
    go n []

def parsePath (s : String) : Option Path :=
  if s == "." then some []
  else if s == "ABS" then none
  else some ((s.splitOn "/").map unhex)

def showPath (p : Path) : String :=
  if p.isEmpty then "." else "/".intercalate (p.map fun n => if n.isEmpty then "-" else Bytes.toHex n)

def octal (n : Nat) : String := String.ofList (Nat.toDigits 8 n)

def b01 (b : Bool) : String := if b then "1" else "0"

/-- The harness's rendering of a system call. -/
def render : Sys → List String
  | .stat p f => ["stat", showPath p, b01 f]
  | .openDir p => ["opendir", showPath p]
  | .mkdir p => ["mkdir", showPath p, octal modeDir]
  | .fsyncDir p => ["fsyncdir", showPath p]
  | .closeDir p => ["closedir", showPath p]
  | .openRd p ok => ["openrd", showPath p, b01 ok]
  | .read p c n => ["read", showPath p, toString c, toString n]
  | .readDir p => ["readdir", showPath p]
  | .closeRd p => ["closerd", showPath p]
  | .creat p _ => ["creat", showPath p, "600"]
  | .fchmod p _ m => ["fchmod", showPath p, octal m]
  | .write p _ d => ["write", showPath p, toString d.length]
  | .fsync p _ => ["fsync", showPath p]
  | .close p => ["close", showPath p]
  | .lstat p f => ["lstat", showPath p, b01 f]
  | .rename a b _ ok => ["rename", showPath a, showPath b, b01 ok]
  | .unlink p => ["unlink", showPath p]
  | .unlinkFail p => ["unlinkfail", showPath p]
  | .rmdir p ok => ["rmdir", showPath p, b01 ok]
  | .setImmutable p _ on => ["setimm", showPath p, b01 on, "1"]
  | .setFlagsDir p => ["setimm", showPath p, "0", "1"]

/-- Outcomes the model cannot know are adopted from the observation: the best-effort ioctl may
fail (`EOPNOTSUPP`, `EPERM`), `rmdir` fails on a non-empty directory. -/
def adopt (e : Sys) (obs : List String) : Option Sys :=
  if render e == obs then some e else
  match e, obs with
  | .setImmutable p _ on, ["setimm", q, o, "0"] => if showPath p == q && b01 on == o then some (.setFlagsDir p) else none
  | .setFlagsDir p, ["setimm", q, "0", "0"] => if showPath p == q then some (.setFlagsDir p) else none
  | .rmdir p true, ["rmdir", q, "0"] => if showPath p == q then some (.rmdir p false) else none
  | _, _ => none

/-! ### Harness-side preparation (durable, synced) -/

def mkdirDurable (s : FS) (p : Path) : FS :=
  match s.dirs (parentOf p) with
  | none => s
  | some d =>
    let s1 := s.setDir (parentOf p) { d with durable := upd d.durable (baseOf p) (some .dir) }
    match s1.dirs p with
    | some _ => s1
    | none => s1.setDir p Dir.empty

def prefixes (p : Path) : List Path := (List.range (p.length + 1)).map fun k => p.take k

def mkdirAllDurable (s : FS) (p : Path) : FS :=
  (prefixes p).foldl (fun s q => if q.isEmpty then s else match s.lookup q with | some .dir => s | _ => mkdirDurable s q) s

def fileDurable (s : FS) (p : Path) (data : Bytes) : FS :=
  let s := mkdirAllDurable s (parentOf p)
  match s.dirs (parentOf p) with
  | none => s
  | some d =>
    let i := s.next
    { (s.setFile i { data := data, synced := true, mode := 0o644, immutable := false }).setDir (parentOf p)
        { d with durable := upd d.durable (baseOf p) (some (.file i)) } with next := i + 1 }

def emptyWorld : FS := { files := fun _ => none, dirs := fun p => if p = [] then some Dir.empty else none, next := 1 }

/-! ### Crash-state enumeration -/

def allMasks : Nat → List (List Bool)
  | 0 => [[]]
  | n + 1 => (allMasks n).flatMap fun m => [true :: m, false :: m]

/-- All assignments of masks to the directories with pending changes (`known` lists the directories). -/
def keepChoices (s : FS) (known : List Path) (full : Bool) : List (Path → List Bool) :=
  known.foldl (fun acc p =>
    match s.dirs p with
    | some d =>
      if d.pending.isEmpty then acc
      else
        let ms := if full && d.pending.length ≤ 6 then allMasks d.pending.length
                  else [List.replicate d.pending.length true, List.replicate d.pending.length false]
        acc.flatMap fun k => ms.map fun m => fun q => if q = p then m else k q
    | none => acc) [fun _ => []]

def quiescentB (s : FS) (known : List Path) : Bool :=
  known.all (fun p => match s.dirs p with | some d => d.pending.isEmpty | none => true) &&
  (List.range s.next).all (fun i => match s.files i with | some f => f.synced | none => true)

/-- System calls that change the model state (the others leave every crash state as it was). -/
def changes : Sys → Bool
  | .mkdir _ | .fsyncDir _ | .creat _ _ | .fchmod _ _ _ | .write _ _ _ | .fsync _ _ | .rename _ _ _ true
  | .unlink _ | .rmdir _ true | .setImmutable _ _ _ => true
  | _ => false

structure CrashReport where
  states : Nat := 0
  bad : Option String := none
  /-- the call returned ok and some crash of the FINAL state does not have the new object -/
  badFinal : Bool := false

/-- Every prefix × persisted subset × junk: the recovered object is the old or the new one; after the
whole trace of a call that returned ok, it is the new one. -/
def crashCheck (pre : FS) (known : List Path) (tr : List Sys) (path : Path) (data : Bytes) (resOk : Bool) : CrashReport :=
  let old := pre.object path
  let full := data.length ≤ 70000
  let junks : List (Nat → Bytes) :=
    if full then [fun _ => [], fun _ => [0x58], fun _ => data.take (data.length / 2) ++ [0]] else [fun _ => [0x58]]
  let known := known ++ tr.filterMap fun e => match e with | .mkdir p => some p | _ => none
  let checkState (s : FS) (k : Nat) (final : Bool) (rep : CrashReport) : CrashReport :=
    (keepChoices s known full).foldl (fun rep keep =>
      junks.foldl (fun rep junk =>
        let obj := (crash { keep := keep, junk := junk } s).object path
        let good := if final && resOk then obj == some data else (obj == old || obj == some data)
        { states := rep.states + 1, badFinal := rep.badFinal || (final && resOk && !good),
          bad := if good || rep.bad.isSome then rep.bad
                 else some s!"after {k} of {tr.length} system calls (masks {known.map keep}): recovered object has {(obj.map (·.length))} bytes; old {(old.map (·.length))}, new {data.length}" }) rep) rep
  let rec go (s : FS) (k : Nat) (rest : List Sys) (rep : CrashReport) : CrashReport :=
    match rest with
    | [] => checkState s k true rep
    | e :: rest' =>
      -- a state is checked when the next system call is about to change it (and at the end)
      go (step s e) (k + 1) rest' (if k == 0 || changes e then checkState s k false rep else rep)
  go pre 0 tr {}

/-! ### The acceptor -/

structure Op where
  kind : String
  key : Bytes
  data : Bytes := []
  imm : Bool := false
  line : Nat
  obs : Array (List String) := #[]

structure St where
  t : Driver.Tally := {}
  fs : FS := emptyWorld
  dir : Path := []
  known : List Path := [[]]
  world : String := ""
  contents : List (String × Bytes) := []
  chunks : List Bytes := []     -- pieces of a long content, last first
  op : Option Op := none
  P : Program := program
  crashStates : Nat := 0

def St.bad (st : St) (n : Nat) (msg : String) : IO St := do
  IO.println s!"MISMATCH {n} {st.world}: {msg}"
  return { st with t := { st.t with mismatches := st.t.mismatches + 1 } }

def St.good (st : St) (branch : String) : St :=
  { st with t := { st.t.bump branch with ok := st.t.ok + 1 } }

def St.content (st : St) (id : String) : Option Bytes := (st.contents.find? (·.1 == id)).map (·.2)

def showResult : Result → String
  | .ok => "ok" | .invalidKey => "invalidKey" | .mismatch => "mismatch" | .error => "error" | .hang => "hang"

/-- The random suffix `os.CreateTemp` chose, read off the observed `creat`. -/
def observedRnd (obs : Array (List String)) (base : Name) : Name :=
  match obs.toList.find? (fun w => w.head? == some "creat") with
  | some (_ :: p :: _) =>
    match parsePath p with
    | some q =>
      let name := baseOf q
      let pre := dot ++ base
      if pre.isPrefixOf name then name.drop pre.length else []
    | none => []
  | _ => []

/-- Match the model trace against the observation; returns the (adopted) accepted prefix or the
index and description of the first difference. -/
def matchTrace (tr : List Sys) (obs : List (List String)) (allowPrefix : Bool) :
    Except String (List Sys) :=
  let rec go (tr : List Sys) (obs : List (List String)) (acc : List Sys) (i : Nat) : Except String (List Sys) :=
    match tr, obs with
    | [], [] => .ok acc.reverse
    | e :: _, [] => if allowPrefix then .ok acc.reverse
               else .error s!"system call {i}: model expects [{" ".intercalate (render e)}], the call issued nothing more"
    | [], o :: _ => .error s!"system call {i}: observed [{" ".intercalate o}], the model's trace has ended"
    | e :: tr', o :: obs' =>
      match adopt e o with
      | some e' => go tr' obs' (e' :: acc) (i + 1)
      | none => .error s!"system call {i}: observed [{" ".intercalate o}], model expects [{" ".intercalate (render e)}]"
  go tr obs [] 0

def sizeClass (n : Nat) : String :=
  if n = 0 then "0" else if n < 16384 then "<16384" else if n = 16384 then "16384" else if n ≤ 70000 then ">16384" else "big"

def finishOp (st : St) (n : Nat) (o : Op) (ret : List String) : IO St := do
  let st := { st with op := none }
  let retKind := ret.headD "?"
  let obs := o.obs.toList
  match o.kind with
  | "upload" =>
    let comps := localize o.key
    let base := match comps with | some c => baseOf (st.dir ++ c) | none => []
    let rnd := observedRnd o.obs base
    let (tr, res) := uploadTrace st.P st.dir o.key o.data { immutable := o.imm } rnd st.fs
    let killed := retKind == "killed"
    match matchTrace tr obs killed with
    | .error msg => st.bad o.line s!"upload key={Bytes.toHexP o.key} imm={o.imm} len={o.data.length}: {msg}"
    | .ok acc =>
      if !killed && showResult res != retKind then
        st.bad n s!"upload key={Bytes.toHexP o.key} imm={o.imm} len={o.data.length}: implementation returned {retKind}, model {showResult res}"
      else
        let pre := st.fs
        let post := run pre acc
        let newDirs := acc.filterMap fun e => match e with | .mkdir p => some p | _ => none
        let st := { st with fs := post, known := st.known ++ newDirs.filter (fun p => !st.known.contains p) }
        let branch := if killed then "upload-killed" else
          s!"upload-{showResult res}-{if o.imm then "imm" else "plain"}-size{sizeClass o.data.length}-newdirs{newDirs.length}"
        match comps with
        | none => return st.good branch
        | some c =>
          let path := st.dir ++ c
          let q := quiescentB pre st.known
          let rep := crashCheck pre st.known acc path o.data (!killed && res == .ok)
          let st := { st with crashStates := st.crashStates + rep.states }
          match rep.bad, q with
          | none, _ => return (st.good branch).good (if q then "crash-states-all-old-or-new" else "crash-states-ok-from-nonquiescent")
          | some msg, true => st.bad n s!"upload key={Bytes.toHexP o.key}: crash state violates old-or-new from a quiescent pre-state: {msg}"
          | some _, false =>
            return (st.good branch).good (if rep.badFinal then "returned-ok-but-not-durable-after-kill" else "crash-mid-call-from-nonquiescent")
  | "fetch" =>
    let (tr, res, obj) := fetchTrace st.dir o.key st.fs
    match matchTrace tr obs false with
    | .error msg => st.bad o.line s!"fetch key={Bytes.toHexP o.key}: {msg}"
    | .ok _ =>
      if showResult res != retKind then
        st.bad n s!"fetch key={Bytes.toHexP o.key}: implementation returned {retKind}, model {showResult res}"
      else if res == .ok then
        match ret with
        | [_, cid] =>
          if st.content cid == obj && obj.isSome then return st.good "fetch-ok"
          else st.bad n s!"fetch key={Bytes.toHexP o.key}: implementation returned content {cid}, model has {(obj.map (·.length))} bytes"
        | _ => st.bad n "fetch: ret ok without content id"
      else return st.good s!"fetch-{showResult res}"
  | "discard" =>
    let (tr, res) := discardTrace st.dir o.key st.fs
    match matchTrace tr obs false with
    | .error msg => st.bad o.line s!"discard key={Bytes.toHexP o.key}: {msg}"
    | .ok acc =>
      let res := if acc.any (fun e => match e with | .rmdir _ false => true | _ => false) then Result.error else res
      if showResult res != retKind then
        st.bad n s!"discard key={Bytes.toHexP o.key}: implementation returned {retKind}, model {showResult res}"
      else return { (st.good s!"discard-{showResult res}") with fs := run st.fs acc }
  | k => st.bad n s!"unknown op kind {k}"

def onLine (st : St) (n : Nat) (l : String) : IO St := do
  let st := { st with t := { st.t with lines := st.t.lines + 1 } }
  match Driver.words l with
  | ["world", name] => return { (st.good "world") with fs := emptyWorld, dir := [], known := [[]], world := name, op := none }
  | ["dir", p] =>
    match parsePath p with
    | some q => return { st with dir := q }
    | none => st.bad n s!"bad dir {p}"
  | ["prep", "mkdir", p] =>
    match parsePath p with
    | some q =>
      let fs := mkdirAllDurable st.fs q
      return { st with fs := fs, known := st.known ++ (prefixes q).filter (fun x => !st.known.contains x) }
    | none => st.bad n s!"bad path {p}"
  | ["prep", "file", p, cid] =>
    match parsePath p, st.content cid with
    | some q, some d =>
      return { st with fs := fileDurable st.fs q d, known := st.known ++ (prefixes (parentOf q)).filter (fun x => !st.known.contains x) }
    | _, _ => st.bad n s!"bad prep file {p} {cid}"
  | ["def", id, "hex", h] => return { st with contents := (id, unhex h) :: st.contents }
  | ["defc", h] => return { st with chunks := unhex h :: st.chunks }
  | ["def", id, "cat"] =>
    return { st with contents := (id, st.chunks.foldl (fun acc c => c ++ acc) []) :: st.contents, chunks := [] }
  | ["def", id, "take", base, k] =>
    match st.content base, k.toNat? with
    | some b, some k => return { st with contents := (id, b.take k) :: st.contents }
    | _, _ => st.bad n s!"bad def {l.take 80}"
  | ["def", id, "flip", base, k] =>
    match st.content base, k.toNat? with
    | some b, some k =>
      return { st with contents := (id, b.take k ++ ((b.drop k).take 1).map (· ^^^ 0xFF) ++ b.drop (k + 1)) :: st.contents }
    | _, _ => st.bad n s!"bad def {l.take 80}"
  | ["def", id, "app", base, h] =>
    match st.content base with
    | some b => return { st with contents := (id, b ++ unhex h) :: st.contents }
    | none => st.bad n s!"bad def {l.take 80}"
  | ["op", "upload", key, cid, imm] =>
    match st.content cid with
    | some d => return { st with op := some { kind := "upload", key := unhex key, data := d, imm := imm == "1", line := n } }
    | none => st.bad n s!"unknown content {cid}"
  | ["op", kind, key] => return { st with op := some { kind := kind, key := unhex key, line := n } }
  | "s" :: ev =>
    match st.op with
    | some o => return { st with op := some { o with obs := o.obs.push ev } }
    | none => st.bad n "system call outside a call"
  | "ret" :: ret =>
    match st.op with
    | some o => finishOp st n o ret
    | none => st.bad n "ret outside a call"
  | ["skip", _] => return st.good "op-not-run"
  | ["endworld"] => return st.good "endworld"
  | "conc" :: name :: rest =>
    if rest.contains "ok=true" then return st.good "readers-writers-ok" else st.bad n s!"readers/writers run {name} failed: {l}"
  | [] => return st
  | _ => st.bad n s!"bad-line: {l.take 120}"

def main : IO UInt32 := do
  let init : St := {}
  let init ← match currentProgram with
    | some P => pure { init with P := P, t := init.t.bump ("program-buf-" ++ ((Source.BufExpr.go P.buf).replace " " "").replace "," ";") }
    | none => do
      IO.println s!"MISMATCH 0 the buffer expression of compareFile {Generated.c13_compare_buf} is outside the model's vocabulary"
      pure { init with t := { init.t with mismatches := 1 } }
  let st ← Driver.foldLines init onLine
  IO.println ({ st.t with branches := st.t.branches ++ [("crash-states-computed", st.crashStates)] }).summary
  return 0
end Driver.Localfs
