import Driver.Util
namespace Driver.Localfs
/-- stub: engine not implemented yet -/
def main : IO UInt32 := do
  IO.println "MISMATCH 0 engine localfs has no driver yet"
  return 0
end Driver.Localfs
