import Driver.Util
import Model.Sha256
import Model.TileAuth
/-! Driver for engine `tilereader`: function-mode diff of the real `tlog.TileHashReader.ReadHashes` (pinned
golang.org/x/mod) with `TileAuth.readLeafHashTlog` — the pinned reader, which is `TileAuth.readLeafHash` (the reader `readLeafHash_sound` is about) minus the parent comparisons it omits (finding F10) — on the very
tiles the real reader was served (pristine or tampered), byte-exact with real SHA-256.

  read <n> <root hex> <i> <L.N.hex;…|-> = <ok <hash hex> | err> -/
namespace Driver.Tilereader
open TileAuth

abbrev Hsh := Bytes

def nodeH (a b : Hsh) : Hsh := Bytes.ofByteArray (Sha256.hash (Bytes.toByteArray ((1 : UInt8) :: (a ++ b))))
def emptyH : Hsh := Bytes.ofByteArray (Sha256.hash (Bytes.toByteArray []))

def chunk32 : Nat → Bytes → List Bytes
  | 0, _ => []
  | fuel + 1, b => if b.isEmpty then [] else b.take 32 :: chunk32 fuel (b.drop 32)

/-- a served tile whose byte length is not a multiple of the hash size is not a tile -/
def parseTile (s : String) : Option (Option (TileData Hsh)) :=
  match s.splitOn "." with
  | [l, n, hx] => do
    let L ← l.toNat?
    let N ← n.toNat?
    let b ← if hx == "-" then some [] else Bytes.ofHex hx
    if b.length % 32 != 0 then pure none
    else pure (some { L := L, N := N, es := chunk32 (b.length / 32 + 1) b })
  | _ => none

def parseTiles (s : String) : Option (List (TileData Hsh)) :=
  if s == "-" then some [] else do
    let ts ← (s.splitOn ";").mapM parseTile
    pure (ts.filterMap id)

def eval (ws : List String) : Option (String × String) :=
  match ws with
  | ["read", n, root, i, tiles] => do
    let n ← n.toNat?
    let i ← i.toNat?
    let root ← Bytes.ofHex root
    let ts ← parseTiles tiles
    -- the real code is compared with the reader AS IT IS (finding F10); where the sound reader refuses and the pinned
    -- one answers, the branch says so
    let sound := readLeafHash nodeH emptyH n root ts i
    match readLeafHashTlog nodeH emptyH n root ts i with
    | some h => pure (s!"ok {Bytes.toHex h}", if sound.isSome then "read-ok" else "read-ok-where-the-sound-reader-refuses")
    | none => pure ("err", "read-err")
  | _ => none

def main : IO UInt32 := do
  let t ← Driver.foldLines ({} : Driver.Tally) fun t n l => do
    let t := { t with lines := t.lines + 1 }
    match l.splitOn " = " with
    | [lhs, impl] =>
      match eval (Driver.words lhs) with
      | some (model, br) =>
        if model == impl then return { t.bump br with ok := t.ok + 1 }
        else
          IO.println s!"MISMATCH {n} read model=[{model}] impl=[{impl}] args=[{lhs.take 200}]"
          return { t with mismatches := t.mismatches + 1 }
      | none => IO.println s!"MISMATCH {n} bad-args {lhs.take 200}"; return { t with mismatches := t.mismatches + 1 }
    | _ => IO.println s!"MISMATCH {n} bad-line {l.take 200}"; return { t with mismatches := t.mismatches + 1 }
  IO.println t.summary
  return 0
end Driver.Tilereader
