import Driver.Util
namespace Driver.Seq
/-- stub: engine not implemented yet -/
def main : IO UInt32 := do
  IO.println "MISMATCH 0 engine seq has no driver yet"
  return 0
end Driver.Seq
