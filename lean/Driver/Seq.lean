import Std.Data.HashMap
import Driver.Util
import Model.SeqRender
/-! Trace acceptor for the `seq` engine: maps each observed event of the real code to an abstract
event of Model/Sequencer.lean (checking that the bytes are exactly the rendering of the abstract
payload) and folds `Seq.step`. A `none`, or bytes that are not the prescribed rendering, is a
correspondence failure at that line. -/

namespace Driver.Seq
open _root_.Seq SeqRender

structure DS where
  sys : Sys := { poolSize := 0 }
  ctx : Ctx := ⟨#[]⟩
  keyClass : Array Nat := #[]
  entryIssuers : Array (List Nat) := #[]
  issuerIdx : Std.HashMap String Nat := {}       -- sha256 hex of issuer → id
  issuerBlobs : Array Bytes := #[]
  ckTab : Std.HashMap String Ck := {}            -- checkpoint token id → abstract checkpoint
  rootTab : Std.HashMap String Tree := {}        -- "n-roothex" → tree
  mirror : Std.HashMap String (String × Obj) := {} -- key string → (payload token, abstract object)
  seen : Std.HashMap String Obj := {}            -- "key|payload token" → abstract object, for everything ever stored
  name : String := ""
  hcache : Option (Tree × Array ByteArray) := none
  dead : Bool := false
  tainted : Bool := false
  junkStaging : List Nat := []   -- instances whose running load fetched tampered bytes (no bundle) under its staging key
  scen : Nat := 0

def hexOfBA (b : ByteArray) : String := Bytes.toHex (Bytes.ofByteArray b)

def DS.hashes (d : DS) (tr : Tree) : DS × Array ByteArray :=
  match d.hcache with
  | some (t, hs) => if t == tr then (d, hs) else
      let hs := leafHashes d.ctx tr
      ({ d with hcache := some (tr, hs) }, hs)
  | none =>
    let hs := leafHashes d.ctx tr
    ({ d with hcache := some (tr, hs) }, hs)

def DS.root (d : DS) (tr : Tree) : DS × String :=
  let (d, hs) := d.hashes tr
  let r := hexOfBA (mthRange hs 0 hs.size)
  ({ d with rootTab := d.rootTab.insert s!"{tr.length}-{r}" tr }, r)

/-- parse "tile/<kind>/x001/234[.p/W]" -/
def parseTileKey (k : String) : Option TileId := do
  let parts := k.splitOn "/"
  match parts with
  | "tile" :: kindS :: rest =>
    let kind ← (match kindS with
      | "data" => some TKind.data
      | "names" => some TKind.names
      | s => s.toNat?.map TKind.hash)
    -- optional trailing ".p", W
    let (segs, w) ← (match rest.reverse with
      | wS :: lastP :: more =>
        if lastP.endsWith ".p" then
          (match wS.toNat? with
           | some w => some ((((lastP.dropEnd 2).toString) :: more).reverse, w)
           | none => none)
        else some (rest, 256)
      | _ => some (rest, 256))
    if segs.isEmpty then none
    let mut n := 0
    let cnt := segs.length
    let mut i := 0
    for sg in segs do
      i := i + 1
      let digits := if i < cnt then (if sg.startsWith "x" then (sg.drop 1).toString else "bad") else sg
      if digits.length != 3 then none
      match digits.toNat? with
      | some v => n := n * 1000 + v
      | none => none
    if w == 0 || w > 256 then none
    some ⟨kind, n, w⟩
  | _ => none

def DS.keyOf (d : DS) (k : String) : Key :=
  if k == "checkpoint" then .ckpt
  else if k == "_roots.pem" then .roots
  else if k.startsWith "tile/" then
    match parseTileKey k with
    | some t => .tile t
    | none => .other k.hash.toNat
  else if k.startsWith "staging/" then
    let rest := (k.drop 8).toString
    if rest.contains '/' then
      -- legacy path staging/<chunks>/<root>: identified by root
      let root := (rest.splitOn "/").getLast!
      match d.rootTab.toList.find? (fun (kk, _) => kk.endsWith ("-" ++ root)) with
      | some (_, t) => .legacyStaging t
      | none => .other k.hash.toNat
    else match d.rootTab.get? rest with
      | some t => .staging t
      | none => .other k.hash.toNat
  else if k.startsWith "issuer/" then
    match d.issuerIdx.get? (k.drop 7).toString with
    | some i => .issuer i
    | none => .other k.hash.toNat
  else .other k.hash.toNat

def expectedOpts (k : Key) : String :=
  match k with
  | .ckpt => "0/text"
  | .roots => "0/pem"
  | .tile t => (match t.kind with | .hash _ => "i/bin" | .data => "zi/bin" | .names => "zi/jsonl")
  | .staging _ => "zi/bin"
  | .issuer _ => "i/cert"
  | _ => "?"

def parseRes (s : String) : Option Res :=
  match s with
  | "ok" => some .ok
  | "errA" => some .errA
  | "errN" => some .errN
  | "exists" | "conflict" | "immconflict" | "nf" => some .refused
  | _ => none

/-- check a concrete checkpoint token against the rendering of abstract checkpoint `c`. -/
def DS.ckMatches (d : DS) (tok : String) (c : Ck) : DS × Option String :=
  match tok.splitOn ":" with
  | [_id, n, root, ts, flags, origin] =>
    let (d, r) := d.root c.leaves
    if n.toNat? != some c.leaves.length then (d, some s!"size {n} ≠ {c.leaves.length}")
    else if root != r then (d, some s!"root {root} ≠ rendered {r}")
    else if ts.toNat? != some c.time then (d, some s!"timestamp {ts} ≠ {c.time}")
    else if flags != "rm" then (d, some s!"signature flags {flags} ≠ rm")
    else if origin != d.name then (d, some "origin differs")
    else (d, none)
  | _ => (d, some s!"unparseable checkpoint {tok}")

def tokId (tok : String) : String := (tok.splitOn ":").head!

inductive Outp where
  | ok (d : DS) (branch : String)
  | bad (d : DS) (msg : String)

def tryStep (d : DS) (e : Ev) (branch : String) : Outp :=
  match step d.sys e with
  | some s' => .ok { d with sys := s' } branch
  | none => .bad d s!"event not enabled in the model: {branch}"

def parseEntry (ws : List String) : Option (Nat × EntryRec) :=
  match ws with
  | [id, pre, cert, ikh, precert, issuers, names] => do
    let i ← id.toNat?
    let c ← Bytes.ofHex cert
    let k ← Bytes.ofHex ikh
    let p ← Bytes.ofHex precert
    let iss ← (if issuers == "-" then some [] else (issuers.splitOn ",").mapM Bytes.ofHex)
    let nm ← (if names == "none" then some none else (Bytes.ofHex names).map some)
    some (i, ⟨pre == "1", c, k, p, iss, nm⟩)
  | _ => none

def phaseName (p : Phase) : String :=
  match p with
  | .down => "down" | .creating _ => "creating" | .loading _ => "loading" | .idle => "idle"
  | .round r => s!"round/{repr r.pc}" | .stopped => "stopped"

/-- abstract object + problem (if the bytes are not the prescribed rendering) for an upload by instance i -/
def DS.classifyUpload (d : DS) (i : Nat) (key : Key) (payload : List String) : DS × Obj × Option String :=
  let x := d.sys.insts i
  let blob (ws : List String) : Obj := .blob (String.intercalate " " ws).hash.toNat
  match key, payload with
  | .ckpt, ["ck", tok] =>
    let want : Option Ck := match x.phase with
      | .creating (.ckptUpload c) => some c
      | .round r => some r.new
      | _ => none
    (match want with
     | some c =>
       let (d, pr) := d.ckMatches tok c
       (match pr with
        | none => ({ d with ckTab := d.ckTab.insert (tokId tok) c }, .ck c, none)
        | some m => (d, blob payload, some m))
     | none => (d, blob payload, some "checkpoint upload in a phase that publishes nothing"))
  | .tile t, ["raw", sha, len] =>
    let src : Option Tree := match x.phase with
      | .round r => some r.new.leaves
      | .loading (.apply c _ _) => some c.leaves
      | _ => none
    (match src with
     | some tr =>
       if (t.kind == .data || t.kind == .names) && d.tainted then (d, .slice (t.slice tr), none) else
       let (d, hs) := d.hashes tr
       let want := tileContent d.ctx hs tr t
       if hexOfBA (Sha256.hash want) == sha && len.toNat? == some want.size then (d, .slice (t.slice tr), none)
       else (d, blob payload, some s!"tile bytes are not the Static CT rendering of the tree (got sha {sha} len {len}, want len {want.size})")
     | none => (d, blob payload, some "tile upload outside a round / recovery"))
  | .staging tr, "bundle" :: items =>
    let its := match items with
      | [x] => if x == "-" then [] else x.splitOn ","
      | _ => []
    let (d, hs) := d.hashes tr
    let rec go (l : List String) (acc : List (TileId × Tree)) : Option (List (TileId × Tree)) × Option String :=
      match l with
      | [] => (some acc.reverse, none)
      | it :: rest =>
        (match it.splitOn "=" with
         | [k, opts, sha, len] =>
           (match parseTileKey k with
            | some t =>
              if opts != expectedOpts (.tile t) then (none, some s!"staged {k} has options {opts}")
              else if (t.kind == .data || t.kind == .names) && d.tainted then go rest ((t, t.slice tr) :: acc)
              else
              let want := tileContent d.ctx hs tr t
              if hexOfBA (Sha256.hash want) == sha && len.toNat? == some want.size then go rest ((t, t.slice tr) :: acc)
              else (none, some s!"staged {k} is not the Static CT rendering of the tree")
            | none => (none, some s!"staged key {k} is not a tile"))
         | _ => (none, some "malformed bundle item"))
    (match go its [] with
     | (some items, _) => (d, .bundle items, none)
     | (none, m) => (d, blob payload, m))
  | .issuer id, ["raw", sha, _len] =>
    let want := hexOfBA (Sha256.hash (Bytes.toByteArray (d.issuerBlobs[id]!)))
    if sha == want then (d, .issuer id, none) else (d, blob payload, some "issuer object bytes differ from the issuer certificate")
  | _, _ => (d, blob payload, none)

def srcOf (s : String) : Option Src :=
  match s with
  | "sequencer" => some .sequencer | "pool" => some .pool | "cache" => some .cache
  | "ratelimit" => some .ratelimit | "issuer" => some .issuer | "closed" => some .closed
  | _ => none

/-- a fully verified checkpoint token (`ck id:n:root:ts:rm:origin`) without its byte-hash field; anything else: itself -/
def ckTail (tok : String) : String :=
  match tok.splitOn " " with
  | ["ck", t] =>
    (match t.splitOn ":" with
     | [_id, n, root, ts, sigs, origin] => if sigs == "rm" then s!"ck *:{n}:{root}:{ts}:{sigs}:{origin}" else tok
     | _ => tok)
  | _ => tok

def handleEv (d : DS) (ws : List String) : Outp :=
  match ws with
  | ["-", "tamper", k, _mut, tok0] =>
    let tok := tok0.replace "_" " "
    let key := d.keyOf k
    let d := { d with tainted := true }
    if tok == "gone" then
      tryStep { d with mirror := d.mirror.erase k } (.tamper key none) "tamper"
    else if (tok.splitOn " ").getLast? == some "samehashes" then
      -- a data tile changed only outside what its Merkle leaves cover (chain fingerprints, the submitted pre-certificate,
      -- bytes behind the last leaf): every leaf still hashes to its level-0 entry, and for the model — whose leaves ARE
      -- what is hashed — it is the slice it was
      let t' := " ".intercalate ((tok.splitOn " ").dropLast)
      match d.mirror.get? k with
      | some (_, o) => tryStep { d with mirror := d.mirror.insert k (t', o) } (.tamper key (some o)) "tamper-outside-leaf-hashes"
      | none => .bad d s!"tamper of {k}: same leaf hashes as an object the model's store does not have"
    else
      -- an earlier content of the same key put back (an older signed checkpoint, a discarded bundle) is the abstract
      -- object it was; anything else is an opaque blob
      -- (a checkpoint whose bytes changed where no signature looks — unused bits of a base64 character — still carries
      -- both valid signatures over the same tree head: the token differs in its byte-hash field only, and it is the
      -- checkpoint it was)
      let o : Obj := match d.seen.get? (k ++ "|" ++ tok) with
        | some o => o
        | none => (match d.seen.get? (k ++ "|" ++ ckTail tok) with
          | some o => o
          | none => .blob tok.hash.toNat)
      tryStep { d with mirror := d.mirror.insert k (tok, o) } (.tamper key (some o)) "tamper"
  | inst :: rest =>
    match inst.toNat? with
    | none => .bad d "bad instance id"
    | some i =>
      let x := d.sys.insts i
      match rest with
      | ["launch", "create"] => tryStep d (.launchCreate i) "launch-create"
      | ["launch", "load"] => tryStep { d with junkStaging := d.junkStaging.filter (· != i) } (.launchLoad i) "launch-load"
      | ["launch", "round"] => tryStep d (.launchRound i) "launch-round"
      | ["launch", "submit", _, _] => tryStep d (.launchSubmit i) "launch-submit"
      | ["config", m] => tryStep d (.config i (m != "reset")) "config"
      -- rows moved between the two cache tables while the process is down: the key ↦ (index, timestamp) map is unchanged
      | ["legacyize", _] => (match x.phase with
          | .down => .ok d "legacyize"
          | _ => .bad d "cache file rewritten under a running process")
      | ["clock", v] =>
        (match v.toNat? with
         | some n => tryStep d (.clock i n) s!"clock@{phaseName x.phase}"
         | none => .bad d "bad clock")
      | ["lockfetch", "nf"] => tryStep d (.lockFetch i .nf) "lockfetch-nf"
      | ["lockfetch", "err"] => tryStep d (.lockFetch i .err) "lockfetch-err"
      | ["lockfetch", "ok", tok] =>
        (match d.ckTab.get? (tokId tok) with
         | some c => tryStep d (.lockFetch i (.ok c)) "lockfetch-ok"
         | none => .bad d s!"lock store returned a checkpoint the model never saw committed: {tok}")
      | ["lockcreate", tok, res] =>
        (match x.phase, parseRes res with
         | .creating (.lockCreate c), some r =>
           let (d, pr) := d.ckMatches tok c
           (match pr with
            | none => tryStep { d with ckTab := d.ckTab.insert (tokId tok) c } (.lockCreate i c r) s!"lockcreate-{res}"
            | some m => .bad d s!"created checkpoint is not the rendering of the model's: {m}")
         | _, _ => .bad d "lockcreate in unexpected phase")
      | ["lockreplace", otok, ntok, res] =>
        (match x.phase, parseRes res, d.ckTab.get? (tokId otok) with
         | .round rd, some r, some old =>
           let (d, pr) := d.ckMatches ntok rd.new
           (match pr with
            | none => tryStep { d with ckTab := d.ckTab.insert (tokId ntok) rd.new } (.lockReplace i old rd.new r) s!"lockreplace-{res}"
            | some m => .bad d s!"new lock checkpoint is not the rendering of old tree ++ pool: {m}")
         | _, _, none => .bad d s!"compare-and-swap from a checkpoint the model never saw: {otok}"
         | _, _, _ => .bad d "lockreplace in unexpected phase")
      | "fetch" :: k :: "nf" :: [] => tryStep d (.fetch i (d.keyOf k) .nf) "fetch-nf"
      | "fetch" :: k :: "err" :: [] => tryStep d (.fetch i (d.keyOf k) .err) "fetch-err"
      | "fetch" :: k :: "ok" :: payload =>
        let tok := String.intercalate " " payload
        (match d.mirror.get? k with
         | some (t, o) =>
           if t == tok then
             let junk : Bool := match d.keyOf k, o with
               | .staging _, .bundle _ => false
               | .staging _, _ => d.tainted
               | _, _ => false
             tryStep (if junk then { d with junkStaging := i :: d.junkStaging } else d) (.fetch i (d.keyOf k) (.ok o)) "fetch-ok"
           else .bad d s!"fetch of {k} returned {tok} but the last stored payload was {t}"
         | none => .bad d s!"fetch of {k} returned an object the model's store does not have")
      | "upload" :: k :: opts :: more =>
        (match more.reverse with
         | res :: payloadRev =>
           let payload := payloadRev.reverse
           (match parseRes res with
            | none => .bad d "bad upload result"
            | some r =>
              -- make the staging path of the round's new tree known before mapping the key
              let d := match x.phase with
                | .round rd => (d.root rd.new.leaves).1
                | _ => d
              let key := d.keyOf k
              -- applyStagedUploads starts the upload of every entry it has read before it reads the next one and does not
              -- wait for them when a later header fails to parse: a tampered bundle is applied as far as it parses. What it
              -- writes is the tamperer's choice — in the model, more tampering (the load itself is refused).
              let junkUp : Bool := match x.phase, key with
                | .loading .failing, .tile _ => d.tainted && d.junkStaging.contains i
                | _, _ => false
              if junkUp then
                (if r.applied then
                   let ptok := String.intercalate " " payload
                   let o : Obj := .blob ptok.hash.toNat
                   tryStep { d with mirror := d.mirror.insert k (ptok, o) } (.tamper key (some o)) "upload-from-tampered-bundle"
                 else .ok d "upload-from-tampered-bundle") else
              let (d, o, problem) := d.classifyUpload i key payload
              (match problem with
               | some m => .bad d s!"upload {k}: {m}"
               | none =>
                 let eo := expectedOpts key
                 if eo != "?" && eo != opts then .bad d s!"upload {k} with options {opts}, layout prescribes {eo}" else
                 let imm := opts.startsWith "i" || opts.startsWith "zi"
                 let ptok := String.intercalate " " payload
                 let seen' := (d.seen.insert (k ++ "|" ++ ptok) o).insert (k ++ "|" ++ ckTail ptok) o
                 let d' := if r.applied then { d with mirror := d.mirror.insert k (ptok, o), seen := seen' } else d
                 tryStep d' (.upload i key imm o r) s!"upload-{(k.splitOn "/").head!}-{res}"))
         | [] => .bad d "bad upload line")
      | ["discard", k, res] =>
        (match parseRes res with
         | some r =>
           let d' := if r.applied then { d with mirror := d.mirror.erase k } else d
           tryStep d' (.discard i (d.keyOf k) r) s!"discard-{res}"
         | none => .bad d "bad discard result")
      | ["submitted", e, low, src] =>
        (match e.toNat?, srcOf src with
         | some eid, some sr => tryStep d (.submitted i eid d.keyClass[eid]! (low == "1") d.entryIssuers[eid]! sr) s!"submitted-{src}"
         | _, _ => .bad d "bad submitted line")
      | ["ack", e, idx, ts, _src] =>
        (match e.toNat?, idx.toNat?, ts.toNat? with
         | some eid, some ix, some t => tryStep d (.ack i eid d.keyClass[eid]! ix t) s!"ack-{_src}"
         | _, _, _ => .bad d "bad ack line")
      | ["nack", e, cls, src] =>
        (match e.toNat? with
         | some eid =>
           if cls == "evicted" then tryStep d (.nackEvicted i eid d.keyClass[eid]!) "nack-evicted"
           else tryStep d (.nack i eid (src == "ratelimit" || src == "issuer" || src == "closed" || src == "cache")) s!"nack-{cls}"
         | none => .bad d "bad nack line")
      | ["created"] => tryStep d (.created i) "created"
      | ["createfail", _] => tryStep d (.createFail i) "createfail"
      | ["loaded", n, root, ts] =>
        (match x.phase with
         | .loading (.edge c _) =>
           let (d, r) := d.root c.leaves
           if n.toNat? == some c.leaves.length && root == r && ts.toNat? == some c.time then tryStep d (.loaded i c) "loaded"
           else .bad d s!"instance loaded a tree (size {n}, ts {ts}) that is not the lock checkpoint's (size {c.leaves.length}, ts {c.time})"
         | _ => .bad d s!"loaded in phase {phaseName x.phase}")
      | ["loadfail", cls] => tryStep { d with junkStaging := d.junkStaging.filter (· != i) } (.loadFail i) s!"loadfail-{cls}"
      | ["roundend", cls] =>
        let c : Option Cls := match cls with
          | "ok" => some .ok | "failed" => some .failed | "fatal" => some .fatal | _ => none
        (match c with
         | some c => tryStep d (.roundEnd i c) s!"roundend-{cls}"
         | none => .bad d s!"round ended with an unclassified error {cls}")
      | ["crash"] => tryStep d (.crash i) "crash"
      | ["cachelose"] => tryStep d (.cacheLose i) "cachelose"
      | _ => .bad d "unrecognised event"
  | [] => .bad d "empty event"

def main : IO UInt32 := do
  let (_, t) ← Driver.foldLines (({} : DS), ({} : Driver.Tally)) fun (d, t) n l => do
    let t := { t with lines := t.lines + 1 }
    match Driver.words l with
    | "scenario" :: id :: pool :: name :: _ =>
      let ps := ((pool.splitOn "=").getLast!).toNat?.getD 0
      let nm := (name.splitOn "=").getLast!
      return ({ sys := { poolSize := ps }, name := nm, scen := id.toNat?.getD 0 }, { t with ok := t.ok + 1 })
    | "entry" :: ws =>
      match parseEntry ws with
      | some (i, e) =>
        if i != d.ctx.entries.size then
          IO.println s!"MISMATCH {n} entry ids out of order"
          return (d, { t with mismatches := t.mismatches + 1 })
        -- dedup key class: first entry with the same (type, issuer key hash, certificate)
        let cls := (d.ctx.entries.findIdx? fun o => o.pre == e.pre && o.cert == e.cert && (!e.pre || o.ikh == e.ikh)).getD i
        let mut d := d
        let mut ids : List Nat := []
        for b in e.issuers do
          let h := Bytes.toHex (SeqRender.sha b)
          match d.issuerIdx.get? h with
          | some k => ids := ids ++ [k]
          | none =>
            let k := d.issuerBlobs.size
            d := { d with issuerIdx := d.issuerIdx.insert h k, issuerBlobs := d.issuerBlobs.push b }
            ids := ids ++ [k]
        return ({ d with ctx := ⟨d.ctx.entries.push e⟩, keyClass := d.keyClass.push cls, entryIssuers := d.entryIssuers.push ids },
                { t with ok := t.ok + 1 })
      | none =>
        IO.println s!"MISMATCH {n} malformed entry line"
        return (d, { t with mismatches := t.mismatches + 1 })
    | "end" :: _ => return (d, { t with ok := t.ok + 1 })
    | "ev" :: ws =>
      if d.dead then return (d, t)
      match handleEv d ws with
      | .ok d' b => return (d', { (t.bump b) with ok := t.ok + 1 })
      | .bad d' m =>
        IO.println s!"MISMATCH {n} scenario {d.scen}: {m} :: {l.take 300}"
        return ({ d' with dead := true }, { t with mismatches := t.mismatches + 1 })
    | _ =>
      IO.println s!"MISMATCH {n} unknown line kind"
      return (d, { t with mismatches := t.mismatches + 1 })
  IO.println t.summary
  return 0

end Driver.Seq
