/-! Pipeline self-test only (not a property). -/
namespace Selftest
theorem trivial_thm : (1 : Nat) + 1 = 2 := rfl
end Selftest
