import Proofs.SeqSteps
import Proofs.SeqDemo
/-! C07 — Resubmissions get the identical SCT and leaf indexes are assigned exactly once. -/
namespace C07
open Seq

/-- Every acknowledgement — from the sequencing round, the pool, the in-sequencing map or the
    deduplication cache — names an index that really holds that entry with that timestamp in a
    published tree. `Reachable` includes cache losses (`cacheLose`), so losing the cache can never
    produce a wrong acknowledgement. -/
theorem C07_ack_true {s : Sys} (r : Reachable s) :
    ∀ a ∈ s.acks, ∃ c ∈ s.pubHist, ∃ l, c.leaves[a.idx]? = some l ∧ l.key = a.key ∧ l.ts = a.ts :=
  (inv2_reachable r).acks

/-- The cache only ever holds leaves of published trees (whatever was lost or kept). -/
theorem C07_cache_true {s : Sys} (r : Reachable s) (i : Nat) :
    ∀ e ∈ (s.insts i).cache, ∃ c ∈ s.pubHist, ∃ l, c.leaves[e.2.1]? = some l ∧ l.key = e.1 ∧ l.ts = e.2.2 :=
  (inv2_reachable r).cache i

/-- A submission resolved by the current pool, the pool being sequenced or the cache adds no leaf:
    the state (pools included) is unchanged. -/
theorem C07_no_extra_leaf (s s' : Sys) (i eid key : Nat) (low : Bool) (iss : List Nat) (src : Src)
    (hsrc : src = .pool ∨ src = .cache) (h : step s (.submitted i eid key low iss src) = some s') : s' = s :=
  submitted_noop s s' i eid key low iss src (by rcases hsrc with h | h <;> simp [h]) h

/-- Lookup order: an entry whose key is pending, being sequenced or cached is never admitted a second time. -/
theorem C07_dedup_order (s s' : Sys) (i eid key : Nat) (low : Bool) (iss : List Nat)
    (hdup : (s.insts i).pool.any (·.key == key) = true ∨ inSequencing (s.insts i) key = true ∨
            (cacheLookup (s.insts i).cache key).isSome = true)
    (h : step s (.submitted i eid key low iss .sequencer) = some s') : False := by
  simp only [step] at h
  repeat' split at h
  all_goals (cases h)
  all_goals (rcases hdup with hd | hd | hd <;> simp_all)

/-- Each leaf a round appends comes from exactly one slot of the pool being sequenced (one admitted
    submission), in slot order, all with the round's timestamp. -/
theorem C07_leaf_per_admission (s s' : Sys) (i v : Nat) (rd : Round)
    (hph : (s.insts i).phase = .round rd) (hpc : rd.pc = .clock) (hv : (s.insts i).tree.time < v)
    (h : step s (.clock i v) = some s') :
    ∃ rd', (s'.insts i).phase = .round rd' ∧
      rd'.new.leaves = (s.insts i).tree.leaves ++ rd.slots.map (fun sl => ⟨sl.eid, sl.key, v⟩) := by
  obtain ⟨rd', h1, _, h3⟩ := round_new_tree s s' i v rd hph hpc hv h
  exact ⟨rd', h1, by rw [h3]; rfl⟩

/-- Two acknowledgements of the same dedup class that name the same index agree on the timestamp
    (the leaf at an index never changes: all published trees are prefixes of one another). -/
theorem C07_same_index_same_ts {s : Sys} (r : Reachable s) (a b : Ack) (ha : a ∈ s.acks) (hb : b ∈ s.acks)
    (hidx : a.idx = b.idx) : a.ts = b.ts ∧ a.key = b.key := by
  obtain ⟨c, hc, l, hl, hk, ht⟩ := C07_ack_true r a ha
  obtain ⟨d, hd, m, hm, hk', ht'⟩ := C07_ack_true r b hb
  have hinv := inv_reachable r
  have hp := chain_pairwise _ hinv.chain
  have hi1 : a.idx < c.leaves.length := (List.getElem?_eq_some_iff.1 hl).1
  have hi2 : b.idx < d.leaves.length := (List.getElem?_eq_some_iff.1 hm).1
  have hlm : l = m := by
    rcases pairwise_total hp c (hinv.pub c hc) d (hinv.pub d hd) with h | h | h
    · subst h; rw [hidx] at hl; rw [hl] at hm; injection hm
    · have h1 := prefix_getElem? h.1 hi2
      rw [← hidx, hl, hidx, hm] at h1; injection h1
    · have h1 := prefix_getElem? h.1 hi1
      rw [hl, hidx, hm] at h1; injection h1 with h1; exact h1.symm
  subst hlm
  exact ⟨by rw [← ht, ← ht'], by rw [← hk, ← hk']⟩

example : ∃ s, Reachable s ∧ s.acks.length = 1 := by
  obtain ⟨s, h, _, _, ha⟩ := Seq.Demo.demo_runs
  exact ⟨s, ⟨0, _, h⟩, ha⟩

end C07
