import Proofs.ClientV
import Proofs.TileAuth
/-! C12 — The monitoring client never yields unauthenticated log content. Property theorems only.

The theorems are about `Model/ClientV.lean` (`cutEntry`, `scanTile`, `clientEntry`, `checkInclusion`,
`clientCheckpoint`): the served data tiles, inclusion proofs, SCTs and notes are **arbitrary**
(universally quantified) inputs. Hashing is an abstract `HashFn` under the explicit hypotheses
`LeafInj` (RecordHash has no collisions) and `NodeInj` (NodeHash has none); signatures are
parameters (`sigVerify`, `Checkpoint.Crypto`).

One hypothesis is a *contract*, not proved here: in `Entries` / `AllEntries` the leaf hashes an entry is
compared with come from `tlog.TileHashReader`, which authenticates every hash tile against the tree
head before it returns any hash (`hauth` below). `Entry` / `CheckInclusion` need no such contract:
they check an inclusion proof against the tree head themselves (`Merkle.checkRecord_sound`).
torchwood's fetching, retrying and caching are exercised by `vh client`, not modelled. -/
namespace C12
open ClientV Codec Merkle

variable {H : Type} [DecidableEq H]

/-- **C12_entries_authentic.** Whatever bytes a data tile holds: every pair `(i, e)` the entry
iterators yield from it has `start ≤ i`, lies in the tile, and the Merkle leaf of `e` *is* the
`i`-th leaf of every leaf list the tree head commits to; hence its covered fields (timestamp, entry
type, certificate / TBS, issuer key hash, leaf index) are those of the committed entry. -/
theorem C12_entries_authentic (hf : HashFn H) (hinj : LeafInj hf) (allow : Bool) (start i0 : Nat)
    (data : Bytes) (hs : List H) (t : Tree H) (L : List Bytes) (_hopen : Opens hf t L)
    (hauth : ∀ k h, hs[k]? = some h → (L.map hf.leaf)[i0 + k]? = some h)
    (i : Nat) (e : LogEntry) (hy : (i, e) ∈ (scanTile hf allow start i0 data hs).1) :
    start ≤ i ∧ i0 ≤ i ∧ i < i0 + hs.length ∧
      (∃ m, merkleTreeLeaf e = some m ∧ L[i]? = some m) ∧
      (∀ g : LogEntry, WF g → (merkleTreeLeaf g).isSome → merkleTreeLeaf g = L[i]? → covered e = covered g) := by
  obtain ⟨h1, h2, h3, m, hm, hL, wf⟩ := scanTile_sound hf hinj allow start L hs i0 data hauth (i, e) hy
  refine ⟨h1, h2, h3, ⟨m, hm, hL⟩, ?_⟩
  intro g wg _ hg
  exact mtl_inj e g wf wg (by rw [hm, hg, hL])

/-- **C12_entries_authentic_tiles.** The same statement with the tile reader's contract DISCHARGED: instead of assuming
that the leaf hashes the entries are compared with are authentic (`hauth`), assume only what
`tlog.TileHashReader.ReadHashes` has checked when it returns them (`TileAuth.Verified`): the right-edge hash tiles, with
the widths the tree size prescribes, recombine to the root of the tree head, and the level-0 hash tile in question is
either the edge tile of level 0 or hashes, tile by tile, up to an entry of a tile checked before it. All served hash
tiles are arbitrary. (`Proofs/TileAuth.lean`: soundness of tile authentication for every tree size and tile level, from
`NodeInj` alone; `edge_complete` / `child_complete` show the hypotheses are met by the authentic tiles of every tree.) -/
theorem C12_entries_authentic_tiles (hf : HashFn H) (hinj : LeafInj hf) (hnode : NodeInj hf.node) (allow : Bool)
    (start : Nat) (data : Bytes) (t : Tree H) (L : List Bytes) (hopen : Opens hf t L) (hne : L ≠ [])
    (edges : Nat → List H) (T N : Nat) (hs : List H)
    (hT : t.n < 256 ^ T)
    (hw : ∀ j, (edges j).length = TileAuth.edgeWidth t.n j)
    (hroot : TileAuth.edgeF hf.node hf.empty edges T = some t.root)
    (hv : TileAuth.Verified hf.node hf.empty t.n edges 0 N hs)
    (i : Nat) (e : LogEntry) (hy : (i, e) ∈ (scanTile hf allow start (N * 256) data hs).1) :
    start ≤ i ∧ N * 256 ≤ i ∧ i < N * 256 + hs.length ∧
      (∃ m, merkleTreeLeaf e = some m ∧ L[i]? = some m) ∧
      (∀ g : LogEntry, WF g → (merkleTreeLeaf g).isSome → merkleTreeLeaf g = L[i]? → covered e = covered g) := by
  obtain ⟨hlen, hr⟩ := hopen
  have hB : (L.map hf.leaf).length = t.n := by rw [List.length_map, hlen]
  have hBne : L.map hf.leaf ≠ [] := by
    intro h; apply hne; exact List.map_eq_nil_iff.1 h
  have hauth : ∀ k h, hs[k]? = some h → (L.map hf.leaf)[N * 256 + k]? = some h :=
    TileAuth.verified_leaf_hashes hf.node hf.empty hnode (L.map hf.leaf) edges T hBne (by rw [hB]; exact hT)
      (by rw [hB]; exact hw) (by rw [hr]; exact hroot) (by rw [hB]; exact hv)
  exact C12_entries_authentic hf hinj allow start (N * 256) data hs t L ⟨hlen, hr⟩ hauth i e hy

/-- **The pinned tile reader (finding F10).** `TileAuth.readLeafHash` is an executable reader that performs every check
of `TileAuth.Verified`; whatever tiles are served, a hash it returns for leaf `i` of a tree head is the record hash of
leaf `i` of every leaf list that tree head commits to. -/
theorem C12_tile_reader_sound (hf : HashFn H) (hnode : NodeInj hf.node) (B : List H)
    (tiles : List (TileAuth.TileData H)) (i : Nat) (h : H)
    (hr : TileAuth.readLeafHash hf.node hf.empty B.length (mth hf.node hf.empty B) tiles i = some h) : B[i]? = some h :=
  TileAuth.readLeafHash_sound hf.node hf.empty hnode B tiles i h hr

/-- `tlog.TileHashReader` at the pinned version is that reader MINUS the parent comparison of the first
`popcount n − #(non-empty edge tiles)` tiles of the chain (`TileAuth.readLeafHashTlog`; the driver of engine `tilereader`
checks that the real code is exactly this function on every served tile set). It is sound for the sizes at which nothing
is skipped — and only the correspondence run, not a theorem, stands behind the others: there the real reader hands out
served hashes unauthenticated (replayed by `corpus/C12/tilereader-F10-…` and, through `sunlight.Client`, by
`corpus/C12/client-F10-…`). -/
theorem C12_pinned_tile_reader_sound_where_it_skips_nothing (hf : HashFn H) (hnode : NodeInj hf.node) (B : List H)
    (tiles : List (TileAuth.TileData H)) (i : Nat) (h : H) (hs : TileAuth.tlogSkipped B.length = 0)
    (hr : TileAuth.readLeafHashTlog hf.node hf.empty B.length (mth hf.node hf.empty B) tiles i = some h) : B[i]? = some h :=
  TileAuth.readLeafHashTlog_sound_of_no_skip hf.node hf.empty hnode B tiles i h hs hr

/-- sizes at which the pinned reader skips comparisons exist from 259 on (three peaks in two edge tiles) -/
example : TileAuth.tlogSkipped 256 = 0 ∧ TileAuth.tlogSkipped 257 = 0 ∧ TileAuth.tlogSkipped 259 = 1 ∧
    TileAuth.tlogSkipped 300 = 2 := by decide

/-- **C12_entry_index / authentic.** `Client.Entry(tree, index)` — for any served tile and any
proof — returns only an entry whose Merkle leaf is the committed leaf at `index`, and (unless it
is an archival leaf, which has no index) whose leaf index is `index`. -/
theorem C12_entry_index (hf : HashFn H) (hinj : LeafInj hf) (hnode : NodeInj hf.node) (allow : Bool)
    (t : Tree H) (index : Nat) (data : Bytes) (proof : List H) (e : LogEntry)
    (h : clientEntry hf allow t index data proof = some e) :
    index < t.n ∧ (e.archival = false → e.leafIndex = Int.ofNat index) ∧
      ∀ L, Opens hf t L →
        (∃ m, merkleTreeLeaf e = some m ∧ L[index]? = some m) ∧
        (∀ g : LogEntry, WF g → merkleTreeLeaf g = L[index]? → covered e = covered g) := by
  obtain ⟨h1, h2, wf, m, hm, hL⟩ := clientEntry_sound hf hinj hnode allow t index data proof e h
  refine ⟨h1, h2, fun L hopen => ⟨⟨m, hm, hL L hopen⟩, ?_⟩⟩
  intro g wg hg
  exact mtl_inj e g wf wg (by rw [hm, hg, hL L hopen])

/-- without `AllowRFC6962ArchivalLeafs` no archival leaf is ever returned, so the index always matches -/
theorem C12_entry_index_strict (hf : HashFn H) (t : Tree H) (index : Nat) (data : Bytes) (proof : List H) (e : LogEntry)
    (h : clientEntry hf false t index data proof = some e) : e.archival = false ∧ e.leafIndex = Int.ofNat index := by
  unfold clientEntry at h
  split at h
  · cases h
  · split at h
    · cases h
    · split at h
      · cases h
      · split at h
        · cases h
        · rename_i e' hpe
          split at h
          · cases h
          · rename_i hidx
            simp only [Option.some.injEq] at h
            subst h
            have ha : e'.archival = false := by
              unfold parseEntry readTileLeafStrict at hpe
              simp only [Bool.false_eq_true, if_false] at hpe
              split at hpe
              · rename_i heq
                split at heq
                · cases heq
                · split at heq
                  · cases heq
                  · rename_i hna
                    simp only [Except.ok.injEq, Prod.mk.injEq] at heq
                    simp only [Option.some.injEq] at hpe
                    rw [← hpe, ← heq.1]
                    simpa using hna
              · cases hpe
            refine ⟨ha, ?_⟩
            cases hd : decide (e'.leafIndex = Int.ofNat index) <;> simp_all

/-- **C12_inclusion.** An SCT is confirmed only if its version is v1, its log ID is that of the
configured key, its leaf_index extension names an index whose *authentic* leaf (as above) has the
SCT's timestamp, and the signature verifies under the configured key over that leaf. -/
theorem C12_inclusion (hf : HashFn H) (hinj : LeafInj hf) (hnode : NodeInj hf.node) (allow : Bool)
    (keyId : Bytes) (sigVerify : Bytes → Bytes → Bool) (t : Tree H) (served : Nat → Bytes × List H)
    (s : SCT) (hts64 : s.timestamp < 18446744073709551616)   -- a uint64 field of the wire format
    (e : LogEntry) (h : checkInclusion hf allow keyId sigVerify t served s = some e) :
    s.version = 0 ∧ s.logId = keyId ∧
    ∃ idx : Int, parseExtensions s.extensions = .ok idx ∧ idx.toNat < t.n ∧
      (e.archival = false → e.leafIndex = Int.ofNat idx.toNat) ∧
      e.timestamp = Int.ofNat s.timestamp ∧
      ∃ m, merkleTreeLeaf e = some m ∧ sigVerify m s.signature = true ∧
        ∀ L, Opens hf t L → L[idx.toNat]? = some m := by
  unfold checkInclusion at h
  split at h
  · cases h
  · rename_i hv
    split at h
    · cases h
    · rename_i hid
      split at h
      · cases h
      · rename_i idx hext
        split at h
        · cases h
        · rename_i e' hentry
          split at h
          · cases h
          · rename_i hts
            split at h
            · cases h
            · rename_i m hm
              split at h
              · rename_i hsig
                simp only [Option.some.injEq] at h
                subst h
                obtain ⟨h1, h2, wf, m', hm', hL⟩ := clientEntry_sound hf hinj hnode allow t _ _ _ _ hentry
                rw [hm] at hm'
                cases hm'
                have hts' : e'.timestamp = i64 s.timestamp := by
                  cases hd : decide (e'.timestamp = i64 s.timestamp) <;> simp_all
                have hts'' : e'.timestamp = Int.ofNat s.timestamp := by
                  have h0 := wf.2.1
                  unfold i64 at hts'
                  split at hts'
                  · exact hts'
                  · rename_i hbig
                    simp only [Int.ofNat_eq_natCast] at hts' h0 ⊢
                    omega
                refine ⟨by simpa using hv, by simpa using hid, idx, hext, h1, h2, hts'', m, hm, hsig, hL⟩
              · cases h

open Checkpoint in
/-- **C12_checkpoint.** A checkpoint is returned only if it is the parse of the fetched note's text,
its origin is the note's first line, and one of the note's signatures is an RFC 6962
TreeHeadSignature by the **configured key** over exactly this size and root hash (with some
timestamp): nothing signed only by other keys is ever returned. -/
theorem C12_checkpoint (cv : Crypto) (key : PubKey) (kh : Bytes → Nat) (note : Note) (c : Checkpoint.Checkpoint)
    (h : clientCheckpoint cv key kh note = some c) :
    parseCheckpoint note.text = some c ∧ c.origin = firstLine note.text ∧ c.ext = [] ∧
      ∃ s ∈ note.sigs, ∃ x alg, parseNoteSig s.sig = some x ∧ algOf key.kind = some alg ∧ x.sigAlg = alg ∧
        independentVerify cv key c.n.toNat x.timestamp c.hash x.signature = true := by
  obtain ⟨hp, ho, s, hs, _, hv⟩ := clientCheckpoint_sound cv key kh note c h
  obtain ⟨c', x, alg, hp', _, hext, hx, _, halg, hsa, hind⟩ := (verifier_iff cv c.origin key note.text s.sig).1 hv
  rw [hp] at hp'
  cases hp'
  exact ⟨hp, ho, hext, s, hs, x, alg, hx, halg, hsa, hind⟩

/-! ## Non-vacuity: a two-entry log in the free hash algebra (no collisions by construction) -/
section examples

open ClientV.Demo

def e0 : LogEntry := { certificate := [1, 2, 3], isPrecert := false, issuerKeyHash := zeros32, chainFingerprints := [],
                       preCertificate := [], leafIndex := 0, archival := false, timestamp := 5 }
def e1 : LogEntry := { e0 with certificate := [9], leafIndex := 1, timestamp := 6 }
/-- the same position with a different (covered) certificate -/
def e1bad : LogEntry := { e1 with certificate := [8] }
/-- the same entry with different *uncovered* data -/
def e1fp : LogEntry := { e1 with chainFingerprints := [List.replicate 32 7] }

def enc (e : LogEntry) : Bytes := (appendTileLeaf [] e).getD []
def mtl (e : LogEntry) : Bytes := (merkleTreeLeaf e).getD []
def tileOK : Bytes := enc e0 ++ enc e1
def hashes : List T := [T.leaf (mtl e0), T.leaf (mtl e1)]
def tree2 : Tree T := ⟨2, T.node (T.leaf (mtl e0)) (T.leaf (mtl e1))⟩

example : Opens thf tree2 [mtl e0, mtl e1] := by
  refine ⟨rfl, ?_⟩
  show mth T.node T.empty [T.leaf (mtl e0), T.leaf (mtl e1)] = _
  have h2 : split 2 = 1 := by
    have : Nat.log2 1 = 0 := (Nat.log2_eq_iff (by decide)).2 ⟨by decide, by decide⟩
    simp [split, this]
  rw [mth_unfold _ _ _ (by simp)]
  simp only [List.length_cons, List.length_nil, h2, List.take, List.drop, mth_singleton]
  rfl
-- the honest tile is yielded completely, from any start
example : scanTile thf false 0 0 tileOK hashes = ([(0, e0), (1, e1)], true) := by decide
example : scanTile thf false 1 0 tileOK hashes = ([(1, e1)], true) := by decide
-- a covered field altered: entry 0 was already yielded, entry 1 is not, the scan fails
example : scanTile thf false 0 0 (enc e0 ++ enc e1bad) hashes = ([(0, e0)], false) := by decide
-- an uncovered field altered: still yielded (with the served chain fingerprints)
example : scanTile thf false 0 0 (enc e0 ++ enc e1fp) hashes = ([(0, e0), (1, e1fp)], true) := by decide
-- entries swapped, truncated tile, trailing garbage
example : scanTile thf false 0 0 (enc e1 ++ enc e0) hashes = ([], false) := by decide
example : scanTile thf false 0 0 (enc e0) hashes = ([(0, e0)], false) := by decide
example : (scanTile thf false 0 0 (tileOK ++ [0]) hashes).2 = false := by decide
-- Entry with the honest proof (reversed order: one sibling), and with the sibling of the other leaf
example : clientEntry thf false tree2 1 tileOK [T.leaf (mtl e0)] = some e1 := by decide
example : clientEntry thf false tree2 1 tileOK [T.leaf (mtl e1)] = none := by decide
example : clientEntry thf false tree2 1 (enc e0 ++ enc e1bad) [T.leaf (mtl e0)] = none := by decide
-- a leaf served at the wrong position is refused by the proof check before the index check matters
example : clientEntry thf false tree2 0 (enc e1 ++ enc e0) [T.leaf (mtl e1)] = none := by decide

/-- symbolic SCT signatures: valid iff the blob is the signed message itself -/
def symSig (m s : Bytes) : Bool := s == 0xAA :: m
def ext1 : Bytes := (marshalExtensions 1).getD []
def sct1 : SCT := ⟨0, [7, 7], 6, ext1, 0xAA :: mtl e1⟩
def served2 : Nat → Bytes × List T := fun i => (tileOK, if i = 1 then [T.leaf (mtl e0)] else [T.leaf (mtl e1)])

example : checkInclusion thf false [7, 7] symSig tree2 served2 sct1 = some e1 := by decide
example : checkInclusion thf false [7, 8] symSig tree2 served2 sct1 = none := by decide                       -- other log
example : checkInclusion thf false [7, 7] symSig tree2 served2 { sct1 with timestamp := 5 } = none := by decide -- timestamp
example : checkInclusion thf false [7, 7] symSig tree2 served2 { sct1 with extensions := (marshalExtensions 0).getD [] } = none := by decide
example : checkInclusion thf false [7, 7] symSig tree2 served2 { sct1 with signature := 0xAA :: mtl e0 } = none := by decide
example : checkInclusion thf false [7, 7] symSig tree2 served2 { sct1 with version := 1 } = none := by decide

/-! a checkpoint note with a grease line and the signature of the configured key -/
section ckpt
open Checkpoint
def name0 : Bytes := TilePath.ascii "example.com/log"
def root0 : Bytes := List.replicate 32 7
def key0 : PubKey := { kind := .ecdsa, id := [1, 2, 3] }
def text0 : Bytes := formatCheckpoint { origin := name0, n := 42, hash := root0, ext := [] }
def sth0 : Bytes := (sthInput 42 1700000000000 root0).getD []
def sig0 : NoteSig := { timestamp := 1700000000000, hashAlg := 4, sigAlg := 3, signature := symSign key0 sth0 }
def kh0 : Bytes → Nat := fun _ => 77
def grease : SigLine := ⟨TilePath.ascii "grease.invalid", 5, [1, 2, 3]⟩
def note0 : Note := { text := text0, sigs := [grease, ⟨name0, 77, sig0.encode⟩] }

example : (clientCheckpoint symCv key0 kh0 note0).map (fun c => (c.n, c.hash)) = some (42, root0) := by decide +kernel
-- a client configured with another key refuses the same note
example : clientCheckpoint symCv { key0 with id := [4] } kh0 note0 = none := by decide +kernel
-- only signatures the client cannot check
example : clientCheckpoint symCv key0 kh0 { note0 with sigs := [grease] } = none := by decide +kernel
-- the text altered after signing (another size)
example : clientCheckpoint symCv key0 kh0
    { note0 with text := formatCheckpoint { origin := name0, n := 43, hash := root0, ext := [] } } = none := by decide +kernel
end ckpt

end examples
end C12
