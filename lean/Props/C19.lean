import Proofs.SkylightRoute
/-! C19 — The read-path server serves exactly the stored objects with correct metadata. Property theorems only.

About `Skylight.Route.route` / `respond` (`Model/Skylight.lean`, part 2): which file of which configured
directory a GET is answered from and with which headers — for every configuration, host and request
path (any byte string), with net/http's path cleaning as the server applies it.

Outside the model: that `http.FileServerFS(filesOnlyFS{root.FS()})` serves the bytes of the regular
file it is asked for and nothing else (`os.Root` confinement, hidden directories): exercised by
`vh skylight` on the built binary against a runtime oracle, not proved; request targets whose escaping
is not canonical; methods other than GET; the rate limiter. -/
namespace C19
open Skylight.Route TilePath

/-- the segments are clean: not empty, not `.`, not `..`, no `/` inside -/
def CleanSegs (S : List Bytes) : Prop := ∀ s ∈ S, Normal s ∧ (47 : UInt8) ∉ s

/-- **The file server is only ever handed a cleaned relative path.** Whatever the request path
(traversal, doubled slashes, dot segments, wrong prefix): if the request reaches a file server at
all, the path was already in net/http's canonical form (otherwise the answer is a redirect), the
directory is the one of an entry configured for that host whose URL prefix the path starts with, and
the file name consists of exactly the request segments after that prefix — each non-empty, none of
them `.` or `..`, none containing a slash. -/
theorem C19_confined_model (c : Cfg) (host p : Bytes) (root : RootId) (rel : List Bytes) (tr : Bool) (k : Kind) (h : Hdrs)
    (hf : route c host p = .file root rel tr k h) :
    cleanPath p = p ∧ CleanSegs rel ∧ dotdot ∉ rel ∧
    ∃ e : Entry, ((∃ i, root = .log i ∧ c.logs[i]? = some e) ∨ (∃ j, root = .wit j ∧ c.wits[j]? = some e)) ∧
      e.host = host ∧ isPrefix e.pfx (cleanParts p).1 = true ∧ rel = (cleanParts p).1.drop e.pfx.length := by
  obtain ⟨hclean, e, hroot, hhost, hpre, hrel⟩ := route_file hf
  have hcs : CleanSegs rel := by
    intro s hs
    rw [hrel] at hs
    exact cleanParts_normal p s (List.mem_of_mem_drop hs)
  exact ⟨hclean, hcs, fun hm => (hcs _ hm).1.2.2 rfl, e, hroot, hhost, hpre, hrel⟩

/-- … and so is every successful answer: a 200 is the content of a regular file (as the file system
reports it) named by clean request segments inside the selected directory. -/
theorem C19_confined_response (c : Cfg) (host p : Bytes) (look : RootId → Bytes → FileState)
    (root : RootId) (file : Bytes) (h : Hdrs) (hr : respond look (route c host p) = .ok root file h) :
    ∃ rel, file = relPath rel ∧ CleanSegs rel ∧ dotdot ∉ rel ∧ look root file = .regular := by
  cases hro : route c host p with
  | file root' rel tr k h' =>
    rw [hro] at hr
    obtain ⟨_, hcs, hdd, _⟩ := C19_confined_model c host p root' rel tr k h' hro
    simp only [respond] at hr
    split at hr
    · cases hr
    · split at hr
      · rename_i hl
        split at hr
        · cases hr
        · cases hr
          exact ⟨rel, rfl, hcs, hdd, hl⟩
      · cases hr
      · cases hr
  | redirect => rw [hro] at hr; cases hr
  | notFound => rw [hro] at hr; cases hr
  | special n => rw [hro] at hr; cases hr

/-- non-vacuity, and what the hostile spellings do: a traversal is answered by a redirect, never a file -/
def demo : Cfg := ⟨true, [⟨ascii "rome.example.org", []⟩, ⟨ascii "logs.example.org", [ascii "rome2026h2"]⟩],
  [⟨ascii "witness.example.org", []⟩]⟩
example : route demo (ascii "rome.example.org") (ascii "/tile/../../etc/passwd") = .redirect := by decide
example : route demo (ascii "rome.example.org") (ascii "//checkpoint") = .redirect := by decide
example : route demo (ascii "logs.example.org") (ascii "/rome2026h2/tile/data/x001/234.p/5") =
    .file (.log 1) [ascii "tile", ascii "data", ascii "x001", ascii "234.p", ascii "5"] false .partialData
      ⟨"application/octet-stream", true, immutableCC⟩ := by decide
example : route demo (ascii "logs.example.org") (ascii "/checkpoint") = .notFound := by decide
example : route demo (ascii "rome.example.org") (ascii "/tile/data/") =
    .file (.log 0) [ascii "tile", ascii "data"] true .tile ⟨"application/octet-stream", false, immutableCC⟩ := by decide
example : respond (fun _ _ => .absent) (route demo (ascii "rome.example.org") (ascii "/tile/data/")) = .notFound := by decide

/-! ### layout exactness -/

/-- **Logs.** For every log entry that is the one selected for its host and prefix (e.g. because the
configured (host, prefix) pairs are prefix-free, `findEntry_first`), the layout URL
`<prefix>/<layout path>` of the checkpoint, of `log.v3.json`, of an issuer and of *every tile of the
domain* (`TileDom`: any level ≥ −2 incl. names tiles, any index, any width 1…256) is routed to the file
server of that log's directory with exactly the layout path as file name and the prescribed headers. -/
theorem C19_layout_exact (c : Cfg) (i : Nat) (e : Entry) (hpfx : CleanSegs e.pfx)
    (hsel : ∀ X, findEntry e.host (e.pfx ++ X) c.logs 0 = some (i, e)) :
    route c e.host (joinSegs (e.pfx ++ [ascii "checkpoint"])) = .file (.log i) [ascii "checkpoint"] false .checkpoint checkpointHdrs ∧
    route c e.host (joinSegs (e.pfx ++ [ascii "log.v3.json"])) = .file (.log i) [ascii "log.v3.json"] false .logJSON jsonHdrs ∧
    (∀ fp, Normal fp → (47 : UInt8) ∉ fp →
      route c e.host (joinSegs (e.pfx ++ [ascii "issuer", fp])) = .file (.log i) [ascii "issuer", fp] false .issuer issuerHdrs) ∧
    (∀ t, TileDom t → ∃ lp S, sunlightPath t = some lp ∧ lp = relPath S ∧
      route c e.host (joinSegs (e.pfx ++ S)) = .file (.log i) S false (tileHeaders t).1 (tileHeaders t).2) := by
  have hall : ∀ X, CleanSegs X → CleanSegs (e.pfx ++ X) := by
    intro X hX s hs
    rcases List.mem_append.mp hs with h | h
    · exact hpfx s h
    · exact hX s h
  refine ⟨?_, ?_, ?_, ?_⟩
  · rw [route_log_layout c i e _ (by simp) (hall _ (by intro s hs; simp at hs; subst hs; exact ⟨by decide, by decide⟩)) (hsel _)]
    rfl
  · rw [route_log_layout c i e _ (by simp) (hall _ (by intro s hs; simp at hs; subst hs; exact ⟨by decide, by decide⟩)) (hsel _)]
    rfl
  · intro fp hn hs
    rw [route_log_layout c i e _ (by simp) (hall _ (by
      intro s hm; simp at hm
      rcases hm with h | h
      · subst h; exact ⟨by decide, by decide⟩
      · subst h; exact ⟨hn, hs⟩)) (hsel _)]
    simp [logMux]
  · intro t ht
    obtain ⟨lp, S, hp, hS⟩ := sunlightPath_segs t ht
    refine ⟨lp, S, hp, hS.1, ?_⟩
    have hne : S ≠ [] := by obtain ⟨_, ⟨lv, rest, h, _⟩, _⟩ := hS; rw [h]; simp
    rw [route_log_layout c i e S hne (hall S hS.2.2) (hsel _), logMux_tile c.home (.log i) [] lp S hS,
      tileOf_sunlight t ht lp hp]
    rfl

/-- the selection hypothesis of `C19_layout_exact` holds for prefix-free configurations: no earlier log
entry with the same host has a prefix that is comparable with this one's -/
theorem selected_of_prefixFree (c : Cfg) (i : Nat) (e : Entry) (hi : c.logs[i]? = some e)
    (hfree : ∀ j e', j < i → c.logs[j]? = some e' → e'.host = e.host → ∀ X, isPrefix e'.pfx (e.pfx ++ X) = false) :
    ∀ X, findEntry e.host (e.pfx ++ X) c.logs 0 = some (i, e) := by
  intro X
  have := findEntry_first (host := e.host) (S := e.pfx ++ X) c.logs 0 i e hi rfl (isPrefix_append _ _)
    (fun j e' hj hje hc => by
      have := hfree j e' hj hje hc.1 X
      rw [hc.2] at this; cases this)
  simpa using this

/-- **Witnesses and mirrors.** For the selected witness entry and every origin directory `o` (a clean
segment other than `mirror`): `<prefix>/witness.v0.json`, `<prefix>/mirror/mirror.v0.json`,
`<prefix>/<o>/checkpoint`, `<prefix>/mirror/<o>/checkpoint` and every tile
`<prefix>/mirror/<o>/<torchwood tile path>` (hash tiles of any level, entry bundles at `tile/entries/`)
are routed to the witness directory's file server with the prefix stripped and the origin
re-prefixed: file `<o>/…`, `mirror/<o>/…`. Entry bundles carry gzip, hash tiles do not. -/
theorem C19_layout_exact_witness (c : Cfg) (j : Nat) (e : Entry) (hpfx : CleanSegs e.pfx)
    (hnolog : ∀ X, findEntry e.host (e.pfx ++ X) c.logs 0 = none)
    (hsel : ∀ X, findEntry e.host (e.pfx ++ X) c.wits 0 = some (j, e))
    (o : Bytes) (ho : Normal o) (hos : (47 : UInt8) ∉ o) (hom : o ≠ ascii "mirror") :
    route c e.host (joinSegs (e.pfx ++ [ascii "witness.v0.json"])) = .file (.wit j) [ascii "witness.v0.json"] false .witnessJSON jsonHdrs ∧
    route c e.host (joinSegs (e.pfx ++ [ascii "mirror", ascii "mirror.v0.json"])) =
      .file (.wit j) [ascii "mirror", ascii "mirror.v0.json"] false .mirrorJSON jsonHdrs ∧
    route c e.host (joinSegs (e.pfx ++ [o, ascii "checkpoint"])) = .file (.wit j) [o, ascii "checkpoint"] false .checkpoint checkpointHdrs ∧
    route c e.host (joinSegs (e.pfx ++ [ascii "mirror", o, ascii "checkpoint"])) =
      .file (.wit j) [ascii "mirror", o, ascii "checkpoint"] false .checkpoint checkpointHdrs ∧
    (∀ t : Tile, t.H = 8 → -1 ≤ t.L → t.L ≤ 9223372036854775807 → 1 ≤ t.W → t.W ≤ 256 → 0 ≤ t.N → t.N ≤ 9223372036854775807 →
      ∃ lp S, torchwoodPath t = some lp ∧ lp = relPath S ∧
        route c e.host (joinSegs (e.pfx ++ ascii "mirror" :: o :: S)) =
          .file (.wit j) (ascii "mirror" :: o :: S) false (tileHeaders t).1 (tileHeaders t).2) := by
  have hall : ∀ X, CleanSegs X → CleanSegs (e.pfx ++ X) := by
    intro X hX s hs
    rcases List.mem_append.mp hs with h | h
    · exact hpfx s h
    · exact hX s h
  have ok : ∀ s : Bytes, s = ascii "witness.v0.json" ∨ s = ascii "mirror" ∨ s = ascii "mirror.v0.json" ∨ s = ascii "checkpoint" ∨ s = o →
      Normal s ∧ (47 : UInt8) ∉ s := by
    intro s hs
    rcases hs with h | h | h | h | h <;> subst h
    · exact ⟨by decide, by decide⟩
    · exact ⟨by decide, by decide⟩
    · exact ⟨by decide, by decide⟩
    · exact ⟨by decide, by decide⟩
    · exact ⟨ho, hos⟩
  refine ⟨?_, ?_, ?_, ?_, ?_⟩
  · exact route_wit_layout c j e _ (by simp) (hall _ (by intro s hs; simp at hs; exact ok s (Or.inl hs))) (hnolog _) (hsel _) _
      (by simp [witnessRoute])
  · exact route_wit_layout c j e _ (by simp) (hall _ (by
      intro s hs; simp at hs
      rcases hs with h | h
      · exact ok s (Or.inr (Or.inl h))
      · exact ok s (Or.inr (Or.inr (Or.inl h))))) (hnolog _) (hsel _) _ (by simp [witnessRoute])
  · exact route_wit_layout c j e _ (by simp) (hall _ (by
      intro s hs; simp at hs
      rcases hs with h | h
      · exact ok s (Or.inr (Or.inr (Or.inr (Or.inr h))))
      · exact ok s (Or.inr (Or.inr (Or.inr (Or.inl h)))))) (hnolog _) (hsel _) _ (by simp [witnessRoute, hom, logMux])
  · exact route_wit_layout c j e _ (by simp) (hall _ (by
      intro s hs; simp at hs
      rcases hs with h | h | h
      · exact ok s (Or.inr (Or.inl h))
      · exact ok s (Or.inr (Or.inr (Or.inr (Or.inr h))))
      · exact ok s (Or.inr (Or.inr (Or.inr (Or.inl h)))))) (hnolog _) (hsel _) _ (by simp [witnessRoute, logMux])
  · intro t hH hL0 hL1 hW0 hW1 hN0 hN1
    obtain ⟨lp, S, hp, hS⟩ := torchwoodPath_segs t hH hL0 hL1 hW0 hW1
    refine ⟨lp, S, hp, hS.1, ?_⟩
    have htile : tileOf lp = t := by
      by_cases hl : t.L = -1
      · exact tileOf_entries t hH hl hW0 hW1 hN0 hN1 lp hp
      · rw [torchwoodPath_hash t (by omega)] at hp
        exact tileOf_sunlight t ⟨hH, by omega, hL1, hN0, hN1, hW0, hW1⟩ lp hp
    have hS' := hS
    obtain ⟨_, ⟨lv, rest, hSeq, hrest⟩, _⟩ := hS'
    have hcs : CleanSegs (ascii "mirror" :: o :: S) := by
      intro s hs
      rcases List.mem_cons.mp hs with h | h
      · exact ok s (Or.inr (Or.inl h))
      · rcases List.mem_cons.mp h with h | h
        · exact ok s (Or.inr (Or.inr (Or.inr (Or.inr h))))
        · exact hS.2.2 s h
    apply route_wit_layout c j e _ (by simp) (hall _ hcs) (hnolog _) (hsel _)
    have hw : witnessRoute c.home j (ascii "mirror" :: o :: S) false = some (logMux c.home (.wit j) [ascii "mirror", o] S false) := by
      rw [hSeq]
      simp [witnessRoute]
    rw [hw, logMux_tile c.home (.wit j) [ascii "mirror", o] lp S hS, htile]
    rfl

/-! ### headers -/

/-- **The header table.** Whatever is routed to a file server carries one of: checkpoint headers
(`text/plain; charset=utf-8`, `no-store`), JSON metadata (`application/json`), issuer headers
(`application/pkix-cert`, immutable), or the tile headers of some tile coordinate. Consequently:
gzip ⇔ the kind is a data, partial-data or names tile (a level −1 / −2 coordinate: data tiles, names
tiles, and the entry bundles of mirrors); immutable caching ⇔ tile or issuer; `no-store` ⇔ checkpoint. -/
theorem C19_headers (c : Cfg) (host p : Bytes) (root : RootId) (rel : List Bytes) (tr : Bool) (k : Kind) (h : Hdrs)
    (hf : route c host p = .file root rel tr k h) :
    (h.gzip = true ↔ (k = .data ∨ k = .partialData ∨ k = .names)) ∧
    (h.cache = immutableCC ↔ (k = .tile ∨ k = .data ∨ k = .partialData ∨ k = .names ∨ k = .issuer)) ∧
    (h.cache = "no-store" ↔ k = .checkpoint) ∧
    (k = .checkpoint → h.ctype = "text/plain; charset=utf-8") ∧
    (k = .issuer → h.ctype = "application/pkix-cert") ∧
    (k = .names → h.ctype = "application/jsonl; charset=utf-8") ∧
    ((k = .tile ∨ k = .data ∨ k = .partialData) → h.ctype = "application/octet-stream") ∧
    ((k = .logJSON ∨ k = .witnessJSON ∨ k = .mirrorJSON) → h.ctype = "application/json") := by
  rcases route_table hf with ⟨hk, hh⟩ | ⟨hk, hh⟩ | ⟨hk, hh⟩ | ⟨hk, hh⟩ | ⟨hk, hh⟩ | ⟨t, ht⟩
  · subst hk hh; decide
  · subst hk hh; decide
  · subst hk hh; decide
  · subst hk hh; decide
  · subst hk hh; decide
  · have hk : k = (tileHeaders t).1 := by rw [← ht]
    have hh : h = (tileHeaders t).2 := by rw [← ht]
    subst hk hh
    unfold tileHeaders
    by_cases h1 : t.L = -1
    · by_cases hw : t.W < 256 <;> simp [h1, hw, immutableCC]
    · by_cases h2 : t.L = -2
      · simp [h1, h2, immutableCC]
      · simp [h1, h2, immutableCC]

/-- the tile handler's `switch tile.L` by coordinate: gzip exactly for level −1 (data tiles / entry
bundles) and −2 (names tiles); names tiles are `application/jsonl`; every tile is immutable -/
theorem C19_tile_headers (t : Tile) :
    ((tileHeaders t).2.gzip = true ↔ (t.L = -1 ∨ t.L = -2)) ∧
    (tileHeaders t).2.cache = immutableCC ∧
    ((tileHeaders t).2.ctype = (if t.L = -2 then "application/jsonl; charset=utf-8" else "application/octet-stream")) :=
  ⟨(tileHeaders_table t).1, (tileHeaders_table t).2.1, (tileHeaders_table t).2.2.1⟩

example : (tileHeaders ⟨8, -2, 7, 256⟩) = (.names, ⟨"application/jsonl; charset=utf-8", true, immutableCC⟩) := by decide
example : (tileHeaders ⟨8, 3, 7, 12⟩) = (.tile, ⟨"application/octet-stream", false, immutableCC⟩) := by decide
/-- a path that is no tile coordinate gets the default (hash tile) headers: never gzip -/
example : tileOf (ascii "tile/bogus") = ⟨0, 0, 0, 0⟩ ∧ (tileHeaders (tileOf (ascii "tile/bogus"))).2.gzip = false := by decide

end C19
