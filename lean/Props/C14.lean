import Proofs.Witness
/-! C14 — The witness cosigns only one append-only history per log. Property theorems only.

Everything here is about `Witness.addCheckpoint = Witness.run Witness.program` (`Model/Witness.lean`),
for an arbitrary interior hash `node` and empty-tree hash `emptyHash`; collision-freeness of
SHA-256 enters as the hypothesis `Merkle.NodeInj node` of the chain theorem only. `Tie/C14.lean` ties
`Witness.program` to the current source of `witness.go`; `vh witness` + `drv witness` run the real
handler against `addCheckpoint` request by request.

"Cosigned" means: stored in the lock store (`OState.hist`), which contains everything that was
released with a 200 (`released`) and everything that was published (`pub`). A signature computed
for a request whose compare-and-swap did not take effect never leaves `updateCheckpoint`
(`C14_record_before_release`); such messages are still listed in the ghost `signedMsgs`
(`C14_covers_reencoding`).
Outside the model: the byte-level split of a note into text and signature lines, Ed25519/ML-DSA
(symbolic), HTTP, the real lock backends (C05), real concurrency of `l.mu` (sampled by the engine). -/
namespace C14
open Witness Checkpoint

variable (node : Hash → Hash → Hash) (emptyHash : Hash)

/-! ### one chain -/

/-- All tree heads ever stored for an origin — across any requests, instances, store failures
(applied or not), process deaths and restarts — are, in the order they were stored, of
non-decreasing size and pairwise consistent: whatever leaf list opens a later one, its prefix opens
the earlier one. Everything released or published is among them, and the stored value always
stands for the last of them. -/
theorem C14_cosigned_chain (inj : Merkle.NodeInj node) {cfg : Cfg} {o : Bytes} {st : OState}
    (hr : Reachable node emptyHash cfg o st) :
    st.hist.Pairwise (fun a b => a.1 ≤ b.1 ∧
        ∀ B, Opens node emptyHash b B → Opens node emptyHash a (B.take a.1)) ∧
    (∀ c ∈ st.released, c ∈ st.hist) ∧
    (∀ s, st.pub = some s → ∀ k, ckOfNote o s = some k → k ∈ st.hist) ∧
    (∀ k, ckOf emptyHash o st.lock = some k → st.hist.getLast? = some k) := by
  have h := reachable_inv node emptyHash inj hr
  exact ⟨h.chain, h.rel, h.pub, h.last⟩

/-- consistency along the chain is the usual one: two stored tree heads that both have openings
have openings that are prefixes of one another -/
theorem C14_chain_prefix (inj : Merkle.NodeInj node) {cfg : Cfg} {o : Bytes} {st : OState}
    (hr : Reachable node emptyHash cfg o st) (i j : Nat) (hij : i < j) (hj : j < st.hist.length)
    (B : List Hash) (hB : Opens node emptyHash st.hist[j] B) :
    Opens node emptyHash (st.hist[i]'(by omega)) (B.take (st.hist[i]'(by omega)).1) :=
  ((List.pairwise_iff_getElem.1 (C14_cosigned_chain node emptyHash inj hr).1) i j (by omega) hj hij).2 B hB

/-- non-vacuity: the hypotheses are satisfiable and the machine moves (see also the examples at the end) -/
example (cfg : Cfg) (o : Bytes) : Reachable node emptyHash cfg o (OState.init emptyHash) := .init

/-! ### record before release -/

/-- A 200 response is produced only after the compare-and-swap on the lock store took effect and
returned success and the upload took effect and returned success, in this order, as the last
operations of the request; the signatures returned are the witness' lines of exactly the note that
is now the stored value and the published object. -/
theorem C14_record_before_release (e : Env) (st : OState) (sigs : List SigLine)
    (h : (addCheckpoint node emptyHash e st).2 = .ok sigs) :
    ∃ s, e.signed = some s ∧ sigs = ownLines e.cfg s ∧
      (∃ serial, (addCheckpoint node emptyHash e st).1.lock = some (s, serial)) ∧
      (addCheckpoint node emptyHash e st).1.pub = some s ∧
      (addCheckpoint node emptyHash e st).1.hist = st.hist ++ [(e.newSize, e.newHash)] ∧
      e.replaceOut = .ok ∧ e.uploadOut = .ok ∧
      ∃ f, (f = [] ∨ f = [Effect.lockFetch e.inst .ok]) ∧
        (addCheckpoint node emptyHash e st).1.log =
          st.log ++ f ++ [.lockReplace e.inst s true .ok, .upload e.inst s true .ok] := by
  obtain ⟨s', f, hs', hf, hlog⟩ := addCheckpoint_log_ok node emptyHash h
  rcases addCheckpoint_summary node emptyHash e st _ rfl with ⟨_, _, _, _, hno⟩ | ⟨s, ha, h1, h2, _, h3⟩
  · exact absurd h (hno sigs)
  · rcases h3 with ⟨_, hno⟩ | ⟨_, hok, hr, hu, hp⟩
    · exact absurd h (hno sigs)
    · have hss : s' = s := by rw [ha.signed] at hs'; exact (Option.some.inj hs').symm
      subst hss
      rw [hok] at h
      have hsig : sigs = ownLines e.cfg s' := by cases h; rfl
      exact ⟨s', ha.signed, hsig, ⟨_, h1⟩, hp, h2, hr, hu, f, hf, hlog⟩

/-- in particular: no signature when the lock write or the upload did not return success -/
theorem C14_no_release_on_failure (e : Env) (st : OState)
    (h : e.replaceOut ≠ .ok ∨ e.uploadOut ≠ .ok) : ∀ sigs, (addCheckpoint node emptyHash e st).2 ≠ .ok sigs := by
  intro sigs hc
  obtain ⟨_, _, _, _, _, _, hr, hu, _⟩ := C14_record_before_release node emptyHash e st sigs hc
  rcases h with h | h
  · exact h hr
  · exact h hu

/-- a failed or unknown-outcome compare-and-swap drops the cached copy (it is re-fetched next time) -/
theorem C14_cache_dropped (e : Env) (st : OState) (v : LockVal) (s : Note)
    (hc : st.cache e.inst = some v) (hs : e.signed = some s) (hr : e.replaceOut = .errA ∨ e.replaceOut = .errN) :
    (execReplace e st).1.cache e.inst = none ∧ (execReplace e st).2 = .fail := by
  unfold execReplace
  simp only [hc, hs]
  by_cases hv : v = st.lock <;> rcases hr with hr | hr <;> simp [hv, hr, Out.seen, OState.setCache]

/-! ### only with a log signature, the recorded size and a verified proof -/

/-- The lock store is written (a fortiori: a cosignature is returned) only for a well-formed request
for a configured log whose note carries a signature verified under one of that log's keys, whose
checkpoint has no extension lines, whose old size is the size of the tree head *currently in the
lock store*, and whose consistency proof from that tree head verifies (for old size 0: whose proof
is empty). -/
theorem C14_only_with (e : Env) (st : OState)
    (h : (addCheckpoint node emptyHash e st).1.hist ≠ st.hist ∨ ∃ sigs, (addCheckpoint node emptyHash e st).2 = .ok sigs) :
    e.req.body = .ok ∧
    (∃ lc note vs, e.cfg.find e.origin = some lc ∧ e.req.note = .wellformed note ∧
      noteOpen (lc.verifiers.map VKey.verifier) note = .ok vs ∧ vs ≠ [] ∧
      ∀ s ∈ vs, s ∈ note.sigs ∧ ∃ k ∈ lc.verifiers, k.name = s.name ∧ k.hash = s.hash ∧ s.sig = symSig k.key note.text) ∧
    (∃ c, e.ckpt = some c ∧ c.origin = e.origin ∧ c.ext = []) ∧
    (∃ k, openStored emptyHash e.cfg e.origin st.lock = some k ∧ k.1 = e.req.old ∧ e.req.old ≤ e.newSize ∧
      (e.req.old ≠ 0 → Merkle.checkTree node e.req.proof.reverse e.newSize e.newHash k.1 k.2 = true) ∧
      (e.req.old = 0 → e.req.proof = [])) := by
  rcases addCheckpoint_summary node emptyHash e st _ rfl with ⟨_, h2, _, _, hno⟩ | ⟨s, ha, _, _, _, _⟩
  · rcases h with h | ⟨sigs, h⟩
    · exact absurd h2 h
    · exact absurd h (hno sigs)
  · refine ⟨ha.pre.body, ?_, ha.pre.ck, ?_⟩
    · obtain ⟨vs, hvs⟩ := ha.pre.opened
      obtain ⟨lc, hlc⟩ := ha.pre.lc
      unfold Env.opened at hvs
      rw [hlc] at hvs
      cases hn : e.req.note with
      | malformed l => rw [hn] at hvs; cases hvs
      | truncated nt =>
        rw [hn] at hvs
        simp only [] at hvs
        split at hvs <;> cases hvs
      | wellformed note =>
        rw [hn] at hvs
        simp only [] at hvs
        obtain ⟨hne, hall⟩ := noteOpen_sound hvs
        refine ⟨lc, note, vs, hlc, rfl, hvs, hne, ?_⟩
        intro s hs
        obtain ⟨hin, v, hv, h1, h2, h3⟩ := hall s hs
        obtain ⟨k, hk, rfl⟩ := List.mem_map.1 hv
        exact ⟨hin, k, hk, h1, h2, by simpa [VKey.verifier] using h3⟩
    · obtain ⟨k, hk, r1, r2, r3⟩ := ha.known
      exact ⟨k, hk, r1, ha.pre.le, r2, r3⟩

/-! ### cosignatures cover the re-encoding only -/

/-- Whatever the witness keys ever signed (released or not) is the canonical encoding
`origin \n size \n base64(root) \n` of a checkpoint without extension lines, which parses back to
itself; in a 200 response every line is one of the two cosignatures over that text for the
(origin, size, root) parsed from the request, or a verified log signature that carries the witness'
name (none when no log key is named like the witness, as `PullLogList` ensures). -/
theorem C14_covers_reencoding_step (e : Env) (st : OState) :
    ∀ m ∈ (addCheckpoint node emptyHash e st).1.signedMsgs, m ∈ st.signedMsgs ∨
      ((m.1 = e.cfg.k1.key ∨ m.1 = e.cfg.k2.key) ∧
       ∃ c, e.ckpt = some c ∧ c.origin = e.origin ∧
         m.2 = formatCheckpoint { origin := c.origin, n := c.n, hash := c.hash, ext := [] } ∧
         parseCheckpoint m.2 = some { origin := c.origin, n := c.n, hash := c.hash, ext := [] }) := by
  intro m hm
  rcases addCheckpoint_signedMsgs node emptyHash e st with h | ⟨s, hs, hpre, h⟩
  · left; rwa [h] at hm
  · rw [h] at hm
    rcases List.mem_append.1 hm with hin | hin
    · left; exact hin
    · right
      obtain ⟨c, hc, hco, _⟩ := hpre.ck
      have htext : s.text = formatCheckpoint { origin := c.origin, n := c.n, hash := c.hash, ext := [] } := by
        unfold Env.signed at hs
        cases ho : e.opened with
        | error x => rw [ho] at hs; cases hs
        | ok sigs =>
          rw [ho] at hs
          simp only [Env.reCkpt, hc, Option.map_some] at hs
          split at hs
          · simp only [Option.some.injEq] at hs; subst hs; rfl
          · cases hs
      have hp := signed_parse hs hc
      simp only [List.mem_cons, List.mem_nil_iff, or_false] at hin
      rcases hin with rfl | rfl
      · exact ⟨Or.inl rfl, c, hc, hco, htext, hp⟩
      · exact ⟨Or.inr rfl, c, hc, hco, htext, hp⟩

theorem C14_covers_reencoding {cfg : Cfg} {o : Bytes} {st : OState} (hr : Reachable node emptyHash cfg o st) :
    ∀ m ∈ st.signedMsgs, (m.1 = cfg.k1.key ∨ m.1 = cfg.k2.key) ∧
      ∃ c : Checkpoint, c.origin = o ∧ c.ext = [] ∧ m.2 = formatCheckpoint c ∧ parseCheckpoint m.2 = some c := by
  induction hr with
  | init => intro m hm; simp [OState.init] at hm
  | add e st _ hcfg ho ih =>
    intro m hm
    rcases C14_covers_reencoding_step node emptyHash e st m hm with h | ⟨hk, c, hc, hco, h1, h2⟩
    · exact ih m h
    · subst hcfg
      exact ⟨hk, { origin := c.origin, n := c.n, hash := c.hash, ext := [] }, hco.trans ho, rfl, h1, h2⟩
  | restart i st _ ih => exact ih

/-- the lines of a 200 response -/
theorem C14_response_lines (e : Env) (st : OState) (sigs : List SigLine)
    (h : (addCheckpoint node emptyHash e st).2 = .ok sigs) :
    ∃ c vs, e.ckpt = some c ∧ e.opened = .ok vs ∧
      ∀ l ∈ sigs,
        l = e.cfg.k1.sign (formatCheckpoint { origin := c.origin, n := c.n, hash := c.hash, ext := [] }) ∨
        l = e.cfg.k2.sign (formatCheckpoint { origin := c.origin, n := c.n, hash := c.hash, ext := [] }) ∨
        (l ∈ vs ∧ l.name = e.cfg.k1.name) := by
  obtain ⟨s, hs, hsig, _⟩ := C14_record_before_release node emptyHash e st sigs h
  unfold Env.signed at hs
  cases ho : e.opened with
  | error x => rw [ho] at hs; cases hs
  | ok vs =>
    rw [ho] at hs
    cases hc : e.ckpt with
    | none => simp [Env.reCkpt, hc] at hs
    | some c =>
      simp only [Env.reCkpt, hc, Option.map_some] at hs
      split at hs
      · simp only [Option.some.injEq] at hs
        refine ⟨c, vs, rfl, rfl, ?_⟩
        intro l hl
        rw [hsig, ← hs] at hl
        simp only [ownLines, List.mem_filter, List.mem_append, List.mem_cons, List.mem_nil_iff, or_false,
          beq_iff_eq] at hl
        obtain ⟨hmem, hname⟩ := hl
        rcases hmem with ⟨hin, _⟩ | rfl | rfl
        · exact Or.inr (Or.inr ⟨hin, hname⟩)
        · exact Or.inl rfl
        · exact Or.inr (Or.inl rfl)
      · cases hs

/-! ### the protocol's answers -/

/-- the status codes of the error classes (`serveAddCheckpoint`'s switch) -/
theorem C14_status_codes :
    ErrClass.unknownLog.status = 404 ∧ ErrClass.invalidSignature.status = 403 ∧ ErrClass.conflict.status = 409 ∧
    ErrClass.proof.status = 422 ∧ ErrClass.badRequest.status = 400 ∧ ErrClass.badCheckpoint.status = 400 ∧
    ErrClass.extensions.status = 400 ∧ ErrClass.internal.status = 500 := by decide

/-- Refusals decided before the recorded tree head is consulted, in the order the checks are made:
malformed body 400; unknown log 404; no verified / an invalid log signature 403; other note errors
400; unparsable checkpoint 400; extension lines 400; old size beyond the new size 400; a size-0
tree with a non-empty root 422. None of them touches the state. -/
theorem C14_status_parse (e : Env) (st : OState) :
    (e.req.body ≠ .ok → addCheckpoint node emptyHash e st = (st, .err .badRequest 0)) ∧
    (e.req.body = .ok → e.logCfg = none → addCheckpoint node emptyHash e st = (st, .err .unknownLog 0)) ∧
    (e.req.body = .ok → e.logCfg ≠ none → (e.opened = .error .unverified ∨ e.opened = .error .invalidSignature) →
      addCheckpoint node emptyHash e st = (st, .err .invalidSignature 0)) ∧
    (e.req.body = .ok → e.logCfg ≠ none → ∀ x, e.opened = .error x → x ≠ .unverified → x ≠ .invalidSignature →
      addCheckpoint node emptyHash e st = (st, .err .badRequest 0)) ∧
    (e.req.body = .ok → e.logCfg ≠ none → ∀ vs, e.opened = .ok vs → e.ckpt = none →
      addCheckpoint node emptyHash e st = (st, .err .badCheckpoint 0)) ∧
    (e.req.body = .ok → e.logCfg ≠ none → ∀ vs c, e.opened = .ok vs → e.ckpt = some c → c.origin = e.origin →
      (c.ext ≠ [] → addCheckpoint node emptyHash e st = (st, .err .extensions 0)) ∧
      (c.ext = [] → e.newSize < e.req.old → addCheckpoint node emptyHash e st = (st, .err .badRequest 0)) ∧
      (c.ext = [] → e.req.old ≤ e.newSize → e.newSize = 0 → e.newHash ≠ emptyHash →
        addCheckpoint node emptyHash e st = (st, .err .proof 0))) := by
  refine ⟨?_, ?_, ?_, ?_, ?_, ?_⟩
  · intro hb
    exact resp_of_pre node emptyHash (by rw [pre_eval]; simp [hb])
  · intro hb hl
    exact resp_of_pre node emptyHash (by rw [pre_eval]; simp [hb, hl])
  · intro hb hl ho
    refine resp_of_pre node emptyHash ?_
    rw [pre_eval]
    rcases ho with ho | ho <;> simp [hb, hl, ho]
  · intro hb hl x ho h1 h2
    refine resp_of_pre node emptyHash ?_
    rw [pre_eval]
    cases x <;> simp_all
  · intro hb hl vs ho hc
    exact resp_of_pre node emptyHash (by rw [pre_eval]; simp [hb, hl, ho, hc])
  · intro hb hl vs c ho hc hco
    refine ⟨?_, ?_, ?_⟩
    · intro he
      exact resp_of_pre node emptyHash (by rw [pre_eval]; simp [hb, hl, ho, hc, hco, he])
    · intro he hlt
      exact resp_of_pre node emptyHash (by rw [pre_eval]; simp [hb, hl, ho, hc, hco, he, hlt])
    · intro he hle h0 hne
      refine resp_of_pre node emptyHash ?_
      rw [pre_eval]
      have h00 : e.req.old = 0 := by omega
      simp [hb, hl, ho, hc, hco, he, h00, h0, hne]

/-- Once those checks have passed and the instance has a view `v` of the recorded tree head
(`View`: its cached copy, or the stored value freshly fetched) that opens as `k`:
an old size different from the recorded size is answered 409 **with the recorded size**; otherwise a
proof that does not verify (for old size 0: a non-empty proof) is answered 422. Nothing is stored. -/
theorem C14_status_recorded (e : Env) (st : OState) (v : LockVal) (k : Nat × Hash)
    (hpre : PreFacts emptyHash e) (hv : View e st v) (hk : openStored emptyHash e.cfg e.origin v = some k) :
    (k.1 ≠ e.req.old → (addCheckpoint node emptyHash e st).2 = .err .conflict k.1 ∧
      (addCheckpoint node emptyHash e st).1.lock = st.lock ∧ (addCheckpoint node emptyHash e st).1.hist = st.hist) ∧
    (k.1 = e.req.old → e.req.old ≠ 0 →
      Merkle.checkTree node e.req.proof.reverse e.newSize e.newHash k.1 k.2 = false →
      (addCheckpoint node emptyHash e st).2 = .err .proof 0 ∧
      (addCheckpoint node emptyHash e st).1.lock = st.lock ∧ (addCheckpoint node emptyHash e st).1.hist = st.hist) ∧
    (k.1 = e.req.old → e.req.old = 0 → e.req.proof ≠ [] →
      (addCheckpoint node emptyHash e st).2 = .err .proof 0 ∧
      (addCheckpoint node emptyHash e st).1.lock = st.lock ∧ (addCheckpoint node emptyHash e st).1.hist = st.hist) := by
  obtain ⟨st1, hf, hkn, _, hl1⟩ := execFetch_view emptyHash hv hk
  have hcore := execFetch_core emptyHash e st
  rw [hf] at hcore
  have hh1 : st1.hist = st.hist := hcore.2.1
  have h1 := pre_none_of_facts node emptyHash st hpre
  refine ⟨?_, ?_, ?_⟩
  · intro hne
    rw [resp_of_mid node emptyHash h1 hf (r := .err .conflict k.1) (by rw [mid_eval, hkn]; simp [hne])]
    exact ⟨rfl, hl1, hh1⟩
  · intro heq h0 hct
    rw [resp_of_mid node emptyHash h1 hf (r := .err .proof 0) (by
      rw [mid_eval, hkn]; rw [heq] at hct; simp [heq, h0, hct])]
    exact ⟨rfl, hl1, hh1⟩
  · intro heq h0 hp
    rw [resp_of_mid node emptyHash h1 hf (r := .err .proof 0) (by
      rw [mid_eval, hkn]
      have : e.req.proof.isEmpty = false := by cases hpp : e.req.proof <;> simp_all
      simp [heq, h0, this])]
    exact ⟨rfl, hl1, hh1⟩

/-- …and when everything holds and the stores work, the answer is 200 with the witness' lines of the
signed re-encoding (the model is not vacuously safe). -/
theorem C14_status_ok (e : Env) (st : OState) (k : Nat × Hash) (s : Note)
    (hpre : PreFacts emptyHash e) (hv : View e st st.lock) (hk : openStored emptyHash e.cfg e.origin st.lock = some k)
    (hold : k.1 = e.req.old)
    (hproof : if e.req.old ≠ 0 then Merkle.checkTree node e.req.proof.reverse e.newSize e.newHash k.1 k.2 = true
              else e.req.proof = [])
    (hs : e.signed = some s) (hr : e.replaceOut = .ok) (hu : e.uploadOut = .ok) :
    (addCheckpoint node emptyHash e st).2 = .ok (ownLines e.cfg s) := by
  obtain ⟨st1, hf, hkn, hcache, hlock⟩ := execFetch_view emptyHash hv hk
  have h1 := pre_none_of_facts node emptyHash st hpre
  have h3 : firstFail node emptyHash mid e st1 = none := by
    rw [mid_eval, hkn]
    by_cases h0 : e.req.old = 0
    · simp only [h0, ne_eq, not_true_eq_false, if_false] at hproof
      simp [hold, h0, hproof, hs]
    · simp only [ne_eq, h0, not_false_eq_true, if_true] at hproof
      rw [hold] at hproof
      simp [hold, h0, hproof, hs]
  rw [addCheckpoint_nf, h1]
  simp only [hf, afterFetch, h3, afterMid]
  have h4 : execReplace e st1 = (({ st1 with
        log := st1.log ++ [.lockReplace e.inst s true .ok]
        signedMsgs := st1.signedMsgs ++ [(e.cfg.k1.key, s.text), (e.cfg.k2.key, s.text)]
        lock := some (s, st1.signedMsgs.length)
        hist := st1.hist ++ [(e.newSize, e.newHash)] } : OState).setCache e.inst (some (some (s, st1.signedMsgs.length))), .pass) := by
    unfold execReplace
    simp [hcache, hs, hlock, hr, Out.applied, Out.seen]
  rw [h4]
  simp only [afterUpload]
  unfold execUpload
  simp [hs, hu, Out.applied, Out.seen, finish]

/-! ### a fork is refused -/

/-- If the new tree head has an opening whose prefix does NOT open the recorded tree head — the
submitted checkpoint is a fork of what the witness has on record at the same old size — the
answer is 422, whatever proof is supplied, and nothing is stored. -/
theorem C14_fork_refused (inj : Merkle.NodeInj node) (e : Env) (st : OState) (v : LockVal) (k : Nat × Hash)
    (hpre : PreFacts emptyHash e) (hv : View e st v) (hk : openStored emptyHash e.cfg e.origin v = some k)
    (hold : k.1 = e.req.old) (h0 : e.req.old ≠ 0)
    (hfork : ∃ B, Opens node emptyHash (e.newSize, e.newHash) B ∧ Merkle.mth node emptyHash (B.take k.1) ≠ k.2) :
    (addCheckpoint node emptyHash e st).2 = .err .proof 0 ∧
    (addCheckpoint node emptyHash e st).1.hist = st.hist ∧ (addCheckpoint node emptyHash e st).1.lock = st.lock := by
  have hct : Merkle.checkTree node e.req.proof.reverse e.newSize e.newHash k.1 k.2 = false := by
    cases hc : Merkle.checkTree node e.req.proof.reverse e.newSize e.newHash k.1 k.2
    · rfl
    · obtain ⟨B, ⟨hl, hm⟩, hne⟩ := hfork
      exact absurd (Merkle.checkTree_sound node emptyHash inj _ _ _ _ _ hc B hl hm) hne
  obtain ⟨a, b, c⟩ := (C14_status_recorded node emptyHash e st v k hpre hv hk).2.1 hold h0 hct
  exact ⟨a, c, b⟩

/-! ### non-vacuity -/
namespace Example

/-- an injective interior hash on byte strings: the length of the left child in unary, then both children -/
def pairNode (a b : Hash) : Hash := List.replicate a.length 1 ++ 0 :: (a ++ b)

theorem replicate_sep {m n : Nat} {x y : Bytes}
    (h : List.replicate m (1 : UInt8) ++ 0 :: x = List.replicate n 1 ++ 0 :: y) : m = n ∧ x = y := by
  induction m generalizing n with
  | zero =>
    cases n with
    | zero => simpa using h
    | succ n => simp [List.replicate_succ] at h
  | succ m ih =>
    cases n with
    | zero => simp [List.replicate_succ] at h
    | succ n =>
      simp only [List.replicate_succ, List.cons_append, List.cons.injEq, true_and] at h
      obtain ⟨h1, h2⟩ := ih h
      exact ⟨by omega, h2⟩

/-- the collision-freeness hypothesis of the chain theorem is satisfiable -/
theorem pairNode_inj : Merkle.NodeInj pairNode := by
  intro a b c d h
  obtain ⟨hl, hx⟩ := replicate_sep h
  exact List.append_inj hx hl

/-- a 32-byte "hash" for executable examples (not injective; the examples only run the machine) -/
def nodeE (a b : Hash) : Hash := a.take 16 ++ b.take 16
def emptyE : Hash := List.replicate 32 0

def k1 : VKey := ⟨[119], 1, 0⟩
def k2 : VKey := ⟨[119], 2, 1⟩
def logKey : VKey := ⟨[111], 3, 2⟩
def cfg : Cfg := { k1 := k1, k2 := k2, mirror := none, logs := [⟨[111], [logKey]⟩] }

def leaf0 : Hash := List.replicate 32 7
def leaf1 : Hash := List.replicate 32 9
def leaf0' : Hash := List.replicate 32 8

def text (n : Int) (root : Hash) : Bytes := formatCheckpoint { origin := [111], n := n, hash := root, ext := [] }
def signedBy (k : VKey) (t : Bytes) : NoteForm := .wellformed { text := t, sigs := [k.sign t] }
def env (old : Nat) (proof : List Hash) (note : NoteForm) : Env :=
  { cfg := cfg, inst := 0, req := { body := .ok, old := old, proof := proof, note := note },
    fetchOut := .ok, replaceOut := .ok, uploadOut := .ok }

/-- the log's first checkpoint (size 1) … -/
def env1 : Env := env 0 [] (signedBy logKey (text 1 leaf0))
/-- … its extension to size 2 with the consistency proof `[leaf1]` … -/
def env2 : Env := env 1 [leaf1] (signedBy logKey (text 2 (nodeE leaf0 leaf1)))
/-- … and a fork of size 2 whose first leaf differs, with the same proof -/
def envFork : Env := env 1 [leaf1] (signedBy logKey (text 2 (nodeE leaf0' leaf1)))

def st1 : OState := (addCheckpoint nodeE emptyE env1 (OState.init emptyE)).1
def st2 : OState := (addCheckpoint nodeE emptyE env2 st1).1

set_option maxRecDepth 100000

example : (addCheckpoint nodeE emptyE env1 (OState.init emptyE)).2 =
    .ok [k1.sign (text 1 leaf0), k2.sign (text 1 leaf0)] := by decide

example : (addCheckpoint nodeE emptyE env2 st1).2 =
    .ok [k1.sign (text 2 (nodeE leaf0 leaf1)), k2.sign (text 2 (nodeE leaf0 leaf1))] := by decide

/-- the reachable state after both: a chain of three tree heads -/
example : Reachable nodeE emptyE cfg [111] st2 ∧
    st2.hist = [(0, emptyE), (1, leaf0), (2, nodeE leaf0 leaf1)] ∧ st2.released = [(1, leaf0), (2, nodeE leaf0 leaf1)] :=
  ⟨.add env2 st1 (.add env1 _ .init rfl (by decide)) rfl (by decide), by decide, by decide⟩

/-- the fork is refused with 422 and nothing is stored; so is the honest extension with a wrong proof,
an unsigned checkpoint gets 403, a stale old size 409 with the recorded size -/
example : (addCheckpoint nodeE emptyE envFork st1).2 = .err .proof 0 ∧
    (addCheckpoint nodeE emptyE envFork st1).1.hist = st1.hist := by decide

example : (addCheckpoint nodeE emptyE (env 1 [leaf0] (signedBy logKey (text 2 (nodeE leaf0 leaf1)))) st1).2 =
    .err .proof 0 := by decide

example : (addCheckpoint nodeE emptyE (env 1 [leaf1] (signedBy k1 (text 2 (nodeE leaf0 leaf1)))) st1).2 =
    .err .invalidSignature 0 := by decide

example : (addCheckpoint nodeE emptyE (env 0 [] (signedBy logKey (text 2 (nodeE leaf0' leaf1)))) st1).2 =
    .err .conflict 1 := by decide

/-- a lock write that takes effect but reports an error releases nothing and drops the cached copy;
the retry is answered 409 with the size that was recorded -/
example :
    let e := { env2 with replaceOut := .errA }
    (addCheckpoint nodeE emptyE e st1).2 = .err .internal 0 ∧
    (addCheckpoint nodeE emptyE e st1).1.hist = [(0, emptyE), (1, leaf0), (2, nodeE leaf0 leaf1)] ∧
    (addCheckpoint nodeE emptyE e st1).1.cache 0 = none ∧
    (addCheckpoint nodeE emptyE env2 (addCheckpoint nodeE emptyE e st1).1).2 = .err .conflict 2 := by decide

end Example
end C14
