import Proofs.Leaf
import Proofs.TilePath
/-!
# C10 — tile, leaf, extension and tile-path encodings are canonical bijections

Property theorems only (lemmas are in `Proofs/`). They are about the definitions of `Model/Codec.lean`,
`Model/Tls.lean` and `Model/TilePath.lean`, the same definitions `drv codec` executes against the real code and
whose field schemas `Tie/C10.lean` compares with /repo's source on every run.
Every statement is for ALL byte strings / entries / indexes / tiles; nothing is bounded.
-/
namespace C10
open Codec TilePath

/-! ## sample values for the non-vacuity examples -/

def fp (b : UInt8) : Bytes := List.replicate 32 b

def sampleX509 : LogEntry :=
  { certificate := [0x30, 0x03, 1, 2, 3], isPrecert := false, issuerKeyHash := zeros32, chainFingerprints := [fp 1, fp 2],
    preCertificate := [], leafIndex := 1099511627775, archival := false, timestamp := 9223372036854775807 }

def samplePrecert : LogEntry :=
  { certificate := [0x30, 0x00], isPrecert := true, issuerKeyHash := fp 7, chainFingerprints := [],
    preCertificate := [0x30, 0x01, 0xff], leafIndex := 0, archival := true, timestamp := 0 }

/-! ## 1. round trip -/

/-- `C10_leaf_roundtrip`: every entry within the documented limits (`WF`) is encoded without panic, appended after
whatever the tile already holds, and both readers give back exactly the entry and the bytes that followed it
(`ReadTileLeaf` only for entries that carry a leaf index). -/
theorem leaf_roundtrip (e : LogEntry) (t0 rest : Bytes) (wf : WF e) :
    ∃ body, appendTileLeaf t0 e = some (t0 ++ body) ∧
      readTileLeaf (body ++ rest) = .ok (e, rest) ∧
      (e.archival = false → readTileLeafStrict (body ++ rest) = .ok (e, rest)) := by
  obtain ⟨body, h1, h2⟩ := Codec.leaf_roundtrip e t0 rest wf
  refine ⟨body, h1, h2, ?_⟩
  intro ha
  simp [readTileLeafStrict, h2, ha]

example : WF sampleX509 ∧ WF samplePrecert := by decide
example : ∃ b, appendTileLeaf [9] sampleX509 = some ([9] ++ b) ∧ readTileLeafStrict (b ++ [7, 7]) = .ok (sampleX509, [7, 7]) :=
  let ⟨b, h1, _, h3⟩ := leaf_roundtrip sampleX509 [9] [7, 7] (by decide); ⟨b, h1, h3 rfl⟩
example : (appendTileLeaf [] samplePrecert).map List.length = some 57 := by decide

/-- `C10_encoder_domain`: the encoder panics exactly outside `Encodable` (sizes that do not fit their length prefix,
index outside 40 bits); `WF` entries are encodable. -/
theorem encoder_domain (t : Bytes) (e : LogEntry) : appendTileLeaf t e ≠ none ↔ Encodable e :=
  Codec.append_ne_none_iff t e

example : appendTileLeaf [] { sampleX509 with leafIndex := 1099511627776 } = none := by decide
example : ¬ Encodable { sampleX509 with chainFingerprints := List.replicate 2048 (fp 0) } := by
  intro h
  have h2 : (List.replicate 2048 (fp 0)).flatten.length < 65536 := h.2.1
  rw [flatten_length_32 _ (by intro f hf; rw [List.eq_of_mem_replicate hf]; rfl), List.length_replicate] at h2
  omega
example : Encodable { sampleX509 with chainFingerprints := List.replicate 2047 (fp 0) } := by
  refine ⟨by decide, ?_, by decide, by decide⟩
  show (List.replicate 2047 (fp 0)).flatten.length < 65536
  rw [flatten_length_32 _ (by intro f hf; rw [List.eq_of_mem_replicate hf]; rfl), List.length_replicate]
  omega

/-! ## 2. canonicity and totality -/

/-- `C10_leaf_canonical`: whenever the (lenient) reader accepts a byte string, re-encoding the returned entry gives
back exactly the consumed prefix, and the entry is within the documented limits. -/
theorem leaf_canonical (bs : Bytes) (e : LogEntry) (rest : Bytes) (h : readTileLeaf bs = .ok (e, rest)) :
    ∃ pre, appendTileLeaf [] e = some pre ∧ pre ++ rest = bs ∧ WF e :=
  Codec.leaf_canonical bs e rest h

/-- the same for `ReadTileLeaf`, which additionally never returns an archival leaf -/
theorem leaf_canonical_strict (bs : Bytes) (e : LogEntry) (rest : Bytes) (h : readTileLeafStrict bs = .ok (e, rest)) :
    ∃ pre, appendTileLeaf [] e = some pre ∧ pre ++ rest = bs ∧ WF e ∧ e.archival = false := by
  unfold readTileLeafStrict at h
  cases hr : readTileLeaf bs with
  | error err => rw [hr] at h; cases h
  | ok p =>
    obtain ⟨e', r'⟩ := p
    rw [hr] at h
    simp only at h
    split at h
    · cases h
    · rename_i ha
      simp only [Except.ok.injEq, Prod.mk.injEq] at h
      obtain ⟨rfl, rfl⟩ := h
      obtain ⟨pre, h1, h2, h3⟩ := Codec.leaf_canonical bs e' r' hr
      exact ⟨pre, h1, h2, h3, by simpa using ha⟩

/-- `C10_decode_total`: on every byte string the decoder (a total function: no panic path exists in the schema
interpreter) either reports one of its six error classes or consumes a prefix that re-encodes to the same bytes. -/
theorem decode_total (bs : Bytes) :
    (∃ err, readTileLeaf bs = .error err) ∨
    (∃ e rest pre, readTileLeaf bs = .ok (e, rest) ∧ appendTileLeaf [] e = some pre ∧ pre ++ rest = bs ∧ WF e) := by
  cases h : readTileLeaf bs with
  | error err => exact Or.inl ⟨err, rfl⟩
  | ok p =>
    obtain ⟨e, rest⟩ := p
    obtain ⟨pre, h1, h2, h3⟩ := Codec.leaf_canonical bs e rest h
    exact Or.inr ⟨e, rest, pre, rfl, h1, h2, h3⟩

-- both outcomes occur; the strict extension parsing rejects a second extension, a wrong type, a 6-byte index
example : readTileLeaf [] = .error .header := by decide
example : readTileLeaf ([0x80, 0, 0, 0, 0, 0, 0, 0] ++ [0, 0] ++ [0, 0, 0] ++ [0, 0] ++ [0, 0]) = .error .header := by decide
example : readTileLeaf ([0, 0, 0, 0, 0, 0, 0, 1] ++ [0, 2]) = .error .unknownType := by decide
example : readTileLeaf ([0, 0, 0, 0, 0, 0, 0, 1] ++ [0, 0] ++ [0, 0, 0] ++ [0, 0] ++ [0, 0] ++ [5]) =
    .ok ({ certificate := [], isPrecert := false, issuerKeyHash := zeros32, chainFingerprints := [], preCertificate := [],
           leafIndex := 0, archival := true, timestamp := 1 }, [5]) := by decide
example : readTileLeaf ([0, 0, 0, 0, 0, 0, 0, 1] ++ [0, 0] ++ [0, 0, 0] ++ [0, 9, 0, 0, 6, 1, 2, 3, 4, 5, 6] ++ [0, 0]) =
    .error .extensions := by decide
example : readTileLeaf ([0, 0, 0, 0, 0, 0, 0, 1] ++ [0, 0] ++ [0, 0, 0] ++ [0, 8, 1, 0, 5, 1, 2, 3, 4, 5] ++ [0, 0]) =
    .error .extensions := by decide
example : readTileLeaf ([0, 0, 0, 0, 0, 0, 0, 1] ++ [0, 0] ++ [0, 0, 0] ++ [0, 9, 0, 0, 5, 1, 2, 3, 4, 5, 0] ++ [0, 0]) =
    .error .extensions := by decide
example : readTileLeaf ([0, 0, 0, 0, 0, 0, 0, 1] ++ [0, 0] ++ [0, 0, 0] ++ [0, 0] ++ [0, 1, 9]) = .error .fingerprints := by decide

/-! ## 3. MerkleTreeLeaf -/

/-- `C10_mtl_spec`: whenever `MerkleTreeLeaf()` returns (does not panic), its bytes are the RFC 6962 §3.4
`MerkleTreeLeaf` structure serialised by the independent TLS presentation-language encoder of `Model/Tls.lean`. -/
theorem mtl_spec (e : LogEntry) (bs : Bytes) (h : merkleTreeLeaf e = some bs) :
    bs = (MerkleTreeLeaf.ofEntry e).encode :=
  Codec.mtl_spec e bs h

/-- … and it does return on every entry within the limits. -/
theorem mtl_total (e : LogEntry) (wf : WF e) : ∃ bs, merkleTreeLeaf e = some bs :=
  let ⟨bs, _, h, _⟩ := Codec.mtl_view e wf; ⟨bs, h⟩

example : merkleTreeLeaf sampleX509 = some ((MerkleTreeLeaf.ofEntry sampleX509).encode) := by decide
example : (merkleTreeLeaf samplePrecert).map List.length = some 51 := by decide

/-- `C10_mtl_inj`: the Merkle leaf determines timestamp, entry type, certificate, issuer key hash (precerts), whether
the leaf is archival and the leaf index. (Hash collision-freeness then lifts this to leaf hashes; used by C12.) -/
theorem mtl_inj (e e' : LogEntry) (wf : WF e) (wf' : WF e') (h : merkleTreeLeaf e = merkleTreeLeaf e') :
    covered e = covered e' :=
  Codec.mtl_inj e e' wf wf' h

example : merkleTreeLeaf sampleX509 ≠ merkleTreeLeaf { sampleX509 with leafIndex := 5 } := by decide
-- fields the Merkle leaf does NOT cover: the chain fingerprints and the pre-certificate
example : merkleTreeLeaf sampleX509 = merkleTreeLeaf { sampleX509 with chainFingerprints := [] } := by decide

/-! ## 4. the leaf_index extension -/

/-- `C10_ext_roundtrip`: all 40-bit indexes round-trip … -/
theorem ext_roundtrip (i : Int) (h0 : 0 ≤ i) (h1 : i < 1099511627776) :
    ∃ bs, marshalExtensions i = some bs ∧ parseExtensions bs = .ok i := by
  refine ⟨_, marshalExtensions_eq h0 h1, ?_⟩
  have := parseExtensions_index i.toNat (by omega) []
  rw [List.append_nil] at this
  rw [this, Int.ofNat_eq_natCast, Int.toNat_of_nonneg h0]

/-- … and everything else is refused by the encoder. -/
theorem ext_refused (i : Int) (h : i < 0 ∨ 1099511627776 ≤ i) : marshalExtensions i = none :=
  marshalExtensions_none h

example : marshalExtensions 1099511627775 = some [0, 0, 5, 0xff, 0xff, 0xff, 0xff, 0xff] := by decide
example : parseExtensions [0, 0, 5, 0xff, 0xff, 0xff, 0xff, 0xff] = .ok 1099511627775 := by decide
example : marshalExtensions (-1) = none ∧ marshalExtensions 1099511627776 = none := by decide

/-- What the code does beyond the round trip (modelled as it is, not as the spec reads): `ParseExtensions`
is deliberately NOT canonical — it skips extensions of unknown type and does not look at anything after the
first leaf_index extension. (The strict form lives in `readTileLeaf`, see `leaf_canonical`.) -/
theorem ext_parser_lenient (n : Nat) (h : n < 1099511627776) (ty : UInt8) (hty : ty ≠ 0) (data junk : Bytes)
    (hlen : data.length < 65536) :
    parseExtensions (ty :: toBE 2 data.length ++ data ++ (0 :: 0 :: 5 :: toBE 5 n ++ junk)) = .ok (Int.ofNat n) := by
  rw [parseExtensions_skip ty data _ hty hlen, parseExtensions_index n h junk]

example : parseExtensions ([7, 0, 1, 9] ++ [0, 0, 5, 0, 0, 0, 0, 42] ++ [1, 2, 3]) = .ok 42 := by decide
example : parseExtensions [7, 0, 1, 9] = .error .missing := by decide
example : parseExtensions [0, 0, 4, 0, 0, 0, 42] = .error .leafIndex := by decide

/-! ## 5. tile paths -/

/-- `C10_path_roundtrip`: every height-8 tile with level ≥ -2 (hash ≥ 0, data -1, names -2), 0 ≤ N < 2^63 and
1 ≤ W ≤ 256 has a path, and the parser gives the tile back. -/
theorem path_roundtrip (t : Tile) (h : TileDom t) : ∃ p, sunlightPath t = some p ∧ sunlightParse p = some t :=
  sunlight_roundtrip t h

/-- `C10_path_canonical`: every string the parser accepts is exactly the path of the tile it returns, and that tile
is in the domain: no second spelling of a tile is accepted (leading zeros, `+`, `.p/256`, overflowing N, …). -/
theorem path_canonical (p : Bytes) (t : Tile) (h : sunlightParse p = some t) : sunlightPath t = some p ∧ TileDom t :=
  sunlight_canonical p t h

/-- consequently the parser is injective -/
theorem path_parse_inj (p q : Bytes) (t : Tile) (hp : sunlightParse p = some t) (hq : sunlightParse q = some t) : p = q := by
  have h1 := (path_canonical p t hp).1
  have h2 := (path_canonical q t hq).1
  rw [h1] at h2
  exact Option.some.inj h2

example : TileDom { H := 8, L := -2, N := 1234067, W := 8 } := by decide
example : sunlightPath { H := 8, L := -2, N := 1234067, W := 8 } = some (ascii "tile/names/x001/x234/067.p/8") := by decide
example : sunlightParse (ascii "tile/data/x001/000") = some { H := 8, L := -1, N := 1000, W := 256 } := by decide
example : sunlightParse (ascii "tile/0/x001/x000") = none := by decide          -- last element must not carry `x`
example : sunlightParse (ascii "tile/0/000.p/256") = none := by decide          -- a full tile is never spelled partial
example : sunlightParse (ascii "tile/+0/000") = none := by decide
example : sunlightParse (ascii "tile/0/x009/x223/x372/x036/x854/x775/808") = none := by decide   -- N = 2^63 wraps
example : sunlightPath { H := 7, L := 0, N := 0, W := 128 } = none := by decide  -- the documented panic

end C10
