import Proofs.SkylightHealth
/-! C20 — The health endpoint is green only for fresh, valid, consistent state. Property theorems only.

About `Skylight.Health.status` / `lines` (`Model/Skylight.lean`): the status and body of `/health` as a
function of, for every configured entry, which of the conditions tested by `checkLog`,
`loadVerifiers`/`hashes` and `witnessHealth.check` hold. For all configurations (any number of logs,
witnesses, mirrors, log directories per witness) and all truth assignments.

Outside the model: that each condition of the model is what the corresponding Go call decides
(`note.Open`, `ParseCheckpoint`, the verifying tile reader, `time.Since`…): tied by the regenerated
condition list (`Tie/C20.lean`) and exercised by `vh health` on the built binary. -/
namespace C20
open Skylight.Health

/-- every condition that applies to the log holds -/
def logAllHold (e : LogEntry) : Prop := ∀ k ∈ LogCond.applicable e.past, e.holds k = true

/-- **200 ⇔ all conditions of all non-staging entries.** -/
theorem C20_ok_iff (c : Config) :
    status c = 200 ↔
      (∀ e ∈ c.logs, e.staging = false → logAllHold e) ∧ (∀ w ∈ c.wits, w.staging = false → w.allHold) := by
  rw [status_200_iff]
  constructor
  · intro h
    have hn : ¬ ((lines c).any (·.2.isFailed) = true) := by rw [h]; simp
    rw [lines_any_failed] at hn
    constructor
    · intro e he hs k hk
      cases hv : e.holds k with
      | true => rfl
      | false => exact absurd (Or.inl ⟨e, he, (logLine_failed_iff e).mpr ⟨hs, k, hk, hv⟩⟩) hn
    · intro w hw hs
      apply Classical.byContradiction
      intro hna
      exact hn (Or.inr ⟨w, hw, (witLines_failed_iff w).mpr ⟨hs, hna⟩⟩)
  · rintro ⟨hl, hw⟩
    cases hv : (lines c).any (·.2.isFailed) with
    | false => rfl
    | true =>
      exfalso
      rcases (lines_any_failed c).mp hv with ⟨e, he, hf⟩ | ⟨w, hwm, hf⟩
      · obtain ⟨hs, k, hk, hkf⟩ := (logLine_failed_iff e).mp hf
        rw [hl e he hs k hk] at hkf; cases hkf
      · obtain ⟨hs, hna⟩ := (witLines_failed_iff w).mp hf
        exact hna (hw w hwm hs)

/-- a healthy pair of logs (one active, one read-only), a witness and its mirror -/
def good : Config where
  logs := [⟨"rome2026h1", false, false, fun _ => true⟩, ⟨"rome2020", false, true, fun _ => true⟩]
  wits := [⟨false, false, fun _ => true, [⟨"00ab", "example.com/log", fun _ => true⟩]⟩,
           ⟨true, false, fun _ => true, [⟨"00ab", "example.com/log", fun _ => true⟩]⟩]

example : status good = 200 ∧ lines good =
    [("rome2026h1", .ok), ("rome2020", .readOnly), ("witness example.com/log", .ok), ("mirror example.com/log", .ok)] := by decide

theorem mem_lines_log {c : Config} {e : LogEntry} (he : e ∈ c.logs) : logLine e ∈ lines c := by
  unfold lines
  exact List.mem_append.mpr (Or.inl (List.mem_map.mpr ⟨e, he, rfl⟩))

theorem mem_lines_wit {c : Config} {w : WitEntry} {ln : Line} (hw : w ∈ c.wits) (h : ln ∈ witLines w) : ln ∈ lines c := by
  unfold lines
  exact List.mem_append.mpr (Or.inr (List.mem_flatMap.mpr ⟨w, hw, h⟩))

theorem status_500_of_failed {c : Config} {ln : Line} (h : ln ∈ lines c) (hf : ln.2.isFailed = true) : status c = 500 := by
  unfold status
  rw [if_pos]
  exact List.any_eq_true.mpr ⟨ln, h, hf⟩

/-- **Each condition of a log is load-bearing.** If a single applicable condition `k` of a
non-staging log fails (all its other conditions hold, whatever the other entries look like), the answer is
500 and the body has the line `<that log's name>: <error of k>`. -/
theorem C20_each_load_bearing (c : Config) (e : LogEntry) (he : e ∈ c.logs) (hs : e.staging = false)
    (k : LogCond) (hk : k ∈ LogCond.applicable e.past) (hf : e.holds k = false)
    (hothers : ∀ k' ∈ LogCond.applicable e.past, k' ≠ k → e.holds k' = true) :
    status c = 500 ∧ (e.name, Outcome.failed (.log k)) ∈ lines c := by
  have hff := firstFail_single e.holds _ k hk hf hothers
  have hline : logLine e = (e.name, Outcome.failed (.log k)) := by
    unfold logLine checkLog
    rw [hff]
    simp [report, hs]
  have hmem := mem_lines_log (c := c) he
  rw [hline] at hmem
  exact ⟨status_500_of_failed hmem rfl, hmem⟩

/-- the same for the directory-level conditions of a witness or mirror (verifier-key files): the line is
labelled `witness` / `mirror` -/
theorem C20_each_load_bearing_witness (c : Config) (w : WitEntry) (hw : w ∈ c.wits) (hs : w.staging = false)
    (k : WitCond) (hk : k ∈ WitCond.applicable w.mirror) (hf : w.holds k = false)
    (hothers : ∀ k' ∈ WitCond.applicable w.mirror, k' ≠ k → w.holds k' = true) :
    status c = 500 ∧ (kindName w.mirror, Outcome.failed (.wit k)) ∈ lines c := by
  have hff := firstFail_single w.holds _ k hk hf hothers
  have hmem : (kindName w.mirror, Outcome.failed (.wit k)) ∈ witLines w := by
    unfold witLines
    rw [hff]
    simp [report, hs]
  exact ⟨status_500_of_failed (mem_lines_wit hw hmem) rfl, mem_lines_wit hw hmem⟩

/-- the same for every condition of every log directory of a witness or mirror whose verifier keys load:
the line names that log (by its verified origin, or by the directory name when the checkpoint itself is
what is broken) -/
theorem C20_each_load_bearing_witness_log (c : Config) (w : WitEntry) (hw : w ∈ c.wits) (hs : w.staging = false)
    (hkeys : ∀ k ∈ WitCond.applicable w.mirror, w.holds k = true)
    (l : WLog) (hl : l ∈ w.logs)
    (k : WLogCond) (hk : k ∈ WLogCond.applicable w.mirror) (hf : l.holds k = false)
    (hothers : ∀ k' ∈ WLogCond.applicable w.mirror, k' ≠ k → l.holds k' = true) :
    status c = 500 ∧ (l.label w.mirror, Outcome.failed (.wlog k)) ∈ lines c := by
  have hff := firstFail_single l.holds _ k hk hf hothers
  have hnone := (firstFail_none_iff w.holds _).mpr hkeys
  have hmem : (l.label w.mirror, Outcome.failed (.wlog k)) ∈ witLines w := by
    unfold witLines
    rw [hnone]
    refine List.mem_map.mpr ⟨l, hl, ?_⟩
    unfold wlogLine
    rw [hff]
    simp [report, hs]
  exact ⟨status_500_of_failed (mem_lines_wit hw hmem) rfl, mem_lines_wit hw hmem⟩

/-- flipping one condition of a healthy entry, as a function -/
def flip {κ : Type} [DecidableEq κ] (h : κ → Bool) (k : κ) : κ → Bool := fun x => if x = k then !h x else h x

/-- corollary in the "flip" form: take any configuration, any non-staging log all of whose conditions
hold, negate exactly one applicable condition: 500, naming the log. -/
theorem C20_flip_one (pre post : List LogEntry) (wits : List WitEntry) (e : LogEntry) (hs : e.staging = false)
    (hgood : logAllHold e) (k : LogCond) (hk : k ∈ LogCond.applicable e.past) :
    let e' : LogEntry := { e with holds := flip e.holds k }
    let c : Config := ⟨pre ++ e' :: post, wits⟩
    status c = 500 ∧ (e.name, Outcome.failed (.log k)) ∈ lines c := by
  intro e' c
  have he : e' ∈ c.logs := by simp [c]
  refine C20_each_load_bearing c e' he hs k hk ?_ ?_
  · simp [e', flip, hgood k hk]
  · intro k' hk' hne
    simp [e', flip, hne, hgood k' hk']

/-- non-vacuity: every one of the 11 conditions of an active log and the 14 of a read-only one, alone -/
example : ∀ k ∈ LogCond.applicable false,
    status ⟨[⟨"a", false, false, flip (fun _ => true) k⟩], []⟩ = 500 := by decide
example : ∀ k ∈ LogCond.applicable true,
    lines ⟨[⟨"a", false, true, flip (fun _ => true) k⟩], []⟩ = [("a", .failed (.log k))] := by decide
example : status ⟨[], [⟨true, false, fun _ => true, [⟨"00ab", "o", flip (fun _ => true) .notAhead⟩]⟩]⟩ = 500 ∧
    lines ⟨[], [⟨true, false, fun _ => true, [⟨"00ab", "o", flip (fun _ => true) .notAhead⟩]⟩]⟩ =
      [("mirror o", .failed (.wlog .notAhead))] := by decide
/-- a stale checkpoint does not matter past the read-only date, a wrong final tree does not matter before -/
example : status ⟨[⟨"a", false, true, flip (fun _ => true) .fresh⟩, ⟨"b", false, false, flip (fun _ => true) .finalSize⟩], []⟩ = 200 := by
  decide

/-- **Staging entries are ignored.** The status is the status of the configuration with every staging
entry removed, and no line of a staging entry is a failure. -/
theorem C20_staging_ignored (c : Config) :
    status c = status ⟨c.logs.filter (fun e => !e.staging), c.wits.filter (fun w => !w.staging)⟩ ∧
    (∀ e ∈ c.logs, e.staging = true → (logLine e).2.isFailed = false) ∧
    (∀ w ∈ c.wits, w.staging = true → ∀ ln ∈ witLines w, ln.2.isFailed = false) := by
  refine ⟨?_, ?_, ?_⟩
  · have key : status c = 200 ↔ status ⟨c.logs.filter (fun e => !e.staging), c.wits.filter (fun w => !w.staging)⟩ = 200 := by
      rw [C20_ok_iff, C20_ok_iff]
      simp only [List.mem_filter, Bool.not_eq_true']
      constructor
      · rintro ⟨h1, h2⟩
        exact ⟨fun e he hs => h1 e he.1 hs, fun w hw hs => h2 w hw.1 hs⟩
      · rintro ⟨h1, h2⟩
        exact ⟨fun e he hs => h1 e ⟨he, hs⟩ hs, fun w hw hs => h2 w ⟨hw, hs⟩ hs⟩
    rcases status_eq c with h | h <;>
      rcases status_eq ⟨c.logs.filter (fun e => !e.staging), c.wits.filter (fun w => !w.staging)⟩ with h' | h'
    · rw [h, h']
    · rw [key] at h; rw [h] at h'; cases h'
    · rw [← key] at h'; rw [h'] at h; cases h
    · rw [h, h']
  · intro e _ hs
    cases hv : (logLine e).2.isFailed with
    | false => rfl
    | true =>
      have := ((logLine_failed_iff e).mp hv).1
      rw [hs] at this; cases this
  · intro w _ hs ln hln
    cases hv : ln.2.isFailed with
    | false => rfl
    | true =>
      have : (witLines w).any (·.2.isFailed) = true := List.any_eq_true.mpr ⟨ln, hln, hv⟩
      have := ((witLines_failed_iff w).mp this).1
      rw [hs] at this; cases this

example : status ⟨[⟨"staging", true, false, fun _ => false⟩], [⟨true, true, fun _ => false, []⟩]⟩ = 200 ∧
    lines ⟨[⟨"staging", true, false, fun _ => false⟩], [⟨true, true, fun _ => false, []⟩]⟩ =
      [("staging", .ignored (.log .jsonRead)), ("mirror", .ignored (.wit .infoRead))] := by decide

end C20
