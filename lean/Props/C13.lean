import Proofs.LocalFS
/-! C13 — The filesystem backend is atomic, durable, immutable-respecting and confined.
Property theorems only; the model is `Model/LocalFS.lean` (system-call traces of
`LocalBackend.Upload/Fetch/Discard`, `durable.WriteFile/Mkdir/MkdirAll`, a file system with a
volatile and a durable view, power loss = durable view + ANY subset of pending directory-entry
changes + arbitrary bytes in every un-synced file).

All theorems are for every key, content, directory depth, pre-state and crash choice. What ties them
to the code: `Tie/C13.lean` (source order of calls/defers, branch structure, buffer expression) and
`vh localfs` + `drv localfs` (the real system calls of the real `LocalBackend`, observed with strace,
must be exactly `uploadTrace`). Outside the model: that the kernel honours `fsync`/`rename` as the
crash model says, the effect of the immutable inode flag, real reader/writer interleavings (sampled). -/
namespace C13
open LocalFS

/-! ### Atomic and durable -/

/-- For EVERY crash point `k` of the system-call sequence of an upload and EVERY crash choice `c`
(persisted subset of pending directory-entry changes, junk in un-synced files), recovery finds the
complete old or the complete new object; and once `Upload` returned nil, every recovery (and every
reader) finds the complete new object. Covers freshly created directories (`MkdirAll`), overwrites,
immutable first writes and immutable re-uploads. Hypotheses on the pre-state: everything written
before is on disk (`Quiescent`: true after every reboot — `C13_quiescent_after_crash` — and it is
what this very theorem establishes for the object after a returned upload), directory entries have
records (`WF`) and inode numbers in use are below `next` (`FreshInodes`). -/
theorem C13_atomic_durable (P : Program) (dir : Path) (key data : Bytes) (o : Opts) (rnd : Name) (s : FS)
    (comps : Path) (hq : Quiescent s) (hwf : WF s) (hfr : FreshInodes s)
    (hloc : localize key = some comps) :
    (∀ (k : Nat) (c : CrashChoice),
      (crash c (run s ((uploadTrace P dir key data o rnd s).1.take k))).object (dir ++ comps) = s.object (dir ++ comps) ∨
      (crash c (run s ((uploadTrace P dir key data o rnd s).1.take k))).object (dir ++ comps) = some data) ∧
    ((uploadTrace P dir key data o rnd s).2 = .ok →
      (∀ c : CrashChoice, (crash c (run s (uploadTrace P dir key data o rnd s).1)).object (dir ++ comps) = some data) ∧
      (run s (uploadTrace P dir key data o rnd s).1).object (dir ++ comps) = some data ∧
      Quiescent (run s (uploadTrace P dir key data o rnd s).1)) := by
  obtain ⟨h1, h2⟩ := upload_atomic_durable P dir key data o rnd s comps hq hwf hfr hloc (localize_ne_nil dir key comps hloc)
  exact ⟨fun k c => h1 k c, fun hok => ⟨fun c => (h2 hok).1 c, (h2 hok).2.1, (h2 hok).2.2⟩⟩

/-- The state found after any power loss is quiescent, whatever was going on. -/
theorem C13_quiescent_after_crash (c : CrashChoice) (s : FS) : Quiescent (crash c s) := by
  constructor
  · intro p d hd
    simp only [crash, Option.map_eq_some_iff] at hd
    obtain ⟨d0, _, rfl⟩ := hd
    rfl
  · intro i f hf
    simp only [crash, Option.map_eq_some_iff] at hf
    obtain ⟨f0, _, rfl⟩ := hf
    unfold crashFile
    split <;> simp_all

/-- The hypotheses of `C13_atomic_durable` are not an idealisation: they hold in every state
reachable from a good state by uploads that returned nil and by power losses at ANY point of ANY
upload (followed by the reboot). `Inv` (entries have records, inode numbers are below `next`)
implies `WF` and `FreshInodes` and holds in every state an upload goes through. -/
inductive Reach (P : Program) (dir : Path) (s0 : FS) : FS → Prop where
  | init : Reach P dir s0 s0
  | upload (s : FS) (key data : Bytes) (o : Opts) (rnd : Name) (comps : Path) :
      Reach P dir s0 s → localize key = some comps →
      (uploadTrace P dir key data o rnd s).2 = .ok → Reach P dir s0 (run s (uploadTrace P dir key data o rnd s).1)
  | powerLoss (s : FS) (key data : Bytes) (o : Opts) (rnd : Name) (k : Nat) (c : CrashChoice) :
      Reach P dir s0 s → Reach P dir s0 (crash c (run s ((uploadTrace P dir key data o rnd s).1.take k)))

theorem C13_hypotheses_reachable (P : Program) (dir : Path) (s0 s : FS) (hq0 : Quiescent s0) (hi0 : Inv s0)
    (h : Reach P dir s0 s) : Quiescent s ∧ WF s ∧ FreshInodes s := by
  suffices hs : Quiescent s ∧ Inv s from ⟨hs.1, hs.2.wf, hs.2.fresh⟩
  induction h with
  | init => exact ⟨hq0, hi0⟩
  | upload s key data o rnd comps _ hloc hok ih =>
    refine ⟨((C13_atomic_durable P dir key data o rnd s comps ih.1 ih.2.wf ih.2.fresh hloc).2 hok).2.2, ?_⟩
    have := upload_inv P dir key data o rnd s ih.2 (uploadTrace P dir key data o rnd s).1.length
    simpa using this
  | powerLoss s key data o rnd k c _ ih =>
    exact ⟨C13_quiescent_after_crash c _, (upload_inv P dir key data o rnd s ih.2 k).crash c⟩

/-! Non-vacuity: a world with a synced backend directory `r` satisfies the hypotheses; a first
upload of `a/b` (new directory, immutable) issues 23 system calls; a crash after 21 of them leaves
either nothing or the complete object depending on which pending changes reached the disk — and
after all 23, always the complete object. -/

def demoRoot : Name := [0x72]
def demoWorld : FS :=
  { files := fun _ => none
    dirs := fun p => if p = [] then some { durable := fun n => if n = demoRoot then some .dir else none, pending := [] }
                     else if p = [demoRoot] then some Dir.empty else none
    next := 1 }
def kAB : Bytes := [0x61, 0x2f, 0x62]       -- "a/b"
def pAB : Path := [demoRoot, [0x61], [0x62]]
def dat1 : Bytes := [1, 2, 3]
def dat2 : Bytes := [1, 2, 4]
def rnd1 : Name := [0x37]
def imm : Opts := { immutable := true }
def plain : Opts := { immutable := false }

theorem demo_quiescent : Quiescent demoWorld := by
  constructor
  · intro p d hd
    simp only [demoWorld] at hd
    split at hd
    · cases hd; rfl
    · split at hd
      · cases hd; rfl
      · cases hd
  · intro i f hf; cases hf

theorem demo_wf : WF demoWorld := by
  constructor
  · simp [demoWorld]
  · intro a d n hd hn
    simp only [demoWorld] at hd
    split at hd
    · rename_i ha
      cases hd
      simp only at hn
      split at hn
      · rename_i hn'; subst ha; subst hn'; simp [demoWorld]
      · cases hn
    · split at hd
      · cases hd; cases hn
      · cases hd

theorem demo_inv : Inv demoWorld := by
  refine ⟨by simp [demoWorld], ?_, ?_⟩
  · intro a d n hd hm
    simp only [demoWorld] at hd
    split at hd
    · rename_i ha
      cases hd
      simp only [cands, List.filter_nil, List.map_nil, List.mem_singleton] at hm
      split at hm
      · rename_i hn'; subst ha; subst hn'; simp [demoWorld]
      · cases hm
    · split at hd
      · cases hd; simp [cands, Dir.empty] at hm
      · cases hd
  · intro a d n i hd hm
    simp only [demoWorld] at hd
    split at hd
    · cases hd
      simp only [cands, List.filter_nil, List.map_nil, List.mem_singleton] at hm
      split at hm <;> cases hm
    · split at hd
      · cases hd; simp [cands, Dir.empty] at hm
      · cases hd

theorem demo_fresh : FreshInodes demoWorld := by
  intro p d n i hd hn
  simp only [demoWorld] at hd
  split at hd
  · cases hd
    simp only at hn
    split at hn <;> cases hn
  · split at hd
    · cases hd; cases hn
    · cases hd

def demoTrace : List Sys := (uploadTrace program [demoRoot] kAB dat1 imm rnd1 demoWorld).1

example : demoTrace.length = 23 ∧ (uploadTrace program [demoRoot] kAB dat1 imm rnd1 demoWorld).2 = .ok := by decide
example : localize kAB = some [[0x61], [0x62]] := by decide

/-- mid-upload (after the rename, before the fsync of the parent): both outcomes really occur -/
example : (crash { keep := fun _ => [], junk := fun _ => [] } (run demoWorld (demoTrace.take 18))).object pAB = none := by
  decide
example : (crash { keep := fun _ => [true, true, true], junk := fun _ => [] } (run demoWorld (demoTrace.take 18))).object pAB
    = some dat1 := by decide
/-- …but never a partial object, also not when the file data was not synced yet (junk = a prefix) -/
example : (crash { keep := fun _ => [true, true, true], junk := fun _ => [1] } (run demoWorld (demoTrace.take 14))).object pAB
    = none := by decide
example : ∀ c : CrashChoice, (crash c (run demoWorld demoTrace)).object pAB = some dat1 :=
  ((C13_atomic_durable program [demoRoot] kAB dat1 imm rnd1 demoWorld _ demo_quiescent demo_wf demo_fresh
    (by decide)).2 (by decide)).1

/-! ### Order of the system calls -/

/-- An upload that writes and returns nil contains, contiguously: create temp file, chmod, write the
data, **fsync(file)**, close, lstat, **rename** over the object, **fsync(parent directory)**, close. -/
theorem C13_order (P : Program) (dir : Path) (key data : Bytes) (o : Opts) (rnd : Name) (s : FS)
    (comps par : Path) (base : Name) (hloc : localize key = some comps) (hpath : dir ++ comps = par ++ [base])
    (hres : (uploadTrace P dir key data o rnd s).2 = .ok)
    (hw : o.immutable = false ∨ s.lookup (par ++ [base]) = none) :
    ∃ A D existed, (uploadTrace P dir key data o rnd s).1 =
      A ++ [.openDir par, .creat (par ++ [tmpName base rnd]) s.next,
            .fchmod (par ++ [tmpName base rnd]) s.next (if o.immutable then modeImmutable else modeDefault),
            .write (par ++ [tmpName base rnd]) s.next data, .fsync (par ++ [tmpName base rnd]) s.next,
            .close (par ++ [tmpName base rnd]), .lstat (par ++ [base]) existed,
            .rename (par ++ [tmpName base rnd]) (par ++ [base]) (.file s.next) true,
            .fsyncDir par, .closeDir par] ++ D :=
  upload_write_order P dir key data o rnd s comps par base hloc hpath hres hw

/-- Every `mkdir` any upload issues is followed by **fsync(new directory)** and then
**fsync(its parent)**, contiguously, before anything else happens. -/
theorem C13_order_mkdir (P : Program) (dir : Path) (key data : Bytes) (o : Opts) (rnd : Name) (s : FS) (p : Path)
    (h : Sys.mkdir p ∈ (uploadTrace P dir key data o rnd s).1) :
    ∃ A D, (uploadTrace P dir key data o rnd s).1 =
      A ++ [.openDir (parentOf p), .mkdir p, .openDir p, .fsyncDir p, .closeDir p,
            .fsyncDir (parentOf p), .closeDir (parentOf p)] ++ D := by
  obtain ⟨A, D, e⟩ := upload_mkdir_order P dir key data o rnd s p h
  exact ⟨A, D, by rw [e, mkdirTrace_eq]⟩

/-- The order is a consequence of Go's LIFO `defer` applied to the source order of `WriteFile`. -/
example : execOrder writeFileProgram =
    [.openParent, .createTemp, .chmod, .write, .syncCloseTmp, .renameOrRemove, .syncCloseParent] := by decide
example : execOrder mkdirProgram = [.openParent, .mkdir, .openSelf, .syncCloseSelf, .syncCloseParent] := by decide
/-- Swapping the two `defer`s of `WriteFile` would rename before the data is synced. -/
example : execOrder [⟨false, .openParent⟩, ⟨true, .syncCloseParent⟩, ⟨false, .createTemp⟩, ⟨true, .syncCloseTmp⟩,
      ⟨false, .chmod⟩, ⟨true, .renameOrRemove⟩, ⟨false, .write⟩] =
    [.openParent, .createTemp, .chmod, .write, .renameOrRemove, .syncCloseTmp, .syncCloseParent] := by decide
example : Sys.mkdir [demoRoot, [0x61]] ∈ demoTrace := by decide

/-! ### Immutable objects -/

/-- Once an object exists (in particular after an immutable upload returned, see
`C13_immutable_after_upload`), an immutable upload of the **same bytes returns nil**, one of
**different bytes fails**, and in both cases **no system call changes anything** — for every
content. This needs `compareFile` to terminate, which is exactly `P.Progress`: the read buffer is
never empty. -/
theorem C13_immutable (P : Program) (hP : P.Progress) (dir : Path) (key data d : Bytes) (rnd : Name) (s : FS)
    (comps : Path) (hloc : localize key = some comps)
    (hobj : s.object (dir ++ comps) = some d) :
    ((uploadTrace P dir key data imm rnd s).2 = if d = data then .ok else .mismatch) ∧
    run s (uploadTrace P dir key data imm rnd s).1 = s :=
  upload_immutable_existing P hP dir key data d rnd s comps hloc (localize_ne_nil dir key comps hloc) hobj

/-- The two-upload form of the property. -/
theorem C13_immutable_after_upload (P : Program) (hP : P.Progress) (dir : Path) (key d data : Bytes) (rnd rnd' : Name)
    (s : FS) (comps : Path) (hq : Quiescent s) (hwf : WF s) (hfr : FreshInodes s)
    (hloc : localize key = some comps)
    (hfirst : (uploadTrace P dir key d imm rnd s).2 = .ok) :
    let s1 := run s (uploadTrace P dir key d imm rnd s).1
    ((uploadTrace P dir key data imm rnd' s1).2 = if d = data then .ok else .mismatch) ∧
    (run s1 (uploadTrace P dir key data imm rnd' s1).1).object (dir ++ comps) = some d := by
  intro s1
  have hobj : s1.object (dir ++ comps) = some d :=
    ((C13_atomic_durable P dir key d imm rnd s comps hq hwf hfr hloc).2 hfirst).2.1
  obtain ⟨h1, h2⟩ := C13_immutable P hP dir key data d rnd' s1 comps hloc hobj
  exact ⟨h1, by rw [h2]; exact hobj⟩

/-- The precondition is satisfiable: a one-byte lower bound on the buffer suffices, and it can be
checked syntactically on the buffer expression. -/
theorem C13_progress_guarded : programGuarded.Progress := programGuarded_progress
theorem C13_progress_of_pos (P : Program) (h : P.buf.pos = true) : P.Progress := P.progress_of_pos h

/-- **F1 (repaired in /repo by commit 1e3891a; kept as the documented negative result).** With the
buffer expression the code had before, `min(len(data), 16384)` (`program`), the precondition fails,
and the loop of `compareFile` never returns for empty data, whatever the fuel: an immutable upload
of empty bytes over ANY existing object (empty or not) hung. The current source has
`max(1, min(len(data), 16384))` (`programGuarded`, `C13_progress_guarded`; `Tie.C13.compare_buf_positive`
checks on every run that the expression in the source keeps the buffer non-empty). -/
theorem C13_F1_no_progress_as_found : ¬ program.Progress := program_no_progress

theorem C13_F1_empty_data_never_returns (file : Bytes) (fuel : Nat) :
    (compareLoop (program.bufLen 0) fuel file []).2 = none := by
  rw [compareLoop_empty_data_diverges]

theorem C13_F1_immutable_empty_upload_hangs (dir : Path) (key d : Bytes) (rnd : Name) (s : FS) (comps : Path)
    (hloc : localize key = some comps) (hobj : s.object (dir ++ comps) = some d) :
    (uploadTrace program dir key [] imm rnd s).2 = .hang :=
  upload_immutable_empty_hangs dir key d rnd s comps hloc (localize_ne_nil dir key comps hloc) hobj

/-! Non-vacuity: same / different / longer / shorter / empty, with the guarded and the found program. -/
def demoS1 : FS := run demoWorld demoTrace
example : (uploadTrace programGuarded [demoRoot] kAB dat1 imm rnd1 demoS1).2 = .ok := by decide
example : (uploadTrace programGuarded [demoRoot] kAB dat2 imm rnd1 demoS1).2 = .mismatch := by decide
example : (uploadTrace programGuarded [demoRoot] kAB (dat1 ++ [0]) imm rnd1 demoS1).2 = .mismatch := by decide
example : (uploadTrace programGuarded [demoRoot] kAB [1, 2] imm rnd1 demoS1).2 = .mismatch := by decide
example : (uploadTrace programGuarded [demoRoot] kAB [] imm rnd1 demoS1).2 = .mismatch := by decide
example : (uploadTrace program [demoRoot] kAB dat1 imm rnd1 demoS1).2 = .ok := by decide
example : (uploadTrace program [demoRoot] kAB [] imm rnd1 demoS1).2 = .hang := by decide
/-- chunking: a 5-byte object compared with a 2-byte buffer takes reads of 2, 2, 1 and the EOF read -/
example : compareLoop 2 10 [1, 2, 3, 4, 5] [1, 2, 3, 4, 5] = ([(2, 2), (2, 2), (2, 1), (2, 0)], some true) := by decide
/-- comparing only the lengths would accept different bytes: the model compares the bytes -/
example : (compareLoop 2 10 [1, 2, 3] [1, 2, 4]).2 = some false := by decide

/-! ### Confinement -/

/-- (1) An accepted key is a NON-EMPTY list of plain names: no empty, `.` or `..` component, no
separator, no NUL; keys that are empty, `"."`, absolute, contain NUL or a `..` component are rejected.
(2) For a rejected key `Upload`, `Fetch` and `Discard` fail without a single system call. (3) For
EVERY accepted key every path named by any system call of `Upload` (incl. `MkdirAll`, the temporary
file and its rename), `Fetch` and `Discard` is the backend directory or lies below it. -/
theorem C13_confined (P : Program) (dir : Path) (key data : Bytes) (o : Opts) (rnd : Name) (s : FS) :
    (∀ comps, localize key = some comps →
      comps ≠ [] ∧
      (∀ c ∈ comps, c ≠ [] ∧ c ≠ dot ∧ c ≠ dotdot ∧ slash ∉ c ∧ (0 : UInt8) ∉ c) ∧
      (s.lookup dir = some .dir →
        ∀ e ∈ (uploadTrace P dir key data o rnd s).1, ∀ x ∈ e.paths, Within dir x) ∧
      (∀ e ∈ (fetchTrace dir key s).1, ∀ x ∈ e.paths, Within dir x) ∧
      (∀ e ∈ (discardTrace dir key s).1, ∀ x ∈ e.paths, Within dir x)) ∧
    (localize key = none →
      uploadTrace P dir key data o rnd s = ([], .invalidKey) ∧ fetchTrace dir key s = ([], .invalidKey, none) ∧
      discardTrace dir key s = ([], .invalidKey)) ∧
    ((key = [] ∨ key = dot ∨ (∃ rest, key = slash :: rest) ∨ (0 : UInt8) ∈ key ∨ dotdot ∈ splitSlash key) →
      localize key = none) := by
  refine ⟨fun comps hloc => ⟨(localize_some key comps hloc).2, localize_components key comps hloc,
      fun hdir => upload_confined P dir key data o rnd s comps hloc (localize_some key comps hloc).2 hdir,
      fetch_confined dir key s comps hloc, discard_confined dir key s comps hloc⟩,
    fun h => ⟨upload_rejected P dir key data o rnd s h, fetch_rejected dir key s h, discard_rejected dir key s h⟩, ?_⟩
  rintro (rfl | rfl | ⟨rest, rfl⟩ | h | h)
  · exact localize_rejects_empty
  · exact localize_rejects_dot.2
  · exact localize_rejects_absolute rest
  · exact localize_rejects_nul key h
  · exact localize_rejects_dotdot key h

/-- **F8 (repaired in /repo by commit 9a1f05e).** `filepath.Localize` alone accepts the key `"."`,
which denotes the backend directory itself (no component: `Upload(".")` would put its temporary
file into the PARENT of the backend directory); the helper `localize` of local.go refuses it, so
`Upload(".")` issues no system call. -/
theorem C13_dot_key_rejected (P : Program) (dir : Path) (data : Bytes) (o : Opts) (rnd : Name) (s : FS) :
    stdLocalize dot = some [] ∧ localize dot = none ∧
    uploadTrace P dir dot data o rnd s = ([], .invalidKey) :=
  ⟨localize_rejects_dot.1, localize_rejects_dot.2, upload_rejected P dir dot data o rnd s localize_rejects_dot.2⟩

/-! Non-vacuity of the key rules. -/
example : localize [0x2e] = none := by decide                                          -- "."
example : localize [0x2e, 0x2e] = none := by decide                                    -- ".."
example : localize [0x61, 0x2f, 0x2e, 0x2e, 0x2f, 0x62] = none := by decide            -- "a/../b"
example : localize [0x2f, 0x61] = none := by decide                                    -- "/a"
example : localize [0x61, 0x2f] = none := by decide                                    -- "a/"
example : localize [0x61, 0x2f, 0x2f, 0x62] = none := by decide                        -- "a//b"
example : localize [0x61, 0x00] = none := by decide                                    -- NUL
example : localize [0xff] = none := by decide                                          -- not UTF-8
example : localize [0x61, 0x5c, 0x62] = some [[0x61, 0x5c, 0x62]] := by decide         -- "a\b" is one plain name on Unix
example : localize [0x2e, 0x2e, 0x2e] = some [[0x2e, 0x2e, 0x2e]] := by decide         -- "..."
example : ∀ e ∈ demoTrace, ∀ x ∈ e.paths, Within [demoRoot] x :=
  (C13_confined program [demoRoot] kAB dat1 imm rnd1 demoWorld).1 [[0x61], [0x62]] (by decide) |>.2.2.1 (by decide)

/-! ### F4: what the theorem's hypothesis excludes

`C13_atomic_durable` assumes a quiescent pre-state. A process that is KILLED (not a power loss)
leaves the volatile state as it is. If an upload is killed between `rename` and the fsync of the
parent directory, the object is visible but its directory entry is not on disk; an immutable
re-upload of the same bytes then finds the object, compares, and returns nil WITHOUT any fsync: the
upload returned, and a power loss right afterwards loses the object. The same happens when the
killed upload had created a directory whose entry was not synced yet (`MkdirAll` skips existing
directories without syncing them). -/
def killedState : FS := run demoWorld ((uploadTrace program [demoRoot] kAB dat1 imm rnd1 demoWorld).1.take 18)

theorem C13_F4_reupload_after_killed_upload_not_durable :
    -- the retry sees the complete object and returns nil …
    killedState.object pAB = some dat1 ∧
    (uploadTrace program [demoRoot] kAB dat1 imm rnd1 killedState).2 = .ok ∧
    -- … having issued no fsync at all …
    (∀ e ∈ (uploadTrace program [demoRoot] kAB dat1 imm rnd1 killedState).1, e.inert = true) ∧
    -- … and a power loss after it returned loses the object
    (crash { keep := fun _ => [], junk := fun _ => [] }
      (run killedState (uploadTrace program [demoRoot] kAB dat1 imm rnd1 killedState).1)).object pAB = none := by
  decide

end C13
