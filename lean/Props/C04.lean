import Proofs.SeqSteps
import Proofs.SeqStore2
import Proofs.SeqDemo
import Proofs.SeqRecover
import Model.S3Upload
/-! C04 — Object storage is always a complete, exact rendering of the leaf sequence.

Exactness is enforced by the acceptor itself: `Seq.step` accepts a tile / bundle / checkpoint upload
only if its abstract content is the slice of the round's new tree prescribed for that key
(`o = .slice (t.slice rd.new.leaves)`), and the driver accepts the bytes only if they are the Static CT
rendering of that slice (Model/SeqRender.lean, compared by SHA-256 and length on every upload).
Theorems here: ordering (all tile uploads before the checkpoint upload), immutability, discards. -/
namespace C04
open Seq

/-- The checkpoint of a round is uploaded only after every tile upload of its staged bundle has
    returned successfully (none failed, none still in flight). -/
theorem C04_tiles_before_checkpoint (s s' : Sys) (i : Nat) (imm : Bool) (o : Obj) (r : Res) (rd : Round)
    (hph : (s.insts i).phase = .round rd) (h : step s (.upload i .ckpt imm o r) = some s') :
    o = .ck rd.new ∧ (rd.pc = .ckpt ∨ ∃ done, rd.pc = .tiles done false ∧ ∀ t ∈ rd.bundle, t ∈ done) :=
  ckpt_after_tiles s s' i imm o r rd hph h

/-- A staged bundle holds exactly the tiles a growth from the old to the new size needs
    (`newTilesList`), each with the slice of the new tree that its coordinate covers. -/
theorem C04_bundle_exact (o : Nat) (tr : Tree) (items : List (TileId × Tree)) (h : bundleOK o tr items = true) :
    (∀ p ∈ items, NewAt o tr.length p.1 = true ∧ p.2 = p.1.slice tr) ∧
    (∀ t ∈ newTilesList o tr.length, t ∈ items.map (·.1)) := by
  simp only [bundleOK, Bool.and_eq_true, List.all_eq_true, beq_iff_eq] at h
  obtain ⟨⟨h1, h2⟩, _⟩ := h
  refine ⟨fun p hp => ?_, fun t ht => ?_⟩
  · have := h1 p hp
    simpa using this
  · have := h2 t ht
    simpa using this

/-- A tile upload of a round is accepted only with the prescribed content for its coordinate. -/
theorem C04_tile_exact (s s' : Sys) (i : Nat) (t : TileId) (imm : Bool) (o : Obj) (r : Res) (rd : Round)
    (hph : (s.insts i).phase = .round rd) (h : step s (.upload i (.tile t) imm o r) = some s') :
    imm = true ∧ o = .slice (t.slice rd.new.leaves) ∧ t ∈ rd.bundle := by
  simp only [step, hph] at h
  split at h
  · cases h
  · cases hpc : rd.pc <;> simp only [hpc] at h <;> (try cases h)
    split at h
    · cases h
    · rename_i hc
      simp only [not_or, Bool.not_eq_true, Bool.not_eq_true'] at hc
      simp_all

/-- Immutable objects are never rewritten with different bytes: an accepted upload leaves an
    existing immutable object's content unchanged. -/
theorem C04_immutable_once (st st' : Key → Option (Obj × Bool)) (k : Key) (imm : Bool) (o old : Obj) (r : Res)
    (hold : st k = some (old, true)) (h : storeUpload st k imm o r = some st') :
    ∃ f, st' k = some (old, f) := by
  simp only [storeUpload, hold] at h
  split at h
  · rename_i heq; subst heq
    cases r <;> simp at h <;> (try (subst h; simp [updK, hold]))
    all_goals (subst h; simp [updK])
  · cases r <;> simp at h <;> (subst h; simp [hold])

/-- Nothing but staging bundles is ever discarded. -/
theorem C04_only_staging_discarded {s : Sys} (r : Reachable s) : ∀ k ∈ s.discarded, ∃ t, k = .staging t :=
  (inv2_reachable r).disc

/-- **Completeness (I3).** At every moment of every run without tampering — after each individual storage
    operation, whatever faults, crashes, restarts and interleavings of instances happened — the
    checkpoint object in storage is fully backed: every hash, data and names tile the Static CT layout
    needs for its tree (full, or partial at the right edge; all levels a 64-bit tree can have) is in the
    store, immutable, with exactly the content prescribed for that tree's leaves. -/
theorem C04_complete_at_publish {s : Sys} (r : Reachable s) (ht : s.tampered = false) (c : Ck) (imm : Bool)
    (hc : s.store .ckpt = some (.ck c, imm)) (t : TileId) (hreq : Req c.leaves.length t = true)
    (hl : t.kind.level < 8) : s.store (.tile t) = some (.slice (t.slice c.leaves), true) := by
  have h3 := inv3_reachable r ht
  exact h3.pub c (h3.ckpt c imm hc) t hreq hl

/-- the same for every checkpoint that was ever published (they all stay completely rendered) -/
theorem C04_published_stay_complete {s : Sys} (r : Reachable s) (ht : s.tampered = false) :
    ∀ c ∈ s.pubHist, Complete s.store c.leaves :=
  (inv3_reachable r ht).pub

example : ∃ s, Reachable s ∧ s.tampered = false ∧ ∃ c imm, s.store .ckpt = some (.ck c, imm) ∧ c.leaves.length = 1 := by
  obtain ⟨s, h, ht, hc, _⟩ := Seq.Demo.demo_untampered
  exact ⟨s, ⟨0, _, h⟩, ht, _, _, hc, rfl⟩

/-- Leaf `i` of every committed tree carries a timestamp no later than the tree head's: a round's new
    leaves all carry the round's timestamp, which is the new tree head's. -/
theorem C04_leaf_times (slots : List Slot) (ts : Nat) : ∀ l ∈ leavesOf slots ts, l.ts = ts := by
  intro l hl
  simp only [leavesOf, List.mem_map] at hl
  obtain ⟨sl, _, rfl⟩ := hl
  rfl

example : bundleOK 0 [⟨7, 7, 105⟩]
    [(⟨.data, 0, 1⟩, [⟨7, 7, 105⟩]), (⟨.names, 0, 1⟩, [⟨7, 7, 105⟩]), (⟨.hash 0, 0, 1⟩, [⟨7, 7, 105⟩])] = true := by decide

/-- **Exactness of every tile object.** At every moment of every run without tampering, every tile
    object in the store — whoever wrote it: a round, or a restart re-applying a staged bundle — is
    immutable and is exactly the rendering, for its coordinate, of a tree committed in the lock store
    that covers the tile; all committed trees are prefixes of the newest one, so it is the rendering
    of the lock checkpoint's tree too (`C04_tiles_render_lock_tree`). -/
theorem C04_tiles_only_committed {s : Sys} (r : Reachable s) (ht : s.tampered = false) :
    ∀ t o imm, s.store (.tile t) = some (o, imm) →
      imm = true ∧ ∃ c ∈ s.lockHist, t.hi ≤ c.leaves.length ∧ o = .slice (t.slice c.leaves) :=
  (inv4_reachable r ht).tiles

/-- every tile object is the rendering of the lock checkpoint's tree at its coordinate -/
theorem C04_tiles_render_lock_tree {s : Sys} (r : Reachable s) (ht : s.tampered = false) (c : Ck)
    (hl : s.lock = some c) :
    ∀ t o imm, s.store (.tile t) = some (o, imm) →
      imm = true ∧ t.hi ≤ c.leaves.length ∧ o = .slice (t.slice c.leaves) := by
  intro t o imm hs
  obtain ⟨himm, c', hc', hhi, ho⟩ := (inv4_reachable r ht).tiles t o imm hs
  have hpre := (lock_extends_hist (inv_reachable r) hl c' hc').1
  exact ⟨himm, Nat.le_trans hhi hpre.length_le, by rw [ho, slice_prefix hpre hhi]⟩

/-- the checkpoint object is always a mutable checkpoint, present once log creation has completed;
    staging objects are immutable non-empty bundles; there are no legacy staging objects -/
theorem C04_object_shapes {s : Sys} (r : Reachable s) (ht : s.tampered = false) :
    (∀ o imm, s.store .ckpt = some (o, imm) → imm = false ∧ ∃ c, o = .ck c) ∧
    (s.pubHist ≠ [] → ∃ c imm, s.store .ckpt = some (.ck c, imm)) ∧
    (∀ tr o imm, s.store (.staging tr) = some (o, imm) → imm = true ∧ ∃ items, o = .bundle items ∧ items ≠ []) ∧
    (∀ t, s.store (.legacyStaging t) = none) :=
  let h4 := inv4_reachable r ht
  ⟨h4.ckShape, h4.ckSome, h4.stagedNe, h4.legacy⟩

end C04

/-! ### The production backend keeps the contract the model assumes (S3Backend.Upload) -/
namespace C04
open S3Upload

/-- **Upload returned nil ⇒ stored.** Whatever the two PutObject calls of a hedged upload did, in whatever order their
    requests reached S3, and whether or not the hedge's result was the one reported: if `Upload` returns nil then one of
    the requests was stored, so the bucket holds the uploaded bytes under the key — for every prior content.
    (Assumes only that a PutObject call returning nil had a request answered 200.) -/
theorem C04_s3_upload_ok_means_stored (main : Call) (started reported : Option Call) (all : List Req) (pre : Bool)
    (hm : main.Honest) (hh : ∀ h, started = some h → h.Honest)
    (hrep : ∀ h, reported = some h → started = some h)      -- a reported hedge result is the started hedge's
    (hall : IsAllReqs main started all)
    (hok : uploadOk main reported = true) : heldAfter pre all = .data := by
  have hst : Req.stored ∈ all := by
    cases reported with
    | none => exact (hall _).2 (.inl (hm hok))
    | some h => exact (hall _).2 (.inr ⟨h, hrep h rfl, hh h (hrep h rfl) hok⟩)
  simp [heldAfter, hst]

/-- **The acceptor refuses nothing the code can do.** Under the two SDK assumptions every return value of the hedged
    upload is `admissible` for the requests the server saw — so a driver mismatch on this engine means the decision in
    `Upload` changed (or the SDK assumptions do not hold), never that the schedule was unlucky. -/
theorem C04_s3_upload_is_admissible (main : Call) (started reported : Option Call) (all : List Req) (cancelled : Bool)
    (hm : main.Honest) (hh : ∀ h, started = some h → h.Honest)
    (fm : main.Faithful cancelled) (fh : ∀ h, started = some h → h.Faithful cancelled)
    (hrep : ∀ h, reported = some h → started = some h)
    (hall : IsAllReqs main started all) :
    admissible all cancelled (uploadOk main reported) = true := by
  cases hok : uploadOk main reported with
  | true =>
    have hst : Req.stored ∈ all := by
      cases reported with
      | none => exact (hall _).2 (.inl (hm hok))
      | some h => exact (hall _).2 (.inr ⟨h, hrep h rfl, hh h (hrep h rfl) hok⟩)
    simp [admissible, hst]
  | false =>
    have hbad : cancelled = true ∨ ∃ r ∈ all, r ≠ Req.stored := by
      cases reported with
      | none =>
        rcases fm hok with hc | ⟨r, hr, hne⟩
        · exact .inl hc
        · exact .inr ⟨r, (hall r).2 (.inl hr), hne⟩
      | some h =>
        rcases fh h (hrep h rfl) hok with hc | ⟨r, hr, hne⟩
        · exact .inl hc
        · exact .inr ⟨r, (hall r).2 (.inr ⟨h, hrep h rfl, hr⟩), hne⟩
    rcases hbad with hc | ⟨r, hr, hne⟩
    · simp [admissible, hc]
    · have : all.any (fun x => x != Req.stored) = true := List.any_eq_true.2 ⟨r, hr, by simpa using hne⟩
      simp [admissible, this]

/-- the observable form the driver evaluates: an admissible nil return leaves the data in the bucket -/
theorem C04_s3_admissible_ok_stored (reqs : List Req) (cancelled pre : Bool)
    (h : admissible reqs cancelled true = true) : heldAfter pre reqs = .data := by
  simp only [admissible, if_true] at h
  unfold heldAfter
  rw [if_pos h]

/-- … and a caller that hung up (context cancelled) is never by itself a reason to report success: with no stored request
    no return of nil is admissible (the change that maps `context.Canceled` to nil is refused here) -/
theorem C04_s3_cancel_is_not_success (reqs : List Req) (h : Req.stored ∉ reqs) : admissible reqs true true = false := by
  simp [admissible, h]

/-- when nothing is stored the bucket keeps what it had -/
theorem C04_s3_failed_upload_keeps_prior (reqs : List Req) (pre : Bool) (h : Req.stored ∉ reqs) :
    heldAfter pre reqs = (if pre then .pre else .none) := by
  simp [heldAfter, h]

-- non-vacuity: a hedged upload whose main request is aborted by the winning hedge
example : uploadOk ⟨false, [.aborted]⟩ (some ⟨true, [.stored]⟩) = true ∧ heldAfter true [.aborted, .stored] = .data := by decide
example : admissible [.aborted] true false = true ∧ admissible [.aborted] true true = false := by decide

end C04
