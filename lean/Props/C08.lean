import Proofs.SeqSteps
import Proofs.TileAuth
import Proofs.SeqDemo
/-! C08 — Tampered object storage can stop the log but never make it sign a fork.
The model's `tamper k o` event replaces or deletes ANY object at ANY time (`o` arbitrary, including
objects that are valid renderings of other trees and previously signed checkpoints). `Reachable`
therefore already quantifies over every tampering of any subset of stored objects, combined with
restarts and further sequencing; the lock store is not tamperable (it is the trusted root). -/
namespace C08
open Seq

/-- tampering is always enabled and touches nothing but the object store -/
theorem C08_tamper_enabled (s : Sys) (k : Key) (o : Option Obj) :
    ∃ s', step s (.tamper k o) = some s' ∧ s'.lock = s.lock ∧ s'.lockHist = s.lockHist ∧ s'.insts = s.insts :=
  ⟨_, rfl, rfl, rfl, rfl⟩

/-- Whatever is done to object storage, every checkpoint the log ever signs-and-commits extends
    every earlier one: the lock history stays one chain. -/
theorem C08_chain_under_tamper {s : Sys} (r : Reachable s) :
    s.lockHist.Pairwise (fun newer older => older.leaves <+: newer.leaves ∧ older.time < newer.time) :=
  chain_pairwise _ (inv_reachable r).chain

/-- The server continues only from exactly the tree committed in the lock store: an instance becomes
    ready only on the checkpoint it fetched from the lock store, and only when every right-edge
    object it consulted was the rendering of that very tree (a tampered, missing or foreign object
    sets the `bad` flag and the load is refused). -/
theorem C08_load_sound {s s' : Sys} (r : Reachable s) (i : Nat) (c : Ck)
    (h : step s (.loaded i c) = some s') :
    c ∈ s.lockHist ∧ (s'.insts i).tree = c ∧ (s.insts i).phase = .loading (.edge c false) := by
  obtain ⟨hph, ht⟩ := loaded_sound s s' i c h
  have := (inv_reachable r).inst i
  simp only [InstOK, hph, LoadOK] at this
  exact ⟨this, ht, hph⟩

/-- once an edge object was missing, unreadable or not the rendering of the lock checkpoint's tree,
    the load stays poisoned (the flag only goes from false to true), so it can only end in a refusal -/
theorem C08_bad_edge_sticks (s s' : Sys) (i : Nat) (c : Ck) (t : TileId) (res : FRes Obj)
    (hph : (s.insts i).phase = .loading (.edge c true))
    (h : step s (.fetch i (.tile t) res) = some s') :
    (s'.insts i).phase = .loading (.edge c true) := by
  simp only [step, hph] at h
  repeat' split at h
  all_goals (first | (injection h with h; subst h; simp [Sys.setInst, upd]) | cases h)

/-- a load whose flag is set cannot report success -/
theorem C08_poisoned_load_refused (s : Sys) (i : Nat) (c c' : Ck)
    (hph : (s.insts i).phase = .loading (.edge c true)) : step s (.loaded i c') = none := by
  simp [step, hph]

/-- Any checkpoint signed afterwards extends the committed tree by precisely the entries of the pool
    being sequenced (one leaf per admitted submission), never by anything read from storage. -/
theorem C08_extends_by_pool (s s' : Sys) (i v : Nat) (rd : Round)
    (hph : (s.insts i).phase = .round rd) (hpc : rd.pc = .clock) (hv : (s.insts i).tree.time < v)
    (h : step s (.clock i v) = some s') :
    ∃ rd', (s'.insts i).phase = .round rd' ∧
      rd'.new = ⟨(s.insts i).tree.leaves ++ leavesOf rd.slots v, v⟩ := by
  obtain ⟨rd', h1, _, h3⟩ := round_new_tree s s' i v rd hph hpc hv h
  exact ⟨rd', h1, h3⟩

/-- published checkpoints stay a subset of committed ones under tampering -/
theorem C08_pub_committed {s : Sys} (r : Reachable s) : ∀ c ∈ s.pubHist, c ∈ s.lockHist :=
  (inv_reachable r).pub

example : ∃ s', step (init 0) (.tamper .ckpt (some (.blob 1))) = some s' := ⟨_, rfl⟩

/-- **Hash level.** The right-edge hash tiles `LoadLog` keeps in memory (and computes every later root from) were read
    through `tlog.TileHashReader` bound to the LOCK checkpoint's root: whatever bytes object storage served for them,
    if they have the widths the size prescribes and recombine to that root they are the authentic tiles of the
    committed tree, at every level — for every tree size (`Proofs/TileAuth.lean`, from `NodeInj` alone). A tampered,
    swapped, truncated or rolled-back hash tile therefore either fails the load or is not tampered at all. -/
theorem C08_edge_tiles_authentic {H : Type} (node : H → H → H) (empty : H) (inj : Merkle.NodeInj node)
    (B : List H) (e : Nat → List H) (T : Nat) (hn : B ≠ []) (hT : B.length < 256 ^ T)
    (hw : ∀ j, j < T → (e j).length = TileAuth.edgeWidth B.length j)
    (hroot : TileAuth.edgeF node empty e T = some (Merkle.mth node empty B)) :
    ∀ j, j < T → e j = TileAuth.tileOf node empty B j (B.length / 256 ^ j / 256) (TileAuth.edgeWidth B.length j) :=
  TileAuth.edge_sound node empty inj B e T hn hT hw hroot

/-- non-vacuity, for every non-empty tree: the authentic edge tiles do recombine to the root -/
theorem C08_edge_tiles_complete {H : Type} (node : H → H → H) (empty : H) (B : List H) (T : Nat)
    (hn : B ≠ []) (hT : B.length < 256 ^ T) :
    TileAuth.edgeF node empty (fun j => TileAuth.tileOf node empty B j (B.length / 256 ^ j / 256) (TileAuth.edgeWidth B.length j)) T =
      some (Merkle.mth node empty B) :=
  TileAuth.edge_complete node empty B T hn hT

end C08
