import Proofs.MirrorGrow
/-! C15 — A mirror cosignature implies a complete, correct, servable copy. Property theorems only.

Everything here is about the transition system `Mirror.step` of `Model/Mirror.lean` (add-checkpoint =
the C14 model `Witness.addCheckpoint`; add-entries split into metadata / one package / commit as the
handler splits it; restart), for arbitrary hash functions `node`, `emptyHash`, `leaf` — SHA-256
collision freeness enters as the hypotheses `Merkle.NodeInj node` (interior hashing) and
`Mirror.LeafInj leaf` (record hashing). `Reachable` quantifies over every sequence of events: any
requests (any ranges, entries, proofs, tickets), truncation after any package, interleaving of any
number of requests at package granularity, every outcome of every lock / storage operation (ok, error
after taking effect, error without effect), restarts anywhere (dropping the requests in flight).

"The log" is any entry list `E` whose record hashes open the latest tree head the witness recorded for
the origin (`Mirror.Truth`); by the C14 chain its prefixes open every recorded tree head. If the log
operator never produced such a list the statements are vacuous for that origin — there is then
nothing the copy could be compared with.

`Tie/C15.lean` ties the model to the current source of `witness.go`; `vh mirror` + `drv_mirror` run the
real handler against `Mirror.step` event by event and audit the object store at every write of the
mirror checkpoint. Outside the model: gzip and the byte framing of bundles / tile paths (harness
canonicaliser), real ML-DSA / XAES-256-GCM (symbolic), concurrency finer than one package (the
handler releases `l.mu` only at the modelled points, but uploads of two packages may overlap in real
time; sampled, not modelled), HTTP, the real lock and object backends (C05, C13). -/
namespace C15
open Mirror Witness Checkpoint Merkle

variable (node : Hash → Hash → Hash) (emptyHash : Hash) (leaf : Entry → Hash)

/-! ### servable -/

/-- **Whenever the mirror checkpoint — now or at any earlier time, returned with a 200, published or
only recorded — has size `N`, the store serves the whole size-`N` tree of the log**: every tile of
that tree (all full hash tiles and entry bundles and the exact right-edge partial ones, which is more
than the "or the full tile extending it" of the tile spec) is present with content equal to the
log's first `N` entries resp. their RFC 6962 subtree hashes, and the checkpoint's root is the root
of those `N` entries. -/
theorem C15_servable (inj : NodeInj node) (linj : LeafInj leaf) {c : MCfg} {st : MState}
    (hr : Reachable node emptyHash leaf c st) (E : List Entry) (hE : Truth node emptyHash leaf st E) :
    ∀ ck ∈ st.mhist,
      ck.1 ≤ E.length ∧ ck.2 = mth node emptyHash ((E.take ck.1).map leaf) ∧ Serves node emptyHash leaf st E ck.1 := by
  obtain ⟨hc, hs⟩ := reachable_inv node emptyHash leaf inj linj hr
  intro ck hck
  have hT : TruthH node emptyHash leaf st.w.hist E := hE
  obtain ⟨h1, h2⟩ := truth_mem node emptyHash leaf hc.wi.chain hT (hc.mh ck hck)
  refine ⟨h1, by rw [List.map_take]; exact h2, ?_⟩
  -- the size is below the frontier
  have hml : ck.1 ≤ (mirrorCk emptyHash st.mlock).1 := by
    cases hm : st.mlock with
    | none =>
      have := hc.mlast
      rw [hm] at this
      simp only [Option.map_none, List.getLast?_eq_none_iff] at this
      rw [this] at hck; cases hck
    | some v =>
      have hl := hc.mlast
      rw [hm] at hl
      simp only [Option.map_some] at hl
      exact le_last_of_pairwise hc.mmono hck hl
  have htop : ck.1 - ck.1 % 256 ≤ top emptyHash st := by unfold top; omega
  have hcomp := hs.comp (ck.1 - ck.1 % 256) (by omega) htop
  intro l n w ht
  have hpres : (st.hash l n w).isSome ∧ (l = 0 → (st.data n w).isSome) := by
    cases l with
    | succ l => exact hcomp _ _ _ (isTile_floor ht)
    | zero =>
      rcases isTile_floor_zero ht with h | ⟨rfl, rfl, hne⟩
      · exact hcomp _ _ _ h
      · have := hs.cut ck hck hne
        exact ⟨this, fun _ => hs.h2d _ _ this⟩
  obtain ⟨p1, p2⟩ := hpres
  constructor
  · cases hh : st.hash l n w with
    | none => rw [hh] at p1; cases p1
    | some x => rw [(hs.hash E hT l n w x hh).1]
  · intro hl
    have p2 := p2 hl
    cases hd : st.data n w with
    | none => rw [hd] at p2; cases p2
    | some x => rw [(hs.data E hT n w x hd).1]

/-- the mirror checkpoint in the lock store is the last element of that history; what was returned
with a 200 or published under `mirror/<origin hash>/checkpoint` is in it -/
theorem C15_recorded (inj : NodeInj node) (linj : LeafInj leaf) {c : MCfg} {st : MState}
    (hr : Reachable node emptyHash leaf c st) :
    st.mhist.getLast? = st.mlock.map (·.1) ∧ (∀ k ∈ st.released, k ∈ st.mhist) ∧ (∀ k, st.mpub = some k → k ∈ st.mhist) := by
  obtain ⟨hc, _⟩ := reachable_inv node emptyHash leaf inj linj hr
  exact ⟨hc.mlast, hc.rel, hc.pub⟩

/-- in particular, for the mirror checkpoint now in the lock store -/
theorem C15_servable_now (inj : NodeInj node) (linj : LeafInj leaf) {c : MCfg} {st : MState}
    (hr : Reachable node emptyHash leaf c st) (E : List Entry) (hE : Truth node emptyHash leaf st E)
    (ck : Nat × Hash) (serial : Nat) (hm : st.mlock = some (ck, serial)) :
    ck.2 = mth node emptyHash ((E.take ck.1).map leaf) ∧ Serves node emptyHash leaf st E ck.1 := by
  have hl := (C15_recorded node emptyHash leaf inj linj hr).1
  rw [hm] at hl
  obtain ⟨_, a, b⟩ := C15_servable node emptyHash leaf inj linj hr E hE ck (List.mem_of_getLast? hl)
  exact ⟨a, b⟩

/-- the tile store never lies about the log, whatever is in it (also beyond the mirror checkpoint) -/
theorem C15_store_true (inj : NodeInj node) (linj : LeafInj leaf) {c : MCfg} {st : MState}
    (hr : Reachable node emptyHash leaf c st) (E : List Entry) (hE : Truth node emptyHash leaf st E) :
    (∀ n w es, st.data n w = some es → es = bundleOf E n w ∧ 256 * n + w ≤ E.length) ∧
    (∀ l n w hs, st.hash l n w = some hs → hs = tileOf node emptyHash (E.map leaf) l n w) := by
  obtain ⟨_, hs⟩ := reachable_inv node emptyHash leaf inj linj hr
  exact ⟨hs.data E hE, fun l n w x hx => (hs.hash E hE l n w x hx).1⟩

/-! ### bounds -/

/-- `mirror.N ≤ nextEntry ≤ pending.N`: the mirror checkpoint is never ahead of the upload frontier,
the frontier never ahead of the witness' pending checkpoint (the latest recorded tree head), and the
cached copy of the mirror checkpoint is the stored one. -/
theorem C15_bounds (inj : NodeInj node) (linj : LeafInj leaf) {c : MCfg} {st : MState}
    (hr : Reachable node emptyHash leaf c st) :
    (∀ x, st.next = some x → (mirrorCk emptyHash st.mlock).1 ≤ x) ∧
    (∀ kl, st.w.hist.getLast? = some kl →
      (∀ x, st.next = some x → x ≤ kl.1) ∧ (mirrorCk emptyHash st.mlock).1 ≤ kl.1 ∧ ∀ k ∈ st.mhist, k.1 ≤ kl.1) ∧
    (∀ k, ckOf emptyHash c.origin st.w.lock = some k → st.w.hist.getLast? = some k) ∧
    (∀ v, st.mcache = some v → v = st.mlock) := by
  obtain ⟨hc, _⟩ := reachable_inv node emptyHash leaf inj linj hr
  refine ⟨fun x hx => (hc.nx x hx).1, ?_, hc.wi.last, hc.mc⟩
  intro kl hkl
  have hle : ∀ k ∈ st.mhist, k.1 ≤ kl.1 := fun k hk => mem_le_last node emptyHash hc.wi.chain (hc.mh k hk) hkl
  refine ⟨?_, ?_, hle⟩
  · intro x hx
    obtain ⟨_, k, hk, hk'⟩ := hc.nx x hx
    have := mem_le_last node emptyHash hc.wi.chain hk hkl
    omega
  · cases hm : st.mlock with
    | none => exact Nat.zero_le _
    | some v =>
      have hl := hc.mlast
      rw [hm] at hl
      simp only [Option.map_some] at hl
      exact hle _ (List.mem_of_getLast? hl)

/-- **the mirror size never decreases**: every step leaves the mirror checkpoint and its history alone
or appends one tree head, which becomes the stored one and is at least as large as every earlier one -/
theorem C15_monotone (inj : NodeInj node) (linj : LeafInj leaf) {c : MCfg} {st : MState}
    (hr : Reachable node emptyHash leaf c st) (ev : Ev) (hadm : Admissible c st ev) :
    (mirrorCk emptyHash st.mlock).1 ≤ (mirrorCk emptyHash (step node emptyHash leaf c st ev).1.mlock).1 ∧
    ((step node emptyHash leaf c st ev).1.mhist = st.mhist ∨
      ∃ ck, (step node emptyHash leaf c st ev).1.mhist = st.mhist ++ [ck] ∧ ∀ k ∈ st.mhist, k.1 ≤ ck.1) := by
  obtain ⟨hc', _⟩ := reachable_inv node emptyHash leaf inj linj (Reachable.step st ev hr hadm)
  obtain ⟨hc, _⟩ := reachable_inv node emptyHash leaf inj linj hr
  rcases step_m node emptyHash leaf c st ev with ⟨e1, e2⟩ | ⟨ck, n, e1, e2⟩
  · exact ⟨by rw [e2]; exact Nat.le_refl _, Or.inl e1⟩
  · have hmono := hc'.mmono
    rw [e1, List.pairwise_append] at hmono
    have hall : ∀ k ∈ st.mhist, k.1 ≤ ck.1 := fun k hk => hmono.2.2 k hk ck (by simp)
    refine ⟨?_, Or.inr ⟨ck, e1, hall⟩⟩
    rw [e2]
    cases hm : st.mlock with
    | none => exact Nat.zero_le _
    | some v =>
      have hl := hc.mlast
      rw [hm] at hl
      simp only [Option.map_some] at hl
      exact hall _ (List.mem_of_getLast? hl)

/-! ### package authentication -/

/-- **Tiles are written, and the frontier is advanced, only for entries whose subtree proof verified
against a tree head of the witness' chain, and such entries are the log's.** If a package step changes
the tile store or `nextEntry`, then the request's resolved tree head is in the C14 chain, the entries
of the tile (the client's, completed from the backend where the range starts mid-tile) passed
`CheckSubtree` against it, and for every log they are the log's entries `[tileStart, end)`
(`checkSubtree_sound` + the chain + collision freeness). -/
theorem C15_package_auth (inj : NodeInj node) (linj : LeafInj leaf) {c : MCfg} {st : MState}
    (hr : Reachable node emptyHash leaf c st) (rid : Nat) (inp : PkgIn) (fc fp : Bool) (outs : List Fault)
    (hch : (pkgStep node emptyHash leaf c rid inp fc fp outs st).1.data ≠ st.data ∨
           (pkgStep node emptyHash leaf c rid inp fc fp outs st).1.hash ≠ st.hash ∨
           (pkgStep node emptyHash leaf c rid inp fc fp outs st).1.next ≠ st.next) :
    ∃ r xs proof all, st.reqs rid = some r ∧ inp = .full xs proof ∧ r.ck ∈ st.w.hist ∧ r.i < r.numPackages ∧
      complete (st.setReq rid none) (r.rs + 256 * r.i) (min r.stop (r.rs + 256 * r.i + 256)) xs fc = some all ∧
      checkSubtree node proof.reverse r.ck.1 r.ck.2 (r.rs + 256 * r.i) (min r.stop (r.rs + 256 * r.i + 256))
        (mth node emptyHash (all.map leaf)) = true ∧
      ∀ E, Truth node emptyHash leaf st E →
        all = (E.drop (r.rs + 256 * r.i)).take (min r.stop (r.rs + 256 * r.i + 256) - (r.rs + 256 * r.i)) := by
  have hi := reachable_inv node emptyHash leaf inj linj hr
  have hsame : ∀ s : MState, s.data = st.data → s.hash = st.hash → s.next = st.next →
      ¬ (s.data ≠ st.data ∨ s.hash ≠ st.hash ∨ s.next ≠ st.next) := by
    intro s a b c' h
    rcases h with h | h | h
    · exact h a
    · exact h b
    · exact h c'
  unfold pkgStep at hch
  split at hch
  · exact absurd hch (hsame st rfl rfl rfl)
  · rename_i r hreq
    split at hch
    · exact absurd hch (hsame st rfl rfl rfl)
    · rename_i hlt
      have hrq := hi.ctl.rq rid r hreq
      simp only [] at hch
      split at hch
      · -- truncated
        split at hch
        · exact absurd hch (hsame _ rfl rfl rfl)
        · obtain ⟨a1, a2, a3⟩ := conflictNext_ss emptyHash c r fp (st.setReq rid none)
          exact absurd hch (hsame _ a1 a2 a3)
      · exact absurd hch (hsame _ rfl rfl rfl)
      · rename_i xs proof
        split at hch
        · exact absurd hch (hsame st rfl rfl rfl)
        · rename_i hlen
          unfold pkgFull at hch
          split at hch
          · exact absurd hch (hsame _ rfl rfl rfl)
          · rename_i all hcomp
            simp only [] at hch
            split at hch
            · exact absurd hch (hsame _ rfl rfl rfl)
            · rename_i hchk
              simp only [Bool.not_eq_true', Bool.not_eq_false] at hchk
              have hl := complete_length hcomp (by omega)
              refine ⟨r, xs, proof, all, hreq, rfl, hrq.ck, by omega, hcomp, hchk, ?_⟩
              intro E hE
              exact (auth node emptyHash leaf inj linj hi.ctl.wi.chain hrq.ck hE hchk hl).1

/-- a package whose proof does not verify changes nothing but the request table -/
theorem C15_bad_proof_refused (rid : Nat) (r : Req) (xs all : List Entry) (proof : List Hash)
    (fc : Bool) (outs : List Fault) (ts stop : Nat) (st0 : MState)
    (hcomp : complete st0 ts stop xs fc = some all)
    (hbad : checkSubtree node proof.reverse r.ck.1 r.ck.2 ts stop (mth node emptyHash (all.map leaf)) = false) :
    pkgFull node emptyHash leaf rid r xs proof fc outs ts stop st0 = (st0, .err .invalidProof) := by
  unfold pkgFull
  rw [hcomp]
  simp [hbad]

/-! ### tickets -/

/-- **An accepted ticket is a box sealed under this process' key for this mirror name and this
origin, and the checkpoint it carries is one the witness recorded (cosigned) for this origin** —
provided the submitted bytes respect at least one of the two primitives (`TicketAdm`): AEAD
unforgeability or unforgeability of the witness' ML-DSA cosignature. -/
theorem C15_ticket (inj : NodeInj node) (linj : LeafInj leaf) {c : MCfg} {st : MState}
    (hr : Reachable node emptyHash leaf c st) (t : TicketIn) (hadm : TicketAdm c st t) (p : PCk)
    (h : verifyTicket c st.key t = some p) :
    p.ck ∈ st.w.hist ∧
    ∃ tk, t = .box tk ∧ tk.key = st.key ∧ tk.mirrorName = c.mirrorName ∧ tk.origin = c.origin := by
  obtain ⟨a, _, b⟩ := verifyTicket_sound node emptyHash leaf c st (reachable_inv node emptyHash leaf inj linj hr) t hadm p h
  exact ⟨a, b⟩

/-- tickets for another origin, another mirror name, or sealed by another process are refused;
a restart changes the key, so every ticket of the previous process is refused -/
theorem C15_ticket_binding (c : MCfg) (key : Nat) (tk : Ticket)
    (h : tk.key ≠ key ∨ tk.mirrorName ≠ c.mirrorName ∨ tk.origin ≠ c.origin) :
    verifyTicket c key (.box tk) = none := by
  simp only [verifyTicket]
  rw [if_neg]
  intro hc
  rcases h with h | h | h
  · exact h hc.1
  · exact h hc.2.1
  · exact h hc.2.2

theorem C15_ticket_other_process (c : MCfg) (st : MState) (tk : Ticket) (h : tk.key ≤ st.key) :
    verifyTicket c (restart st).key (.box tk) = none :=
  C15_ticket_binding c _ tk (Or.inl (by simp only [restart]; omega))

/-- every ticket ever handed out carries a recorded tree head of this origin or nothing usable -/
theorem C15_issued (inj : NodeInj node) (linj : LeafInj leaf) {c : MCfg} {st : MState}
    (hr : Reachable node emptyHash leaf c st) :
    ∀ t ∈ st.issued, ∀ k, payloadCk c.origin t.payload = some k → k ∈ st.w.hist :=
  (reachable_inv node emptyHash leaf inj linj hr).ctl.tk

/-! ### resuming after a restart -/

/-- **After a restart an upload from the mirror checkpoint is accepted**: with working lock reads, the
request `[mirror.N, pending.N)` without a ticket passes `processAddEntriesMetadata` (no conflict, no
error): it is installed against the pending checkpoint with `nextEntry = mirror.N`; and if the
mirror size is mid-tile, the entry bundle `completeTileFromBackend` will fetch (`mirror.N / 256`,
width `mirror.N % 256`) is in the store, with the log's entries. (That the whole multi-package upload
then ends in a 200 when nothing fails is checked by the engine's oracle, not proved.) -/
theorem C15_resume (inj : NodeInj node) (linj : LeafInj leaf) {c : MCfg} {st : MState}
    (hr : Reachable node emptyHash leaf c st) (hk : c.known = true) (hm : c.mirrored = true)
    (note : Note) (serial : Nat) (hl : st.w.lock = some (note, serial)) (k : Nat × Hash)
    (hopen : openStored emptyHash c.cfg c.origin st.w.lock = some k) (rid : Nat) :
    let m := mirrorCk emptyHash st.mlock
    let q : MetaReq := { hdr := .ok, start := m.1, stop := k.1, ticket := .none }
    let r := metadata emptyHash c rid q true true (restart st)
    r.2 = .cont ∧ r.1.next = some m.1 ∧
    r.1.reqs rid = some { ck := k, payload := .pend note serial, start := m.1, stop := k.1, i := 0, ov := [] } ∧
    (m.1 % 256 ≠ 0 → ∀ E, Truth node emptyHash leaf st E → r.1.data (m.1 / 256) (m.1 % 256) = some (bundleOf E (m.1 / 256) (m.1 % 256))) := by
  obtain ⟨hc, hs⟩ := reachable_inv node emptyHash leaf inj linj hr
  intro m q r
  have hkl : st.w.hist.getLast? = some k := hc.wi.last k (openStored_ckOf emptyHash hopen)
  have hmk : m.1 ≤ k.1 := by
    cases hml : st.mlock with
    | none => show (mirrorCk emptyHash st.mlock).1 ≤ k.1; rw [hml]; exact Nat.zero_le _
    | some v =>
      have h1 := hc.mlast
      rw [hml] at h1
      simp only [Option.map_some] at h1
      have := mem_le_last node emptyHash hc.wi.chain (hc.mh _ (List.mem_of_getLast? h1)) hkl
      show (mirrorCk emptyHash st.mlock).1 ≤ k.1
      rw [hml]; exact this
  have hmp : (mirrorP emptyHash st.mlock).ck = m := mirrorP_ck emptyHash st.mlock
  -- run the metadata step
  rw [hl] at hopen
  have hcache0 : (restart st).w.cache 0 = none := by simp [restart, OState.restart, OState.setCache]
  have hlock0 : (restart st).w.lock = some (note, serial) := hl
  obtain ⟨S1, hp, p1, p2, p3, p4, p5⟩ : ∃ S1, fetchPending emptyHash c true (restart st) = (S1, some ⟨k, .pend note serial⟩) ∧
      S1.mcache = none ∧ S1.next = none ∧ S1.mlock = st.mlock ∧ S1.data = st.data ∧ S1.reqs = fun _ => none := by
    unfold fetchPending
    rw [hcache0]
    simp only [if_true, hlock0, hopen, Option.map_some, payloadOf]
    exact ⟨_, rfl, rfl, rfl, rfl, rfl, rfl⟩
  obtain ⟨S2, hmr, m1, m2, m3⟩ : ∃ S2, fetchMirror emptyHash true S1 = (S2, some (mirrorP emptyHash st.mlock, m.1)) ∧
      S2.next = some m.1 ∧ S2.data = st.data ∧ S2.reqs = fun _ => none := by
    unfold fetchMirror
    rw [p1]
    simp only [if_true, p2, p3, hmp]
    exact ⟨_, rfl, rfl, p4, p5⟩
  have hrun : r = (S2.setReq rid (some { ck := k, payload := .pend note serial, start := m.1, stop := k.1, i := 0, ov := [] }), .cont) := by
    show metadata emptyHash c rid q true true (restart st) = _
    unfold metadata
    simp only [q, hdrErr]
    rw [if_neg (by omega)]
    have hr0 : (restart st).reqs rid = none := rfl
    rw [hr0]
    simp only [Option.isSome_none, Bool.false_eq_true, if_false, hk, hm, Bool.not_true]
    rw [hp]
    simp only [metaMirror, reduceCtorEq, if_false]
    rw [hmr]
    simp only [metaDecide, resolve, if_true, hmp]
    rw [if_neg (by omega), if_neg (by omega), if_neg (by omega), if_neg (by omega)]
    try simp only [if_true]
    rw [if_neg (by simp only [window, windowTiles, tileWidth]; omega)]
  refine ⟨by rw [hrun], by rw [hrun]; exact m1, by rw [hrun]; simp [MState.setReq], ?_⟩
  intro hne E hE
  have hmem : m ∈ st.mhist := by
    cases hml : st.mlock with
    | none => exfalso; apply hne; show (mirrorCk emptyHash st.mlock).1 % 256 = 0; rw [hml]; rfl
    | some v =>
      have h1 := hc.mlast
      rw [hml] at h1
      simp only [Option.map_some] at h1
      show mirrorCk emptyHash st.mlock ∈ st.mhist
      rw [hml]; exact List.mem_of_getLast? h1
  have hcut := hs.h2d _ _ (hs.cut m hmem hne)
  rw [hrun]
  show S2.data (m.1 / 256) (m.1 % 256) = _
  rw [m2]
  cases hd : st.data (m.1 / 256) (m.1 % 256) with
  | none => rw [hd] at hcut; cases hcut
  | some x => rw [(hs.data E hE _ _ x hd).1]

/-! ### the protocol's answers -/

theorem C15_status_codes :
    EClass.unknownLog.status = 404 ∧ EClass.notMirrored.status = 403 ∧ EClass.noPending.status = 422 ∧
    EClass.invalidProof.status = 422 ∧ EClass.missingBody.status = 400 ∧ EClass.badRequest.status = 400 ∧
    EClass.internal.status = 500 ∧ EClass.ctype.status = 415 := by decide

/-- a 200 is produced only by a commit whose compare-and-swap took effect and whose upload succeeded;
the tree head it names is then the stored mirror checkpoint and the published one -/
theorem C15_ok_only_recorded (r : Req) (rep up : Fault) (st : MState) (ck : Nat × Hash)
    (h : (commitRecord r rep up st).2 = .ok ck) :
    ck = r.ck ∧ rep = .ok ∧ up = .ok ∧ (∃ n, (commitRecord r rep up st).1.mlock = some (r.ck, n)) ∧
    (commitRecord r rep up st).1.mpub = some r.ck ∧ (commitRecord r rep up st).1.mhist = st.mhist ++ [r.ck] := by
  unfold commitRecord at h ⊢
  simp only [] at h ⊢
  split at h
  · cases h
  · rename_i v hv
    split at h
    · cases h
    · rename_i hok
      simp only [Bool.not_eq_true', Bool.not_eq_false, Bool.and_eq_true, decide_eq_true_eq] at hok
      split at h
      · cases h
      · rename_i huok
        simp only [Bool.not_eq_true', Bool.not_eq_false] at huok
        have hrep : rep = .ok := by cases rep <;> simp_all [Fault.isOk]
        have hup : up = .ok := by cases up <;> simp_all [Fault.isOk]
        have hck : ck = r.ck := by injection h with h; exact h.symm
        subst hrep hup
        refine ⟨hck, rfl, rfl, ⟨st.serial, ?_⟩, ?_, ?_⟩ <;> simp [hok.1, Fault.applied, Fault.isOk]

/-- the commit refuses to sign below the stored mirror checkpoint or beyond the upload frontier -/
theorem C15_commit_guards (c : MCfg) (r : Req) (fp fh fw : Bool) (ud uh rep up : Fault) (mir : PCk) (next : Nat)
    (st : MState) (ck : Nat × Hash)
    (h : (commitDecide emptyHash leaf c r fp fh fw ud uh rep up mir next st).2 = .ok ck) :
    r.ck.1 ≤ next ∧ mir.ck.1 ≤ r.ck.1 ∧ (ensureCut leaf r.ck.1 next fh fw ud uh st).2 = true := by
  unfold commitDecide at h
  split at h
  · cases h
  · split at h
    · split at h
      · cases h
      · simp [conflict] at h
    · split at h
      · cases h
      · rename_i st2 heq
        exact ⟨by omega, by omega, by rw [heq]⟩

/-! ### non-vacuity -/
namespace Example

/-- an injective interior hash on byte strings: the length of the left child in unary, then both children -/
def pairNode (a b : Hash) : Hash := List.replicate a.length 1 ++ 0 :: (a ++ b)

theorem replicate_sep {m n : Nat} {x y : Bytes}
    (h : List.replicate m (1 : UInt8) ++ 0 :: x = List.replicate n 1 ++ 0 :: y) : m = n ∧ x = y := by
  induction m generalizing n with
  | zero =>
    cases n with
    | zero => simpa using h
    | succ n => simp [List.replicate_succ] at h
  | succ m ih =>
    cases n with
    | zero => simp [List.replicate_succ] at h
    | succ n =>
      simp only [List.replicate_succ, List.cons_append, List.cons.injEq, true_and] at h
      obtain ⟨h1, h2⟩ := ih h
      exact ⟨by omega, h2⟩

theorem pairNode_inj : NodeInj pairNode := by
  intro a b c d h
  obtain ⟨hl, hx⟩ := replicate_sep h
  exact List.append_inj hx hl

/-- a 32-byte "hash" for executable examples (not injective; the examples only run the machine) -/
def nodeE (a b : Hash) : Hash := a.take 16 ++ b.take 16
def emptyE : Hash := List.replicate 32 0

def k1 : VKey := ⟨[119], 1, 0⟩
def k2 : VKey := ⟨[119], 2, 1⟩
def logKey : VKey := ⟨[111], 3, 2⟩
def text (n : Int) (root : Hash) : Bytes := formatCheckpoint { origin := [111], n := n, hash := root, ext := [] }
def signedBy (k : VKey) (t : Bytes) : NoteForm := .wellformed { text := t, sigs := [k.sign t] }

/-- an injective record hash (the entry itself, framed) -/
def leafI (e : Entry) : Hash := 0 :: e

theorem leafI_inj : LeafInj leafI := by
  intro a b h
  simpa [leafI] using h

/-- the collision-freeness hypotheses are satisfiable together -/
example : NodeInj pairNode ∧ LeafInj leafI := ⟨pairNode_inj, leafI_inj⟩

/-- a 32-byte record "hash" for the executable examples -/
def leafE (e : Entry) : Hash := (e ++ List.replicate 32 7).take 32

def mk2 : VKey := ⟨[109], 4, 3⟩
def cfgM : Cfg := { k1 := k1, k2 := k2, mirror := some mk2, logs := [⟨[111], [logKey]⟩] }
def mc : MCfg := { cfg := cfgM, origin := [111], mirrorFlag := true }

def e0 : Entry := [1, 2, 3]
def e1 : Entry := []
def root2 : Hash := nodeE (leafE e0) (leafE e1)

/-- the log signs a checkpoint of size 2 over the entries `e0, e1`; the witness records it -/
def envA : Env :=
  { cfg := cfgM, inst := 0,
    req := { body := .ok, old := 0, proof := [], note := signedBy logKey (text 2 root2) },
    fetchOut := .ok, replaceOut := .ok, uploadOut := .ok }

def s0 : MState := MState.init emptyE false
def s1 : MState := (step nodeE emptyE leafE mc s0 (.addCk envA)).1
/-- add-entries `[0, 2)`: metadata -/
def evM : Ev := .mdata 7 { hdr := .ok, start := 0, stop := 2, ticket := .none } true true
def s2 : MState := (step nodeE emptyE leafE mc s1 evM).1
/-- the one package: both entries, empty subtree proof (the subtree is the whole tree) -/
def evP : Ev := .pkg 7 (.full [e0, e1] []) true true []
def s3 : MState := (step nodeE emptyE leafE mc s2 evP).1
/-- the commit -/
def evC : Ev := .commit 7 true true true true .ok .ok .ok .ok
def s4 : MState := (step nodeE emptyE leafE mc s3 evC).1

/-- the run is a run of the transition system (no ticket is presented, so every event is admissible) -/
theorem s4_reachable : Reachable nodeE emptyE leafE mc s4 :=
  .step s3 evC (.step s2 evP (.step s1 evM (.step s0 (.addCk envA) (.init false) rfl) trivial) trivial) trivial

set_option maxRecDepth 100000 in
/-- … it ends with a 200 for the size-2 tree head, recorded and published, with both tiles of the
size-2 tree in the store: the entry bundle and the level-0 hash tile -/
example :
    (step nodeE emptyE leafE mc s3 evC).2 = .ok (2, root2) ∧
    s4.mlock = some ((2, root2), 0) ∧ s4.mhist = [(2, root2)] ∧ s4.mpub = some (2, root2) ∧ s4.next = some 2 ∧
    s4.data 0 2 = some [e0, e1] ∧ s4.hash 0 0 2 = some [leafE e0, leafE e1] ∧
    s4.w.hist = [(0, emptyE), (2, root2)] := by decide +kernel

set_option maxRecDepth 100000 in
/-- a package with a wrong entry is refused with 422 and writes nothing -/
example :
    (step nodeE emptyE leafE mc s2 (.pkg 7 (.full [e0, [9]] []) true true [])).2 = .err .invalidProof ∧
    (step nodeE emptyE leafE mc s2 (.pkg 7 (.full [e0, [9]] []) true true [])).1.data 0 2 = none := by decide +kernel

/-- the ticket the witness hands out in state `s1`: the pending checkpoint, sealed for this mirror and origin -/
def tk0 : Ticket := { key := 0, mirrorName := [109], origin := [111], payload := payloadOf s1.w.lock }

set_option maxRecDepth 100000 in
/-- a request for a range that does not end at a known checkpoint gets a 409 with that ticket; the
ticket is accepted by the process that issued it and refused by the next one and for another origin -/
example :
    (step nodeE emptyE leafE mc s1 (.mdata 8 { hdr := .ok, start := 0, stop := 1, ticket := .none } true true)).2 =
        .info 409 2 0 tk0 ∧
    (verifyTicket mc 0 (.box tk0)).map (·.ck) = some (2, root2) ∧
    verifyTicket mc 1 (.box tk0) = none ∧
    verifyTicket { mc with origin := [112] } 0 (.box tk0) = none := by decide +kernel

end Example
end C15
