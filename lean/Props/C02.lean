import Proofs.SeqSteps
import Proofs.SeqDemo
import Proofs.SeqSoloPub
/-! C02 — An SCT is returned only for an entry already in the published tree.
`acks` records every acknowledgement (index, timestamp, dedup class) the model accepted. -/
namespace C02
open Seq

/-- Every acknowledgement names an index of a checkpoint that had been published (its upload took
    effect) before the acknowledgement, and the leaf there is the acknowledged entry (same
    deduplication class) with exactly the acknowledged timestamp. -/
theorem C02_ack_published {s : Sys} (r : Reachable s) :
    ∀ a ∈ s.acks, ∃ c ∈ s.pubHist, ∃ l, c.leaves[a.idx]? = some l ∧ l.key = a.key ∧ l.ts = a.ts :=
  (inv2_reachable r).acks

/-- … and this stays true in every checkpoint ever committed or published that covers the index
    (also after a crash right after the acknowledgement: `Reachable` includes crash events). -/
theorem C02_ack_stable {s : Sys} (r : Reachable s) :
    ∀ a ∈ s.acks, ∀ d ∈ s.pubHist ++ s.lockHist, a.idx < d.leaves.length →
      ∃ l, d.leaves[a.idx]? = some l ∧ l.key = a.key ∧ l.ts = a.ts := by
  intro a ha d hd hlt
  obtain ⟨c, hc, l, hl, hk, ht⟩ := C02_ack_published r a ha
  have hinv := inv_reachable r
  have hcl : c ∈ s.lockHist := hinv.pub c hc
  have hdl : d ∈ s.lockHist := by
    rcases List.mem_append.1 hd with h | h
    · exact hinv.pub d h
    · exact h
  have hidx : a.idx < c.leaves.length := by
    have := List.getElem?_eq_some_iff.1 hl; exact this.1
  have hp := chain_pairwise _ hinv.chain
  have key : c.leaves <+: d.leaves ∨ d.leaves <+: c.leaves := by
    rcases pairwise_total hp c hcl d hdl with h | h | h
    · subst h; exact Or.inl (List.prefix_refl _)
    · exact Or.inr h.1
    · exact Or.inl h.1
  refine ⟨l, ?_, hk, ht⟩
  rcases key with h | h
  · rw [← hl]; exact prefix_getElem? h hidx
  · rw [← hl]; exact (prefix_getElem? h hlt).symm

/-- A round hands out acknowledgements only after its checkpoint upload succeeded; a cache hit is the
    only other source (and the cache only holds published leaves, see `C02_cache_published`). -/
theorem C02_ack_after_publish (s s' : Sys) (i eid key idx ts : Nat)
    (h : step s (.ack i eid key idx ts) = some s') :
    cacheLookup (s.insts i).cache key = some (idx, ts) ∨
    ∃ rd, (s.insts i).phase = .round rd ∧ rd.pc = .done .ok ∧ rd.published = true :=
  ack_sources s s' i eid key idx ts h

/-- The cache is written only with leaves of a published tree (it is filled after the checkpoint upload). -/
theorem C02_cache_published {s : Sys} (r : Reachable s) (i : Nat) :
    ∀ e ∈ (s.insts i).cache, ∃ c ∈ s.pubHist, ∃ l, c.leaves[e.2.1]? = some l ∧ l.key = e.1 ∧ l.ts = e.2.2 :=
  (inv2_reachable r).cache i

/-- A round that did not publish (failed or fatal) acknowledges nothing. -/
theorem C02_failed_round_no_ack (s : Sys) (i eid key idx ts : Nat) (rd : Round) (c : Cls)
    (hp : (s.insts i).phase = .round rd) (hpc : rd.pc = .done c) (hc : c ≠ .ok)
    (hcache : cacheLookup (s.insts i).cache key ≠ some (idx, ts)) :
    step s (.ack i eid key idx ts) = none := by
  cases c <;> simp_all [step]

example : ∃ s, Reachable s ∧ s.acks.length = 1 := by
  obtain ⟨s, h, _, _, ha⟩ := Seq.Demo.demo_runs
  exact ⟨s, ⟨0, _, h⟩, ha⟩

/-- C02 at full strength for its own quantifier (one process dying and restarting; any faults, crashes,
    clock behaviour, duplicate and concurrent-with-round submissions): what the PUBLIC checkpoint
    object held at the instant the acknowledgement was issued (`pubAt`, recorded by the `ack` step
    itself) covers the acknowledged index, and the leaf there is the acknowledged entry with exactly
    the acknowledged timestamp. With two overlapping instances the public object can regress (F3) and
    only `C02_ack_published` / `C02_ack_stable` hold. -/
theorem C02_ack_readable_solo {s : Sys} (r : ReachableSolo s) (ht : s.tampered = false) :
    ∀ a ∈ s.acks, ∃ c, a.pubAt = some c ∧ ∃ l, c.leaves[a.idx]? = some l ∧ l.key = a.key ∧ l.ts = a.ts :=
  ackPub_reachable r ht

/-- … and the public checkpoint object at every later instant of such a run still covers it -/
theorem C02_ack_stays_readable_solo {s : Sys} (r : ReachableSolo s) (ht : s.tampered = false) :
    ∀ a ∈ s.acks, ∃ c, s.store .ckpt = some (.ck c, false) ∧
      ∃ l, c.leaves[a.idx]? = some l ∧ l.key = a.key ∧ l.ts = a.ts :=
  acks_readable_now r ht

/-- only instance 0 acts in the demo run -/
theorem demo_inst : ∀ e ∈ Seq.Demo.demo, e.inst = some 0 := by
  have h : Seq.Demo.demo.all (fun e => e.inst == some 0) = true := by decide
  intro e he
  have := List.all_eq_true.1 h e he
  simpa using this

/-- non-vacuity: a single-process untampered run with an acknowledgement -/
example : ∃ s, ReachableSolo s ∧ s.tampered = false ∧ s.acks.length = 1 := by
  obtain ⟨s, h, _, _, ha⟩ := Seq.Demo.demo_runs
  obtain ⟨s2, h2, ht, _⟩ := Seq.Demo.demo_untampered
  have : s2 = s := by rw [h] at h2; injection h2 with h2; exact h2.symm
  subst this
  exact ⟨s2, (ReachableSolo.init 0).run_inst (i := 0) (fun _ _ => rfl) demo_inst h, ht, ha⟩

end C02
