import Proofs.Checkpoint
/-!
# C11 — signed tree heads verify independently; the checkpoint verifier is strict

Property theorems only. They are about `Model/Checkpoint.lean` (+ the blob/STH codecs of `Model/Codec.lean`), the
definitions `drv ckpt` runs against the real `NewRFC6962Verifier`, `signTreeHead`, `openCheckpoint`,
`ParseCheckpoint`, and whose reader/builder schemas `Tie/C11.lean` compares with /repo's source on every run.

Cryptography is symbolic (DESIGN §5): the raw signature check is a parameter `cv`; `symCv`/`symSign` is the
instance "a signature is valid iff it is the pair (key, message)". Unforgeability is an explicit hypothesis
(`Unforgeable`), never an axiom, with a satisfiable instance next to it.
-/
namespace C11
open Codec Checkpoint

/-! ## sample values for the non-vacuity examples -/

def name0 : Bytes := TilePath.ascii "example.com/log"
def root0 : Bytes := List.replicate 32 7
def key0 : PubKey := { kind := .ecdsa, id := [1, 2, 3] }
def wkey0 : PubKey := { kind := .other, id := [9] }
def cfg0 : Config := { name := name0, key := key0, keyHash := 1111, witnessKey := wkey0, witnessKeyHash := 2222 }
def text0 : Bytes := formatCheckpoint { origin := name0, n := 42, hash := root0, ext := [] }
def sth0 : Bytes := (sthInput 42 1700000000000 root0).getD []
def sig0 : NoteSig := { timestamp := 1700000000000, hashAlg := 4, sigAlg := 3, signature := symSign key0 sth0 }

/-! ## 1. what exactly the verifier accepts -/

/-- `C11_verify_iff`: the verify closure of `NewRFC6962Verifier(name, key)` accepts `(msg, sig)` iff
`msg` parses as a checkpoint for exactly this origin with no extension line, `sig` is exactly the encoding of
`(timestamp, hash_alg = 4, sig_alg, signature<0..2^16-1>)` with nothing after it, `sig_alg` is the one the key type
demands (RSA 1, ECDSA 3, nothing for other keys), and an independent CT verifier accepts `signature` over the RFC 6962
STH signature input rebuilt from (size, timestamp, root). -/
theorem verify_iff (cv : Crypto) (name : Bytes) (key : PubKey) (msg sig : Bytes) :
    verifier cv name key msg sig = true ↔
      ∃ c ts alg s, parseCheckpoint msg = some c ∧ c.origin = name ∧ c.ext = [] ∧
        sig = NoteSig.encode { timestamp := ts, hashAlg := 4, sigAlg := alg, signature := s } ∧
        ts < 18446744073709551616 ∧ s.length < 65536 ∧ algOf key.kind = some alg ∧
        independentVerify cv key c.n.toNat ts c.hash s = true := by
  rw [verifier_iff]
  constructor
  · intro ⟨c, x, alg, hp, ho, he, hs, hh, ha, hsa, hi⟩
    obtain ⟨henc, hwf⟩ := parseNoteSig_sound hs
    refine ⟨c, x.timestamp, alg, x.signature, hp, ho, he, ?_, hwf.1, hwf.2.2.2, ha, hi⟩
    rw [henc, ← hh, ← hsa]
  · intro ⟨c, ts, alg, s, hp, ho, he, hsig, hts, hsl, ha, hi⟩
    have halg : alg < 256 := by
      cases hk : key.kind <;> rw [hk] at ha <;> simp [algOf] at ha <;> omega
    have hwf : NoteSig.WF { timestamp := ts, hashAlg := 4, sigAlg := alg, signature := s } :=
      ⟨hts, by show (4 : Nat) < 256; decide, halg, hsl⟩
    have := parseNoteSig_encode _ hwf []
    rw [List.append_nil, if_pos rfl] at this
    exact ⟨c, { timestamp := ts, hashAlg := 4, sigAlg := alg, signature := s }, alg, hp, ho, he,
      by rw [hsig]; exact this, rfl, ha, rfl, hi⟩

example : verifier symCv name0 key0 text0 sig0.encode = true := by decide +kernel
example : verifier symCv name0 { key0 with kind := .rsa } text0 sig0.encode = false := by decide +kernel
example : verifier symCv name0 { key0 with kind := .other } text0 sig0.encode = false := by decide +kernel

/-! ## 2. the signed bytes determine the tree head -/

/-- `C11_sth_inj`: the STH signature input is injective in (tree size, timestamp, root hash). -/
theorem sth_inj (n ts n' ts' : Nat) (r r' a : Bytes)
    (hn : n < 18446744073709551616) (ht : ts < 18446744073709551616)
    (hn' : n' < 18446744073709551616) (ht' : ts' < 18446744073709551616)
    (h : sthInput n ts r = some a) (h' : sthInput n' ts' r' = some a) : n = n' ∧ ts = ts' ∧ r = r' :=
  sthInput_inj hn ht hn' ht' h h'

example : sthInput 42 1700000000000 root0 ≠ sthInput 43 1700000000000 root0 := by decide +kernel
example : (sthInput 1 2 root0).map List.length = some 50 := by decide +kernel

/-! ## 3. tuple binding and strictness -/

/-- unforgeability, as a hypothesis: whatever the raw check accepts for `key` is a signature over the STH input of a
tuple (size, timestamp, root) the key holder signed -/
def Unforgeable (cv : Crypto) (key : PubKey) (signed : List (Nat × Nat × Bytes)) : Prop :=
  ∀ m s, cv key m s = true → ∃ x ∈ signed, sthInput x.1 x.2.1 x.2.2 = some m

/-- the signing-oracle instance: only the listed tuples were ever signed -/
def oracleCv (signed : List (Nat × Nat × Bytes)) : Crypto := fun key m s =>
  signed.any (fun x => sthInput x.1 x.2.1 x.2.2 == some m) && s == symSign key m

theorem oracleCv_unforgeable (key : PubKey) (signed : List (Nat × Nat × Bytes)) : Unforgeable (oracleCv signed) key signed := by
  intro m s h
  simp only [oracleCv, Bool.and_eq_true, List.any_eq_true, beq_iff_eq] at h
  obtain ⟨⟨x, hx, he⟩, _⟩ := h
  exact ⟨x, hx, he⟩

/-- `C11_tuple_binding`: if the verifier accepts `(msg, sig)` then the independent verifier accepts the very same
(origin, size, root, timestamp) — and, signatures being unforgeable, that tuple is one the log signed. Hence changing
any component of the tuple in `msg` or `sig` leads to rejection (contrapositive), whatever else is done to the bytes. -/
theorem tuple_binding (cv : Crypto) (name : Bytes) (key : PubKey) (msg sig : Bytes)
    (signed : List (Nat × Nat × Bytes)) (hs : ∀ x ∈ signed, x.1 < 18446744073709551616 ∧ x.2.1 < 18446744073709551616)
    (hu : Unforgeable cv key signed) (h : verifier cv name key msg sig = true) :
    ∃ c x, parseCheckpoint msg = some c ∧ parseNoteSig sig = some x ∧ c.origin = name ∧ c.ext = [] ∧
      independentVerify cv key c.n.toNat x.timestamp c.hash x.signature = true ∧
      (c.n.toNat, x.timestamp, c.hash) ∈ signed := by
  obtain ⟨c, x, alg, hp, ho, he, hsx, _, _, _, hi⟩ := (verifier_iff cv name key msg sig).mp h
  refine ⟨c, x, hp, hsx, ho, he, hi, ?_⟩
  unfold independentVerify at hi
  cases hsth : sthInput c.n.toNat x.timestamp c.hash with
  | none => rw [hsth] at hi; cases hi
  | some sth =>
    rw [hsth] at hi
    obtain ⟨y, hy, hye⟩ := hu sth x.signature hi
    obtain ⟨b0, b1, _⟩ := parseCheckpoint_bounds hp
    have hwf := (parseNoteSig_sound hsx).2
    obtain ⟨e1, e2, e3⟩ := sthInput_inj (by omega) hwf.1 (hs y hy).1 (hs y hy).2 hsth hye
    have : (c.n.toNat, x.timestamp, c.hash) = y := by
      obtain ⟨y1, y2, y3⟩ := y
      simp only at e1 e2 e3
      rw [e1, e2, e3]
    rw [this]; exact hy

/-- the converse direction of "accepts only if the independent verifier accepts the same tuple": on a well-formed
message/signature pair the two verifiers agree -/
theorem agrees_with_independent (cv : Crypto) (name : Bytes) (key : PubKey) (c : Checkpoint) (msg : Bytes) (x : NoteSig)
    (hp : parseCheckpoint msg = some c) (ho : c.origin = name) (he : c.ext = []) (hwf : x.WF) (hh : x.hashAlg = 4)
    (ha : algOf key.kind = some x.sigAlg) :
    verifier cv name key msg x.encode = independentVerify cv key c.n.toNat x.timestamp c.hash x.signature := by
  have hpx := parseNoteSig_encode x hwf []
  rw [List.append_nil, if_pos rfl] at hpx
  cases hi : independentVerify cv key c.n.toNat x.timestamp c.hash x.signature with
  | true => exact (verifier_iff cv name key msg x.encode).mpr ⟨c, x, x.sigAlg, hp, ho, he, hpx, hh, ha, rfl, hi⟩
  | false =>
    cases hv : verifier cv name key msg x.encode with
    | false => rfl
    | true =>
      obtain ⟨c', x', alg, hp', _, _, hsx', _, _, _, hi'⟩ := (verifier_iff cv name key msg x.encode).mp hv
      rw [hp] at hp'; cases hp'
      rw [hpx] at hsx'; cases hsx'
      rw [hi] at hi'; cases hi'

-- the unforgeability hypothesis is satisfiable, and the verifier accepts the signed tuple under it
example : Unforgeable (oracleCv [(42, 1700000000000, root0)]) key0 [(42, 1700000000000, root0)] := oracleCv_unforgeable _ _
example : verifier (oracleCv [(42, 1700000000000, root0)]) name0 key0 text0 sig0.encode = true := by decide +kernel
-- a different size, root or timestamp under the same signature is rejected
example : verifier (oracleCv [(42, 1700000000000, root0)]) name0 key0
    (formatCheckpoint { origin := name0, n := 43, hash := root0, ext := [] }) sig0.encode = false := by decide +kernel
example : verifier (oracleCv [(42, 1700000000000, root0)]) name0 key0 text0
    ({ sig0 with timestamp := 1700000000001 } : NoteSig).encode = false := by decide +kernel

/-- `C11_strict_trailing`: bytes after the signature blob are rejected. -/
theorem strict_trailing (cv : Crypto) (name : Bytes) (key : PubKey) (msg sig t : Bytes) (ht : t ≠ [])
    (h : verifier cv name key msg sig = true) : verifier cv name key msg (sig ++ t) = false :=
  verifier_trailing cv name key msg sig t ht h

/-- `C11_strict_origin`: a checkpoint for another origin is rejected, whatever the signature. -/
theorem strict_origin (cv : Crypto) (name : Bytes) (key : PubKey) (msg sig : Bytes) (c : Checkpoint)
    (hp : parseCheckpoint msg = some c) (ho : c.origin ≠ name) : verifier cv name key msg sig = false :=
  verifier_foreign_origin cv name key msg sig c hp ho

/-- `C11_strict_extension`: a checkpoint with an extension line is rejected, whatever the signature. -/
theorem strict_extension (cv : Crypto) (name : Bytes) (key : PubKey) (msg sig : Bytes) (c : Checkpoint)
    (hp : parseCheckpoint msg = some c) (he : c.ext ≠ []) : verifier cv name key msg sig = false :=
  verifier_extension cv name key msg sig c hp he

/-- … and so is anything that is not a checkpoint. -/
theorem strict_unparsable (cv : Crypto) (name : Bytes) (key : PubKey) (msg sig : Bytes)
    (hp : parseCheckpoint msg = none) : verifier cv name key msg sig = false :=
  verifier_unparsable cv name key msg sig hp

example : verifier symCv name0 key0 text0 (sig0.encode ++ [0]) = false := by decide +kernel
example : verifier symCv (name0 ++ [120]) key0 text0 sig0.encode = false := by decide +kernel
example : verifier symCv name0 key0 (text0 ++ TilePath.ascii "extension\n") sig0.encode = false := by decide +kernel
example : (parseCheckpoint (text0 ++ TilePath.ascii "extension\n")).map (·.ext) = some (TilePath.ascii "extension\n") := by decide +kernel
-- the code signs the TUPLE, not the text: a second spelling of the same root (non-canonical base64) is accepted
example : parseCheckpoint (TilePath.ascii "a\n1\nAAAAAAAAAAAAAAAAAAAAAAAAAAAAAAAAAAAAAAAAAAB=\n") =
    parseCheckpoint (TilePath.ascii "a\n1\nAAAAAAAAAAAAAAAAAAAAAAAAAAAAAAAAAAAAAAAAAAA=\n") := by decide +kernel

/-! ## 4. what the log signs, opens -/

/-- `C11_sign_opens`: for every log name without newline (1..255 bytes), ECDSA log key, tree head with int64 size and
time and a 32-byte root, and any grease lines, `signTreeHead` succeeds; the note text is the checkpoint of
(name, size, root); `openCheckpoint` (the public RFC 6962 verifier for (name, key) + the cosignature verifier, through
`note.Open`) returns exactly that checkpoint and the tree-head time; the RFC 6962 signature line carries the time and
verifies; the ML-DSA cosignature line is present and verifies — whatever the order of the lines. -/
theorem sign_opens (c : Config) (n time : Int) (hash : Bytes) (cosigTime : Nat) (grease : List SigLine) (swap : Bool)
    (now : Int) (pre : SignPre c n time hash cosigTime grease) (hnow : time ≤ now) :
    ∃ note, signTreeHead symCv symSign c n time hash cosigTime grease swap = some note ∧
      note.text = formatCheckpoint { origin := c.name, n := n, hash := hash, ext := [] } ∧
      openCheckpoint symCv c now note = .ok ({ origin := c.name, n := n, hash := hash, ext := [] }, time) ∧
      (∃ s ∈ note.sigs, s.name = c.name ∧ s.hash = c.keyHash ∧ sigTimestamp s.sig = some time ∧
        verifier symCv c.name c.key note.text s.sig = true) ∧
      (∃ s ∈ note.sigs, s.name = c.name ∧ s.hash = c.witnessKeyHash ∧
        cosigVerify symCv c.name c.witnessKey note.text s.sig = true) :=
  Checkpoint.sign_opens c n time hash cosigTime grease swap now pre hnow

example : SignPre cfg0 42 1700000000000 root0 1700000000 [{ name := name0, hash := 5, sig := [1, 2, 3, 4, 5] }] :=
  ⟨by decide, by decide, rfl, by decide, by decide, by decide, by decide, by decide, by decide, by decide⟩
example : (signTreeHead symCv symSign cfg0 42 1700000000000 root0 1700000000 [] true).map (·.sigs.length) = some 2 := by decide +kernel
-- a negative size or a clock before the tree-head time do not open
example : signTreeHead symCv symSign cfg0 (-1) 1700000000000 root0 1700000000 [] false = none := by decide +kernel
example : ((signTreeHead symCv symSign cfg0 42 1700000000000 root0 1700000000 [] false).map
    (openCheckpoint symCv cfg0 1699999999999)) = some (.error .future) := by decide +kernel

/-! ## 5. the injected signer -/

/-- `C11_injected_signer_guard`: `NewRFC6962InjectedSigner(...).Sign(msg)` returns a signature only if the verifier
for the same (name, key) accepts it for `msg`; it then is `timestamp ‖ the injected TreeHeadSignature bytes`. -/
theorem injected_signer_guard (cv : Crypto) (name : Bytes) (key : PubKey) (ths : Bytes) (ts : Int) (msg blob : Bytes) :
    injectedSign cv name key ths ts msg = some blob ↔
      blob = injectedBlob ts ths ∧ verifier cv name key msg blob = true := by
  unfold injectedSign
  simp only
  constructor
  · intro h
    split at h
    · rename_i hv
      simp only [Option.some.injEq] at h
      subst h
      exact ⟨rfl, hv⟩
    · cases h
  · intro ⟨h1, h2⟩
    subst h1
    rw [if_pos h2]

example : injectedSign symCv name0 key0 ((digitallySigned sig0.signature).getD []) 1700000000000 text0 = some sig0.encode := by decide +kernel
example : injectedSign symCv name0 key0 ((digitallySigned sig0.signature).getD []) 1700000000001 text0 = none := by decide +kernel
example : injectedSign symCv name0 key0 ((digitallySigned sig0.signature).getD [] ++ [0]) 1700000000000 text0 = none := by decide +kernel

end C11
