import Proofs.Subtree
/-! C16 — Subtree cosignatures are issued only for subtrees of a cosigned tree. Property theorems only.

About `Subtree.signSubtree` (`Model/Subtree.lean`), for an arbitrary interior hash `node`;
collision-freeness of SHA-256 is the hypothesis `Merkle.NodeInj node` of `C16_sound`. Signatures
are symbolic (`Witness.symSig key message`): "key `k` has a valid cosignature on the checkpoint"
means that a signature line of the submitted note carries `k`'s name and key hash and is
`symSig k.key text`. `Tie/C16.lean` ties `Subtree.program` and the signing loop to the current
source; `vh subtree` + `drv subtree` run the real handler against `signSubtree` and the real
`ValidSubtree`/`CheckSubtree` against `Merkle.validSubtree`/`Merkle.checkSubtree`.
Outside the model: the byte-level split of the note, ML-DSA itself, HTTP. -/
namespace C16
open Subtree Checkpoint
open Witness (Hash symSig VKey Cfg Resp ErrClass NoteForm Opens noteOpen_sound)

variable (node : Hash → Hash → Hash)

/-- A 200 answer to sign-subtree carries, for the (origin, size, root) parsed from the presented
checkpoint — which has no extension lines — only lines that
* are made with the witness' ML-DSA key or the mirror key (`ownKeys`), one per signer, over
  `subtree/v1 ‖ signer name ‖ 0 ‖ origin ‖ start ‖ end ‖ hash`,
* for a signer whose own valid cosignature over the re-serialised checkpoint is among the lines of
  the presented note (the per-signer re-verification),
and only if `[start, end)` is a valid subtree, `end ≤ size`, and — for every leaf list that opens
the checkpoint — the supplied hash IS the hash of the subtree `[start, end)` of that tree. -/
theorem C16_sound (emptyHash : Hash) (inj : Merkle.NodeInj node) (e : Env) (sigs : List SigLine)
    (h : signSubtree node e = .ok sigs) :
    ∃ note c, e.req.note = .wellformed note ∧ parseCheckpoint note.text = some c ∧ c.ext = [] ∧
      c.origin = e.origin ∧ (∃ lc, e.cfg.find c.origin = some lc) ∧
      Merkle.validSubtree e.req.start e.req.stop = true ∧ e.req.stop ≤ c.n.toNat ∧
      (∀ B, Opens node emptyHash (c.n.toNat, c.hash) B →
        Merkle.subtreeHash node emptyHash B e.req.start e.req.stop = e.req.hash) ∧
      ∀ l ∈ sigs, ∃ k ∈ ownKeys e.cfg,
        (∃ m, subtreeMessage k.name 0 c.origin e.req.start e.req.stop e.req.hash = some m ∧
          l = { name := k.name, hash := k.hash, sig := symSig k.key m }) ∧
        ∃ sl ∈ note.sigs, sl.name = k.name ∧ sl.hash = k.hash ∧ sl.sig = symSig k.key (formatCheckpoint c) := by
  unfold signSubtree at h
  cases hf : firstFail node program e with
  | some c => rw [hf] at h; cases h
  | none =>
    rw [hf] at h
    have F := facts_of_none node hf
    obtain ⟨vs, hvs⟩ := F.opened
    obtain ⟨c, hc, hco, hce, hle, hcs⟩ := F.ck
    simp only [hvs, hc] at h
    cases hn : e.req.note with
    | malformed l => simp [Env.opened, hn] at hvs
    | truncated nt =>
      simp only [Env.opened, hn] at hvs
      split at hvs <;> cases hvs
    | wellformed note =>
      have hck : parseCheckpoint note.text = some c := by simpa [Env.ckpt, Env.text, hn] using hc
      have hlines : e.lines = note.sigs := by simp [Env.lines, hn]
      obtain ⟨lc, hlc⟩ := F.known
      refine ⟨note, c, rfl, hck, hce, hco, ⟨lc, by rw [hco]; exact hlc⟩, F.valid, hle, ?_, ?_⟩
      · intro B hB
        exact Merkle.checkSubtree_sound node emptyHash inj _ _ _ _ _ _ hcs B hB.1 hB.2
      · cases hsa : signAll c e.lines e.req.start e.req.stop e.req.hash (signersOf e.cfg vs) with
        | none => rw [hsa] at h; cases h
        | some out =>
          rw [hsa] at h
          simp only [Resp.ok.injEq] at h
          subst h
          obtain ⟨_, hall⟩ := signAll_sound c e.lines e.req.start e.req.stop e.req.hash _ _ hsa
          intro l hl
          obtain ⟨k, hk, hre, hsl⟩ := hall l hl
          refine ⟨k, (signersOf_mem hk).1, ?_, ?_⟩
          · unfold signLine at hsl
            split at hsl
            · cases hsl
            · split at hsl
              · rename_i m hm
                simp only [Option.some.injEq] at hsl
                exact ⟨m, hm, hsl.symm⟩
              · cases hsl
          · rw [hlines] at hre
            exact reverify_sound hre

/-- a 200 answer is never empty: every verified signature selects at least one signer -/
theorem C16_nonempty (e : Env) (sigs : List SigLine) (h : signSubtree node e = .ok sigs) : sigs ≠ [] := by
  unfold signSubtree at h
  cases hf : firstFail node program e with
  | some c => rw [hf] at h; cases h
  | none =>
    rw [hf] at h
    have F := facts_of_none node hf
    obtain ⟨vs, hvs⟩ := F.opened
    obtain ⟨c, hc, _⟩ := F.ck
    simp only [hvs, hc] at h
    cases hsa : signAll c e.lines e.req.start e.req.stop e.req.hash (signersOf e.cfg vs) with
    | none => rw [hsa] at h; cases h
    | some out =>
      rw [hsa] at h
      simp only [Resp.ok.injEq] at h
      subst h
      obtain ⟨hlen, _⟩ := signAll_sound c e.lines e.req.start e.req.stop e.req.hash _ _ hsa
      -- the verified list is not empty and its first element matches one of the own keys
      cases hn : e.req.note with
      | malformed l => simp [Env.opened, hn] at hvs
      | truncated nt =>
        simp only [Env.opened, hn] at hvs
        split at hvs <;> cases hvs
      | wellformed note =>
        simp only [Env.opened, hn] at hvs
        obtain ⟨hne, hall⟩ := noteOpen_sound hvs
        cases vs with
        | nil => exact absurd rfl hne
        | cons s rest =>
          obtain ⟨_, v, hv, h1, h2, _⟩ := hall s (by simp)
          obtain ⟨k, hk, rfl⟩ := List.mem_map.1 hv
          have hm : k.matches s = true := by simp [VKey.matches, VKey.verifier] at h1 h2 ⊢; exact ⟨h1, h2⟩
          have hmem : k ∈ signersOf e.cfg (s :: rest) := by
            unfold signersOf
            simp only [List.flatMap_cons, List.mem_append]
            left
            simp only [ownKeys, List.mem_cons, Option.mem_toList] at hk
            rcases hk with rfl | hk
            · left; simp [hm]
            · right
              rw [hk]; simp [hm]
          intro hempty
          rw [hempty] at hlen
          have : (signersOf e.cfg (s :: rest)).length = 0 := hlen.symm
          rw [List.length_eq_zero_iff] at this
          rw [this] at hmem
          cases hmem

/-- No signature at all — an error status — when the presented checkpoint carries no valid
cosignature by an own key, or the range is not a valid subtree, or it reaches beyond the
checkpoint's size, or the hash/proof does not verify, or the log is unknown, or the checkpoint
has extension lines. -/
theorem C16_none (e : Env)
    (h : (∀ vs, e.opened ≠ .ok vs) ∨ Merkle.validSubtree e.req.start e.req.stop = false ∨
      e.cfg.find e.origin = none ∨
      (∀ c, e.ckpt = some c → c.ext ≠ [] ∨ c.n.toNat < e.req.stop ∨
        Merkle.checkSubtree node e.req.proof.reverse c.n.toNat c.hash e.req.start e.req.stop e.req.hash = false)) :
    ∀ sigs, signSubtree node e ≠ .ok sigs := by
  intro sigs hs
  unfold signSubtree at hs
  cases hf : firstFail node program e with
  | some c => rw [hf] at hs; cases hs
  | none =>
    have F := facts_of_none node hf
    obtain ⟨vs, hvs⟩ := F.opened
    obtain ⟨c, hc, _, hce, hle, hcs⟩ := F.ck
    rcases h with h | h | h | h
    · exact h vs hvs
    · rw [F.valid] at h; cases h
    · obtain ⟨lc, hlc⟩ := F.known; rw [hlc] at h; cases h
    · rcases h c hc with h | h | h
      · exact h hce
      · omega
      · rw [hcs] at h; cases h

/-- the protocol's answers, in the order the checks are made -/
theorem C16_status (e : Env) :
    ((e.req.body ≠ .ok ∨ Merkle.validSubtree e.req.start e.req.stop = false) →
      signSubtree node e = .err .badRequest 0) ∧
    (e.req.body = .ok → Merkle.validSubtree e.req.start e.req.stop = true →
      (e.cfg.find e.origin = none → signSubtree node e = .err .unknownLog 0) ∧
      (e.cfg.find e.origin ≠ none →
        ((e.opened = .error .unverified ∨ e.opened = .error .invalidSignature) →
          signSubtree node e = .err .invalidSignature 0) ∧
        (∀ x, e.opened = .error x → x ≠ .unverified → x ≠ .invalidSignature →
          signSubtree node e = .err .badRequest 0) ∧
        (∀ vs, e.opened = .ok vs →
          (e.ckpt = none → signSubtree node e = .err .badCheckpoint 0) ∧
          (∀ c, e.ckpt = some c → c.origin = e.origin →
            (c.ext ≠ [] → signSubtree node e = .err .extensions 0) ∧
            (c.ext = [] → c.n.toNat < e.req.stop → signSubtree node e = .err .badRequest 0) ∧
            (c.ext = [] → e.req.stop ≤ c.n.toNat →
              Merkle.checkSubtree node e.req.proof.reverse c.n.toNat c.hash e.req.start e.req.stop e.req.hash = false →
              signSubtree node e = .err .proof 0))))) := by
  refine ⟨?_, ?_⟩
  · intro h
    unfold signSubtree
    rw [program_split, firstFail_same node bodySteps noteSteps .badRequest e (by decide) (body_fails node h)]
  · intro hb hv
    have hnote := firstFail_body_ok node hb hv
    have key : ∀ c, firstFail node noteSteps e = some c → signSubtree node e = .err c 0 := by
      intro c hc; unfold signSubtree; rw [hnote, hc]
    refine ⟨?_, ?_⟩
    · intro hl
      exact key _ (firstFail_prefix node [] _ ⟨.knownOrigin, .unknownLog⟩ e (by simp) (by simp [holds, hl]))
    · intro hl
      have g1 : holds node .knownOrigin e = true := by
        simp only [holds]; cases hx : e.cfg.find e.origin with
        | none => exact absurd hx hl
        | some _ => rfl
      refine ⟨?_, ?_, ?_⟩
      · intro ho
        refine key _ (firstFail_prefix node [⟨.knownOrigin, .unknownLog⟩] _ ⟨.noteSig, .invalidSignature⟩ e
          (by simp [g1]) ?_)
        rcases ho with ho | ho <;> simp [holds, ho]
      · intro x ho h1 h2
        refine key _ (firstFail_prefix node [⟨.knownOrigin, .unknownLog⟩, ⟨.noteSig, .invalidSignature⟩] _
          ⟨.noteOther, .badRequest⟩ e ?_ (by simp [holds, ho]))
        intro y hy
        simp only [List.mem_cons, List.mem_nil_iff, or_false] at hy
        rcases hy with rfl | rfl
        · exact g1
        · cases x <;> simp_all [holds]
      · intro vs ho
        have g2 : holds node .noteSig e = true := by simp [holds, ho]
        have g3 : holds node .noteOther e = true := by simp [holds, ho]
        refine ⟨?_, ?_⟩
        · intro hc
          refine key _ (firstFail_prefix node
            [⟨.knownOrigin, .unknownLog⟩, ⟨.noteSig, .invalidSignature⟩, ⟨.noteOther, .badRequest⟩] _
            ⟨.parseCkpt, .badCheckpoint⟩ e ?_ (by simp [holds, hc]))
          intro y hy
          simp only [List.mem_cons, List.mem_nil_iff, or_false] at hy
          rcases hy with rfl | rfl | rfl <;> assumption
        · intro c hc hco
          have g4 : holds node .parseCkpt e = true := by simp [holds, hc]
          have g5 : holds node .originCoherent e = true := by simp [holds, hc, hco]
          refine ⟨?_, ?_, ?_⟩
          · intro he
            refine key _ (firstFail_prefix node
              [⟨.knownOrigin, .unknownLog⟩, ⟨.noteSig, .invalidSignature⟩, ⟨.noteOther, .badRequest⟩,
               ⟨.parseCkpt, .badCheckpoint⟩, ⟨.originCoherent, .internal⟩] _
              ⟨.noExtension, .extensions⟩ e ?_ (by simp [holds, hc, he]))
            intro y hy
            simp only [List.mem_cons, List.mem_nil_iff, or_false] at hy
            rcases hy with rfl | rfl | rfl | rfl | rfl <;> assumption
          · intro he hlt
            have g6 : holds node .noExtension e = true := by simp [holds, hc, he]
            refine key _ (firstFail_prefix node
              [⟨.knownOrigin, .unknownLog⟩, ⟨.noteSig, .invalidSignature⟩, ⟨.noteOther, .badRequest⟩,
               ⟨.parseCkpt, .badCheckpoint⟩, ⟨.originCoherent, .internal⟩, ⟨.noExtension, .extensions⟩] _
              ⟨.endWithin, .badRequest⟩ e ?_ (by simp [holds, hc]; omega))
            intro y hy
            simp only [List.mem_cons, List.mem_nil_iff, or_false] at hy
            rcases hy with rfl | rfl | rfl | rfl | rfl | rfl <;> assumption
          · intro he hle hcs
            have g6 : holds node .noExtension e = true := by simp [holds, hc, he]
            have g7 : holds node .endWithin e = true := by simp [holds, hc]; omega
            refine key _ (firstFail_prefix node
              [⟨.knownOrigin, .unknownLog⟩, ⟨.noteSig, .invalidSignature⟩, ⟨.noteOther, .badRequest⟩,
               ⟨.parseCkpt, .badCheckpoint⟩, ⟨.originCoherent, .internal⟩, ⟨.noExtension, .extensions⟩,
               ⟨.endWithin, .badRequest⟩] [] ⟨.subtreeProof, .proof⟩ e ?_ (by simp [holds, hc, hcs]))
            intro y hy
            simp only [List.mem_cons, List.mem_nil_iff, or_false] at hy
            rcases hy with rfl | rfl | rfl | rfl | rfl | rfl | rfl <;> assumption

/-- `torchwood.ValidSubtree` for non-negative arguments: a non-empty range no longer than 2^62
whose start is a multiple of the smallest power of two not smaller than its length -/
theorem C16_validSubtree_spec (s e : Nat) :
    Merkle.validSubtree s e = true ↔ s < e ∧ e - s ≤ Merkle.maxN ∧ s % Merkle.bitCeil (e - s) = 0 :=
  Merkle.validSubtree_spec s e

/-- `bitCeil n` is the smallest power of two that is at least `n` -/
theorem C16_bitCeil_spec (n : Nat) :
    (∃ k, Merkle.bitCeil n = 2 ^ k) ∧ n ≤ Merkle.bitCeil n ∧ ∀ k, n ≤ 2 ^ k → Merkle.bitCeil n ≤ 2 ^ k :=
  ⟨Merkle.bitCeil_pow n, Merkle.le_bitCeil n, fun _ h => Merkle.bitCeil_min h⟩

example : Merkle.validSubtree 4 8 = true ∧ Merkle.validSubtree 4 7 = true ∧ Merkle.validSubtree 2 6 = false ∧
    Merkle.validSubtree 0 5 = true ∧ Merkle.validSubtree 5 5 = false ∧ Merkle.validSubtree 6 5 = false := by
  decide

/-! ### non-vacuity: the machine answers -/
namespace Example

def nodeE (a b : Hash) : Hash := a.take 16 ++ b.take 16
def k1 : VKey := ⟨[119], 1, 0⟩
def k2 : VKey := ⟨[119], 2, 1⟩
def km : VKey := ⟨[109], 4, 3⟩
def logKey : VKey := ⟨[111], 3, 2⟩
def cfg : Cfg := { k1 := k1, k2 := k2, mirror := some km, logs := [⟨[111], [logKey]⟩] }
def leaf0 : Hash := List.replicate 32 7
def leaf1 : Hash := List.replicate 32 9
def text : Bytes := formatCheckpoint { origin := [111], n := 2, hash := nodeE leaf0 leaf1, ext := [] }
def note (ks : List VKey) : NoteForm := .wellformed { text := text, sigs := ks.map (·.sign text) }
def env (ks : List VKey) (s e : Nat) (h : Hash) (p : List Hash) : Env :=
  { cfg := cfg, req := { body := .ok, start := s, stop := e, hash := h, proof := p, note := note ks } }

def line (k : VKey) (s e : Nat) (h : Hash) : Option Checkpoint.SigLine :=
  (subtreeMessage k.name 0 [111] s e h).map fun m => { name := k.name, hash := k.hash, sig := symSig k.key m }

set_option maxRecDepth 100000

/-- cosigned by the witness' ML-DSA key and the mirror key: both sign the subtree [0,1) -/
example : some (signSubtree nodeE (env [logKey, k1, k2, km] 0 1 leaf0 [leaf1])) =
    (do let a ← line k2 0 1 leaf0; let b ← line km 0 1 leaf0; pure (Resp.ok [a, b])) := by decide

/-- cosigned by the ML-DSA key only: only that key signs; by the Ed25519 key only: 403 -/
example : some (signSubtree nodeE (env [logKey, k2] 1 2 leaf1 [leaf0])) =
    (do let a ← line k2 1 2 leaf1; pure (Resp.ok [a])) := by decide
example : signSubtree nodeE (env [logKey, k1] 0 1 leaf0 [leaf1]) = .err .invalidSignature 0 := by decide
/-- a wrong hash: 422; a range beyond the size: 400; a range that is not a subtree: 400 -/
example : signSubtree nodeE (env [logKey, k2] 0 1 leaf1 [leaf1]) = .err .proof 0 := by decide
example : signSubtree nodeE (env [logKey, k2] 2 3 leaf1 []) = .err .badRequest 0 := by decide
example : signSubtree nodeE (env [logKey, k2] 1 3 leaf1 []) = .err .badRequest 0 := by decide

end Example
end C16
