import Proofs.SeqSteps
import Proofs.SeqStore2
import Proofs.SeqDemo
import Proofs.SeqRecoverDemo
import Proofs.SeqSolo
import Proofs.SeqBricked
/-! C03 — A crash at any point of sequencing or recovery is recoverable without loss.
`Reachable` includes a `crash` event at every point between two storage/lock operations of a round
and of a recovery, with every applied/not-applied outcome of the operation in flight.

Proved here, for every accepted event sequence: nothing acknowledged is ever lost from the committed
history; a staging bundle is discarded only after the published checkpoint has caught up with it; the tree
committed in the lock store is always completely rendered or its bundle is still staged
(`C03_lock_tree_recoverable_state`, invariant `Inv4`); and the liveness half — **for runs with one live
process at a time, which is C03's own quantifier, a fault-free restart from EVERY reachable untampered
state is accepted event by event and ends `loaded` on exactly the lock checkpoint with every tile
present and the instance able to sequence again** (`C03_recoverable`, `C03_recoverable_after_crash`).
For overlapping processes the same holds whenever the checkpoint object has the lock checkpoint's leaves
or the bundle is still staged (`C03_recoverable_of_ckpt_or_staged`, `…_of_no_regression`); without
that hypothesis it is FALSE in the model and in the code: `C03_unrecoverable_after_pub_regress_witness`
(finding F9, replayed on real instances) and `C03_bricked_forever`. Not modelled: wall-clock time-outs.
-/
namespace C03
open Seq

/-- No acknowledged entry is lost: every acknowledgement ever issued stays at its index in every
    later committed or published checkpoint that covers it — across any number of crashes and restarts. -/
theorem C03_no_loss {s : Sys} (r : Reachable s) :
    ∀ a ∈ s.acks, ∃ c ∈ s.lockHist, ∃ l, c.leaves[a.idx]? = some l ∧ l.key = a.key ∧ l.ts = a.ts := by
  intro a ha
  obtain ⟨c, hc, l, h⟩ := (inv2_reachable r).acks a ha
  exact ⟨c, (inv_reachable r).pub c hc, l, h⟩

/-- A staged upload bundle is discarded only by the round that staged it, after that round's
    checkpoint upload succeeded, i.e. after the published checkpoint caught up with it. -/
theorem C03_discard_late {s s' : Sys} (r : Reachable s) (i : Nat) (k : Key) (res : Res)
    (h : step s (.discard i k res) = some s') : ∃ c ∈ s.pubHist, k = .staging c.leaves := by
  obtain ⟨rd, hph, hpc, hk⟩ := discard_only_after_publish s s' i k res h
  obtain ⟨hpub, hisp⟩ := (inv2_reachable r).round i rd hph
  have hp : rd.published = true := by rw [hisp, hpc]; rfl
  exact ⟨rd.new, hpub hp, hk⟩

/-- Nothing but staging bundles is ever discarded. -/
theorem C03_only_staging_discarded {s : Sys} (r : Reachable s) : ∀ k ∈ s.discarded, ∃ t, k = .staging t :=
  (inv2_reachable r).disc

/-- Recovery (partial): an instance comes up only on the checkpoint it fetched from the lock store, a
    committed one, and only if every right-edge object it consulted was the rendering of that tree;
    afterwards it extends exactly that tree (`C01_lock_chain`). Missing for the full statement: the
    existence of a successful fault-free recovery run from every crash state (needs the store
    invariant "lock checkpoint's tiles are present or staged"), which is checked by enumeration. -/
theorem C03_recoverable_partial {s s' : Sys} (r : Reachable s) (i : Nat) (c : Ck)
    (h : step s (.loaded i c) = some s') : c ∈ s.lockHist ∧ (s'.insts i).tree = c := by
  obtain ⟨hph, ht⟩ := loaded_sound s s' i c h
  have := (inv_reachable r).inst i
  simp only [InstOK, hph, LoadOK] at this
  exact ⟨this, ht⟩

/-- After a restart has loaded successfully — from whatever crash state, with whatever was applied of the
    operations in flight — every tile of the tree committed in the lock store is present in object storage
    with the prescribed content (no tampering). -/
theorem C03_loaded_complete {s s' : Sys} (r : Reachable s) (ht : s.tampered = false) (i : Nat) (c : Ck)
    (h : step s (.loaded i c) = some s') : Complete s.store c.leaves := by
  obtain ⟨hph, _⟩ := loaded_sound s s' i c h
  have := (inv3_reachable r ht).inst i
  simpa [SOK, hph] using this

/-- A staged bundle in storage always belongs to a completely rendered base tree: re-applying it
    (idempotently: tiles are immutable) yields the completely rendered committed tree. -/
theorem C03_staged_bundle_recovers {s : Sys} (r : Reachable s) (ht : s.tampered = false) (tr : Tree)
    (items : List (TileId × Tree)) (imm : Bool) (hs : s.store (.staging tr) = some (.bundle items, imm)) :
    ∃ old, bundleOK old.length tr items = true ∧ old <+: tr ∧ Complete s.store old ∧
      ∀ st', TileLe s.store st' → (∀ t ∈ items.map (·.1), Good st' tr t) → Complete st' tr := by
  obtain ⟨old, hb, hp, hc⟩ := (inv3_reachable r ht).staged tr items imm hs
  exact ⟨old, hb, hp, hc, fun st' hle hg => complete_of_bundle (hc.mono hle) hp hb hg⟩

/-- crash events are accepted in every state -/
theorem C03_crash_anywhere (s : Sys) (i : Nat) : ∃ s', step s (.crash i) = some s' := ⟨_, rfl⟩

example : ∃ s, Reachable s ∧ s.lockHist.length = 3 := by
  obtain ⟨s, hr, hl⟩ := Seq.Demo.demo_reachable
  exact ⟨s, hr, by rw [hl]; rfl⟩

/-- **The lock tree is always recoverable from the store (I5).** In every reachable untampered state the
    tree committed in the lock store is completely rendered in object storage, or its upload bundle is
    still staged: a non-empty bundle of exactly the tiles of a growth step from a completely rendered
    base tree, whose (idempotent) re-application renders the committed tree completely. -/
theorem C03_lock_tree_recoverable_state {s : Sys} (r : Reachable s) (ht : s.tampered = false) (c : Ck)
    (hl : s.lock = some c) :
    Complete s.store c.leaves ∨
    ∃ items imm, s.store (.staging c.leaves) = some (.bundle items, imm) ∧ items ≠ [] ∧
      ∃ old, bundleOK old.length c.leaves items = true ∧ old <+: c.leaves ∧ Complete s.store old ∧
        ∀ st', TileLe s.store st' → (∀ t ∈ items.map (·.1), Good st' c.leaves t) → Complete st' c.leaves := by
  have h4 := inv4_reachable r ht
  rcases h4.lockRec (inv_reachable r) (inv3_reachable r ht) c hl with hc | ⟨items, imm, hs⟩
  · exact Or.inl hc
  · right
    obtain ⟨_, items', hb, hne⟩ := h4.stagedNe _ _ _ hs
    injection hb with hb; subst hb
    exact ⟨items, imm, hs, hne, C03_staged_bundle_recovers r ht c.leaves items imm hs⟩

/-- Every committed tree (not only the newest) is empty, or was published, or still has its bundle staged. -/
theorem C03_committed_trees_recoverable {s : Sys} (r : Reachable s) (ht : s.tampered = false) :
    ∀ c ∈ s.lockHist, c.leaves = [] ∨ (∃ p ∈ s.pubHist, p.leaves = c.leaves) ∨
      ∃ items imm, s.store (.staging c.leaves) = some (.bundle items, imm) :=
  (inv4_reachable r ht).hist

/-- **Recovery, conditional form.** From every reachable untampered state in which log creation has
    completed, a fault-free `LoadLog` of a stopped instance (started with the log's own name and key, at a
    clock value not before the lock checkpoint's) is accepted by the model event by event and ends
    `loaded` on exactly the lock-store checkpoint, with every tile of that tree present, every requested
    right-edge fetch answered with the prescribed content, locks / histories / other instances
    untouched, and the instance able to sequence again — PROVIDED (`hcs`) the checkpoint object has the
    lock checkpoint's leaves or the lock tree's bundle is still staged. `hcs` is not a theorem of the
    model: see `C03_unrecoverable_after_pub_regress_witness`. It holds whenever the checkpoint object is
    a longest published one (`C03_recoverable_of_no_regression`) and in every state of a run with one
    live process at a time (`C03_recoverable`). -/
theorem C03_recoverable_of_ckpt_or_staged {s : Sys} (r : Reachable s) (ht : s.tampered = false) (i : Nat) (c : Ck)
    (v : Nat) (hl : s.lock = some c) (hpub : s.pubHist ≠ [])
    (hdown : (s.insts i).phase = .down) (hcfg : (s.insts i).cfgBad = false) (hv : c.time ≤ v)
    (hcs : ∀ c1 imm, s.store .ckpt = some (.ck c1, imm) → c1.leaves = c.leaves ∨
      ∃ items imm', s.store (.staging c.leaves) = some (.bundle items, imm'))
    (ts : List TileId) (hts : ∀ t ∈ ts, Req c.leaves.length t = true ∧ t.kind.level < 8) :
    ∃ es s', run s es = some s' ∧ (s'.insts i).phase = .idle ∧ (s'.insts i).tree = c ∧
      Complete s'.store c.leaves ∧ s'.lock = some c ∧ s'.lockHist = s.lockHist ∧ s'.pubHist = s.pubHist ∧
      s'.tampered = false ∧ (∀ j, j ≠ i → s'.insts j = s.insts j) ∧
      es.head? = some (.launchLoad i) ∧ es.getLast? = some (.loaded i c) ∧
      (∀ t ∈ ts, Ev.fetch i (.tile t) (.ok (.slice (t.slice c.leaves))) ∈ es) ∧
      (∃ s'', step s' (.launchRound i) = some s'') :=
  recover_run_of_ckpt_or_staged r ht i c v hl hpub hdown hcfg hv hcs ts hts

/-- the same when the checkpoint object is a longest published checkpoint (no publication regression) -/
theorem C03_recoverable_of_no_regression {s : Sys} (r : Reachable s) (ht : s.tampered = false) (i : Nat) (c : Ck)
    (v : Nat) (hl : s.lock = some c) (hpub : s.pubHist ≠ [])
    (hdown : (s.insts i).phase = .down) (hcfg : (s.insts i).cfgBad = false) (hv : c.time ≤ v)
    (hnr : ∀ c1 imm, s.store .ckpt = some (.ck c1, imm) → ∀ p ∈ s.pubHist, p.leaves.length ≤ c1.leaves.length)
    (ts : List TileId) (hts : ∀ t ∈ ts, Req c.leaves.length t = true ∧ t.kind.level < 8) :
    ∃ es s', run s es = some s' ∧ (s'.insts i).phase = .idle ∧ (s'.insts i).tree = c ∧
      Complete s'.store c.leaves ∧ s'.lock = some c ∧ s'.lockHist = s.lockHist ∧ s'.pubHist = s.pubHist ∧
      s'.tampered = false ∧ (∀ j, j ≠ i → s'.insts j = s.insts j) ∧
      es.head? = some (.launchLoad i) ∧ es.getLast? = some (.loaded i c) ∧
      (∀ t ∈ ts, Ev.fetch i (.tile t) (.ok (.slice (t.slice c.leaves))) ∈ es) ∧
      (∃ s'', step s' (.launchRound i) = some s'') :=
  recover_run_of_ckpt_or_staged r ht i c v hl hpub hdown hcfg hv
    (ckpt_or_staged_of_no_regression r ht hl hnr) ts hts

/-- **Unconditional recovery is false in the model** (and in the code: replayed on real `ctlog.Log`
    instances): a publication regression followed by a discard. There is a reachable, untampered state
    with log creation completed, every process down (all with the log's own configuration) and a lock
    checkpoint `c`, in which the fault-free load of ANY instance is accepted up to the staging fetch and
    there every consistent fetch result ends the load in failure: the checkpoint object is behind the
    lock checkpoint and the lock tree's bundle has been discarded (although every tile of the lock tree
    is in the store). Moreover the state is bricked forever: no accepted event sequence without
    tampering — any instances, fault outcomes, interleavings — ever contains a `loaded` event or
    brings an instance up. Run: `Seq.Cex.cex`. -/
theorem C03_unrecoverable_after_pub_regress_witness :
    ∃ s c, Reachable s ∧ s.tampered = false ∧ s.pubHist ≠ [] ∧ s.lock = some c ∧
      (∀ j, (s.insts j).phase = .down ∧ (s.insts j).cfgBad = false) ∧
      (∃ c1, s.store .ckpt = some (.ck c1, false) ∧ c1.leaves.length < c.leaves.length) ∧
      s.store (.staging c.leaves) = none ∧ Complete s.store c.leaves ∧
      (∀ i, ∃ sL, run s (Seq.Cex.loadAttempt i) = some sL ∧ (sL.insts i).phase = .loading (.stagingFetch c) ∧
        ∀ k res s', step sL (.fetch i k res) = some s' →
          k = .staging c.leaves ∧ (s'.insts i).phase = .loading .failing) ∧
      (∀ es s', run s es = some s' → s'.tampered = false →
        (∀ i, isUp (s'.insts i) = false) ∧ ∀ i c', Ev.loaded i c' ∉ es) := by
  obtain ⟨s, h, ht, hl, _, hp, hck, hstg, _⟩ := Seq.Cex.cex_runs
  have r : Reachable s := ⟨0, _, h⟩
  refine ⟨s, Seq.RecDemo.c2, r, ht, by rw [hp]; simp, hl, Seq.Cex.cex_all_down h,
    ⟨Seq.RecDemo.c1, hck, by decide⟩, hstg, ?_, Seq.Cex.cex_load_fails h, ?_⟩
  · exact (inv3_reachable r ht).pub _ (by rw [hp]; simp)
  · intro es s' hrun ht'
    exact (bricked_forever (Seq.Cex.cex_bricked h) hrun ht').2

/-- non-vacuity of the recovery theorems: a process that died right after its compare-and-swap (one of
    three tiles uploaded) leaves a state satisfying every hypothesis of `C03_recoverable_of_ckpt_or_staged` -/
example : ∃ s i c v, Reachable s ∧ s.tampered = false ∧ s.lock = some c ∧ s.pubHist ≠ [] ∧
    (s.insts i).phase = .down ∧ (s.insts i).cfgBad = false ∧ c.time ≤ v ∧ ¬ Complete s.store c.leaves ∧
    (∀ c1 imm, s.store .ckpt = some (.ck c1, imm) → c1.leaves = c.leaves ∨
      ∃ items imm', s.store (.staging c.leaves) = some (.bundle items, imm')) := by
  obtain ⟨s, h, ht, hl, hp, hck, hstg, hd, hg, hnone⟩ := Seq.RecDemo.crashAfterCas_runs
  refine ⟨s, 0, Seq.RecDemo.c1, 120, ⟨0, _, h⟩, ht, hl, by rw [hp]; simp, hd, hg, by decide, ?_,
    fun _ _ _ => Or.inr ⟨_, _, hstg⟩⟩
  intro hc
  have := hc ⟨.names, 0, 1⟩ (by decide) (by decide)
  rw [Good, hnone] at this
  cases this

/-- **C03, liveness half: a crash at any point is recoverable.** C03 quantifies over ONE process dying
    and restarting: runs in which at most one instance is running at any moment (`ReachableSolo`; every
    fault outcome of every storage / lock operation, crashes between any two operations, any number
    of restarts). In every state of such a run, without tampering, once log creation has completed, a
    fault-free `LoadLog` of a stopped instance started with the log's own configuration, at a clock
    value not before the lock checkpoint's, is accepted by the model event by event and ends `loaded` on
    exactly the lock-store checkpoint, with every tile of that tree present and every requested
    right-edge fetch answered with the prescribed content; locks, histories and other instances are
    untouched; the instance can start a sequencing round; and the resulting state is again a state of a
    single-process run, so the theorem applies to every later crash as well. -/
theorem C03_recoverable {s : Sys} (r : ReachableSolo s) (ht : s.tampered = false) (i : Nat) (c : Ck) (v : Nat)
    (hl : s.lock = some c) (hpub : s.pubHist ≠ [])
    (hdown : (s.insts i).phase = .down) (hcfg : (s.insts i).cfgBad = false) (hv : c.time ≤ v)
    (ts : List TileId) (hts : ∀ t ∈ ts, Req c.leaves.length t = true ∧ t.kind.level < 8) :
    ∃ es s', run s es = some s' ∧ (s'.insts i).phase = .idle ∧ (s'.insts i).tree = c ∧
      Complete s'.store c.leaves ∧ s'.lock = some c ∧ s'.lockHist = s.lockHist ∧ s'.pubHist = s.pubHist ∧
      s'.tampered = false ∧ (∀ j, j ≠ i → s'.insts j = s.insts j) ∧
      es.head? = some (.launchLoad i) ∧ es.getLast? = some (.loaded i c) ∧
      (∀ t ∈ ts, Ev.fetch i (.tile t) (.ok (.slice (t.slice c.leaves))) ∈ es) ∧
      (∃ s'', step s' (.launchRound i) = some s'') ∧
      ((∀ j, j ≠ i → (s.insts j).phase = .down) → ReachableSolo s') :=
  recover_run_solo r ht i c v hl hpub hdown hcfg hv ts hts

/-- the crash form: the running process `i` of a single-process run dies in ANY state (in the middle of a
    round, of a recovery, of anything); then every process is down, and restarting any instance `k`
    that has the log's own configuration recovers as in `C03_recoverable` -/
theorem C03_recoverable_after_crash {s0 : Sys} (r : ReachableSolo s0) (ht : s0.tampered = false) (i k : Nat)
    (c : Ck) (v : Nat) (hl : s0.lock = some c) (hpub : s0.pubHist ≠ [])
    (hothers : ∀ j, j ≠ i → (s0.insts j).phase = .down)
    (hcfg : (s0.insts k).cfgBad = false) (hv : c.time ≤ v)
    (ts : List TileId) (hts : ∀ t ∈ ts, Req c.leaves.length t = true ∧ t.kind.level < 8) :
    ∃ s, step s0 (.crash i) = some s ∧ (∀ j, (s.insts j).phase = .down) ∧
    ∃ es s', run s es = some s' ∧ (s'.insts k).phase = .idle ∧ (s'.insts k).tree = c ∧
      Complete s'.store c.leaves ∧ s'.lock = some c ∧ s'.lockHist = s.lockHist ∧ s'.pubHist = s.pubHist ∧
      s'.tampered = false ∧ (∀ j, j ≠ k → s'.insts j = s.insts j) ∧
      es.head? = some (.launchLoad k) ∧ es.getLast? = some (.loaded k c) ∧
      (∀ t ∈ ts, Ev.fetch k (.tile t) (.ok (.slice (t.slice c.leaves))) ∈ es) ∧
      (∃ s'', step s' (.launchRound k) = some s'') ∧ ReachableSolo s' := by
  obtain ⟨s, hstep, rs, hdi, hcfgi, hlock, hp, _, htam, hoth⟩ := reachableSolo_crash r i
  have hall : ∀ j, (s.insts j).phase = .down := by
    intro j
    by_cases hj : j = i
    · subst hj; exact hdi
    · rw [hoth j hj]; exact hothers j hj
  have hcfgk : (s.insts k).cfgBad = false := by
    by_cases hk : k = i
    · subst hk; rw [hcfgi]; exact hcfg
    · rw [hoth k hk]; exact hcfg
  obtain ⟨es, s', h1, h2, h3, h4, h5, h6, h7, h8, h9, h10, h11, h12, h13, h14⟩ :=
    recover_run_solo rs (htam.trans ht) k c v (hlock.trans hl) (by rw [hp]; exact hpub) (hall k) hcfgk hv ts hts
  exact ⟨s, hstep, hall, es, s', h1, h2, h3, h4, h5, h6, h7, h8, h9, h10, h11, h12, h13, h14 (fun j _ => hall j)⟩

/-- in single-process runs the checkpoint object is never behind a lock tree whose bundle is gone -/
theorem C03_solo_ckpt_or_staged {s : Sys} (r : ReachableSolo s) (ht : s.tampered = false) (c : Ck)
    (hl : s.lock = some c) : ∀ c1 imm, s.store .ckpt = some (.ck c1, imm) →
      c1.leaves = c.leaves ∨ ∃ items imm', s.store (.staging c.leaves) = some (.bundle items, imm') :=
  (soloInv_reachable r ht).cks c hl

/-- non-vacuity of `C03_recoverable`: the crash-after-compare-and-swap state is a state of a single-process
    run and satisfies every hypothesis; its tree is not completely rendered before the recovery -/
example : ∃ s i c v, ReachableSolo s ∧ s.tampered = false ∧ s.lock = some c ∧ s.pubHist ≠ [] ∧
    (s.insts i).phase = .down ∧ (s.insts i).cfgBad = false ∧ c.time ≤ v ∧ ¬ Complete s.store c.leaves := by
  obtain ⟨s, h, ht, hl, hp, hck, hstg, hd, hg, hnone⟩ := Seq.RecDemo.crashAfterCas_runs
  have rs : ReachableSolo s :=
    (ReachableSolo.init 0).run_inst (i := 0) (fun _ _ => rfl) Seq.RecDemo.crashAfterCas_inst h
  refine ⟨s, 0, Seq.RecDemo.c1, 120, rs, ht, hl, by rw [hp]; simp, hd, hg, by decide, ?_⟩
  intro hc
  have := hc ⟨.names, 0, 1⟩ (by decide) (by decide)
  rw [Good, hnone] at this
  cases this

/-- **Bricked forever.** Whenever every process is down while the checkpoint object is behind the lock
    checkpoint and the lock tree's bundle is gone, no accepted event sequence without tampering ever
    contains a `loaded` event or brings any instance up (operator repair of the store is needed).
    By `C03_solo_ckpt_or_staged` this never happens in single-process runs. -/
theorem C03_bricked_forever {s s' : Sys} {c c1 : Ck} {imm : Bool} {es : List Ev} (hl : s.lock = some c)
    (hck : s.store .ckpt = some (.ck c1, imm)) (hbe : c1.leaves.length < c.leaves.length)
    (hg : s.store (.staging c.leaves) = none) (hd : ∀ j, (s.insts j).phase = .down)
    (h : run s es = some s') (ht : s'.tampered = false) :
    (∀ i, isUp (s'.insts i) = false) ∧ ∀ i c', Ev.loaded i c' ∉ es :=
  (bricked_forever (bricked_of_all_down hl hck hbe hg hd) h ht).2

end C03
