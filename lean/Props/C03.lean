import Proofs.SeqSteps
import Proofs.SeqStore2
import Proofs.SeqDemo
/-! C03 — A crash at any point of sequencing or recovery is recoverable without loss.
`Reachable` includes a `crash` event at every point between two storage/lock operations of a round
and of a recovery, with every applied/not-applied outcome of the operation in flight.

Proved here: nothing acknowledged is ever lost from the committed history, a staging bundle is
discarded only after the published checkpoint has caught up with it, recovery continues only from the
lock checkpoint with verified right-edge objects. The liveness half ("a restart loads successfully
and the log keeps sequencing") is covered by the correspondence engine's systematic crash
enumeration, and `C03_recoverable_partial` states exactly the part that is a theorem. -/
namespace C03
open Seq

/-- No acknowledged entry is lost: every acknowledgement ever issued stays at its index in every
    later committed or published checkpoint that covers it — across any number of crashes and restarts. -/
theorem C03_no_loss {s : Sys} (r : Reachable s) :
    ∀ a ∈ s.acks, ∃ c ∈ s.lockHist, ∃ l, c.leaves[a.idx]? = some l ∧ l.key = a.key ∧ l.ts = a.ts := by
  intro a ha
  obtain ⟨c, hc, l, h⟩ := (inv2_reachable r).acks a ha
  exact ⟨c, (inv_reachable r).pub c hc, l, h⟩

/-- A staged upload bundle is discarded only by the round that staged it, after that round's
    checkpoint upload succeeded, i.e. after the published checkpoint caught up with it. -/
theorem C03_discard_late {s s' : Sys} (r : Reachable s) (i : Nat) (k : Key) (res : Res)
    (h : step s (.discard i k res) = some s') : ∃ c ∈ s.pubHist, k = .staging c.leaves := by
  obtain ⟨rd, hph, hpc, hk⟩ := discard_only_after_publish s s' i k res h
  obtain ⟨hpub, hisp⟩ := (inv2_reachable r).round i rd hph
  have hp : rd.published = true := by rw [hisp, hpc]; rfl
  exact ⟨rd.new, hpub hp, hk⟩

/-- Nothing but staging bundles is ever discarded. -/
theorem C03_only_staging_discarded {s : Sys} (r : Reachable s) : ∀ k ∈ s.discarded, ∃ t, k = .staging t :=
  (inv2_reachable r).disc

/-- Recovery (partial): an instance comes up only on the checkpoint it fetched from the lock store, a
    committed one, and only if every right-edge object it consulted was the rendering of that tree;
    afterwards it extends exactly that tree (`C01_lock_chain`). Missing for the full statement: the
    existence of a successful fault-free recovery run from every crash state (needs the store
    invariant "lock checkpoint's tiles are present or staged"), which is checked by enumeration. -/
theorem C03_recoverable_partial {s s' : Sys} (r : Reachable s) (i : Nat) (c : Ck)
    (h : step s (.loaded i c) = some s') : c ∈ s.lockHist ∧ (s'.insts i).tree = c := by
  obtain ⟨hph, ht⟩ := loaded_sound s s' i c h
  have := (inv_reachable r).inst i
  simp only [InstOK, hph, LoadOK] at this
  exact ⟨this, ht⟩

/-- After a restart has loaded successfully — from whatever crash state, with whatever was applied of the
    operations in flight — every tile of the tree committed in the lock store is present in object storage
    with the prescribed content (no tampering). -/
theorem C03_loaded_complete {s s' : Sys} (r : Reachable s) (ht : s.tampered = false) (i : Nat) (c : Ck)
    (h : step s (.loaded i c) = some s') : Complete s.store c.leaves := by
  obtain ⟨hph, _⟩ := loaded_sound s s' i c h
  have := (inv3_reachable r ht).inst i
  simpa [SOK, hph] using this

/-- A staged bundle in storage always belongs to a completely rendered base tree: re-applying it
    (idempotently: tiles are immutable) yields the completely rendered committed tree. -/
theorem C03_staged_bundle_recovers {s : Sys} (r : Reachable s) (ht : s.tampered = false) (tr : Tree)
    (items : List (TileId × Tree)) (imm : Bool) (hs : s.store (.staging tr) = some (.bundle items, imm)) :
    ∃ old, bundleOK old.length tr items = true ∧ old <+: tr ∧ Complete s.store old ∧
      ∀ st', TileLe s.store st' → (∀ t ∈ items.map (·.1), Good st' tr t) → Complete st' tr := by
  obtain ⟨old, hb, hp, hc⟩ := (inv3_reachable r ht).staged tr items imm hs
  exact ⟨old, hb, hp, hc, fun st' hle hg => complete_of_bundle (hc.mono hle) hp hb hg⟩

/-- crash events are accepted in every state -/
theorem C03_crash_anywhere (s : Sys) (i : Nat) : ∃ s', step s (.crash i) = some s' := ⟨_, rfl⟩

example : ∃ s, Reachable s ∧ s.lockHist.length = 3 := by
  obtain ⟨s, hr, hl⟩ := Seq.Demo.demo_reachable
  exact ⟨s, hr, by rw [hl]; rfl⟩

end C03
