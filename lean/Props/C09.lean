import Proofs.Submit
/-! C09 — Submissions are validated and turned into the RFC 6962 leaf correctly. Property theorems only.

The theorems are about `Model/Submit.lean`: the decision of `add-chain` / `add-pre-chain` over
**abstract certificate facts** (`Req`), the pending entry over opaque bytes, the root pool.
`Tie/C09.lean` ties the check table, status codes, entry assignments, endpoint closures and the
ct-go window comparisons to the current source; `vh submit` + `drv submit` compare the real
`Log.Handler()` with `Submit.handle` request by request.

**Partial by construction** (stated here once): X.509 parsing, signature verification and path
building (`ctfe.ValidateChain`, `x509.Certificate.Verify`), recognising the poison extension and the
CT EKU, and the DER surgery of `x509.BuildPrecertTBS` are library code outside the model; they
enter as the fields of `Req` (`parses`, `linked`, `anchor`, `poison`, `tbsPlain`, `tbsReissued`, …).
That the library establishes those facts as the harness states them is checked on generated
chains by the differential run and, for the entry bytes, by an independent derivation
(ct-go `MerkleTreeLeafFromChain` plus an own DER-level defang). -/
namespace C09
open Submit

/-- endpoint matches the type of the submission, with the structural preconditions of a precertificate -/
def TypeOk (r : Req) (ch : List Cert) : Prop :=
  (r.poison = .none ∧ r.endpoint = .addChain) ∨
  (r.poison = .valid ∧ r.endpoint = .addPreChain ∧ 2 ≤ ch.length ∧
    (usesPreIssuer ch = true → 3 ≤ ch.length) ∧ r.defangOk = true)

/-- **C09_accept_iff.** A submission is admitted exactly when the body is well-formed and not
empty, the chain verifies (all submitted certificates, in order) to a *currently accepted* root,
`start ≤ NotAfter < limit`, the leaf has the serverAuth EKU, and it was sent to the endpoint
matching its type (a precertificate additionally needs its issuer — and the issuer of a
precertificate signing certificate — in the verified chain, and exactly one poison extension). -/
theorem C09_accept_iff (c : Config) (roots : List Bytes) (r : Req) :
    (admission c roots r).isAdmit = true ↔
      r.body = .ok ∧ r.chain ≠ [] ∧
      ∃ ch, verifiesToRoot roots r = some ch ∧
        c.start ≤ r.notAfter ∧ r.notAfter < c.limit ∧ r.serverAuth = true ∧ TypeOk r ch := by
  rw [isAdmit_iff]
  simp only [checks, List.mem_cons, List.not_mem_nil, or_false, forall_eq_or_imp, forall_eq]
  cases hv : validateChain c roots r with
  | none =>
    have hno : ¬ ∃ ch, verifiesToRoot roots r = some ch ∧
        c.start ≤ r.notAfter ∧ r.notAfter < c.limit ∧ r.serverAuth = true ∧ TypeOk r ch := by
      rintro ⟨ch, h1, h2, h3, h4, _⟩
      have := (validate_isSome c roots r ch).2 ⟨h2, h3, h4, h1⟩
      rw [hv] at this; cases this
    simp [Check.fails, hv, hno]
  | some ch =>
    obtain ⟨h2, h3, h4, h1⟩ := (validate_isSome c roots r ch).1 hv
    have hvc : vchain c roots r = ch := by unfold vchain; rw [hv]; rfl
    simp only [Check.fails, hv, hvc, Option.isNone_some, isPrecert, typeRefused]
    constructor
    · rintro ⟨hb1, hb2, hne, -, hp, hi, hpi, hd, ht⟩
      refine ⟨?_, ?_, ch, h1, h2, h3, h4, ?_⟩
      · cases hb : r.body <;> simp_all
      · intro he; simp [he] at hne
      · unfold TypeOk
        cases hpo : r.poison <;> cases hep : r.endpoint <;> simp_all <;> omega
    · rintro ⟨hb, hne, ch', h1', -, -, -, ht⟩
      rw [h1] at h1'; cases h1'
      unfold TypeOk at ht
      have hne' : r.chain.isEmpty = false := by
        cases hc : r.chain <;> simp_all
      rcases ht with ⟨hp, he⟩ | ⟨hp, he, hl, hpi, hd⟩
      · simp [hb, hne', hp, he]
      · simp [hb, hne', hp, he, hd]
        constructor
        · omega
        · intro hu; have := hpi hu; omega

/-- the verified chain leads to a root that is in the pool *now* (and is otherwise the submitted
chain, in order, plus that root if it was not submitted) -/
theorem C09_accept_root_is_current (roots : List Bytes) (r : Req) (ch : List Cert)
    (h : verifiesToRoot roots r = some ch) :
    r.anchor.der ∈ roots ∧ r.linked = true ∧ r.parses = true ∧
      (ch = r.chain ∨ ch = r.chain ++ [r.anchor]) := by
  unfold verifiesToRoot at h
  split at h
  · rename_i hc
    obtain ⟨hp, hl, hr⟩ := hc
    simp only [Option.some.injEq] at h
    refine ⟨hr, hl, hp, ?_⟩
    split at h
    · exact Or.inl h.symm
    · exact Or.inr h.symm
  · cases h

/-! Non-vacuity: concrete requests on both sides of every clause. -/
section examples
def cert (n : UInt8) (ct : Bool := false) : Cert := ⟨[n, 1], [n, 2], ct⟩
def cfg : Config := ⟨1000, 2000⟩
def rootsA : List Bytes := [(cert 9).der]
/-- final certificate, one intermediate, root not submitted -/
def reqCert (na : Int) : Req := { endpoint := .addChain, chain := [cert 1, cert 2], notAfter := na, anchor := cert 9 }
/-- precertificate issued through a precertificate signing certificate (`cert 3 true`) -/
def reqPre : Req := { endpoint := .addPreChain, chain := [cert 1, cert 3 true, cert 2], notAfter := 1500, anchor := cert 9,
                       poison := .valid, tbsPlain := [7], tbsReissued := [8] }

example : (admission cfg rootsA (reqCert 1000)).isAdmit = true := by decide   -- NotAfter = start: in
example : (admission cfg rootsA (reqCert 999)).isAdmit = false := by decide   -- start - 1: out
example : (admission cfg rootsA (reqCert 1999)).isAdmit = true := by decide   -- limit - 1: in
example : (admission cfg rootsA (reqCert 2000)).isAdmit = false := by decide  -- NotAfter = limit: out
example : (admission cfg [] (reqCert 1500)).isAdmit = false := by decide      -- root not accepted (any more)
example : (admission cfg rootsA { reqCert 1500 with endpoint := .addPreChain }).isAdmit = false := by decide
example : (admission cfg rootsA { reqCert 1500 with serverAuth := false }).isAdmit = false := by decide
example : (admission cfg rootsA { reqCert 1500 with linked := false }).isAdmit = false := by decide
example : (admission cfg rootsA reqPre).isAdmit = true := by decide
example : (admission cfg rootsA { reqPre with endpoint := .addChain }).isAdmit = false := by decide
example : (admission cfg rootsA { reqPre with poison := .invalid }).isAdmit = false := by decide
-- a precertificate signing certificate that is itself the root: no issuer for it
example : (admission cfg [(cert 3 true).der] { reqPre with chain := [cert 1], anchor := cert 3 true }).isAdmit = false := by decide
end examples

/-! ### rejected ⇒ client error, nothing enters a pool -/

/-- **C09_reject_no_leaf.** A POST that is not admitted is answered with a 4xx status and leaves the
state (pool, issuer objects, roots) untouched. -/
theorem C09_reject_no_leaf (c : Config) (s : State) (r : Req) (w : Wait) (hm : r.method = .post)
    (hrej : (admission c s.roots r).isAdmit = false) :
    (handle c s r w).1 = s ∧ 400 ≤ (handle c s r w).2.status ∧ (handle c s r w).2.status < 500 := by
  unfold handle
  rw [hm]
  cases ha : admission c s.roots r with
  | admit e ch => rw [ha] at hrej; cases hrej
  | reject k =>
    refine ⟨rfl, ?_⟩
    cases k <;> simp [Check.status]

/-- Requests with another method never reach the decision: 204 / 405, state untouched. -/
theorem C09_other_methods_no_leaf (c : Config) (s : State) (r : Req) (w : Wait) (hm : r.method ≠ .post) :
    (handle c s r w).1 = s ∧ ((handle c s r w).2.status = 204 ∨ (handle c s r w).2.status = 405) := by
  unfold handle
  cases h : r.method with
  | post => exact absurd h hm
  | options => exact ⟨rfl, Or.inl rfl⟩
  | other => exact ⟨rfl, Or.inr rfl⟩

/-- Conversely: whenever the pool changes, the request was an admitted POST; and only an admitted
and sequenced POST is answered 200. -/
theorem C09_pool_only_by_admission (c : Config) (s : State) (r : Req) (w : Wait)
    (h : (handle c s r w).1.pool ≠ s.pool ∨ (handle c s r w).2.status = 200) :
    r.method = .post ∧ (admission c s.roots r).isAdmit = true := by
  cases hmeth : r.method with
  | options =>
    have := C09_other_methods_no_leaf c s r w (by rw [hmeth]; decide)
    rcases h with h | h
    · exact absurd (by rw [this.1]) h
    · rcases this.2 with h2 | h2 <;> omega
  | other =>
    have := C09_other_methods_no_leaf c s r w (by rw [hmeth]; decide)
    rcases h with h | h
    · exact absurd (by rw [this.1]) h
    · rcases this.2 with h2 | h2 <;> omega
  | post =>
    refine ⟨rfl, ?_⟩
    cases hadm : (admission c s.roots r).isAdmit with
    | true => rfl
    | false =>
      have := C09_reject_no_leaf c s r w hmeth hadm
      rcases h with h | h
      · exact absurd (by rw [this.1]) h
      · omega

example : (handle cfg { roots := rootsA } (reqCert 2000)).2.status = 400 := by decide
example : (handle cfg { roots := rootsA } { reqCert 1500 with body := .tooLarge }).2.status = 413 := by decide
example : (handle cfg { roots := rootsA } { reqPre with defangOk := false }).2.status = 400 := by decide
example : (handle cfg { roots := rootsA } (reqCert 1500)).2.status = 200 ∧
    (handle cfg { roots := rootsA } (reqCert 1500)).1.pool.length = 1 := by decide
example : (handle cfg { roots := rootsA } { reqCert 1500 with method := .options }).2.status = 204 := by decide

/-! ### the entry that is logged -/

/-- **C09_ikh_choice.** For an admitted submission: a final certificate is logged as itself with a
zero issuer key hash; a precertificate is logged as its defanged TBS, with the key hash of
`chain[1]` — or, when `chain[1]` is a precertificate signing certificate, with the key hash of
`chain[2]` and the re-issued TBS — and the submitted precertificate is kept. -/
theorem C09_ikh_choice (c : Config) (roots : List Bytes) (r : Req) (e : Pending) (ch : List Cert)
    (h : admission c roots r = .admit e ch) :
    ∃ leaf rest, ch = leaf :: rest ∧
    (r.poison = .none → e.isPrecert = false ∧ e.certificate = leaf.der ∧ e.issuerKeyHash = zeros32 ∧ e.preCertificate = []) ∧
    (r.poison = .valid → e.isPrecert = true ∧ e.preCertificate = leaf.der ∧
      ∃ i rest', rest = i :: rest' ∧
        (i.ctEku = false → e.issuerKeyHash = i.spkiHash ∧ e.certificate = r.tbsPlain) ∧
        (i.ctEku = true → e.certificate = r.tbsReissued ∧ ∃ j rest'', rest' = j :: rest'' ∧ e.issuerKeyHash = j.spkiHash)) := by
  obtain ⟨hall, hch, he⟩ := admit_inv h
  simp only [checks, List.mem_cons, List.not_mem_nil, or_false, forall_eq_or_imp, forall_eq] at hall
  obtain ⟨-, -, hne, hval, hpoi, hiss, hpi, -, -⟩ := hall
  simp only [Check.fails] at hiss hpi
  rw [← hch] at hiss hpi
  -- the verified chain is not empty: it extends the (non-empty) submitted chain
  have hsome : ∃ ch', validateChain c roots r = some ch' := by
    simp only [Check.fails] at hval
    cases hv : validateChain c roots r with
    | none => rw [hv] at hval; cases hval
    | some x => exact ⟨x, rfl⟩
  obtain ⟨ch', hv⟩ := hsome
  have hch' : ch = ch' := by rw [hch]; unfold vchain; rw [hv]; rfl
  obtain ⟨_, _, _, hver⟩ := (validate_isSome c roots r ch').1 hv
  have hext := (C09_accept_root_is_current roots r ch' hver).2.2.2
  have hnonempty : r.chain ≠ [] := by
    intro he'; simp [Check.fails, he'] at hne
  cases hc : ch with
  | nil =>
    exfalso
    rw [hch', ] at hc
    rcases hext with h1 | h1
    · exact hnonempty (by rw [← h1, hc])
    · rw [hc] at h1; exact absurd h1.symm (by simp)
  | cons leaf rest =>
    refine ⟨leaf, rest, rfl, ?_, ?_⟩
    · intro hp
      subst he
      simp [entryOf, isPrecert, hp, hc]
    · intro hp
      simp only [isPrecert, hp, decide_true, Bool.true_and, hc] at hiss hpi
      subst he
      cases hr : rest with
      | nil => simp [hr] at hiss
      | cons i rest' =>
        refine ⟨by simp [entryOf, isPrecert, hp, hc], by simp [entryOf, isPrecert, hp, hc], i, rest', rfl, ?_, ?_⟩
        · intro hi
          simp [entryOf, isPrecert, hp, hc, hr, usesPreIssuer, hi, ikhIndex, spkiAt]
        · intro hi
          simp only [hr, usesPreIssuer, hi, Bool.true_and] at hpi
          cases hr' : rest' with
          | nil => simp [hr'] at hpi
          | cons j rest'' =>
            refine ⟨by simp [entryOf, isPrecert, hp, hc, hr, usesPreIssuer, hi], j, rest'', rfl, ?_⟩
            simp [entryOf, isPrecert, hp, hc, hr, hr', usesPreIssuer, hi, ikhIndex, spkiAt]

example : ∃ e ch, admission cfg rootsA reqPre = .admit e ch ∧
    e.issuerKeyHash = (cert 2).spkiHash ∧ e.certificate = [8] ∧ e.preCertificate = (cert 1).der ∧
    e.issuers = [(cert 3).der, (cert 2).der, (cert 9).der] := ⟨_, _, rfl, by decide⟩
-- without the CT EKU on chain[1], the same chain is logged under chain[1]'s key with the plain TBS
example : ∃ e ch, admission cfg rootsA { reqPre with chain := [cert 1, cert 3, cert 2] } = .admit e ch ∧
    e.issuerKeyHash = (cert 3).spkiHash ∧ e.certificate = [7] := ⟨_, _, rfl, by decide⟩

/-! ### issuers -/

/-- the invariant I3: every certificate a pooled entry names as issuer is stored -/
def IssuersStored (s : State) : Prop := ∀ e ∈ s.pool, ∀ i ∈ e.issuers, i ∈ s.issuers

/-- **C09_issuers.** For an admitted submission the issuers of the entry are exactly the verified
chain without the leaf (so including the root), every one of them is stored in every state
`addLeafToPool` goes through in which the entry is in a pool — i.e. *before* it enters — and they
are stored afterwards whatever the sequencer reports. -/
theorem C09_issuers (c : Config) (s : State) (r : Req) (w : Wait) (e : Pending) (ch : List Cert)
    (hm : r.method = .post) (h : admission c s.roots r = .admit e ch) :
    e.issuers = ch.tail.map (·.der) ∧
    (∀ st ∈ admitTrace s e, ∀ i ∈ e.issuers, e ∈ st.pool → i ∈ st.issuers) ∧
    (∀ i ∈ e.issuers, i ∈ (handle c s r w).1.issuers) := by
  obtain ⟨-, -, he⟩ := admit_inv h
  refine ⟨?_, ?_, ?_⟩
  · subst he; unfold entryOf; split <;> rfl
  · intro st hst i hi _
    simp only [admitTrace, List.mem_cons, List.not_mem_nil, or_false] at hst
    rcases hst with rfl | rfl
    · exact uploadIssuers_has s e i hi
    · rw [enterPool_issuers]; exact uploadIssuers_has s e i hi
  · intro i hi
    unfold handle
    rw [hm]
    simp only [h]
    cases w <;> simp only [enterPool_issuers] <;> exact uploadIssuers_has s e i hi

/-- I3 is an invariant of every operation sequence (issuer objects are never removed). -/
theorem C09_issuers_invariant (c : Config) (ops : List Op) (s : State) (h : IssuersStored s) :
    IssuersStored (run c s ops) := by
  induction ops generalizing s with
  | nil => exact h
  | cons op rest ih =>
    apply ih
    cases op with
    | restart => exact h
    | setRoots pem =>
      show IssuersStored (Submit.setRoots s pem).1
      cases pem with
      | none => exact h
      | some l => cases l <;> exact h
    | submit r w =>
      show IssuersStored (handle c s r w).1
      unfold handle
      cases r.method <;> simp only
      · cases ha : admission c s.roots r with
        | reject k => exact h
        | admit e ch =>
          have hkeep : ∀ st : State, st.pool = s.pool → st.issuers = (uploadIssuers s e).issuers → IssuersStored st := by
            intro st hp hi x hx i hxi
            rw [hi]; rw [hp] at hx
            exact uploadIssuers_mono s e i (h x hx i hxi)
          have hent : IssuersStored (enterPool (uploadIssuers s e) e) := by
            intro x hx i hxi
            rw [enterPool_issuers]
            rcases enterPool_mem _ _ _ hx with hx | rfl
            · exact uploadIssuers_mono s e i (h x hx i hxi)
            · exact uploadIssuers_has s x i hxi
          cases w <;> first | exact hent | exact hkeep _ rfl rfl
      · exact h
      · exact h

example : IssuersStored ({} : State) := by intro e he; cases he

/-- **C09_issuer_fault.** A storage fault on an issuer upload: the request is answered 500, stores nothing and
leaves no leaf (the entry reaches no pool) — so the retry starts from the same state and, succeeding, stores
every chain certificate before the entry enters a pool (`C09_issuers`). -/
theorem C09_issuer_fault (c : Config) (s : State) (r : Req) (e : Pending) (ch : List Cert)
    (hm : r.method = .post) (h : admission c s.roots r = .admit e ch)
    (hnew : e.issuers.all (fun i => s.issuers.contains i) = false) :
    handleIssuerFault c s r = (s, ⟨500, some (.admit e ch)⟩) := by
  unfold handleIssuerFault
  rw [hm]
  simp only [h, hnew]
  rfl

/-- whatever the request, a faulted issuer upload keeps I3 and never adds to a pool beyond what the
unfaulted handler would -/
theorem C09_issuer_fault_invariant (c : Config) (s : State) (r : Req) (h : IssuersStored s) :
    IssuersStored (handleIssuerFault c s r).1 := by
  unfold handleIssuerFault
  have hh : IssuersStored (handle c s r).1 := C09_issuers_invariant c [.submit r .sequenced] s h
  cases hm : r.method <;> simp only
  · cases ha : admission c s.roots r with
    | reject k => exact hh
    | admit e ch =>
      simp only
      split
      · exact hh
      · exact h
  · exact hh
  · exact hh


/-! ### roots -/

/-- **C09_roots.** After any sequence of operations `get-roots` reports exactly the bundle of the
last successful `SetRootsFromPEM` (first occurrences, in order) — submissions, failed reloads and
restarts do not change it —, without duplicates; and (`C09_accept_iff`) each request is decided
against the pool current at that moment. -/
theorem C09_roots (c : Config) (ops : List Op) (s : State) :
    getRoots (run c s ops) = (match lastGoodRoots ops with
      | some l => poolOrder l
      | none => s.roots) := by
  induction ops generalizing s with
  | nil => rfl
  | cons op rest ih =>
    show getRoots (run c (step c s op) rest) = _
    rw [ih]
    cases hl : lastGoodRoots rest with
    | some l => simp only [lastGoodRoots, hl]
    | none =>
      cases op with
      | restart => simp only [lastGoodRoots, hl]; rfl
      | submit r w => simp only [lastGoodRoots, hl]; exact handle_roots c s r w
      | setRoots pem =>
        cases pem with
        | none => simp only [lastGoodRoots, hl]; rfl
        | some l => cases l <;> simp only [lastGoodRoots, hl] <;> rfl

theorem C09_roots_exact (l : List Bytes) : (∀ x, x ∈ poolOrder l ↔ x ∈ l) ∧ (poolOrder l).Nodup :=
  ⟨mem_poolOrder l, nodup_poolOrder l⟩

/-- an unparsable or empty bundle is refused and changes nothing -/
theorem C09_roots_bad_bundle (s : State) : Submit.setRoots s none = (s, false) ∧ Submit.setRoots s (some []) = (s, false) :=
  ⟨rfl, rfl⟩

/-- a reload whose bundle the storage refuses to persist fails and changes nothing: validation and get-roots keep
    using the old pool, whatever the new bundle was (the persisted `_roots.pem`, from which a restart reloads, is the
    old one too) -/
theorem C09_roots_persist_failure (s : State) (pem : Option (List Bytes)) :
    Submit.setRootsStored s pem false = (s, false) ∧
    getRoots (Submit.setRootsStored s pem false).1 = getRoots s ∧
    Submit.setRootsStored s pem true = Submit.setRoots s pem :=
  ⟨rfl, rfl, rfl⟩

example : getRoots (run cfg {} [.setRoots (some [[1], [2], [1]]), .submit (reqCert 1500) .sequenced, .setRoots none,
    .setRoots (some []), .restart]) = [[1], [2]] := by decide
-- a reload that drops the root turns the same submission from accepted into rejected
example : (handle cfg (run cfg {} [.setRoots (some rootsA)]) (reqCert 1500)).2.status = 200 ∧
    (handle cfg (run cfg {} [.setRoots (some rootsA), .setRoots (some [[5]])]) (reqCert 1500)).2.status = 400 := by decide

end C09
