import Proofs.SeqInv
import Proofs.Merkle
import Proofs.SeqSoloPub
import Proofs.SeqDemo
/-! C01 — Checkpoint history of a log is append-only.

The model (Model/Sequencer.lean) is a transition system at storage/lock-operation granularity whose
events include every fault outcome (applied / not applied), crashes and restarts of any number of
instances, and clock reads returning ANY value. `Reachable s` quantifies over every accepted event
sequence. Theorems below are about the lock-store history `lockHist` and the publication history
`pubHist` (both newest first). -/
namespace C01
open Seq

/-- Every checkpoint ever committed to the lock store extends every earlier one (the earlier leaf
    list is a prefix of the later one, so sizes never shrink) and tree-head timestamps strictly increase. -/
theorem C01_lock_chain {s : Sys} (r : Reachable s) :
    s.lockHist.Pairwise (fun newer older => older.leaves <+: newer.leaves ∧ older.time < newer.time) :=
  chain_pairwise _ (inv_reachable r).chain

/-- sizes never shrink -/
theorem C01_sizes_monotone {s : Sys} (r : Reachable s) :
    s.lockHist.Pairwise (fun newer older => older.leaves.length ≤ newer.leaves.length) :=
  (C01_lock_chain r).imp fun h => h.1.length_le

/-- Every checkpoint that became publicly readable had been committed to the lock store. -/
theorem C01_pub_committed {s : Sys} (r : Reachable s) : ∀ c ∈ s.pubHist, c ∈ s.lockHist :=
  (inv_reachable r).pub

/-- hence no fork: any two checkpoints ever committed or published are comparable -/
theorem C01_no_fork {s : Sys} (r : Reachable s) :
    ∀ c ∈ s.pubHist ++ s.lockHist, ∀ d ∈ s.pubHist ++ s.lockHist, c.leaves <+: d.leaves ∨ d.leaves <+: c.leaves := by
  have hmem : ∀ c ∈ s.pubHist ++ s.lockHist, c ∈ s.lockHist := by
    intro c hc
    rcases List.mem_append.1 hc with h | h
    · exact C01_pub_committed r c h
    · exact h
  intro c hc d hd
  rcases pairwise_total (C01_lock_chain r) c (hmem c hc) d (hmem d hd) with h | h | h
  · subst h; exact Or.inl (List.prefix_refl _)
  · exact Or.inr h.1
  · exact Or.inl h.1

/-- "The first N leaves of a later tree hash to the root of any earlier size-N checkpoint":
    for ANY hash rendering `root` of leaf lists, prefix ⇒ equal roots of the first N leaves. -/
theorem C01_roots {α : Type} (root : Tree → α) (older newer : Ck) (h : older.leaves <+: newer.leaves) :
    root (newer.leaves.take older.leaves.length) = root older.leaves := by
  rw [← List.prefix_iff_eq_take.1 h]

/-- Any clock behaviour: a round whose clock read does not exceed the tree-head time of the tree it
    extends commits nothing (it ends fatally), whatever value the clock returned. -/
theorem C01_clock_guard (s s' : Sys) (i v : Nat) (rd : Round)
    (hp : (s.insts i).phase = .round rd) (hpc : rd.pc = .clock) (hv : v ≤ (s.insts i).tree.time)
    (h : step s (.clock i v) = some s') :
    s'.lockHist = s.lockHist ∧ s'.lock = s.lock ∧
      (s'.insts i).phase = .round { rd with pc := .done .fatal } := by
  simp only [step, hp, hpc, hv, if_true] at h
  injection h with h; subst h
  simp [Sys.setInst, upd]

/-- Publication order (C01's own quantifier: one process dying and restarting, any faults, crashes and
    clock behaviour — `ReachableSolo`: at most one instance is not down at any moment): the sequence of
    checkpoints that became publicly readable is append-only too — every published checkpoint extends
    every earlier published one and tree-head timestamps never go back. With two overlapping
    instances this statement is FALSE of the model and of the code (finding F3, witnessed by
    `C06_pub_order_not_monotone_witness`). -/
theorem C01_pub_monotone_solo {s : Sys} (r : ReachableSolo s) (ht : s.tampered = false) :
    s.pubHist.Pairwise (fun newer older => older.leaves <+: newer.leaves ∧ older.time ≤ newer.time) :=
  pubMono_reachable r ht

/-- Without tampering (any number of instances) the public checkpoint object is exactly the last
    effective checkpoint upload: nothing else ever writes or removes it. -/
theorem C01_ckpt_object_is_last_publication {s : Sys} (r : Reachable s) (ht : s.tampered = false) :
    s.store .ckpt = s.pubHist.head?.map (fun c => (Obj.ck c, false)) :=
  ckHead_reachable r ht

/-- only instance 0 acts in the demo run -/
theorem demo_inst : ∀ e ∈ Seq.Demo.demo, e.inst = some 0 := by
  have h : Seq.Demo.demo.all (fun e => e.inst == some 0) = true := by decide
  intro e he
  have := List.all_eq_true.1 h e he
  simpa using this

/-- non-vacuity: a single-process run with three publications (creation, a round with tiles, an empty round) -/
example : ∃ s, ReachableSolo s ∧ s.tampered = false ∧ s.pubHist.length = 3 := by
  obtain ⟨s, h, _, hp, _⟩ := Seq.Demo.demo_runs
  obtain ⟨s2, h2, ht, _⟩ := Seq.Demo.demo_untampered
  have : s2 = s := by rw [h] at h2; injection h2 with h2; exact h2.symm
  subst this
  exact ⟨s2, (ReachableSolo.init 0).run_inst (i := 0) (fun _ _ => rfl) demo_inst h, ht, by rw [hp]; rfl⟩

end C01
