import Proofs.SeqInv
import Proofs.Merkle
/-! C01 — Checkpoint history of a log is append-only.

The model (Model/Sequencer.lean) is a transition system at storage/lock-operation granularity whose
events include every fault outcome (applied / not applied), crashes and restarts of any number of
instances, and clock reads returning ANY value. `Reachable s` quantifies over every accepted event
sequence. Theorems below are about the lock-store history `lockHist` and the publication history
`pubHist` (both newest first). -/
namespace C01
open Seq

/-- Every checkpoint ever committed to the lock store extends every earlier one (the earlier leaf
    list is a prefix of the later one, so sizes never shrink) and tree-head timestamps strictly increase. -/
theorem C01_lock_chain {s : Sys} (r : Reachable s) :
    s.lockHist.Pairwise (fun newer older => older.leaves <+: newer.leaves ∧ older.time < newer.time) :=
  chain_pairwise _ (inv_reachable r).chain

/-- sizes never shrink -/
theorem C01_sizes_monotone {s : Sys} (r : Reachable s) :
    s.lockHist.Pairwise (fun newer older => older.leaves.length ≤ newer.leaves.length) :=
  (C01_lock_chain r).imp fun h => h.1.length_le

/-- Every checkpoint that became publicly readable had been committed to the lock store. -/
theorem C01_pub_committed {s : Sys} (r : Reachable s) : ∀ c ∈ s.pubHist, c ∈ s.lockHist :=
  (inv_reachable r).pub

/-- hence no fork: any two checkpoints ever committed or published are comparable -/
theorem C01_no_fork {s : Sys} (r : Reachable s) :
    ∀ c ∈ s.pubHist ++ s.lockHist, ∀ d ∈ s.pubHist ++ s.lockHist, c.leaves <+: d.leaves ∨ d.leaves <+: c.leaves := by
  have hmem : ∀ c ∈ s.pubHist ++ s.lockHist, c ∈ s.lockHist := by
    intro c hc
    rcases List.mem_append.1 hc with h | h
    · exact C01_pub_committed r c h
    · exact h
  intro c hc d hd
  rcases pairwise_total (C01_lock_chain r) c (hmem c hc) d (hmem d hd) with h | h | h
  · subst h; exact Or.inl (List.prefix_refl _)
  · exact Or.inr h.1
  · exact Or.inl h.1

/-- "The first N leaves of a later tree hash to the root of any earlier size-N checkpoint":
    for ANY hash rendering `root` of leaf lists, prefix ⇒ equal roots of the first N leaves. -/
theorem C01_roots {α : Type} (root : Tree → α) (older newer : Ck) (h : older.leaves <+: newer.leaves) :
    root (newer.leaves.take older.leaves.length) = root older.leaves := by
  rw [← List.prefix_iff_eq_take.1 h]

/-- Any clock behaviour: a round whose clock read does not exceed the tree-head time of the tree it
    extends commits nothing (it ends fatally), whatever value the clock returned. -/
theorem C01_clock_guard (s s' : Sys) (i v : Nat) (rd : Round)
    (hp : (s.insts i).phase = .round rd) (hpc : rd.pc = .clock) (hv : v ≤ (s.insts i).tree.time)
    (h : step s (.clock i v) = some s') :
    s'.lockHist = s.lockHist ∧ s'.lock = s.lock ∧
      (s'.insts i).phase = .round { rd with pc := .done .fatal } := by
  simp only [step, hp, hpc, hv, if_true] at h
  injection h with h; subst h
  simp [Sys.setInst, upd]

end C01
