import Proofs.SeqSteps
import Proofs.SeqDemo
/-! C17 — Admission control is bounded, priority-respecting and never strands a submitter. -/
namespace C17
open Seq

/-- A pool never holds more entries than the configured size (between an evicting admission and the
    report of its victim — one atomic step of the real code — the newcomer is counted once extra),
    and a pool being sequenced never does. -/
theorem C17_bound {s : Sys} (r : Reachable s) (hn : s.poolSize > 0) (i : Nat) :
    ((s.insts i).evictPending = false → (s.insts i).pool.length ≤ s.poolSize) ∧
    ((s.insts i).evictPending = true → (s.insts i).pool.length = s.poolSize + 1) ∧
    (∀ rd, (s.insts i).phase = .round rd → rd.slots.length ≤ s.poolSize) := by
  obtain ⟨h1, h2, h3⟩ := (inv2_reachable r).pool i hn
  refine ⟨fun he => ?_, h2, h3⟩
  simpa [he] using h1

/-- full pool, low-priority submission: rejected -/
theorem C17_full_low_rejected (n : Nat) (pool : List Slot) (hn : n > 0) (hfull : pool.length ≥ n) :
    admission n pool true = .ratelimit := by
  simp [admission, hn, hfull]

/-- full pool, high-priority submission, no low-priority entry pending: rejected -/
theorem C17_full_high_nolow_rejected (n : Nat) (pool : List Slot) (hn : n > 0) (hfull : pool.length ≥ n)
    (hno : pool.any (·.low) = false) : admission n pool false = .ratelimit := by
  simp [admission, hn, hfull, hno]

/-- full pool, high-priority submission, some low-priority entry pending: admitted (by eviction) -/
theorem C17_full_high_evicts (n : Nat) (pool : List Slot) (hn : n > 0) (hfull : pool.length ≥ n)
    (hlow : pool.any (·.low) = true) : admission n pool false = .sequencer := by
  simp [admission, hn, hfull, hlow]

/-- pool not full: admitted -/
theorem C17_notfull_admitted (n : Nat) (pool : List Slot) (low : Bool) (h : ¬ (n > 0 ∧ pool.length ≥ n)) :
    admission n pool low = .sequencer := by
  simp only [admission, h, if_false]

/-- An eviction removes exactly one pending low-priority entry, which is refused with the retry-later
    answer; the newcomer takes its slot, so the pool is back at its size and the victim is no longer
    in it (it is never sequenced: rounds sequence exactly the pool's slots, `C07_leaf_per_admission`).
    The only other eviction report possible while the eviction is outstanding is a late waiter of an entry evicted
    EARLIER (no pending low-priority slot has its key): it changes nothing and the eviction stays outstanding. -/
theorem C17_evict_exactly_one (s s' : Sys) (i eid key : Nat) (hev : (s.insts i).evictPending = true)
    (h : step s (.nackEvicted i eid key) = some s') :
    ((s'.insts i).evictPending = false ∧ (s'.insts i).pool.length + 1 = (s.insts i).pool.length ∧
      ∃ k, List.findIdx? (fun sl => sl.key == key && sl.low) (s.insts i).pool.dropLast = some k) ∨
    (s' = s ∧ (s.insts i).evictedEver.contains key = true ∧
      (List.findIdx? (fun sl => sl.key == key && sl.low) (s.insts i).pool.dropLast = none ∨ (s.insts i).pool = [])) := by
  simp only [step, hev, if_true] at h
  split at h
  · rename_i nw k hlast hfind
    injection h with h; subst h
    refine .inl ⟨by simp [Sys.setInst, upd], ?_, k, hfind⟩
    simp only [Sys.setInst, upd, if_true, List.length_set, List.length_dropLast]
    have hne : (s.insts i).pool ≠ [] := by
      intro he; rw [he] at hlast; simp at hlast
    have := List.length_pos_iff.2 hne
    omega
  · rename_i hno
    split at h
    · rename_i hc
      injection h with h; subst h
      refine .inr ⟨rfl, hc, ?_⟩
      cases hl : (s.insts i).pool.getLast? with
      | none => exact .inr (List.getLast?_eq_none_iff.1 hl)
      | some nw =>
        cases hf : List.findIdx? (fun sl => sl.key == key && sl.low) (s.insts i).pool.dropLast with
        | none => exact .inl rfl
        | some k => exact absurd hf (hno nw k hl)
    · cases h

/-- while an eviction is outstanding, the report that ends it is the one that removes the victim: the outstanding
    flag is cleared by no other eviction report -/
theorem C17_eviction_ends_by_removal (s s' : Sys) (i eid key : Nat) (hev : (s.insts i).evictPending = true)
    (h : step s (.nackEvicted i eid key) = some s') (hdone : (s'.insts i).evictPending = false) :
    (s'.insts i).pool.length + 1 = (s.insts i).pool.length := by
  rcases C17_evict_exactly_one s s' i eid key hev h with h1 | ⟨h2, _, _⟩
  · exact h1.2.1
  · subst h2; rw [hev] at hdone; cases hdone

/-- After a stop (fatal error) the instance starts no further round, performs no lock operation, and
    admits nothing: no further checkpoint is ever signed by it. -/
theorem C17_after_stop (s : Sys) (i : Nat) (hp : (s.insts i).phase = .stopped) :
    step s (.launchRound i) = none ∧ (∀ o n r, step s (.lockReplace i o n r) = none) ∧
    (∀ c r, step s (.lockCreate i c r) = none) := by
  refine ⟨by simp [step, hp], fun o n r => by simp [step, hp], fun c r => by simp [step, hp]⟩

/-- Every pool is eventually closed with exactly one result (model level): a round always reaches a
    `done` state (ok, failed or fatal) or the process crashes; the waiters of a `done` pool get an
    index (ok) or an error (failed/fatal), never both: acknowledgements need `done ok`. -/
theorem C17_one_outcome (s : Sys) (i eid key idx ts : Nat) (rd : Round) (c : Cls)
    (hp : (s.insts i).phase = .round rd) (hpc : rd.pc = .done c)
    (hcache : cacheLookup (s.insts i).cache key ≠ some (idx, ts)) :
    (c ≠ .ok → step s (.ack i eid key idx ts) = none) ∧
    (c = .ok → step s (.nack i eid false) = none) := by
  refine ⟨fun hc => ?_, fun hc => ?_⟩
  · cases c <;> simp_all [step]
  · subst hc; simp [step, hp, hpc]

example : admission 2 [⟨1, 1, true⟩, ⟨2, 2, false⟩] false = .sequencer := by decide
example : admission 2 [⟨1, 1, false⟩, ⟨2, 2, false⟩] false = .ratelimit := by decide

end C17
