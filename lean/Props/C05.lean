import Proofs.Lock
/-! C05 — Lock backends are linearizable compare-and-swap registers. Property theorems only.

Values and log IDs are arbitrary byte lists (`Bytes = List UInt8`): every theorem below holds for
the empty value and for values containing NUL bytes because it holds for all of them.

What is proved here is about the models in `Model/Lock.lean`. `Tie/C05.lean` ties the statement
tables of the three backend models to the current source; `vh lock` + `drv lock` compare the real
backends with `CasSpec` and check recorded concurrent histories with `checkWitness`.
Outside the model (runtime, sampled): SQLite/OS file locking, real DynamoDB/S3 semantics, reopen,
power-loss durability. -/
namespace C05
open Lock

/-! ### Each backend step refines the specification step (all programs, all values) -/

/-- SQLite: mutex + `UPDATE … WHERE logID = ? AND body = ?` + `changes() == 0 ⇒ error`,
`INSERT … ON CONFLICT(logID) DO NOTHING` + `changes() == 0 ⇒ error`, `SELECT`. -/
theorem C05_refines_sqlite (cs : List Cmd) :
    (Sqlite.backend Sqlite.program).run cs = specRun cs :=
  run_refines sqliteRefinement cs

/-- DynamoDB: `PutItem` with `checkpoint = :old` / `attribute_not_exists(logID)`, consistent `GetItem`;
server contract: a conditional `PutItem` is atomic. -/
theorem C05_refines_dynamo (cs : List Cmd) :
    (Dynamo.backend Dynamo.program).run cs = specRun cs :=
  run_refines dynamoRefinement cs

/-- ETag storage: `PutObject` with `If-Match: <etag>` / `If-Match: ""`; server contract: a
conditional `PutObject` is atomic, equal ETag ⇒ equal content, ETags are not empty. -/
theorem C05_refines_etag (tag : Val → ETag.Tag) (C : ETag.TagContract tag) (cs : List Cmd) :
    (ETag.backend tag ETag.program).run cs = specRun cs :=
  run_refines (etagRefinement tag C) cs

/-- One statement for the three of them. -/
inductive BackendKind | sqlite | dynamo | etag

def impl (tag : Val → ETag.Tag) : BackendKind → Backend
  | .sqlite => Sqlite.backend Sqlite.program
  | .dynamo => Dynamo.backend Dynamo.program
  | .etag => ETag.backend tag ETag.program

theorem C05_refines (tag : Val → ETag.Tag) (C : ETag.TagContract tag) (k : BackendKind)
    (cs : List Cmd) : (impl tag k).run cs = specRun cs := by
  cases k
  · exact C05_refines_sqlite cs
  · exact C05_refines_dynamo cs
  · exact C05_refines_etag tag C cs

/-! Non-vacuity: the ETag contract is satisfiable, and the runs are not all trivially equal. -/

theorem char_toNat_ofNat (n : Nat) (h : n < 256) : (Char.ofNat n).toNat = n := by
  have hv : n.isValidChar := Or.inl (by omega)
  simp [Char.ofNat, hv, Char.toNat, Char.ofNatAux]

/-- A concrete ETag function: a quote followed by one character per byte. -/
def demoTag (v : Val) : String := String.ofList ('"' :: v.map fun b => Char.ofNat b.toNat)

theorem demoTag_contract : ETag.TagContract demoTag where
  inj a b h := by
    have := String.ofList_injective h
    simp only [List.cons.injEq, true_and] at this
    refine (List.map_inj_right ?_).1 this
    intro x y hxy
    have h1 := congrArg Char.toNat hxy
    rw [char_toNat_ofNat _ x.toNat_lt, char_toNat_ofNat _ y.toNat_lt] at h1
    exact UInt8.toNat_inj.1 h1
  nonempty a h := by
    have := congrArg String.toList h
    simp [demoTag] at this

def idA : Id := [0xAA, 0x00]
def idB : Id := []

/-- A program with the empty value, NUL-containing values, a stale handle and a missing log. -/
def demoProgram : List Cmd :=
  [.fetch idA, .create idA [], .create idA [1], .fetch idA, .replace 0 [0, 0], .replace 0 [7],
   .fetch idA, .replace 2 [], .fetch idB, .replace 9 [1]]

example : specRun demoProgram =
    [.notFound, .ok, .exists_, .val [], .ok, .conflict, .val [0, 0], .ok, .notFound, .badHandle] := by
  decide

example : (Sqlite.backend Sqlite.program).run demoProgram = specRun demoProgram :=
  C05_refines_sqlite _

/-- The tie matters: the statement tables of realistic mutants do *not* refine the specification. -/
example : (Sqlite.backend { Sqlite.program with replaceStmt := .update false }).run demoProgram
    ≠ specRun demoProgram := by decide
example : (Sqlite.backend { Sqlite.program with replaceChecksChanges := false }).run demoProgram
    ≠ specRun demoProgram := by decide
example : (Sqlite.backend { Sqlite.program with createStmt := .insert .doUpdate }).run demoProgram
    ≠ specRun demoProgram := by decide
example : (Dynamo.backend { Dynamo.program with replaceCond := .none }).run demoProgram
    ≠ specRun demoProgram := by decide
example : (Dynamo.backend { Dynamo.program with createCond := .none }).run demoProgram
    ≠ specRun demoProgram := by decide
example : (Dynamo.backend { Dynamo.program with consistentRead := false }).run demoProgram
    ≠ specRun demoProgram := by decide
example : (ETag.backend demoTag { ETag.program with replaceIfMatch := .absent }).run demoProgram
    ≠ specRun demoProgram := by decide
example : (ETag.backend demoTag { ETag.program with createIfMatch := .absent }).run demoProgram
    ≠ specRun demoProgram := by decide

/-! ### Replace succeeds only if the stored value is the expected one -/

theorem C05_replace_guard (s : State) (id : Id) (old new : Val) :
    (CasSpec.step s (.replace id old new)).2 = .ok ↔ s id = some old :=
  CasSpec.replace_ok_iff s id old new

/-- The same at the level of every backend model: a `Replace` that returns a handle found the
handle's body stored, and stores exactly `new`; one that fails changes nothing. -/
theorem C05_replace_guard_backend {b : Backend} (R : Refinement b) (s : b.S) (h : b.H) (new : Val)
    (hwf : R.wf h) :
    ((b.replace s h new).2 ≠ none → R.abs s (b.hid h) = some (b.hbody h) ∧
        R.abs (b.replace s h new).1 = (R.abs s).set (b.hid h) new) ∧
    ((b.replace s h new).2 = none → R.abs (b.replace s h new).1 = R.abs s) := by
  by_cases hm : R.abs s (b.hid h) = some (b.hbody h)
  · obtain ⟨h', e0, _, _, _, e4⟩ := R.replace_match s h new hwf hm
    exact ⟨fun _ => ⟨hm, e4⟩, fun hn => by rw [e0] at hn; cases hn⟩
  · obtain ⟨e0, e4⟩ := R.replace_differ s h new hwf hm
    exact ⟨fun hn => absurd e0 hn, fun _ => e4⟩

example : (CasSpec.step (State.empty.set idA [0]) (.replace idA [0] [])).2 = .ok := by decide
example : (CasSpec.step (State.empty.set idA [0]) (.replace idA [] [1])).2 = .conflict := by decide

/-! ### Create succeeds at most once and never overwrites -/

/-- Create on an existing log changes nothing and is refused; on a missing log it stores the value. -/
theorem C05_create_never_overwrites (s : State) (id : Id) (v w : Val) (h : s id = some v) :
    CasSpec.step s (.create id w) = (s, .exists_) := by
  simp [CasSpec.step, h]

theorem C05_create_never_overwrites_backend {b : Backend} (R : Refinement b) (s : b.S) (id : Id)
    (w : Val) (h : R.abs s id ≠ none) :
    (b.create s id w).2 = false ∧ R.abs (b.create s id w).1 = R.abs s :=
  R.create_taken s id w h

/-- In a linearizable history at most one create per log ID succeeds, and none if it existed. -/
theorem C05_create_once (s : State) (h : History) (lin : Linearizable s h) (id : Id) :
    (h.filter (Event.okCreate id)).length ≤ 1 ∧
    (s id ≠ none → h.filter (Event.okCreate id) = []) := by
  obtain ⟨evs, hp, _, ha⟩ := lin
  constructor
  · rw [← (hp.filter _).length_eq]
    exact create_once_lin evs s id ha
  · intro hex
    have := no_okCreate_of_existing evs s id ha hex
    have hl := (hp.filter (Event.okCreate id)).length_eq
    rw [this] at hl
    exact List.eq_nil_of_length_eq_zero hl.symm

/-! ### The verified linearisation-witness checker -/

theorem C05_check_sound (h : History) (σ : List Nat) (hc : checkWitness h σ = true) :
    Linearizable State.empty h :=
  ⟨_, checkWitnessFrom_sound State.empty h σ hc⟩

theorem C05_check_sound_from (s : State) (h : History) (σ : List Nat)
    (hc : checkWitnessFrom s h σ = true) : Linearizable s h :=
  ⟨_, checkWitnessFrom_sound s h σ hc⟩

/-- Two overlapping replaces from the same value, one wins; a fetch that overlaps both. -/
def demoHist : History :=
  [⟨.create idA [], .ok, 0, 1⟩,
   ⟨.replace idA [] [1], .conflict, 2, 7⟩,
   ⟨.replace idA [] [0, 0], .ok, 3, 5⟩,
   ⟨.fetch idA, .val [], 4, 6⟩,
   ⟨.fetch idA, .val [0, 0], 8, 9⟩]

example : checkWitness demoHist [0, 3, 2, 1, 4] = true := by decide
/-- the checker rejects an order that breaks real time, and one the register does not produce -/
example : checkWitness demoHist [3, 0, 2, 1, 4] = false := by decide
example : checkWitness demoHist [0, 1, 2, 3, 4] = false := by decide
example : checkWitness demoHist [0, 3, 2, 1] = false := by decide
example : Linearizable State.empty demoHist := C05_check_sound _ [0, 3, 2, 1, 4] (by decide)

/-! ### Read-after-write -/

/-- In a linearisation, a fetch invoked after a successful replace returned is ordered after it and
returns the value of the last successful write in between, or the replace's own value. -/
theorem C05_read_after_write_precise (s : State) (h : History) (evs : List Event)
    (lin : LinearizedBy s h evs) (r f : Event) (id : Id) (old new : Val)
    (hr : r ∈ h) (hf : f ∈ h)
    (hrop : r.op = .replace id old new) (hrok : r.res = .ok) (hfop : f.op = .fetch id)
    (hrt : r.ret < f.inv) :
    ∃ pre mid post, evs = pre ++ r :: (mid ++ f :: post) ∧ f.res = .val (lastWrite id new mid) := by
  obtain ⟨hp, hpw, ha⟩ := lin
  exact read_after_write_lin s evs r f id old new hpw ha (hp.mem_iff.2 hr) (hp.mem_iff.2 hf)
    hrop hrok hfop hrt

/-- Read-after-write: the fetch sees that value or a later one — the value of a successful write
to the same id that is neither real-time-before the replace nor real-time-after the fetch. It never
reports the log missing and never returns an older value (unless someone wrote it again). -/
theorem C05_read_after_write (s : State) (h : History) (lin : Linearizable s h)
    (r f : Event) (id : Id) (old new : Val) (hr : r ∈ h) (hf : f ∈ h)
    (hrop : r.op = .replace id old new) (hrok : r.res = .ok) (hfop : f.op = .fetch id)
    (hrt : r.ret < f.inv) :
    ∃ v, f.res = .val v ∧
      (v = new ∨ ∃ e ∈ h, e.wrote id = some v ∧ mayPrecede r e ∧ mayPrecede e f) := by
  obtain ⟨evs, lin⟩ := lin
  obtain ⟨pre, mid, post, hev, hres⟩ :=
    C05_read_after_write_precise s h evs lin r f id old new hr hf hrop hrok hfop hrt
  refine ⟨_, hres, ?_⟩
  rcases lastWrite_cases id mid new with hl | ⟨e, he, hw⟩
  · exact Or.inl hl
  · right
    obtain ⟨hp, hpw, _⟩ := lin
    rw [hev] at hpw hp
    have hmem : e ∈ pre ++ r :: (mid ++ f :: post) := by simp [he]
    refine ⟨e, hp.mem_iff.1 hmem, hw, ?_, ?_⟩
    · have := (List.pairwise_cons.1 (List.pairwise_append.1 hpw).2.1).1 e (by simp [he])
      exact this
    · have h1 := (List.pairwise_cons.1 (List.pairwise_append.1 hpw).2.1).2
      have h2 := (List.pairwise_append.1 h1).2.2 e he f (by simp)
      exact h2

example : ∃ v, (demoHist[4]'(by decide)).res = .val v ∧ v = [0, 0] := ⟨_, rfl, rfl⟩

/-! ### At most one successful replace per predecessor value -/

/-- `_partial`: needs `FreshWrites` (every successfully written value of an id is new). Sunlight's
own writes satisfy it (strictly increasing checkpoint timestamps, invariant I1 of the sequencer
model). Without it the statement is false for any value-comparing CAS: `C05_aba_witness`. -/
theorem C05_one_successor_partial (s : State) (h : History) (fresh : FreshWrites s h)
    (lin : Linearizable s h) : OneSuccessor h := by
  obtain ⟨evs, hp, _, ha⟩ := lin
  intro id old
  rw [← (hp.filter _).length_eq]
  apply one_successor_lin evs s id old ha
  exact ((List.Perm.append_left _ (hp.filterMap (Event.wrote id))).nodup_iff).2 (fresh id)

/-- A → B → A → C: linearizable (even sequential), yet two successful replaces from `A`. -/
def abaHist : History :=
  [⟨.create idA [0xA], .ok, 0, 1⟩,
   ⟨.replace idA [0xA] [0xB], .ok, 2, 3⟩,
   ⟨.replace idA [0xB] [0xA], .ok, 4, 5⟩,
   ⟨.replace idA [0xA] [0xC], .ok, 6, 7⟩]

theorem C05_aba_witness : ¬ ∀ h, Linearizable State.empty h → OneSuccessor h := by
  intro H
  have h1 : Linearizable State.empty abaHist := C05_check_sound _ [0, 1, 2, 3] (by decide)
  have h2 := H abaHist h1 idA [0xA]
  exact absurd h2 (by decide)

/-- Non-vacuity of `FreshWrites`: the demo history has fresh writes (so the theorem applies). -/
example : OneSuccessor demoHist :=
  C05_one_successor_partial State.empty demoHist
    (by
      intro id
      by_cases h : idA = id
      · subst h; decide
      · simp [demoHist, List.filterMap_cons, Event.wrote, h])
    (C05_check_sound _ [0, 3, 2, 1, 4] (by decide))

end C05
