import Proofs.Aftersun
/-! C18 — Garbage collection removes only superseded partial tiles. Property theorems only.

All statements are about `Aftersun.cleanRoot` (one log or mirror directory, `Model/Aftersun.lean`), for
**every** directory oracle `fs` (arbitrary, even inconsistent, contents), every published size, every
recursion depth, and both tile-path parsers the tool is run with (`sunlight.ParseTilePath` for logs,
`torchwood.ParseTilePath` for mirror directories). `C18_main` lifts them to the whole run.

Outside the model: that the size handed to `cleanDir` is the one of the signature-verified published
checkpoint (`logSize`/`mirroredLogSize`: exercised by `vh aftersun`), the file-system calls themselves,
and that reads during the walk see the initial state (the tool lists before it deletes and deletes only
inside `*.p` directories; exercised). -/
namespace C18
open Aftersun TilePath

theorem join_partial (pfx full q : Bytes) : join (join pfx (full ++ dotP)) q = join pfx full ++ dotPSlash ++ q := by
  have h1 : dotP = [46, 112] := by decide
  have h2 : dotPSlash = [46, 112, 47] := by decide
  simp [join, h1, h2]

/-- **Only superseded partial tiles.** A deleted file is `dir/full.p/W`: it parses as a partial tile
(1 ≤ W < 256); `full` is listed in the same directory as `full.p` and parses as the *full* tile with the same
level and index; the file that `overrideImmutable` independently stats (the text before the first
`".p/"`) is that same sibling, a non-empty regular file; and the tile index is strictly left of the
right edge of the published tree: level ≤ 6 and `N < size / 256^(level+1)` (data/names/entries tiles
count as level 0; a tile above level 6 spans ≥ 2^64 leaves and is never deleted). -/
theorem C18_only_partials {parse : Bytes → Option Tile} (hp : IsToolParser parse) (fs : FS) (size fuel : Nat)
    (p : Bytes) (h : p ∈ filesOf (cleanRoot fs parse size fuel).1) :
    ∃ (dir full : Bytes) (t : Tile) (entries : List Ent) (sib : Ent),
      p = join (join dir (full ++ dotP)) (fmtInt t.W) ∧
      parse p = some t ∧ 1 ≤ t.W ∧ t.W < 256 ∧
      fs.readDir dir = some entries ∧ full ∈ entries.map (·.name) ∧
      parse (join dir full) = some { t with W := 256 } ∧
      cutSub dotPSlash p = some (join dir full, fmtInt t.W) ∧
      fs.stat (join dir full) = some sib ∧ sib.isDir = false ∧ 0 < sib.size ∧
      t.L ≤ 6 ∧ t.N < ((size / 256 ^ (lvl t + 1) : Nat) : Int) := by
  have hj := cleanRoot_allJ fs parse size fuel _ (mem_filesOf.mp h)
  obtain ⟨pfx, full, q, entries, t0, t', hdir, hmem, hpeq, ht0, hedge, ht', hw, hov⟩ := hj
  rw [join_partial] at hpeq
  rw [hpeq] at ht'
  obtain ⟨e1, e2, e3⟩ := parser_sibling hp _ q t0 t' ht0 ht' hw
  have hdom := parser_dom hp _ t' ht'
  obtain ⟨_, hL0, _, _, _, hW0, hW1⟩ := hdom
  have hcut : cutSub dotPSlash p = some (join pfx full, q) := by rw [hpeq]; exact cutSub_dotPSlash _ _ e2
  -- what overrideImmutable looked at
  unfold overrideImmutable at hov
  rw [hcut] at hov
  simp only at hov
  cases hat : atoi q with
  | none => rw [hat] at hov; cases hov
  | some v =>
    rw [hat] at hov
    simp only at hov
    cases hst : fs.stat (join pfx full) with
    | none => rw [hst] at hov; cases hov
    | some sib =>
      rw [hst] at hov
      simp only [Bool.and_eq_true, Bool.not_eq_true', bne_iff_ne, ne_eq] at hov
      have hedge' := edge_guard t0 size (by rw [e1]; exact hL0) hedge
      have hl : lvl t0 = lvl t' := by rw [e1]; rfl
      refine ⟨pfx, full, t', entries, sib, ?_, ?_, hW0, by omega, hdir, hmem, by rw [← e1]; exact ht0,
        by rw [← e3]; exact hcut, hst, hov.1, by omega, ?_, ?_⟩
      · rw [join_partial, ← e3]; exact hpeq
      · rw [← hpeq] at ht'; exact ht'
      · rw [e1] at hedge'; exact hedge'.1
      · rw [e1] at hedge'
        simpa [lvl] using hedge'.2

/-- non-vacuity: a directory of a tree with 600 leaves in which `tile/0/001.p/44` is superseded -/
def demoFS : FS where
  readDir p :=
    if p = ascii "tile" then some [⟨ascii "0", true, 0⟩]
    else if p = ascii "tile/0" then some [⟨ascii "000", false, 8192⟩, ⟨ascii "001", false, 8192⟩, ⟨ascii "001.p", true, 0⟩,
      ⟨ascii "002.p", true, 0⟩]
    else if p = ascii "tile/0/001.p" then some [⟨ascii "44", false, 1408⟩]
    else if p = ascii "tile/0/002.p" then some [⟨ascii "88", false, 2816⟩]
    else none
  stat p := if p = ascii "tile/0/001" then some ⟨ascii "001", false, 8192⟩ else none

example : cleanRoot demoFS sunlightParse 600 8 =
    ([.file (ascii "tile/0/001.p/44"), .dir (ascii "tile/0/001.p")], .ok) := by decide
example : ascii "tile/0/001.p/44" ∈ filesOf (cleanRoot demoFS sunlightParse 600 8).1 := by decide
/-- at the edge itself nothing is deleted: with 300 leaves `001.p/44` is the right-edge tile -/
example : cleanRoot demoFS sunlightParse 300 8 = ([], .ok) := by decide
/-- an empty full sibling stops the tool (fourth guard) -/
example : (cleanRoot { demoFS with stat := fun _ => some ⟨[], false, 0⟩ } sunlightParse 600 8) = ([], .abort) := by decide

/-- **Safe for every later size.** No deleted file is read by anyone fetching or verifying the tree
of any size `S ≥ size`: in particular the tree at the lock-store checkpoint when the lock store is
ahead of the published checkpoint, and every future tree. -/
theorem C18_safe_all_sizes {parse : Bytes → Option Tile} (hp : IsToolParser parse) (fs : FS) (size fuel : Nat)
    (S : Nat) (hS : size ≤ S)
    (p : Bytes) (h : p ∈ filesOf (cleanRoot fs parse size fuel).1) : ¬ needed parse S p := by
  obtain ⟨dir, full, t, entries, sib, _, hpt, hW0, hW1, _, _, _, _, _, _, _, _, hlt⟩ :=
    C18_only_partials hp fs size fuel p h
  rintro ⟨t2, ht2, hn⟩
  rw [hpt] at ht2
  cases ht2
  unfold neededTile at hn
  simp only [Bool.or_eq_true, Bool.and_eq_true, beq_iff_eq, decide_eq_true_eq, bne_iff_ne, ne_eq] at hn
  rcases hn with ⟨hw, _⟩ | ⟨⟨hN, hW⟩, hw0⟩
  · omega
  · have : size / 256 ^ (lvl t + 1) ≤ S / 256 ^ (lvl t + 1) := Nat.div_le_div_right hS
    omega

/-- non-vacuity: the needed set is not empty, and the deleted file of the demo is outside it for later sizes -/
example : needed sunlightParse 600 (ascii "tile/0/002.p/88") := ⟨⟨8, 0, 2, 88⟩, by decide, by decide⟩
example : needed sunlightParse 600 (ascii "tile/0/001") := ⟨⟨8, 0, 1, 256⟩, by decide, by decide⟩
example : needed sunlightParse 300 (ascii "tile/0/001.p/44") := ⟨⟨8, 0, 1, 44⟩, by decide, by decide⟩
example : needed torchwoodParse 300 (ascii "tile/entries/001.p/44") := ⟨⟨8, -1, 1, 44⟩, by decide, by decide⟩
example : ¬ needed sunlightParse 600 (ascii "tile/0/001.p/44") :=
  C18_safe_all_sizes .sunlight demoFS 600 8 600 (by decide) _ (by decide)

/-- **Nothing else is ever removed.** Every deletion is either a file `a.p/W` that parses as a partial
tile (1 ≤ W < 256, canonical spelling), or a directory `a.p` whose full sibling `a` is listed next to
it and strictly left of the edge, and whose listed entries have all been deleted as such files in
this run (an *emptied* `.p` directory). -/
theorem C18_never_other {parse : Bytes → Option Tile} (hp : IsToolParser parse) (fs : FS) (size fuel : Nat)
    (d : Del) (h : d ∈ (cleanRoot fs parse size fuel).1) :
    match d with
    | .file p => ∃ (a : Bytes) (t : Tile), p = a ++ dotPSlash ++ fmtInt t.W ∧ parse p = some t ∧ 1 ≤ t.W ∧ t.W < 256
    | .dir q => ∃ (dir full : Bytes) (entries partials : List Ent) (t : Tile),
        q = join dir (full ++ dotP) ∧ fs.readDir dir = some entries ∧ full ∈ entries.map (·.name) ∧
        parse (join dir full) = some t ∧ atOrRightOfEdge t size = some false ∧
        fs.readDir q = some partials ∧
        ∀ e ∈ partials, join q e.name ∈ filesOf (cleanRoot fs parse size fuel).1 := by
  cases d with
  | file p =>
    obtain ⟨dir, full, t, _, _, hpeq, hpt, hW0, hW1, _⟩ := C18_only_partials hp fs size fuel p (mem_filesOf.mpr h)
    exact ⟨join dir full, t, by rw [hpeq, join_partial], hpt, hW0, hW1⟩
  | dir q =>
    obtain ⟨pfx, full, entries, partials, t, h1, h2, h3, h4, h5, h6, h7⟩ := cleanRoot_allJ fs parse size fuel _ h
    exact ⟨pfx, full, entries, partials, t, h3, h1, h2, h4, h5, h6, fun e he => mem_filesOf.mpr (h7 e he)⟩

example : Del.dir (ascii "tile/0/001.p") ∈ (cleanRoot demoFS sunlightParse 600 8).1 := by decide

/-- **No panic.** The right-edge arithmetic is total on every tile a tool parser returns: levels above 6
are cut off before the shift (`t.L > 6 → continue`), below that the divisor is `256^(level+1)`. -/
theorem C18_edge_total {parse : Bytes → Option Tile} (hp : IsToolParser parse) (p : Bytes) (t : Tile)
    (h : parse p = some t) (size : Nat) : atOrRightOfEdge t size ≠ none :=
  atOrRightOfEdge_ne_none t size (parser_dom hp p t h).2.1
/-- level 7 and the level whose shift count used to wrap to 0 are kept, whatever the index -/
example : atOrRightOfEdge ⟨8, 7, 0, 256⟩ 1000000 = some true ∧
    atOrRightOfEdge ⟨8, 9223372036854775807, 0, 256⟩ 1000000 = some true := by decide

/-- position-wise relation between the roots of a run and the deletions made in them -/
inductive AllPairs (P : Root → List Del → Prop) : List Root → List (List Del) → Prop
  | nil : AllPairs P [] []
  | cons {r ds rs dss} : P r ds → AllPairs P rs dss → AllPairs P (r :: rs) (ds :: dss)

/-- **The whole run.** Whatever the order and outcome of the other roots, the deletions made in a root
are none, or exactly those of `cleanRoot` at the size of that root's verified published checkpoint —
so the three theorems above apply to every root of every run. -/
theorem C18_main (fuel : Nat) : ∀ (roots : List Root) (ex : Nat),
    AllPairs (fun r ds => ds = [] ∨ ∃ n, r.size = .ok n ∧ ds = (cleanRoot r.fs (parserOf r.kind) n fuel).1)
      roots (runRoots fuel roots ex).1 := by
  have hnil : ∀ (rest : List Root),
      AllPairs (fun r ds => ds = [] ∨ ∃ n, r.size = .ok n ∧ ds = (cleanRoot r.fs (parserOf r.kind) n fuel).1)
        rest (rest.map (fun _ => ([] : List Del))) := by
    intro rest
    induction rest with
    | nil => exact .nil
    | cons r rs ih => exact .cons (Or.inl rfl) ih
  intro roots
  induction roots with
  | nil => intro ex; exact .nil
  | cons r rest ih =>
    intro ex
    unfold runRoots
    split
    · rename_i n hn
      simp only
      split
      · exact .cons (Or.inr ⟨n, hn, rfl⟩) (ih _)
      · exact .cons (Or.inr ⟨n, hn, rfl⟩) (hnil _)
      · exact .cons (Or.inr ⟨n, hn, rfl⟩) (ih _)
    · split
      · exact .cons (Or.inl rfl) (hnil _)
      · exact .cons (Or.inl rfl) (ih _)
    · split
      · exact .cons (Or.inl rfl) (hnil _)
      · exact .cons (Or.inl rfl) (ih _)

theorem parserOf_tool (k : Kind) : IsToolParser (parserOf k) := by
  cases k
  · exact .sunlight
  · exact .torchwood

end C18
