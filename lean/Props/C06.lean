import Proofs.SeqInv
import Proofs.SeqDemo
/-! C06 — Concurrent, stale or misconfigured instances cannot fork a log.
`Reachable` ranges over every interleaving (at storage/lock-operation granularity) of any number of
instances, with faults, crashes, restarts and misconfigured starts. -/
namespace C06
open Seq

/-- A compare-and-swap takes effect only from the value the instance holds, and only if that value is
    still the one in the lock store. -/
theorem C06_cas_guard (s s' : Sys) (i : Nat) (old new : Ck) (r : Res)
    (h : step s (.lockReplace i old new r) = some s') (hr : r.applied = true) :
    s.lock = some old ∧ old = (s.insts i).tree ∧ s'.lock = some new ∧ s'.lockHist = new :: s.lockHist := by
  simp only [step] at h
  repeat' split at h
  all_goals simp_all [Sys.setInst, Res.applied]
  all_goals (subst h; simp)

/-- The lock history never branches and never returns to an earlier value: once a checkpoint has
    been replaced it is never the lock value again, so at most one instance ever extends it. -/
theorem C06_one_successor {s : Sys} (r : Reachable s) (c : Ck) (hc : s.lock = some c) :
    ∀ d ∈ s.lockHist.tail, d.time < c.time := by
  have hinv := inv_reachable r
  have hp := chain_pairwise _ hinv.chain
  cases hl : s.lockHist with
  | nil => simp
  | cons a t =>
    rw [hl] at hp
    have hh := hinv.head
    rw [hl, hc] at hh
    simp at hh; subst hh
    intro d hd
    exact ((List.pairwise_cons.1 hp).1 d hd).2

/-- The instance that loses the compare-and-swap stops: its round ends fatally (no acknowledgement is
    possible from it, see `C06_loser_no_ack`) and nothing is committed. -/
theorem C06_loser_stops (s s' : Sys) (i : Nat) (old new : Ck)
    (h : step s (.lockReplace i old new .refused) = some s') :
    s'.lockHist = s.lockHist ∧ s'.lock = s.lock ∧
      ∃ rd, (s'.insts i).phase = .round rd ∧ rd.pc = .done .fatal := by
  simp only [step] at h
  repeat' split at h
  all_goals simp_all [Sys.setInst, upd]
  all_goals (subst h; simp [upd])

/-- A round that ended fatally acknowledges nothing: the model accepts an acknowledgement from a round
    only in the `done ok` state (after the checkpoint upload succeeded) or from the cache. -/
theorem C06_loser_no_ack (s : Sys) (i eid key idx ts : Nat) (rd : Round)
    (hp : (s.insts i).phase = .round rd) (hpc : rd.pc = .done .fatal)
    (hcache : cacheLookup (s.insts i).cache key ≠ some (idx, ts)) :
    step s (.ack i eid key idx ts) = none := by
  simp [step, hp, hpc, hcache]

/-- After a fatal round the instance is `stopped`; a stopped instance starts no round, admits no
    submission and performs no lock operation. -/
theorem C06_stopped_inert (s : Sys) (i : Nat) (hp : (s.insts i).phase = .stopped) :
    step s (.launchRound i) = none ∧ (∀ o n r, step s (.lockReplace i o n r) = none) ∧
    (∀ e k l is src, src ≠ Src.issuer → step s (.submitted i e k l is src) = none) := by
  refine ⟨by simp [step, hp], fun o n r => by simp [step, hp], ?_⟩
  intro e k l is src hsrc
  simp only [step, hp, isUp]
  split
  · rfl
  · simp [hsrc]

/-- A log is never created over an existing one: `Create` takes effect only on an empty lock store. -/
theorem C06_create_guard (s s' : Sys) (i : Nat) (c : Ck) (r : Res)
    (h : step s (.lockCreate i c r) = some s') (hr : r.applied = true) : s.lock = none := by
  simp only [step] at h
  repeat' split at h
  all_goals simp_all [Res.applied]

/-- An instance refuses to start (goes to `failing`) when the published checkpoint is ahead of the
    lock store or has the same size but different content. -/
theorem C06_start_refuses (s s' : Sys) (i v : Nat) (c c1 : Ck)
    (hp : (s.insts i).phase = .loading (.clock2 c c1)) (hv : c1.time ≤ v)
    (hbad : c1.leaves.length > c.leaves.length ∨ (c1.leaves.length = c.leaves.length ∧ c1.leaves ≠ c.leaves))
    (h : step s (.clock i v) = some s') :
    ∃ x, (s'.insts i) = x ∧ (match x.phase with | .loading .failing => True | _ => False) := by
  simp only [step, hp] at h
  have hv' : ¬ v < c1.time := Nat.not_lt.2 hv
  simp only [hv', if_false] at h
  rcases hbad with hgt | ⟨heq, hne⟩
  · have : ¬ c1.leaves.length = c.leaves.length := by omega
    simp only [this, if_false, hgt, if_true] at h
    injection h with h; subst h; simp [Sys.setInst, upd]
  · simp only [heq, if_true, hne, if_false] at h
    injection h with h; subst h; simp [Sys.setInst, upd]

/-- … and when it is started with a name or key other than the log's (the lock checkpoint does not
    verify, or nothing is found under the foreign log ID). -/
theorem C06_start_refuses_misconfigured (s s' : Sys) (i : Nat) (r : FRes Ck)
    (hp : (s.insts i).phase = .loading .lockFetch) (hbad : (s.insts i).cfgBad = true)
    (h : step s (.lockFetch i r) = some s') :
    (match (s'.insts i).phase with | .loading .failing => True | _ => False) := by
  simp only [step, hp] at h
  cases r <;> simp only at h <;> (repeat' split at h) <;> simp_all [Sys.setInst, upd] <;> (subst h; simp [upd])

/-- History stays append-only and fork-free under every interleaving (same theorem as C01, the
    quantifier of `Reachable` already includes any number of instances). -/
theorem C06_no_fork {s : Sys} (r : Reachable s) :
    s.lockHist.Pairwise (fun newer older => older.leaves <+: newer.leaves ∧ older.time < newer.time) ∧
    ∀ c ∈ s.pubHist, c ∈ s.lockHist :=
  ⟨chain_pairwise _ (inv_reachable r).chain, (inv_reachable r).pub⟩

example : ∃ s, Reachable s ∧ s.lockHist.length = 3 := by
  obtain ⟨s, hr, hl⟩ := Seq.Demo.demo_reachable
  exact ⟨s, hr, by rw [hl]; rfl⟩

end C06

namespace C06
open Seq

/-! ### Known finding F3: publication order is not monotone with two live instances.
The model accepts the following run (instance 0 stalls after its compare-and-swap; instance 1 loads,
applies instance 0's staged bundle, sequences and publishes; instance 0 resumes and publishes its older
checkpoint). The publication history then reads c1 (newest), c2, c1', c0: the public checkpoint went
from size 2 back to size 1. The same schedule is replayed on two real Log instances by
corpus/C06/seq-f3-publication-regress.json. The lock history remains a chain (`C06_no_fork`). -/

def f3c0 : Ck := ⟨[], 100⟩
def f3c1 : Ck := ⟨[⟨0, 0, 110⟩], 110⟩
def f3c2 : Ck := ⟨[⟨0, 0, 110⟩, ⟨1, 1, 120⟩], 120⟩
def f3b1 : List (TileId × Tree) := [(⟨.data,0,1⟩, f3c1.leaves), (⟨.names,0,1⟩, f3c1.leaves), (⟨.hash 0,0,1⟩, f3c1.leaves)]
def f3b2 : List (TileId × Tree) := [(⟨.data,0,2⟩, f3c2.leaves), (⟨.names,0,2⟩, f3c2.leaves), (⟨.hash 0,0,2⟩, f3c2.leaves)]

def f3 : List Ev := [
  .launchCreate 0, .lockFetch 0 .nf, .fetch 0 .ckpt .nf, .clock 0 100, .lockCreate 0 f3c0 .ok,
  .upload 0 .ckpt false (.ck f3c0) .ok, .upload 0 .roots false (.blob 0) .ok, .created 0,
  .launchLoad 0, .lockFetch 0 (.ok f3c0), .clock 0 101, .fetch 0 .ckpt (.ok (.ck f3c0)), .clock 0 101,
  .fetch 0 .roots (.ok (.blob 0)), .loaded 0 f3c0,
  .launchSubmit 0, .submitted 0 0 0 false [] .sequencer,
  .launchRound 0, .clock 0 110, .upload 0 (.staging f3c1.leaves) true (.bundle f3b1) .ok,
  .lockReplace 0 f3c0 f3c1 .ok,
  -- instance 0 stalls here; instance 1 starts and finds the lock ahead of the published checkpoint
  .launchLoad 1, .lockFetch 1 (.ok f3c1), .clock 1 111, .fetch 1 .ckpt (.ok (.ck f3c0)), .clock 1 111,
  .fetch 1 (.legacyStaging f3c1.leaves) .nf, .fetch 1 (.staging f3c1.leaves) (.ok (.bundle f3b1)),
  .upload 1 (.tile ⟨.data,0,1⟩) true (.slice f3c1.leaves) .ok,
  .upload 1 (.tile ⟨.names,0,1⟩) true (.slice f3c1.leaves) .ok,
  .upload 1 (.tile ⟨.hash 0,0,1⟩) true (.slice f3c1.leaves) .ok,
  .fetch 1 (.tile ⟨.hash 0,0,1⟩) (.ok (.slice f3c1.leaves)), .fetch 1 (.tile ⟨.data,0,1⟩) (.ok (.slice f3c1.leaves)),
  .fetch 1 .roots (.ok (.blob 0)), .loaded 1 f3c1,
  .launchSubmit 1, .submitted 1 1 1 false [] .sequencer,
  .launchRound 1, .clock 1 120, .upload 1 (.staging f3c2.leaves) true (.bundle f3b2) .ok,
  .lockReplace 1 f3c1 f3c2 .ok,
  .upload 1 (.tile ⟨.data,0,2⟩) true (.slice f3c2.leaves) .ok,
  .upload 1 (.tile ⟨.names,0,2⟩) true (.slice f3c2.leaves) .ok,
  .upload 1 (.tile ⟨.hash 0,0,2⟩) true (.slice f3c2.leaves) .ok,
  .upload 1 .ckpt false (.ck f3c2) .ok, .discard 1 (.staging f3c2.leaves) .ok, .ack 1 1 1 1 120, .roundEnd 1 .ok,
  -- instance 0 resumes: same-content immutable tiles are accepted, then its older checkpoint is published
  .upload 0 (.tile ⟨.data,0,1⟩) true (.slice f3c1.leaves) .ok,
  .upload 0 (.tile ⟨.names,0,1⟩) true (.slice f3c1.leaves) .ok,
  .upload 0 (.tile ⟨.hash 0,0,1⟩) true (.slice f3c1.leaves) .ok,
  .upload 0 .ckpt false (.ck f3c1) .ok]

/-- the unrestricted statement "publication order is monotone" is false of the model (and of the code) -/
theorem C06_pub_order_not_monotone_witness :
    ∃ s, run (init 0) f3 = some s ∧ s.pubHist = [f3c1, f3c2, f3c0] ∧ s.lockHist = [f3c2, f3c1, f3c0] := by
  refine ⟨_, rfl, rfl, rfl⟩

end C06
