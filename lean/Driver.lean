import Driver.Main
