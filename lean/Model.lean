import Model.Bytes
import Model.Sha256
