import Model.MerkleMore
import Proofs.Merkle
/-! Theorems about the rest of the Merkle library (DESIGN.md §6.1): injectivity of the RFC 6962
tree hash under the collision-freeness hypotheses, the arithmetic of `bitCeil`/`validSubtree`,
soundness of the subtree-proof and inclusion-proof checkers for all sizes, and completeness of the
three checkers against the reference provers (model sanity / non-vacuity). Core only. -/
namespace Merkle
variable {H : Type} (node : H → H → H) (empty : H)

/-! ### small facts about `mth` -/

theorem mth_nil : mth node empty ([] : List H) = empty := by rw [mth]

theorem mth_singleton (x : H) : mth node empty [x] = x := by rw [mth]

theorem length_take_split {a : List H} (h : 2 ≤ a.length) :
    (a.take (split a.length)).length = split a.length := by
  have := split_lt h
  rw [List.length_take]; omega

theorem length_drop_split {a : List H} :
    (a.drop (split a.length)).length = a.length - split a.length := by
  rw [List.length_drop]

/-! ### 1. injectivity at equal sizes needs only `NodeInj` -/

theorem mth_inj_aux (inj : NodeInj node) :
    ∀ n : Nat, ∀ a b : List H, a.length = n → b.length = n →
      mth node empty a = mth node empty b → a = b := by
  intro n
  induction n using Nat.strongRecOn with
  | _ n ih =>
    intro a b ha hb h
    by_cases h0 : n = 0
    · subst h0
      rw [List.length_eq_zero_iff] at ha hb
      rw [ha, hb]
    · by_cases h1 : n = 1
      · subst h1
        match a, b, ha, hb with
        | [x], [y], _, _ =>
          rw [mth_singleton, mth_singleton] at h
          rw [h]
      · have h2 : 2 ≤ n := by omega
        have hk := split_lt h2
        have hk0 := split_pos n
        rw [mth_unfold node empty a (by omega), mth_unfold node empty b (by omega), ha, hb] at h
        obtain ⟨e1, e2⟩ := inj _ _ _ _ h
        have t1 := ih (split n) hk (a.take (split n)) (b.take (split n))
          (by rw [List.length_take]; omega) (by rw [List.length_take]; omega) e1
        have t2 := ih (n - split n) (by omega) (a.drop (split n)) (b.drop (split n))
          (by rw [List.length_drop]; omega) (by rw [List.length_drop]; omega) e2
        rw [← List.take_append_drop (split n) a, ← List.take_append_drop (split n) b, t1, t2]

theorem mth_inj (inj : NodeInj node) :
    ∀ a b : List H, a.length = b.length → mth node empty a = mth node empty b → a = b :=
  fun a b hl h => mth_inj_aux node empty inj b.length a b hl rfl h

/-! ### 2. injectivity at all sizes needs the separation clauses -/

theorem mth_inj_of_collisionFree_aux {isLeaf : H → Prop} (cf : CollisionFree node empty isLeaf) :
    ∀ n : Nat, ∀ a b : List H, a.length = n → (∀ x ∈ a, isLeaf x) → (∀ x ∈ b, isLeaf x) →
      mth node empty a = mth node empty b → a = b := by
  intro n
  induction n using Nat.strongRecOn with
  | _ n ih =>
    intro a b ha la lb h
    by_cases ha2 : 2 ≤ a.length
    · by_cases hb2 : 2 ≤ b.length
      · -- interior vs interior
        have hka := split_lt ha2
        have hkb := split_lt hb2
        have hka0 := split_pos a.length
        have hkb0 := split_pos b.length
        rw [mth_unfold node empty a ha2, mth_unfold node empty b hb2] at h
        obtain ⟨e1, e2⟩ := cf.node_inj _ _ _ _ h
        have t1 := ih (split a.length) (by omega) (a.take (split a.length)) (b.take (split b.length))
          (length_take_split ha2)
          (fun x hx => la x (List.mem_of_mem_take hx))
          (fun x hx => lb x (List.mem_of_mem_take hx)) e1
        have t2 := ih (a.length - split a.length) (by omega)
          (a.drop (split a.length)) (b.drop (split b.length))
          length_drop_split
          (fun x hx => la x (List.mem_of_mem_drop hx))
          (fun x hx => lb x (List.mem_of_mem_drop hx)) e2
        rw [← List.take_append_drop (split a.length) a, ← List.take_append_drop (split b.length) b,
          t1, t2]
      · -- interior vs leaf/empty
        exfalso
        rw [mth_unfold node empty a ha2] at h
        match b, hb2, lb with
        | [], _, _ =>
          rw [mth_nil] at h
          exact cf.empty_ne_node _ _ h.symm
        | [y], _, lb =>
          rw [mth_singleton] at h
          exact cf.leaf_ne_node y _ _ (lb y (List.mem_singleton.2 rfl)) h.symm
        | _ :: _ :: _, hb2, _ => simp at hb2
    · match a, ha2, la with
      | [], _, _ =>
        rw [mth_nil] at h
        match b, lb with
        | [], _ => rfl
        | [y], lb =>
          rw [mth_singleton] at h
          exact absurd h.symm (cf.leaf_ne_empty y (lb y (List.mem_singleton.2 rfl)))
        | y :: z :: r, _ =>
          rw [mth_unfold node empty (y :: z :: r) (by simp)] at h
          exact absurd h (cf.empty_ne_node _ _)
      | [x], _, la =>
        rw [mth_singleton] at h
        match b, lb with
        | [], _ =>
          rw [mth_nil] at h
          exact absurd h (cf.leaf_ne_empty x (la x (List.mem_singleton.2 rfl)))
        | [y], _ =>
          rw [mth_singleton] at h
          rw [h]
        | y :: z :: r, _ =>
          rw [mth_unfold node empty (y :: z :: r) (by simp)] at h
          exact absurd h (cf.leaf_ne_node x _ _ (la x (List.mem_singleton.2 rfl)))
      | _ :: _ :: _, ha2, _ => simp at ha2

theorem mth_inj_of_collisionFree {isLeaf : H → Prop} (cf : CollisionFree node empty isLeaf) :
    ∀ a b : List H, (∀ x ∈ a, isLeaf x) → (∀ x ∈ b, isLeaf x) →
      mth node empty a = mth node empty b → a = b :=
  fun a b la lb h => mth_inj_of_collisionFree_aux node empty cf a.length a b rfl la lb h

/-! ### 3. `bitCeil` is the smallest power of two at or above its argument -/

theorem bitCeil_one : bitCeil 1 = 1 := by
  simp [bitCeil, bitsLen]

theorem bitCeil_zero : bitCeil 0 = 1 := by
  simp [bitCeil, bitsLen]

theorem bitCeil_eq_two_split {n : Nat} (h : 2 ≤ n) : bitCeil n = 2 * split n := by
  unfold bitCeil bitsLen split
  rw [if_neg (by omega), Nat.pow_succ]
  omega

theorem le_bitCeil (n : Nat) : n ≤ bitCeil n := by
  by_cases h0 : n = 0
  · subst h0; rw [bitCeil_zero]; omega
  · by_cases h1 : n = 1
    · subst h1; rw [bitCeil_one]; omega
    · have h2 : 2 ≤ n := by omega
      rw [bitCeil_eq_two_split h2]
      exact le_two_split h2

theorem bitCeil_pow (n : Nat) : ∃ k, bitCeil n = 2 ^ k := ⟨bitsLen (n - 1), rfl⟩

theorem bitCeil_pos (n : Nat) : 0 < bitCeil n := by
  unfold bitCeil; exact Nat.pow_pos (by decide)

theorem bitCeil_min {n k : Nat} (h : n ≤ 2 ^ k) : bitCeil n ≤ 2 ^ k := by
  unfold bitCeil bitsLen
  split
  · rw [Nat.pow_zero]; exact Nat.pow_pos (by decide)
  · rename_i hne
    apply Nat.pow_le_pow_right (by decide)
    have : (n - 1).log2 < k := (Nat.log2_lt hne).2 (by omega)
    omega

theorem validSubtree_spec (s e : Nat) :
    validSubtree s e = true ↔ s < e ∧ e - s ≤ maxN ∧ s % bitCeil (e - s) = 0 := by
  unfold validSubtree
  split
  · rename_i hc
    constructor
    · intro h; cases h
    · intro ⟨h1, h2, _⟩; omega
  · rename_i hc
    have hmod : s &&& (bitCeil (e - s) - 1) = s % bitCeil (e - s) := by
      unfold bitCeil
      exact Nat.and_two_pow_sub_one_eq_mod _ _
    rw [hmod, beq_iff_eq]
    constructor
    · intro h; exact ⟨by omega, by omega, h⟩
    · intro ⟨_, _, h⟩; exact h

/-! ### 4. subtree proofs -/

/-- the node `[lo,hi)` with at least two leaves hashes its two children at `split (hi - lo)` -/
theorem mth_rng_unfold (B : List H) {lo hi : Nat} (h3 : hi ≤ B.length) (hlen : 2 ≤ hi - lo) :
    mth node empty (rng B lo hi) =
      node (mth node empty (rng B lo (lo + split (hi - lo))))
           (mth node empty (rng B (lo + split (hi - lo)) hi)) := by
  have hk1 := split_lt hlen
  have hl := rng_length B h3 (by omega : lo ≤ hi)
  rw [mth_unfold node empty _ (by omega), hl]
  rw [rng_take B (by omega), rng_drop B (by omega)]

theorem runSubtreeProof_sound (inj : NodeInj node) (B : List H) :
    ∀ (p : List H) (lo hi s e : Nat) (b : Bool) (sh sh2 nh : H),
      lo ≤ s → s < e → e ≤ hi → hi ≤ B.length →
      runSubtreeProof node p lo hi s e b sh = some (sh2, nh) →
      nh = mth node empty (rng B lo hi) →
      sh2 = mth node empty (rng B s e) := by
  intro p
  induction p with
  | nil =>
    intro lo hi s e b sh sh2 nh h1 h2 h3 h4 hr ht
    simp only [runSubtreeProof] at hr
    split at hr
    · rename_i hc
      obtain ⟨rfl, rfl, _⟩ := hc
      simp only [Option.some.injEq, Prod.mk.injEq] at hr
      obtain ⟨rfl, rfl⟩ := hr
      exact ht
    · cases hr
  | cons x rest ih =>
    intro lo hi s e b sh sh2 nh h1 h2 h3 h4 hr ht
    simp only [runSubtreeProof] at hr
    split at hr
    · cases hr
    · split at hr
      · rename_i hc
        obtain ⟨rfl, rfl⟩ := hc
        split at hr
        · cases hr
        · split at hr
          · simp only [Option.some.injEq, Prod.mk.injEq] at hr
            obtain ⟨rfl, rfl⟩ := hr
            exact ht
          · cases hr
      · rename_i hne
        have hlen : 2 ≤ hi - lo := by omega
        have hk1 := split_lt hlen
        have hk0 := split_pos (hi - lo)
        have hbig := mth_rng_unfold node empty B h4 hlen
        split at hr
        · rename_i hle
          -- left child
          cases hrec : runSubtreeProof node rest lo (lo + split (hi - lo)) s e b sh with
          | none => rw [hrec] at hr; cases hr
          | some pr =>
            obtain ⟨sh', nh'⟩ := pr
            rw [hrec] at hr
            simp only [Option.some.injEq, Prod.mk.injEq] at hr
            obtain ⟨rfl, rfl⟩ := hr
            rw [hbig] at ht
            obtain ⟨e1, _⟩ := inj _ _ _ _ ht
            exact ih lo _ s e b sh sh' nh' h1 h2 hle (by omega) hrec e1
        · rename_i hgt
          split at hr
          · rename_i hge
            -- right child
            cases hrec : runSubtreeProof node rest (lo + split (hi - lo)) hi s e b sh with
            | none => rw [hrec] at hr; cases hr
            | some pr =>
              obtain ⟨sh', nh'⟩ := pr
              rw [hrec] at hr
              simp only [Option.some.injEq, Prod.mk.injEq] at hr
              obtain ⟨rfl, rfl⟩ := hr
              rw [hbig] at ht
              obtain ⟨_, e2⟩ := inj _ _ _ _ ht
              exact ih _ hi s e b sh sh' nh' hge h2 h3 h4 hrec e2
          · rename_i hlt
            split at hr
            · cases hr
            · rename_i hs
              have hs' : s = lo := Decidable.not_not.1 hs
              subst hs'
              -- the subtree straddles the split: its left half is the left child
              cases hrec : runSubtreeProof node rest (s + split (hi - s)) hi
                  (s + split (hi - s)) e false sh with
              | none => rw [hrec] at hr; cases hr
              | some pr =>
                obtain ⟨sh', nh'⟩ := pr
                rw [hrec] at hr
                simp only [Option.some.injEq, Prod.mk.injEq] at hr
                obtain ⟨rfl, rfl⟩ := hr
                rw [hbig] at ht
                obtain ⟨e1, e2⟩ := inj _ _ _ _ ht
                have hsh := ih (s + split (hi - s)) hi (s + split (hi - s)) e false sh sh' nh'
                  (Nat.le_refl _) (by omega) h3 h4 hrec e2
                have hl := rng_length B (by omega : e ≤ B.length) (by omega : s ≤ e)
                have hsp : split (e - s) = split (hi - s) :=
                  split_eq_of_between hlen (by omega) (by omega)
                rw [mth_unfold node empty (rng B s e) (by omega), hl, hsp]
                rw [rng_take B (by omega), rng_drop B (by omega)]
                rw [← hsh, ← e1]

theorem rng_zero_length (B : List H) : rng B 0 B.length = B := by
  unfold rng
  simp only [List.drop_zero, Nat.sub_zero]
  exact List.take_of_length_le (Nat.le_refl _)

theorem checkSubtree_guard [DecidableEq H] (p : List H) (t : Nat) (th : H) (s e : Nat) (sh : H)
    (hc : checkSubtree node p t th s e sh = true) :
    validSubtree s e = true ∧ e ≤ t ∧ t ≤ maxN := by
  unfold checkSubtree at hc
  split at hc
  · cases hc
  · rename_i hg
    refine ⟨?_, by omega, by omega⟩
    cases hv : validSubtree s e with
    | true => rfl
    | false => exact absurd (Or.inr (Or.inr hv)) hg

theorem checkSubtree_sound [DecidableEq H] (inj : NodeInj node) (p : List H) (t : Nat) (th : H)
    (s e : Nat) (sh : H) (hc : checkSubtree node p t th s e sh = true) :
    ∀ B : List H, B.length = t → mth node empty B = th → subtreeHash node empty B s e = sh := by
  intro B hB hroot
  obtain ⟨hv, he, _⟩ := checkSubtree_guard node p t th s e sh hc
  have hse : s < e := ((validSubtree_spec s e).1 hv).1
  unfold checkSubtree at hc
  split at hc
  · cases hc
  · cases hrec : runSubtreeProof node p 0 t s e true sh with
    | none => rw [hrec] at hc; cases hc
    | some pr =>
      obtain ⟨sh2, th2⟩ := pr
      rw [hrec] at hc
      simp only [decide_eq_true_eq] at hc
      obtain ⟨rfl, rfl⟩ := hc
      subst hB
      have := runSubtreeProof_sound node empty inj B p 0 B.length s e true sh2 sh2 th2
        (Nat.zero_le _) hse he (Nat.le_refl _) hrec (by rw [rng_zero_length, hroot])
      unfold subtreeHash
      exact this.symm

/-! ### 5. record (inclusion) proofs -/

theorem mth_rng_one (B : List H) {lo hi : Nat} (h : hi ≤ B.length) (h1 : lo + 1 = hi) :
    B[lo]? = some (mth node empty (rng B lo hi)) := by
  have hl := rng_length B h (by omega : lo ≤ hi)
  have hg : (rng B lo hi)[0]? = B[lo]? := by
    unfold rng
    rw [List.getElem?_take, if_pos (by omega), List.getElem?_drop]
    rfl
  match hr : rng B lo hi, hl with
  | [y], _ =>
    rw [hr] at hg
    rw [mth_singleton, ← hg]
    rfl
  | [], hl => simp at hl; omega
  | _ :: _ :: _, hl => simp at hl; omega

theorem runRecordProof_sound (inj : NodeInj node) (B : List H) :
    ∀ (p : List H) (lo hi n : Nat) (leaf th : H),
      lo ≤ n → n < hi → hi ≤ B.length →
      runRecordProof node p lo hi n leaf = some th →
      th = mth node empty (rng B lo hi) →
      B[n]? = some leaf := by
  intro p
  induction p with
  | nil =>
    intro lo hi n leaf th h1 h2 h3 hr ht
    simp only [runRecordProof] at hr
    split at hr
    · rename_i hc
      simp only [Option.some.injEq] at hr
      subst hr
      have hn : n = lo := by omega
      subst hn
      rw [ht]
      exact mth_rng_one node empty B h3 hc
    · cases hr
  | cons x rest ih =>
    intro lo hi n leaf th h1 h2 h3 hr ht
    simp only [runRecordProof] at hr
    split at hr
    · cases hr
    · split at hr
      · cases hr
      · rename_i hne
        have hlen : 2 ≤ hi - lo := by omega
        have hk1 := split_lt hlen
        have hk0 := split_pos (hi - lo)
        have hbig := mth_rng_unfold node empty B h3 hlen
        split at hr
        · rename_i hlt
          cases hrec : runRecordProof node rest lo (lo + split (hi - lo)) n leaf with
          | none => rw [hrec] at hr; cases hr
          | some th' =>
            rw [hrec] at hr
            simp only [Option.some.injEq] at hr
            subst hr
            rw [hbig] at ht
            obtain ⟨e1, _⟩ := inj _ _ _ _ ht
            exact ih lo _ n leaf th' h1 hlt (by omega) hrec e1
        · rename_i hge
          cases hrec : runRecordProof node rest (lo + split (hi - lo)) hi n leaf with
          | none => rw [hrec] at hr; cases hr
          | some th' =>
            rw [hrec] at hr
            simp only [Option.some.injEq] at hr
            subst hr
            rw [hbig] at ht
            obtain ⟨_, e2⟩ := inj _ _ _ _ ht
            exact ih _ hi n leaf th' (by omega) h2 h3 hrec e2

theorem checkRecord_sound [DecidableEq H] (inj : NodeInj node) (p : List H) (t : Nat) (th : H)
    (n : Nat) (h : H) (hc : checkRecord node p t th n h = true) :
    ∀ B : List H, B.length = t → mth node empty B = th → B[n]? = some h := by
  intro B hB hroot
  unfold checkRecord at hc
  split at hc
  · cases hc
  · rename_i hg
    cases hrec : runRecordProof node p 0 t n h with
    | none => rw [hrec] at hc; cases hc
    | some th2 =>
      rw [hrec] at hc
      simp only [decide_eq_true_eq] at hc
      subst hc
      subst hB
      exact runRecordProof_sound node empty inj B p 0 B.length n h th2
        (Nat.zero_le _) (by omega) (Nat.le_refl _) hrec (by rw [rng_zero_length, hroot])

/-! ### 6. completeness against the reference provers (model sanity: the checkers accept) -/

theorem rng_zero (B : List H) (t : Nat) : rng B 0 t = B.take t := by
  unfold rng
  simp only [List.drop_zero, Nat.sub_zero]

theorem runTreeProof_complete (B : List H) (n : Nat) :
    ∀ (fuel lo hi : Nat), lo < n → n ≤ hi → hi ≤ B.length → hi - lo < fuel →
      runTreeProof node (treeProofAux node empty B fuel lo hi n) lo hi n
          (mth node empty (rng B 0 n)) =
        some (mth node empty (rng B lo n), mth node empty (rng B lo hi)) := by
  intro fuel
  induction fuel with
  | zero => intro lo hi h1 h2 h3 h4; omega
  | succ fuel ih =>
    intro lo hi h1 h2 h3 h4
    simp only [treeProofAux]
    by_cases hnh : n = hi
    · subst hnh
      rw [if_pos rfl]
      by_cases hlo : lo = 0
      · subst hlo
        simp [runTreeProof]
      · rw [if_neg hlo]
        simp [runTreeProof, hlo]
    · rw [if_neg hnh]
      have hlen : 2 ≤ hi - lo := by omega
      have hk1 := split_lt hlen
      have hk0 := split_pos (hi - lo)
      have hbig := mth_rng_unfold node empty B h3 hlen
      by_cases hle : n ≤ lo + split (hi - lo)
      · rw [if_pos hle]
        simp only [runTreeProof]
        rw [if_neg hnh, if_pos hle, ih lo _ h1 hle (by omega) (by omega), hbig]
      · rw [if_neg hle]
        simp only [runTreeProof]
        rw [if_neg hnh, if_neg hle, ih _ hi (by omega) h2 h3 (by omega), hbig]
        have hl := rng_length B (by omega : n ≤ B.length) (by omega : lo ≤ n)
        have hs : split (n - lo) = split (hi - lo) :=
          split_eq_of_between hlen (by omega) (by omega)
        rw [mth_unfold node empty (rng B lo n) (by omega), hl, hs]
        rw [rng_take B (by omega), rng_drop B (by omega)]

theorem checkTree_complete [DecidableEq H] (B : List H) (t n : Nat) (h1 : 0 < n) (h2 : n ≤ t)
    (h3 : t ≤ B.length) :
    checkTree node (proveTree node empty B t n) t (mth node empty (B.take t)) n
      (mth node empty (B.take n)) = true := by
  unfold checkTree proveTree
  rw [if_neg (by omega)]
  have := runTreeProof_complete node empty B n (t + 1) 0 t h1 h2 h3 (by omega)
  rw [rng_zero, rng_zero] at this
  rw [this]
  simp

theorem runRecordProof_complete (B : List H) (n : Nat) :
    ∀ (fuel lo hi : Nat), lo ≤ n → n < hi → hi ≤ B.length → hi - lo < fuel →
      runRecordProof node (recordProofAux node empty B fuel lo hi n) lo hi n (B[n]?.getD empty) =
        some (mth node empty (rng B lo hi)) := by
  intro fuel
  induction fuel with
  | zero => intro lo hi h1 h2 h3 h4; omega
  | succ fuel ih =>
    intro lo hi h1 h2 h3 h4
    simp only [recordProofAux]
    by_cases h1hi : lo + 1 = hi
    · rw [if_pos h1hi]
      simp only [runRecordProof]
      rw [if_pos h1hi]
      have hn : n = lo := by omega
      subst hn
      rw [mth_rng_one node empty B h3 h1hi]
      rfl
    · rw [if_neg h1hi]
      have hlen : 2 ≤ hi - lo := by omega
      have hk1 := split_lt hlen
      have hk0 := split_pos (hi - lo)
      have hbig := mth_rng_unfold node empty B h3 hlen
      have hguard : ¬ ¬ (lo ≤ n ∧ n < hi) := fun hh => hh ⟨h1, h2⟩
      by_cases hlt : n < lo + split (hi - lo)
      · rw [if_pos hlt]
        simp only [runRecordProof]
        rw [if_neg hguard, if_neg h1hi, if_pos hlt, ih lo _ h1 hlt (by omega) (by omega), hbig]
      · rw [if_neg hlt]
        simp only [runRecordProof]
        rw [if_neg hguard, if_neg h1hi, if_neg hlt, ih _ hi (by omega) h2 h3 (by omega), hbig]

theorem checkRecord_complete [DecidableEq H] (B : List H) (t n : Nat) (hn : n < t)
    (ht : t ≤ B.length) :
    checkRecord node (proveRecord node empty B t n) t (mth node empty (B.take t)) n
      (B[n]?.getD empty) = true := by
  unfold checkRecord proveRecord
  rw [if_neg (by omega)]
  have := runRecordProof_complete node empty B n (t + 1) 0 t (Nat.zero_le _) hn ht (by omega)
  rw [rng_zero] at this
  rw [this]
  simp

/-- powers of two are ordered by divisibility -/
theorem two_pow_dvd_of_le {i j : Nat} (h : 2 ^ i ≤ 2 ^ j) : 2 ^ i ∣ 2 ^ j :=
  Nat.pow_dvd_pow 2 ((Nat.pow_le_pow_iff_right (by decide)).1 h)

/-- The alignment fact behind torchwood's second "bad math" panic: a subtree `[s,e)` that is
aligned relative to `lo` and straddles the split of the node `[lo,hi)` starts at `lo`. -/
theorem straddle_start {lo hi s e : Nat} (h1 : lo ≤ s)
    (hs : s < lo + split (hi - lo)) (he : lo + split (hi - lo) < e)
    (hal : bitCeil (e - s) ∣ s - lo) : s = lo := by
  apply Decidable.byContradiction
  intro hne
  have hpos : 0 < s - lo := by omega
  have hc := le_bitCeil (e - s)
  have hcle := Nat.le_of_dvd hpos hal
  have hck : bitCeil (e - s) ∣ split (hi - lo) := by
    have hle : bitCeil (e - s) ≤ split (hi - lo) := by omega
    unfold bitCeil split at hle ⊢
    exact two_pow_dvd_of_le hle
  obtain ⟨m, hm⟩ := hal
  obtain ⟨m', hm'⟩ := hck
  have hcpos := bitCeil_pos (e - s)
  have l1 : bitCeil (e - s) * m < bitCeil (e - s) * m' := by omega
  have l2 : bitCeil (e - s) * m' < bitCeil (e - s) * (m + 1) := by
    rw [Nat.mul_succ]; omega
  have := Nat.lt_of_mul_lt_mul_left l1
  have := Nat.lt_of_mul_lt_mul_left l2
  omega

/-- alignment relative to `lo` is inherited by the right child -/
theorem align_right {lo hi s e : Nat} (hlen : 2 ≤ hi - lo) (hse : s < e) (he : e ≤ hi)
    (hs : lo + split (hi - lo) ≤ s) (hal : bitCeil (e - s) ∣ s - lo) :
    bitCeil (e - s) ∣ s - (lo + split (hi - lo)) := by
  have hk2 := le_two_split hlen
  have hck : bitCeil (e - s) ∣ split (hi - lo) := by
    have : bitCeil (e - s) ≤ split (hi - lo) := by
      unfold split
      apply bitCeil_min
      unfold split at hk2 hs
      omega
    unfold bitCeil split
    apply two_pow_dvd_of_le
    unfold bitCeil split at this
    exact this
  have := Nat.dvd_sub hal hck
  rw [Nat.sub_sub] at this
  exact this

theorem runSubtreeProof_complete (B : List H) (sh : H) :
    ∀ (fuel lo hi s e : Nat) (b : Bool),
      lo ≤ s → s < e → e ≤ hi → hi ≤ B.length → hi - lo < fuel →
      bitCeil (e - s) ∣ s - lo →
      (b = true → sh = mth node empty (rng B s e)) →
      runSubtreeProof node (subtreeProofAux node empty B fuel lo hi s e b) lo hi s e b sh =
        some (mth node empty (rng B s e), mth node empty (rng B lo hi)) := by
  intro fuel
  induction fuel with
  | zero => intro lo hi s e b h1 h2 h3 h4 h5; omega
  | succ fuel ih =>
    intro lo hi s e b h1 h2 h3 h4 h5 hal hsh
    simp only [subtreeProofAux]
    have hguard : ¬ ¬ (lo ≤ s ∧ s < e ∧ e ≤ hi) := fun hh => hh ⟨h1, h2, h3⟩
    by_cases hc : lo = s ∧ hi = e
    · rw [if_pos hc]
      obtain ⟨rfl, rfl⟩ := hc
      cases b with
      | true =>
        rw [if_pos rfl, ← hsh rfl]
        simp [runSubtreeProof]
      | false =>
        rw [if_neg (by decide)]
        simp [runSubtreeProof, h2]
    · rw [if_neg hc]
      have hlen : 2 ≤ hi - lo := by omega
      have hk1 := split_lt hlen
      have hk0 := split_pos (hi - lo)
      have hbig := mth_rng_unfold node empty B h4 hlen
      by_cases hle : e ≤ lo + split (hi - lo)
      · rw [if_pos hle]
        simp only [runSubtreeProof]
        rw [if_neg hguard, if_neg hc, if_pos hle,
          ih lo _ s e b h1 h2 hle (by omega) (by omega) hal hsh, hbig]
      · rw [if_neg hle]
        by_cases hge : lo + split (hi - lo) ≤ s
        · rw [if_pos hge]
          simp only [runSubtreeProof]
          rw [if_neg hguard, if_neg hc, if_neg hle, if_pos hge,
            ih (lo + split (hi - lo)) hi s e b hge h2 h3 h4 (by omega)
              (align_right hlen h2 h3 hge hal) hsh, hbig]
        · rw [if_neg hge]
          have hsl : s = lo := straddle_start (hi := hi) h1 (by omega) (by omega) hal
          simp only [runSubtreeProof]
          rw [if_neg hguard, if_neg hc, if_neg hle, if_neg hge, if_neg (fun hh => hh hsl),
            ih (lo + split (hi - lo)) hi (lo + split (hi - lo)) e false (Nat.le_refl _) (by omega)
              h3 h4 (by omega)
              (by rw [Nat.sub_self]; exact Nat.dvd_zero _) (fun hh => by cases hh), hbig]
          subst hsl
          have hl := rng_length B (by omega : e ≤ B.length) (by omega : s ≤ e)
          have hsp : split (e - s) = split (hi - s) :=
            split_eq_of_between hlen (by omega) (by omega)
          rw [mth_unfold node empty (rng B s e) (by omega), hl, hsp]
          rw [rng_take B (by omega), rng_drop B (by omega)]

theorem checkSubtree_complete [DecidableEq H] (B : List H) (t s e : Nat)
    (hv : validSubtree s e = true) (he : e ≤ t) (ht : t ≤ B.length) (hm : t ≤ maxN) :
    checkSubtree node (proveSubtree node empty B t s e) t (mth node empty (B.take t)) s e
      (subtreeHash node empty B s e) = true := by
  obtain ⟨hse, _, hmod⟩ := (validSubtree_spec s e).1 hv
  unfold checkSubtree proveSubtree
  rw [if_neg (by rw [hv]; simp; omega)]
  have := runSubtreeProof_complete node empty B (subtreeHash node empty B s e) (t + 1) 0 t s e true
    (Nat.zero_le _) hse he ht (by omega) (by rw [Nat.sub_zero]; exact Nat.dvd_of_mod_eq_zero hmod)
    (fun _ => rfl)
  rw [rng_zero] at this
  rw [this]
  simp [subtreeHash]

end Merkle
