import Model.Lock
/-! C05 — proofs about `Model/Lock.lean`: backend refinement, witness-checker soundness,
history-level consequences of linearizability. Core only. -/
namespace Lock

/-! ## State lemmas -/

@[simp] theorem State.set_same (s : State) (id : Id) (v : Val) : (s.set id v) id = some v := by
  simp [State.set]

theorem State.set_other (s : State) {id i : Id} (v : Val) (h : i ≠ id) : (s.set id v) i = s i := by
  simp [State.set, h]

@[simp] theorem State.empty_apply (i : Id) : State.empty i = none := rfl

/-! ## Spec step facts -/
namespace CasSpec

theorem replace_ok_iff (s : State) (id : Id) (old new : Val) :
    (step s (.replace id old new)).2 = .ok ↔ s id = some old := by
  simp only [step]; split <;> simp_all

theorem replace_res (s : State) (id : Id) (old new : Val) :
    (step s (.replace id old new)).2 = .ok ∨ (step s (.replace id old new)).2 = .conflict := by
  simp only [step]; split <;> simp

theorem create_ok_iff (s : State) (id : Id) (v : Val) :
    (step s (.create id v)).2 = .ok ↔ s id = none := by
  simp only [step]; split <;> simp_all

theorem create_res (s : State) (id : Id) (v : Val) :
    (step s (.create id v)).2 = .ok ∨ (step s (.create id v)).2 = .exists_ := by
  simp only [step]; split <;> simp

/-- A step changes the value of `id` only by a successful write to `id`. -/
theorem step_other (s : State) (o : Op) (i : Id) (h : o.id ≠ i) : (step s o).1 i = s i := by
  cases o with
  | fetch id => simp only [step]; split <;> rfl
  | create id v =>
    simp only [step]; split
    · exact State.set_other _ _ (by simpa [Op.id] using Ne.symm h)
    · rfl
  | replace id old new =>
    simp only [step]; split
    · exact State.set_other _ _ (by simpa [Op.id] using Ne.symm h)
    · rfl

end CasSpec

/-! ## Refinement: a backend's API steps are the specification's steps -/

/-- What has to be shown of a backend model: an abstraction of the server state to the register
state under which each API call is the corresponding specification step. -/
structure Refinement (b : Backend) where
  abs : b.S → State
  wf : b.H → Prop
  init_abs : abs b.init = State.empty
  fetch_some : ∀ s id h, b.fetch s id = some h → abs s id = some (b.hbody h) ∧ b.hid h = id ∧ wf h
  fetch_none : ∀ s id, b.fetch s id = none → abs s id = none
  create_free : ∀ s id v, abs s id = none →
    (b.create s id v).2 = true ∧ abs (b.create s id v).1 = (abs s).set id v
  create_taken : ∀ s id v, abs s id ≠ none →
    (b.create s id v).2 = false ∧ abs (b.create s id v).1 = abs s
  replace_match : ∀ s h new, wf h → abs s (b.hid h) = some (b.hbody h) →
    ∃ h', (b.replace s h new).2 = some h' ∧ b.hid h' = b.hid h ∧ b.hbody h' = new ∧ wf h' ∧
      abs (b.replace s h new).1 = (abs s).set (b.hid h) new
  replace_differ : ∀ s h new, wf h → abs s (b.hid h) ≠ some (b.hbody h) →
    (b.replace s h new).2 = none ∧ abs (b.replace s h new).1 = abs s

/-- Abstract view of a handle. -/
def Backend.habs (b : Backend) (h : b.H) : Id × Val := (b.hid h, b.hbody h)

theorem spec_fetch (t : State) (hs : List (Id × Val)) (id : Id) :
    specStepCmd t hs (.fetch id) =
      match t id with
      | some v => (t, hs ++ [(id, v)], .val v)
      | none => (t, hs, .notFound) := by
  simp only [specStepCmd, CasSpec.step]
  cases t id <;> rfl

theorem spec_create (t : State) (hs : List (Id × Val)) (id : Id) (v : Val) :
    specStepCmd t hs (.create id v) =
      if t id = none then (t.set id v, hs, .ok) else (t, hs, .exists_) := by
  simp only [specStepCmd, CasSpec.step]
  cases t id <;> simp

theorem spec_replace (t : State) (hs : List (Id × Val)) (k : Nat) (new : Val) :
    specStepCmd t hs (.replace k new) =
      match hs[k]? with
      | none => (t, hs, .badHandle)
      | some h => if t h.1 = some h.2 then (t.set h.1 new, hs ++ [(h.1, new)], .ok)
                  else (t, hs, .conflict) := by
  simp only [specStepCmd, CasSpec.step]
  cases hs[k]? with
  | none => rfl
  | some h => simp only; split <;> simp_all

theorem stepCmd_refines {b : Backend} (R : Refinement b) (s : b.S) (hs : List b.H) (c : Cmd)
    (hwf : ∀ h ∈ hs, R.wf h) :
    R.abs (b.stepCmd s hs c).1 = (specStepCmd (R.abs s) (hs.map b.habs) c).1 ∧
    (b.stepCmd s hs c).2.1.map b.habs = (specStepCmd (R.abs s) (hs.map b.habs) c).2.1 ∧
    (b.stepCmd s hs c).2.2 = (specStepCmd (R.abs s) (hs.map b.habs) c).2.2 ∧
    (∀ h ∈ (b.stepCmd s hs c).2.1, R.wf h) := by
  cases c with
  | fetch id =>
    rw [spec_fetch]
    simp only [Backend.stepCmd]
    cases hf : b.fetch s id with
    | none =>
      rw [R.fetch_none s id hf]
      exact ⟨rfl, rfl, rfl, hwf⟩
    | some h =>
      obtain ⟨h1, h2, h3⟩ := R.fetch_some s id h hf
      rw [h1]
      refine ⟨rfl, ?_, rfl, ?_⟩
      · simp [Backend.habs, h2]
      · intro x hx
        rcases List.mem_append.1 hx with hx | hx
        · exact hwf x hx
        · simp at hx; subst hx; exact h3
  | create id v =>
    rw [spec_create]
    simp only [Backend.stepCmd]
    by_cases hfree : R.abs s id = none
    · obtain ⟨h1, h2⟩ := R.create_free s id v hfree
      rcases hc : b.create s id v with ⟨s', ok⟩
      rw [hc] at h1 h2; simp only at h1 h2; subst h1
      rw [if_pos hfree]
      exact ⟨h2, rfl, rfl, hwf⟩
    · obtain ⟨h1, h2⟩ := R.create_taken s id v hfree
      rcases hc : b.create s id v with ⟨s', ok⟩
      rw [hc] at h1 h2; simp only at h1 h2; subst h1
      rw [if_neg hfree]
      exact ⟨h2, rfl, rfl, hwf⟩
  | replace k new =>
    rw [spec_replace]
    simp only [Backend.stepCmd, List.getElem?_map]
    cases hk : hs[k]? with
    | none => exact ⟨rfl, rfl, rfl, hwf⟩
    | some h =>
      have hmem : h ∈ hs := List.mem_of_getElem? hk
      simp only [Option.map_some, Backend.habs]
      by_cases hm : R.abs s (b.hid h) = some (b.hbody h)
      · obtain ⟨h', e0, e1, e2, e3, e4⟩ := R.replace_match s h new (hwf h hmem) hm
        rcases hr : b.replace s h new with ⟨s', oh⟩
        rw [hr] at e0 e4; simp only at e0 e4; subst e0
        rw [if_pos hm]
        refine ⟨e4, ?_, rfl, ?_⟩
        · simp [Backend.habs, e1, e2]
        · intro x hx
          rcases List.mem_append.1 hx with hx | hx
          · exact hwf x hx
          · simp at hx; subst hx; exact e3
      · obtain ⟨e0, e4⟩ := R.replace_differ s h new (hwf h hmem) hm
        rcases hr : b.replace s h new with ⟨s', oh⟩
        rw [hr] at e0 e4; simp only at e0 e4; subst e0
        rw [if_neg hm]
        exact ⟨e4, rfl, rfl, hwf⟩

theorem runFrom_refines {b : Backend} (R : Refinement b) (cs : List Cmd) :
    ∀ (s : b.S) (hs : List b.H), (∀ h ∈ hs, R.wf h) →
      b.runFrom s hs cs = specRunFrom (R.abs s) (hs.map b.habs) cs := by
  induction cs with
  | nil => intro s hs _; rfl
  | cons c cs ih =>
    intro s hs hwf
    obtain ⟨h1, h2, h3, h4⟩ := stepCmd_refines R s hs c hwf
    simp only [Backend.runFrom, specRunFrom]
    rw [ih _ _ h4, h1, h2, h3]

/-- For every program, a refining backend returns exactly what the specification returns. -/
theorem run_refines {b : Backend} (R : Refinement b) (cs : List Cmd) :
    b.run cs = specRun cs := by
  unfold Backend.run specRun
  rw [runFrom_refines R cs b.init [] (by simp), R.init_abs]
  rfl

/-! ## The three backends refine the specification -/

theorem State.ne_none_iff {s : State} {id : Id} : s id ≠ none ↔ ∃ v, s id = some v := by
  cases s id <;> simp

def sqliteRefinement : Refinement (Sqlite.backend Sqlite.program) where
  abs t := t
  wf _ := True
  init_abs := rfl
  fetch_some := by
    intro t id h hf
    simp only [Sqlite.backend, Sqlite.program, Sqlite.execSelect] at hf
    cases ht : t id with
    | none => simp [ht] at hf
    | some v => simp [ht] at hf; cases hf; simp [Sqlite.backend]
  fetch_none := by
    intro t id hf
    simp only [Sqlite.backend, Sqlite.program, Sqlite.execSelect] at hf
    cases ht : t id with
    | none => rfl
    | some v => simp [ht] at hf
  create_free := by
    intro t id v h
    simp [Sqlite.backend, Sqlite.program, Sqlite.execInsert, h]
  create_taken := by
    intro t id v h
    obtain ⟨w, hw⟩ := State.ne_none_iff.1 h
    simp [Sqlite.backend, Sqlite.program, Sqlite.execInsert, hw] <;> rfl
  replace_match := by
    intro t h new _ hm
    simp only [Sqlite.backend] at hm
    simp [Sqlite.backend, Sqlite.program, Sqlite.execUpdate, hm]
  replace_differ := by
    intro t h new _ hm
    simp only [Sqlite.backend] at hm
    cases ht : t h.logID with
    | none => simp [Sqlite.backend, Sqlite.program, Sqlite.execUpdate, ht] <;> rfl
    | some cur =>
      have : cur ≠ h.body := by intro e; apply hm; rw [ht, e]
      simp [Sqlite.backend, Sqlite.program, Sqlite.execUpdate, ht, this] <;> rfl

def dynamoRefinement : Refinement (Dynamo.backend Dynamo.program) where
  abs s := s.cur
  wf _ := True
  init_abs := rfl
  fetch_some := by
    intro s id h hf
    simp only [Dynamo.backend, Dynamo.program, Dynamo.getItem] at hf
    cases ht : s.cur id with
    | none => simp [ht] at hf
    | some v => simp [ht] at hf; cases hf; simp [Dynamo.backend]
  fetch_none := by
    intro s id hf
    simp only [Dynamo.backend, Dynamo.program, Dynamo.getItem] at hf
    cases ht : s.cur id with
    | none => rfl
    | some v => simp [ht] at hf
  create_free := by
    intro s id v h
    simp [Dynamo.backend, Dynamo.program, Dynamo.putItem, Dynamo.Cond.eval, h]
  create_taken := by
    intro s id v h
    obtain ⟨w, hw⟩ := State.ne_none_iff.1 h
    simp [Dynamo.backend, Dynamo.program, Dynamo.putItem, Dynamo.Cond.eval, hw] <;> rfl
  replace_match := by
    intro s h new _ hm
    simp only [Dynamo.backend] at hm
    simp [Dynamo.backend, Dynamo.program, Dynamo.putItem, Dynamo.Cond.eval, hm]
  replace_differ := by
    intro s h new _ hm
    simp only [Dynamo.backend] at hm
    cases ht : s.cur h.logID with
    | none => simp [Dynamo.backend, Dynamo.program, Dynamo.putItem, Dynamo.Cond.eval, ht] <;> rfl
    | some cur =>
      have : cur ≠ h.body := by intro e; apply hm; rw [ht, e]
      simp [Dynamo.backend, Dynamo.program, Dynamo.putItem, Dynamo.Cond.eval, ht, this] <;> rfl

def etagRefinement (tag : Val → ETag.Tag) (C : ETag.TagContract tag) :
    Refinement (ETag.backend tag ETag.program) where
  abs o := o
  wf h := ETag.Handle.WF tag h
  init_abs := rfl
  fetch_some := by
    intro o id h hf
    simp only [ETag.backend, ETag.program, ETag.getObject] at hf
    cases ht : o id with
    | none => simp [ht] at hf
    | some v => simp [ht] at hf; cases hf; simp [ETag.backend, ETag.Handle.WF]
  fetch_none := by
    intro o id hf
    simp only [ETag.backend, ETag.program, ETag.getObject] at hf
    cases ht : o id with
    | none => rfl
    | some v => simp [ht] at hf
  create_free := by
    intro o id v h
    simp [ETag.backend, ETag.program, ETag.putObject, ETag.IfMatch.header, h]
  create_taken := by
    intro o id v h
    obtain ⟨w, hw⟩ := State.ne_none_iff.1 h
    simp [ETag.backend, ETag.program, ETag.putObject, ETag.IfMatch.header, hw] <;> rfl
  replace_match := by
    intro o h new hwf hm
    simp only [ETag.backend] at hm
    have hne : h.eTag ≠ "" := by rw [hwf]; exact C.nonempty _
    simp [ETag.backend, ETag.program, ETag.putObject, ETag.IfMatch.header, hm, hne, hwf.symm,
      ETag.Handle.WF]
  replace_differ := by
    intro o h new hwf hm
    simp only [ETag.backend] at hm
    have hne : h.eTag ≠ "" := by rw [hwf]; exact C.nonempty _
    cases ht : o h.key with
    | none => simp [ETag.backend, ETag.program, ETag.putObject, ETag.IfMatch.header, ht, hne] <;> rfl
    | some cur =>
      have hc : tag cur ≠ h.eTag := by
        intro e; apply hm; rw [ht, C.inj cur h.body (e.trans hwf)]
      simp [ETag.backend, ETag.program, ETag.putObject, ETag.IfMatch.header, ht, hne, hc] <;> rfl

/-! ## The witness checker is sound -/

theorem rtOrdered_iff (evs : List Event) : rtOrdered evs = true ↔ evs.Pairwise mayPrecede := by
  induction evs with
  | nil => simp [rtOrdered]
  | cons a rest ih =>
    simp only [rtOrdered, Bool.and_eq_true, List.all_eq_true, List.pairwise_cons, ih]
    constructor
    · rintro ⟨h1, h2⟩
      exact ⟨fun b hb => by simpa [mayPrecede] using h1 b hb, h2⟩
    · rintro ⟨h1, h2⟩
      exact ⟨fun b hb => by simpa [mayPrecede] using h1 b hb, h2⟩

theorem Accepts_nil (s : State) : Accepts s [] := rfl

theorem Accepts_cons (s : State) (e : Event) (es : List Event) :
    Accepts s (e :: es) ↔ (CasSpec.step s e.op).2 = e.res ∧ Accepts (CasSpec.step s e.op).1 es := by
  simp [Accepts, CasSpec.run]

theorem accepts_iff (s : State) (evs : List Event) : accepts s evs = true ↔ Accepts s evs := by
  induction evs generalizing s with
  | nil => simp [accepts, Accepts_nil]
  | cons e es ih => simp [accepts, Accepts_cons, ih]

theorem filterMap_range_getElem? {α : Type} (l : List α) :
    (List.range l.length).filterMap (fun i => l[i]?) = l := by
  induction l with
  | nil => rfl
  | cons a l ih =>
    rw [List.length_cons, List.range_succ_eq_map, List.filterMap_cons]
    simp only [List.getElem?_cons_zero, List.filterMap_map]
    congr 1

theorem reorder_perm (h : History) (σ : List Nat) (hp : σ.Perm (List.range h.length)) :
    (reorder h σ).Perm h := by
  have := hp.filterMap (fun i => h[i]?)
  rwa [filterMap_range_getElem?] at this

theorem checkWitnessFrom_sound (s : State) (h : History) (σ : List Nat)
    (hc : checkWitnessFrom s h σ = true) : LinearizedBy s h (reorder h σ) := by
  simp only [checkWitnessFrom, Bool.and_eq_true] at hc
  obtain ⟨⟨h1, h2⟩, h3⟩ := hc
  exact ⟨reorder_perm h σ (List.isPerm_iff.1 h1), (rtOrdered_iff _).1 h2, (accepts_iff _ _).1 h3⟩

/-! ## Consequences of linearizability -/

/-- State reached by the specification after the events. -/
def finalE (s : State) (evs : List Event) : State := CasSpec.final s (evs.map (·.op))

@[simp] theorem finalE_nil (s : State) : finalE s [] = s := rfl

@[simp] theorem finalE_cons (s : State) (e : Event) (es : List Event) :
    finalE s (e :: es) = finalE (CasSpec.step s e.op).1 es := rfl

theorem Accepts_append (s : State) (a b : List Event) :
    Accepts s (a ++ b) ↔ Accepts s a ∧ Accepts (finalE s a) b := by
  induction a generalizing s with
  | nil => simp [Accepts_nil]
  | cons e es ih => simp [Accepts_cons, ih, and_assoc]

theorem finalE_append (s : State) (a b : List Event) :
    finalE s (a ++ b) = finalE (finalE s a) b := by
  induction a generalizing s with
  | nil => rfl
  | cons e es ih => simp [ih]

/-- One accepted step moves the value of `id` exactly as `Event.wrote` says. -/
theorem step_tracks (s : State) (e : Event) (id : Id) (v : Val)
    (hres : (CasSpec.step s e.op).2 = e.res) (hs : s id = some v) :
    (CasSpec.step s e.op).1 id = some ((e.wrote id).getD v) := by
  rcases e with ⟨op, res, inv, ret⟩
  simp only at hres
  cases op with
  | fetch i =>
    simp only [CasSpec.step] at hres ⊢
    cases hi : s i <;> simp [Event.wrote, hs]
  | create i w =>
    simp only [CasSpec.step] at hres ⊢
    cases hi : s i with
    | none =>
      have hne : id ≠ i := by intro e; rw [e] at hs; rw [hs] at hi; cases hi
      rw [hi] at hres; simp only at hres; subst hres
      simp [Event.wrote, State.set, hne, Ne.symm hne, hs]
    | some u =>
      rw [hi] at hres; simp only at hres; subst hres
      simp [Event.wrote, hs]
  | replace i o n =>
    simp only [CasSpec.step] at hres ⊢
    by_cases hm : s i = some o
    · rw [if_pos hm] at hres ⊢; simp only at hres; subst hres
      by_cases hid : i = id
      · subst hid; simp [Event.wrote]
      · simp [Event.wrote, hid, State.set, Ne.symm hid, hs]
    · rw [if_neg hm] at hres ⊢; simp only at hres; subst hres
      simp [Event.wrote, hs]

/-- Along an accepted run the value of an existing `id` is the last successful write. -/
theorem finalE_tracks (evs : List Event) : ∀ (s : State) (id : Id) (v : Val),
    Accepts s evs → s id = some v → finalE s evs id = some (lastWrite id v evs) := by
  induction evs with
  | nil => intro s id v _ hs; simpa [lastWrite] using hs
  | cons e es ih =>
    intro s id v ha hs
    obtain ⟨h1, h2⟩ := (Accepts_cons s e es).1 ha
    simp only [finalE_cons, lastWrite]
    exact ih _ id _ h2 (step_tracks s e id v h1 hs)

theorem lastWrite_cases (id : Id) (es : List Event) : ∀ v,
    lastWrite id v es = v ∨ ∃ e ∈ es, e.wrote id = some (lastWrite id v es) := by
  induction es with
  | nil => intro v; exact Or.inl rfl
  | cons e es ih =>
    intro v
    simp only [lastWrite]
    rcases ih ((e.wrote id).getD v) with h | ⟨x, hx, hw⟩
    · cases hw : e.wrote id with
      | none => left; rw [hw] at h; simpa using h
      | some w => right; rw [hw] at h; exact ⟨e, List.mem_cons_self, by simp_all⟩
    · right; exact ⟨x, List.mem_cons_of_mem _ hx, hw⟩

/-- A fetch of an existing id returns its current value. -/
theorem fetch_res (s : State) (id : Id) (v : Val) (hs : s id = some v) :
    (CasSpec.step s (.fetch id)).2 = .val v := by
  simp [CasSpec.step, hs]

/-- Real-time order forces `r` before `f` in any linearisation. -/
theorem split_by_realtime (evs : List Event) (r f : Event) (hp : evs.Pairwise mayPrecede)
    (hr : r ∈ evs) (hf : f ∈ evs) (hne : r ≠ f) (hrt : r.ret < f.inv) :
    ∃ pre mid post, evs = pre ++ r :: (mid ++ f :: post) := by
  obtain ⟨a, b, rfl⟩ := List.append_of_mem hf
  rcases List.mem_append.1 hr with hra | hrb
  · obtain ⟨pre, mid, rfl⟩ := List.append_of_mem hra
    exact ⟨pre, mid, b, by simp⟩
  · rcases List.mem_cons.1 hrb with e | hrb
    · exact absurd e hne
    · have := (List.pairwise_cons.1 (List.pairwise_append.1 hp).2.1).1 r hrb
      exact absurd hrt this

/-- Read-after-write, precise form: in a linearisation, a fetch that started after a successful
replace returned is ordered after it and returns the last value successfully written since. -/
theorem read_after_write_lin (s : State) (evs : List Event) (r f : Event) (id : Id) (old new : Val)
    (hp : evs.Pairwise mayPrecede) (ha : Accepts s evs)
    (hr : r ∈ evs) (hf : f ∈ evs)
    (hrop : r.op = .replace id old new) (hrok : r.res = .ok) (hfop : f.op = .fetch id)
    (hrt : r.ret < f.inv) :
    ∃ pre mid post, evs = pre ++ r :: (mid ++ f :: post) ∧ f.res = .val (lastWrite id new mid) := by
  have hne : r ≠ f := by intro e; rw [e, hfop] at hrop; cases hrop
  obtain ⟨pre, mid, post, rfl⟩ := split_by_realtime evs r f hp hr hf hne hrt
  refine ⟨pre, mid, post, rfl, ?_⟩
  obtain ⟨_, h2⟩ := (Accepts_append s pre _).1 ha
  obtain ⟨h3, h4⟩ := (Accepts_cons _ r _).1 h2
  obtain ⟨h5, h6⟩ := (Accepts_append _ mid _).1 h4
  obtain ⟨h7, _⟩ := (Accepts_cons _ f _).1 h6
  rw [hrop] at h3 h5
  have hok : (CasSpec.step (finalE s pre) (.replace id old new)).2 = .ok := by rw [h3, hrok]
  have hst := (CasSpec.replace_ok_iff _ _ _ _).1 hok
  have hnew : (CasSpec.step (finalE s pre) (.replace id old new)).1 id = some new := by
    simp [CasSpec.step, hst]
  have := finalE_tracks mid _ id new h5 hnew
  rw [hrop] at h7
  rw [hfop, fetch_res _ id _ this] at h7
  exact h7.symm

/-! ### at most one successor per predecessor value, under fresh writes -/

/-- The value of `id` is always the initial one or a successfully written one, so a value that is
neither cannot be the predecessor of a successful replace. -/
theorem no_okReplace_of_absent (evs : List Event) : ∀ (s : State) (id : Id) (old : Val),
    Accepts s evs → old ∉ (s id).toList ++ evs.filterMap (Event.wrote id) →
    evs.filter (Event.okReplaceFrom id old) = [] := by
  induction evs with
  | nil => intros; rfl
  | cons e es ih =>
    intro s id old ha hnot
    obtain ⟨h1, h2⟩ := (Accepts_cons s e es).1 ha
    have hstate : ∀ x, (CasSpec.step s e.op).1 id = some x → x ∈ (s id).toList ++ (e :: es).filterMap (Event.wrote id) := by
      intro x hx
      cases hs : s id with
      | some v =>
        have := step_tracks s e id v h1 hs
        rw [hx] at this
        cases hw : e.wrote id with
        | none => rw [hw] at this; simp at this; simp [this]
        | some w => rw [hw] at this; simp at this; simp [hw, this]
      | none =>
        -- the id did not exist: it exists afterwards only through a successful create
        rcases e with ⟨op, res, inv, ret⟩
        simp only at h1 hx
        cases op with
        | fetch i => simp only [CasSpec.step] at hx; split at hx <;> simp_all
        | create i w =>
          simp only [CasSpec.step] at hx h1
          cases hi : s i with
          | none =>
            rw [hi] at hx h1; simp only at hx h1; subst h1
            by_cases hid : i = id
            · subst hid; simp at hx; subst hx; simp [Event.wrote]
            · rw [State.set_other _ _ (Ne.symm hid)] at hx; rw [hs] at hx; cases hx
          | some u => rw [hi] at hx; simp only at hx; rw [hs] at hx; cases hx
        | replace i o n =>
          simp only [CasSpec.step] at hx h1
          by_cases hm : s i = some o
          · rw [if_pos hm] at hx h1; simp only at hx h1; subst h1
            by_cases hid : i = id
            · subst hid; rw [hs] at hm; cases hm
            · rw [State.set_other _ _ (Ne.symm hid)] at hx; rw [hs] at hx; cases hx
          · rw [if_neg hm] at hx; simp only at hx; rw [hs] at hx; cases hx
    have hnot' : old ∉ ((CasSpec.step s e.op).1 id).toList ++ es.filterMap (Event.wrote id) := by
      intro hmem
      rcases List.mem_append.1 hmem with hm | hm
      · cases hx : (CasSpec.step s e.op).1 id with
        | none => rw [hx] at hm; simp at hm
        | some x =>
          rw [hx] at hm; simp at hm; subst hm
          exact hnot (hstate _ hx)
      · apply hnot
        apply List.mem_append_right
        rw [List.filterMap_cons]
        cases e.wrote id <;> simp [hm]
    rw [List.filter_cons, ih _ id old h2 hnot']
    have : Event.okReplaceFrom id old e = false := by
      cases hb : Event.okReplaceFrom id old e with
      | false => rfl
      | true =>
        exfalso
        rcases e with ⟨op, res, inv, ret⟩
        cases op <;> cases res <;> simp [Event.okReplaceFrom] at hb
        obtain ⟨rfl, rfl⟩ := hb
        simp only at h1
        have := (CasSpec.replace_ok_iff _ _ _ _).1 h1
        apply hnot; simp [this]
    simp [this]

theorem one_successor_lin (evs : List Event) : ∀ (s : State) (id : Id) (old : Val),
    Accepts s evs → ((s id).toList ++ evs.filterMap (Event.wrote id)).Nodup →
    (evs.filter (Event.okReplaceFrom id old)).length ≤ 1 := by
  induction evs with
  | nil => intros; simp
  | cons e es ih =>
    intro s id old ha hnd
    obtain ⟨h1, h2⟩ := (Accepts_cons s e es).1 ha
    cases hb : Event.okReplaceFrom id old e with
    | true =>
      -- e takes the register from `old` to a fresh value: `old` never comes back
      rcases e with ⟨op, res, inv, ret⟩
      cases op <;> cases res <;> simp [Event.okReplaceFrom] at hb
      rename_i i o n
      obtain ⟨rfl, rfl⟩ := hb
      simp only at h1 h2
      have hst := (CasSpec.replace_ok_iff _ _ _ _).1 h1
      have hnew : (CasSpec.step s (.replace i o n)).1 i = some n := by simp [CasSpec.step, hst]
      rw [hst] at hnd
      simp [Event.wrote] at hnd
      have := no_okReplace_of_absent es _ i o h2 (by
        rw [hnew]; simp; exact ⟨hnd.1.1, hnd.1.2⟩)
      simp [Event.okReplaceFrom, this]
    | false =>
      rw [List.filter_cons, hb]
      simp only [Bool.false_eq_true, if_false]
      apply ih _ id old h2
      cases hs : s id with
      | some v =>
        rw [step_tracks s e id v h1 hs]
        rw [hs] at hnd
        rw [List.filterMap_cons] at hnd
        cases hw : e.wrote id with
        | none => rw [hw] at hnd; simpa using hnd
        | some w =>
          rw [hw] at hnd
          simp at hnd ⊢
          exact ⟨hnd.2.1, hnd.2.2⟩
      | none =>
        rw [hs] at hnd
        rw [List.filterMap_cons] at hnd
        cases hx : (CasSpec.step s e.op).1 id with
        | none =>
          cases hw : e.wrote id with
          | none => rw [hw] at hnd; simpa using hnd
          | some w => rw [hw] at hnd; simp at hnd ⊢; exact hnd.2
        | some x =>
          -- only a successful create brings an id into existence
          have hwx : e.wrote id = some x := by
            rcases e with ⟨op, res, inv, ret⟩
            simp only at h1 hx
            cases op with
            | fetch i => simp only [CasSpec.step] at hx; split at hx <;> simp_all
            | create i w =>
              simp only [CasSpec.step] at hx h1
              cases hi : s i with
              | none =>
                rw [hi] at hx h1; simp only at hx h1; subst h1
                by_cases hid : i = id
                · subst hid; simp at hx; subst hx; simp [Event.wrote]
                · rw [State.set_other _ _ (Ne.symm hid)] at hx; rw [hs] at hx; cases hx
              | some u => rw [hi] at hx; simp only at hx; rw [hs] at hx; cases hx
            | replace i o n =>
              simp only [CasSpec.step] at hx h1
              by_cases hm : s i = some o
              · rw [if_pos hm] at hx h1; simp only at hx h1; subst h1
                by_cases hid : i = id
                · subst hid; rw [hs] at hm; cases hm
                · rw [State.set_other _ _ (Ne.symm hid)] at hx; rw [hs] at hx; cases hx
              · rw [if_neg hm] at hx; simp only at hx; rw [hs] at hx; cases hx
          rw [hwx] at hnd
          simpa using hnd

/-! ### create -/

theorem step_keeps_existing (s : State) (o : Op) (id : Id) (h : s id ≠ none) :
    (CasSpec.step s o).1 id ≠ none := by
  obtain ⟨v, hv⟩ := State.ne_none_iff.1 h
  have := step_tracks s ⟨o, (CasSpec.step s o).2, 0, 0⟩ id v rfl hv
  simp only at this
  rw [this]; simp

theorem no_okCreate_of_existing (evs : List Event) : ∀ (s : State) (id : Id),
    Accepts s evs → s id ≠ none → evs.filter (Event.okCreate id) = [] := by
  induction evs with
  | nil => intros; rfl
  | cons e es ih =>
    intro s id ha hex
    obtain ⟨h1, h2⟩ := (Accepts_cons s e es).1 ha
    rw [List.filter_cons, ih _ id h2 (step_keeps_existing s e.op id hex)]
    have : Event.okCreate id e = false := by
      cases hb : Event.okCreate id e with
      | false => rfl
      | true =>
        exfalso
        rcases e with ⟨op, res, inv, ret⟩
        cases op <;> cases res <;> simp [Event.okCreate] at hb
        subst hb
        simp only at h1
        exact hex ((CasSpec.create_ok_iff _ _ _).1 h1)
    simp [this]

theorem create_once_lin (evs : List Event) : ∀ (s : State) (id : Id),
    Accepts s evs → (evs.filter (Event.okCreate id)).length ≤ 1 := by
  induction evs with
  | nil => intros; simp
  | cons e es ih =>
    intro s id ha
    obtain ⟨h1, h2⟩ := (Accepts_cons s e es).1 ha
    cases hb : Event.okCreate id e with
    | false => rw [List.filter_cons, hb]; simpa using ih _ id h2
    | true =>
      rcases e with ⟨op, res, inv, ret⟩
      cases op <;> cases res <;> simp [Event.okCreate] at hb
      rename_i i w
      subst hb
      simp only at h1 h2
      have hfree := (CasSpec.create_ok_iff _ _ _).1 h1
      have hex : (CasSpec.step s (.create i w)).1 i ≠ none := by simp [CasSpec.step, hfree]
      simp [Event.okCreate, no_okCreate_of_existing es _ i h2 hex]

end Lock
