import Model.Subtree
import Proofs.Witness
/-! Helper lemmas for C16. -/
namespace Subtree
open Checkpoint Witness

variable (node : Hash → Hash → Hash)

theorem firstFail_none {l : List Step} {e : Env} (h : firstFail node l e = none) :
    ∀ s ∈ l, holds node s.guard e = true := by
  induction l with
  | nil => intro s hs; cases hs
  | cons s rest ih =>
    intro s' hs'
    simp only [firstFail] at h
    split at h
    · rename_i hh
      rcases List.mem_cons.1 hs' with rfl | hr
      · exact hh
      · exact ih h s' hr
    · cases h

/-- what the tests establish -/
structure Facts (e : Env) : Prop where
  body : e.req.body = .ok
  valid : Merkle.validSubtree e.req.start e.req.stop = true
  known : ∃ lc, e.cfg.find e.origin = some lc
  opened : ∃ vs, e.opened = .ok vs
  ck : ∃ c, e.ckpt = some c ∧ c.origin = e.origin ∧ c.ext = [] ∧ e.req.stop ≤ c.n.toNat ∧
    Merkle.checkSubtree node e.req.proof.reverse c.n.toNat c.hash e.req.start e.req.stop e.req.hash = true

theorem facts_of_none {e : Env} (h : firstFail node program e = none) : Facts node e := by
  have hh := firstFail_none node h
  have g : ∀ g c, (⟨g, c⟩ : Step) ∈ program → holds node g e = true := fun g c hm => hh _ hm
  have b1 := g .bodyCut .badRequest (by decide)
  have b2 := g .fewLines .badRequest (by decide)
  have b3 := g .subtreePrefix .badRequest (by decide)
  have b4 := g .space .badRequest (by decide)
  have b5 := g .startNum .badRequest (by decide)
  have b6 := g .endNum .badRequest (by decide)
  have b7 := g .validRange .badRequest (by decide)
  have b8 := g .hashParse .badRequest (by decide)
  have b9 := g .proofHashes .badRequest (by decide)
  have h10 := g .knownOrigin .unknownLog (by decide)
  have h12 := g .noteOther .badRequest (by decide)
  have h13 := g .parseCkpt .badCheckpoint (by decide)
  have h14 := g .originCoherent .internal (by decide)
  have h15 := g .noExtension .extensions (by decide)
  have h16 := g .endWithin .badRequest (by decide)
  have h17 := g .subtreeProof .proof (by decide)
  simp only [holds] at b1 b2 b3 b4 b5 b6 b7 b8 b9 h10 h12 h13 h14 h15 h16 h17
  refine ⟨?_, b7, Option.isSome_iff_exists.1 h10, ?_, ?_⟩
  · cases hb : e.req.body <;> simp_all
  · cases ho : e.opened with
    | ok vs => exact ⟨vs, rfl⟩
    | error x => rw [ho] at h12; cases h12
  · cases hc : e.ckpt with
    | none => rw [hc] at h13; cases h13
    | some c =>
      rw [hc] at h14 h15 h16 h17
      exact ⟨c, rfl, by simpa using h14, by simpa using h15, by simpa using h16, h17⟩

/-- the first test that does not hold decides -/
theorem firstFail_prefix (a b : List Step) (s : Step) (e : Env)
    (ha : ∀ x ∈ a, holds node x.guard e = true) (hs : holds node s.guard e = false) :
    firstFail node (a ++ s :: b) e = some s.err := by
  induction a with
  | nil => simp [firstFail, hs]
  | cons x rest ih =>
    have hx := ha x (by simp)
    simp only [List.cons_append, firstFail, hx, if_true]
    exact ih (fun y hy => ha y (by simp [hy]))

/-- a failing test among tests that all return the same error decides that error -/
theorem firstFail_same (a b : List Step) (c : ErrClass) (e : Env) (hc : ∀ x ∈ a, x.err = c)
    (hex : ∃ x ∈ a, holds node x.guard e = false) : firstFail node (a ++ b) e = some c := by
  induction a with
  | nil => obtain ⟨x, hx, _⟩ := hex; cases hx
  | cons x rest ih =>
    simp only [List.cons_append, firstFail]
    cases hh : holds node x.guard e
    · simp [hc x (by simp)]
    · simp only [if_true]
      refine ih (fun y hy => hc y (by simp [hy])) ?_
      obtain ⟨y, hy, hf⟩ := hex
      rcases List.mem_cons.1 hy with rfl | hin
      · rw [hh] at hf; cases hf
      · exact ⟨y, hin, hf⟩

/-- the tests on the part of the body before the blank line -/
def bodySteps : List Step := program.take 9
/-- the tests on the note -/
def noteSteps : List Step := program.drop 9

theorem program_split : program = bodySteps ++ noteSteps := by decide

theorem body_holds {e : Env} (hb : e.req.body = .ok) (hv : Merkle.validSubtree e.req.start e.req.stop = true) :
    ∀ x ∈ bodySteps, holds node x.guard e = true := by
  intro x hx
  simp only [bodySteps, program, List.take, List.mem_cons, List.mem_nil_iff, or_false] at hx
  rcases hx with rfl | rfl | rfl | rfl | rfl | rfl | rfl | rfl | rfl <;> simp [holds, hb, hv]

theorem body_fails {e : Env} (h : e.req.body ≠ .ok ∨ Merkle.validSubtree e.req.start e.req.stop = false) :
    ∃ x ∈ bodySteps, holds node x.guard e = false := by
  rcases h with h | h
  · cases hb : e.req.body with
    | ok => exact absurd hb h
    | noSeparator => exact ⟨⟨.bodyCut, .badRequest⟩, by decide, by simp [holds, hb]⟩
    | fewLines => exact ⟨⟨.fewLines, .badRequest⟩, by decide, by simp [holds, hb]⟩
    | noPrefix => exact ⟨⟨.subtreePrefix, .badRequest⟩, by decide, by simp [holds, hb]⟩
    | noSpace => exact ⟨⟨.space, .badRequest⟩, by decide, by simp [holds, hb]⟩
    | badStart => exact ⟨⟨.startNum, .badRequest⟩, by decide, by simp [holds, hb]⟩
    | badEnd => exact ⟨⟨.endNum, .badRequest⟩, by decide, by simp [holds, hb]⟩
    | badHash => exact ⟨⟨.hashParse, .badRequest⟩, by decide, by simp [holds, hb]⟩
    | badProofHash => exact ⟨⟨.proofHashes, .badRequest⟩, by decide, by simp [holds, hb]⟩
  · exact ⟨⟨.validRange, .badRequest⟩, by decide, by simp [holds, h]⟩

/-- once the body part is fine the decision is made by the tests on the note, in order -/
theorem firstFail_body_ok {e : Env} (hb : e.req.body = .ok)
    (hv : Merkle.validSubtree e.req.start e.req.stop = true) :
    firstFail node program e = firstFail node noteSteps e := by
  rw [program_split]
  have h := body_holds node hb hv
  generalize bodySteps = l at h
  induction l with
  | nil => rfl
  | cons x rest ih =>
    simp only [List.cons_append, firstFail, h x (by simp), if_true]
    exact ih (fun y hy => h y (by simp [hy]))

/-- every line the loop produces was made by a signer that passed the re-verification -/
theorem signAll_sound (c : Checkpoint) (lines : List SigLine) (s t : Nat) (hash : Hash) :
    ∀ (ks : List VKey) (out : List SigLine), signAll c lines s t hash ks = some out →
      out.length = ks.length ∧
      ∀ l ∈ out, ∃ k ∈ ks, reverify k c lines = true ∧ signLine k c.origin s t hash = some l := by
  intro ks
  induction ks with
  | nil =>
    intro out h
    simp only [signAll, Option.some.injEq] at h
    subst h
    exact ⟨rfl, by intro l hl; cases hl⟩
  | cons k rest ih =>
    intro out h
    simp only [signAll] at h
    split at h
    · rename_i hre
      split at h
      · rename_i l hl
        cases hr : signAll c lines s t hash rest with
        | none => rw [hr] at h; cases h
        | some out' =>
          rw [hr] at h
          simp only [Option.map_some, Option.some.injEq] at h
          subst h
          obtain ⟨hlen, hall⟩ := ih out' hr
          refine ⟨by simp [hlen], ?_⟩
          intro l' hl'
          rcases List.mem_cons.1 hl' with rfl | hin
          · exact ⟨k, by simp, hre, hl⟩
          · obtain ⟨k', hk', h1, h2⟩ := hall l' hin
            exact ⟨k', List.mem_cons_of_mem _ hk', h1, h2⟩
      · cases h
    · cases h

theorem signersOf_mem {cfg : Cfg} {vs : List SigLine} {k : VKey} (h : k ∈ signersOf cfg vs) :
    k ∈ ownKeys cfg ∧ ∃ sig ∈ vs, k.matches sig = true := by
  unfold signersOf at h
  obtain ⟨sig, hsig, hk⟩ := List.mem_flatMap.1 h
  rcases List.mem_append.1 hk with h1 | h1
  · split at h1
    · rename_i hm
      simp only [List.mem_singleton] at h1
      subst h1
      exact ⟨by simp [ownKeys], sig, hsig, hm⟩
    · cases h1
  · cases hmir : cfg.mirror with
    | none => rw [hmir] at h1; cases h1
    | some m =>
      rw [hmir] at h1
      simp only [] at h1
      split at h1
      · rename_i hm
        simp only [List.mem_singleton] at h1
        subst h1
        exact ⟨by simp [ownKeys, hmir], sig, hsig, hm⟩
      · cases h1

/-- the re-verification: the signer's own valid signature over the re-serialised checkpoint is
among the lines of the submitted note -/
theorem reverify_sound {k : VKey} {c : Checkpoint} {lines : List SigLine} (h : reverify k c lines = true) :
    ∃ sl ∈ lines, sl.name = k.name ∧ sl.hash = k.hash ∧ sl.sig = symSig k.key (formatCheckpoint c) := by
  unfold reverify at h
  split at h
  · rename_i vs hvs
    obtain ⟨hne, hall⟩ := noteOpen_sound hvs
    cases vs with
    | nil => exact absurd rfl hne
    | cons s rest =>
      obtain ⟨hin, v, hv, h1, h2, h3⟩ := hall s (by simp)
      simp only [List.mem_singleton] at hv
      subst hv
      simp only [List.mem_filter] at hin
      exact ⟨s, hin.1, h1.symm, h2.symm, by simpa [VKey.verifier] using h3⟩
  · cases h

end Subtree
