import Model.Sequencer
/-! Frame and shape lemmas about `Seq.step` (brute-force case analysis over the step function). -/
namespace Seq

theorem setInst_lockHist (s : Sys) (i : Nat) (x : Inst) : (s.setInst i x).lockHist = s.lockHist := rfl
theorem setInst_lock (s : Sys) (i : Nat) (x : Inst) : (s.setInst i x).lock = s.lock := rfl
theorem setInst_pubHist (s : Sys) (i : Nat) (x : Inst) : (s.setInst i x).pubHist = s.pubHist := rfl

/-- the lock history only ever grows by one element per step -/
theorem step_lockHist (s s' : Sys) (e : Ev) (h : step s e = some s') :
    s'.lockHist = s.lockHist ∨ ∃ c, s'.lockHist = c :: s.lockHist ∧ s'.lock = some c := by
  cases e <;> simp only [step] at h <;> (repeat' split at h) <;>
    simp_all [Sys.setInst] <;> (try (subst h; simp))

end Seq

namespace Seq

/-- the instance an event belongs to (tampering belongs to none) -/
def Ev.inst : Ev → Option Nat
  | .launchCreate i | .launchLoad i | .launchRound i | .launchSubmit i | .config i _ | .clock i _
  | .lockFetch i _ | .lockCreate i _ _ | .lockReplace i _ _ _ | .fetch i _ _ | .upload i _ _ _ _
  | .discard i _ _ | .submitted i _ _ _ _ _ | .ack i _ _ _ _ | .nackEvicted i _ _ | .nack i _ _
  | .created i | .createFail i | .loaded i _ | .loadFail i | .roundEnd i _ | .crash i | .cacheLose i => some i
  | .tamper _ _ => none

/-- a step changes the state of at most the instance the event belongs to -/
theorem step_insts_other (s s' : Sys) (e : Ev) (h : step s e = some s') (j : Nat)
    (hj : e.inst ≠ some j) : s'.insts j = s.insts j := by
  cases e <;> simp only [step] at h <;> (repeat' split at h) <;>
    simp_all [Sys.setInst, upd, Ev.inst] <;> (try (subst h; simp [upd])) <;>
    (try (intro hh; exact absurd hh.symm hj))

end Seq

namespace Seq

theorem admission_cases (n : Nat) (p : List Slot) (l : Bool) :
    admission n p l = .ratelimit ∨ admission n p l = .sequencer := by
  unfold admission; split <;> (try split) <;> simp

/-- what a `submitted` event can do to the state -/
theorem submitted_char (s s' : Sys) (i eid key : Nat) (low : Bool) (iss : List Nat) (src : Src)
    (h : step s (.submitted i eid key low iss src) = some s') :
    (s.insts i).evictPending = false ∧
    (s' = s ∨ s' = s.setInst i { (s.insts i) with issuerFailed := false } ∨
     (¬ (s.poolSize > 0 ∧ (s.insts i).pool.length ≥ s.poolSize) ∧
        s' = s.setInst i { (s.insts i) with pool := (s.insts i).pool ++ [⟨eid, key, low⟩] }) ∨
     ((s.poolSize > 0 ∧ (s.insts i).pool.length ≥ s.poolSize) ∧ admission s.poolSize (s.insts i).pool low = .sequencer ∧
        s' = s.setInst i { (s.insts i) with pool := (s.insts i).pool ++ [⟨eid, key, low⟩], evictPending := true })) := by
  simp only [step] at h
  split at h
  · cases h
  · rename_i hup
    have hev : (s.insts i).evictPending = false := by
      cases hx : (s.insts i).evictPending <;> simp_all
    refine ⟨hev, ?_⟩
    repeat' split at h
    all_goals (first | cases h | (injection h with h; subst h) | skip)
    all_goals (first | exact Or.inl rfl | exact Or.inr (Or.inl rfl) | skip)
    all_goals simp_all
    all_goals (right; right; exact (admission_cases _ _ _).resolve_left (by assumption))

end Seq
