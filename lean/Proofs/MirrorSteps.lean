import Proofs.MirrorInv
/-! Preservation of the mirror invariant by the pieces of the three add-entries steps: package
authentication (`checkSubtree_sound` + the C14 chain + collision freeness), the tile-upload loop,
`ensureCutTiles`, the cached lock reads, tickets. Core only. -/
namespace Mirror
open Merkle Witness Checkpoint

variable (node : Hash → Hash → Hash) (emptyHash : Hash) (leaf : Entry → Hash)

/-- `tlog.RecordHash` is collision free -/
def LeafInj : Prop := ∀ a b : Entry, leaf a = leaf b → a = b

/-! ### lists -/

theorem map_leaf_inj (linj : LeafInj leaf) : ∀ (a b : List Entry), a.map leaf = b.map leaf → a = b := by
  intro a
  induction a with
  | nil => intro b h; cases b with
    | nil => rfl
    | cons y ys => simp at h
  | cons x xs ih =>
    intro b h
    cases b with
    | nil => simp at h
    | cons y ys =>
      simp only [List.map_cons, List.cons.injEq] at h
      rw [linj x y h.1, ih ys h.2]

theorem rng_map_leaf (E : List Entry) (lo hi : Nat) :
    rng (E.map leaf) lo hi = ((E.drop lo).take (hi - lo)).map leaf := by
  unfold rng; rw [List.map_take, List.map_drop]

theorem bundleOf_take (E : List Entry) {N n w : Nat} (h : 256 * n + w ≤ N) :
    bundleOf (E.take N) n w = bundleOf E n w := by
  unfold bundleOf
  rw [List.drop_take, List.take_take]
  congr 1
  omega

theorem bundleOf_length (E : List Entry) {n w : Nat} (h : 256 * n + w ≤ E.length) : (bundleOf E n w).length = w := by
  unfold bundleOf; rw [List.length_take, List.length_drop]; omega

theorem bundleOf_prefix (E : List Entry) {n w v : Nat} (h : v ≤ w) : (bundleOf E n w).take v = bundleOf E n v := by
  unfold bundleOf; rw [List.take_take]; congr 1; omega

theorem tileOf_take (B : List Hash) {N l n w : Nat} (h : (256 * n + w) * 256 ^ l ≤ N) :
    tileOf node emptyHash (B.take N) l n w = tileOf node emptyHash B l n w := by
  unfold tileOf
  apply List.map_congr_left
  intro i hi
  simp only [List.mem_range] at hi
  have : (256 * n + i + 1) * 256 ^ l ≤ N := by
    have : (256 * n + i + 1) * 256 ^ l ≤ (256 * n + w) * 256 ^ l := Nat.mul_le_mul_right _ (by omega)
    omega
  rw [rng_take_of_le B this]

/-! ### authentication of one package -/

/-- The entries of a package whose subtree proof verifies against a tree head of the chain are the
log's entries `[s, e)`: `checkSubtree_sound` over the prefix of the log that opens that tree head
(the C14 chain), `mth_inj` (interior hashing collision free), `LeafInj` (record hashing collision free). -/
theorem auth (inj : NodeInj node) (linj : LeafInj leaf) {hist : List (Nat × Hash)}
    (hc : hist.Pairwise (Consistent node emptyHash)) {ck : Nat × Hash} (hk : ck ∈ hist)
    {E : List Entry} (ht : TruthH node emptyHash leaf hist E) {p : List Hash} {s e : Nat} {all : List Entry}
    (hcs : checkSubtree node p ck.1 ck.2 s e (mth node emptyHash (all.map leaf)) = true)
    (hlen : all.length = e - s) :
    all = (E.drop s).take (e - s) ∧ e ≤ ck.1 ∧ s < e := by
  obtain ⟨hle, hroot⟩ := truth_mem node emptyHash leaf hc ht hk
  obtain ⟨hv, he, _⟩ := checkSubtree_guard node p ck.1 ck.2 s e _ hcs
  have hse : s < e := ((validSubtree_spec s e).1 hv).1
  have hBl : ((E.map leaf).take ck.1).length = ck.1 := by rw [List.length_take, List.length_map]; omega
  have hs := checkSubtree_sound node emptyHash inj p ck.1 ck.2 s e _ hcs ((E.map leaf).take ck.1) hBl hroot.symm
  unfold subtreeHash at hs
  rw [rng_take_of_le (E.map leaf) he] at hs
  have hl1 : (rng (E.map leaf) s e).length = e - s :=
    rng_length (E.map leaf) (by rw [List.length_map]; omega) (by omega)
  have heq := mth_inj node emptyHash inj _ _ (by rw [hl1, List.length_map, hlen]) hs
  rw [rng_map_leaf] at heq
  exact ⟨(map_leaf_inj leaf linj _ _ heq).symm, he, hse⟩

/-! ### more about `tlog.NewTiles` -/

theorem tilesAtLevel_mem {level o m : Nat} {t : Nat × Nat × Nat} (h : t ∈ tilesAtLevel level o m) :
    t.1 = level ∧ t.2.2 ≠ 0 ∧ ((level, t.2.1, t.2.2) ∈ tilesAtLevel level o m) := by
  obtain ⟨l, n, w⟩ := t
  have hl : l = level := by
    unfold tilesAtLevel at h
    simp only [List.mem_append, List.mem_map, List.mem_range, Prod.mk.injEq] at h
    rcases h with ⟨k, _, rfl, _⟩ | h
    · rfl
    · split at h
      · simp only [List.mem_singleton, Prod.mk.injEq] at h; exact h.1
      · cases h
  subst hl
  refine ⟨rfl, ?_, h⟩
  rcases mem_tilesAtLevel.1 h with ⟨rfl, _⟩ | ⟨rfl, hp, _⟩
  · simp
  · simp only []; omega

theorem newTilesFrom_mem : ∀ (fuel level o m : Nat) (t : Nat × Nat × Nat), t ∈ newTilesFrom fuel level o m →
    level ≤ t.1 ∧ t.2.2 ≠ 0 ∧ (t.1 = level → t ∈ tilesAtLevel level o m) := by
  intro fuel
  induction fuel with
  | zero => intro _ _ _ t h; simp [newTilesFrom] at h
  | succ fuel ih =>
    intro level o m t h
    unfold newTilesFrom at h
    split at h
    · cases h
    · rcases List.mem_append.1 h with h1 | h1
      · split at h1
        · cases h1
        · obtain ⟨a, b, _⟩ := tilesAtLevel_mem h1
          exact ⟨by omega, b, fun _ => h1⟩
      · obtain ⟨a, b, _⟩ := ih (level + 1) (o / 256) (m / 256) t h1
        exact ⟨by omega, b, fun hh => by omega⟩

/-- the tiles of one package `[ts, e)`, `ts` a multiple of 256, `ts < e ≤ ts + 256`: widths are
positive and the only level-0 tile is `(ts / 256, e - ts)` -/
theorem newTiles_pkg {ts e : Nat} (hts : ts % 256 = 0) (h1 : ts < e) (h2 : e ≤ ts + 256)
    {t : Nat × Nat × Nat} (h : t ∈ newTiles ts e) :
    t.2.2 ≠ 0 ∧ (t.1 = 0 → t.2.1 = ts / 256 ∧ t.2.2 = e - ts) := by
  obtain ⟨_, hw, h0⟩ := newTilesFrom_mem (e + 1) 0 ts e t h
  refine ⟨hw, fun hl => ?_⟩
  have hm := h0 hl
  obtain ⟨l, n, w⟩ := t
  simp only [] at hl
  subst hl
  rcases mem_tilesAtLevel.1 hm with ⟨rfl, a, b⟩ | ⟨rfl, a, rfl⟩
  · simp only []; omega
  · simp only []; omega

/-! ### the upload loop of one package -/

theorem uploadTiles_inv (rs : Nat) (ov : List Hash) (all : List Entry) (n0 w0 : Nat) (hist : List (Nat × Hash))
    (hall : ∀ E, TruthH node emptyHash leaf hist E → all = bundleOf E n0 w0 ∧ 256 * n0 + w0 ≤ E.length)
    (hov : ∀ E, TruthH node emptyHash leaf hist E → ov = rng (E.map leaf) rs (rs + ov.length) ∧ rs + ov.length ≤ E.length) :
    ∀ (tiles : List (Nat × Nat × Nat)) (outs : List Fault) (st : MState), st.w.hist = hist →
      (∀ t ∈ tiles, t.2.2 ≠ 0 ∧ (t.1 = 0 → t.2.1 = n0 ∧ t.2.2 = w0)) →
      StoreInv node emptyHash leaf st →
      StoreInv node emptyHash leaf (uploadTiles node emptyHash rs ov all tiles outs st).1 ∧
      SameCtl st (uploadTiles node emptyHash rs ov all tiles outs st).1 ∧
      StoreLe st (uploadTiles node emptyHash rs ov all tiles outs st).1 ∧
      ((uploadTiles node emptyHash rs ov all tiles outs st).2 = true → ∀ t ∈ tiles,
        ((uploadTiles node emptyHash rs ov all tiles outs st).1.hash t.1 t.2.1 t.2.2).isSome ∧
        (t.1 = 0 → ((uploadTiles node emptyHash rs ov all tiles outs st).1.data t.2.1 t.2.2).isSome)) := by
  intro tiles
  induction tiles with
  | nil =>
    intro outs st _ _ hi
    simp only [uploadTiles]
    exact ⟨hi, SameCtl.refl _, StoreLe.refl _, fun _ t ht => by cases ht⟩
  | cons t rest ih =>
    intro outs st hh ht hi
    obtain ⟨l, n, w⟩ := t
    have htw := (ht (l, n, w) List.mem_cons_self).1
    have ht0 := (ht (l, n, w) List.mem_cons_self).2
    have hrest : ∀ t ∈ rest, t.2.2 ≠ 0 ∧ (t.1 = 0 → t.2.1 = n0 ∧ t.2.2 = w0) :=
      fun t h => ht t (List.mem_cons_of_mem _ h)
    simp only [] at htw ht0
    -- the hash part, from any state `s1` reached so far in which the entry bundle is in place if `l = 0`
    have go : ∀ (s1 : MState) (outs1 : List Fault), s1.w.hist = hist → StoreInv node emptyHash leaf s1 →
        (l = 0 → (s1.data n w).isSome) →
        let r := (match tileData node emptyHash s1.hash rs ov l n w with
          | none => (s1, false)
          | some hs =>
            match putHash s1 l n w hs (headFault outs1) with
            | (st2, true) => uploadTiles node emptyHash rs ov all rest outs1.tail st2
            | (st2, false) => (st2, false))
        StoreInv node emptyHash leaf r.1 ∧ SameCtl s1 r.1 ∧ StoreLe s1 r.1 ∧
        (r.2 = true → ∀ t ∈ (l, n, w) :: rest, (r.1.hash t.1 t.2.1 t.2.2).isSome ∧ (t.1 = 0 → (r.1.data t.2.1 t.2.2).isSome)) := by
      intro s1 outs1 hh1 hi1 hd1
      cases htd : tileData node emptyHash s1.hash rs ov l n w with
      | none => exact ⟨hi1, SameCtl.refl _, StoreLe.refl _, fun h => by cases h⟩
      | some hs =>
        simp only []
        have hsc := putHash_sameCtl s1 l n w hs (headFault outs1)
        have hle := putHash_le s1 l n w hs (headFault outs1)
        have hspec := putHash_spec s1 l n w hs (headFault outs1)
        have hi2 : StoreInv node emptyHash leaf (putHash s1 l n w hs (headFault outs1)).1 := by
          refine storeInv_of node emptyHash leaf hsc hle ?_ ?_ ?_ hi1
          · intro E _ n' w' es he
            rw [putHash_data] at he; exact Or.inl he
          · intro E hE l' n' w' x hx
            rcases hspec.1 l' n' w' with e | ⟨rfl, rfl, rfl, e⟩
            · rw [e] at hx; exact Or.inl hx
            · rw [e] at hx
              simp only [Option.some.injEq] at hx
              subst hx
              right
              rw [hh1] at hE
              obtain ⟨ho1, ho2⟩ := hov E hE
              have := tileData_sound node emptyHash (E.map leaf) s1.hash (hi1.hash E (by rw [hh1]; exact hE)) rs ov ho1
                (by rw [List.length_map]; exact ho2) _ _ _ _ htd
              exact ⟨this.1, this.2 htw⟩
          · intro n' w' hp
            rcases hspec.1 0 n' w' with e | ⟨hl0, rfl, rfl, _⟩
            · rw [e] at hp; exact Or.inl hp
            · right; rw [putHash_data]; exact hd1 hl0.symm
        cases hput : putHash s1 l n w hs (headFault outs1) with
        | mk st2 ok =>
          rw [hput] at hsc hle hspec hi2
          simp only [] at hsc hle hspec hi2
          cases ok with
          | false => exact ⟨hi2, hsc, hle, fun h => by cases h⟩
          | true =>
            simp only []
            obtain ⟨r1, r2, r3, r4⟩ := ih outs1.tail st2 (by rw [hsc.w]; exact hh1) hrest hi2
            refine ⟨r1, hsc.trans r2, hle.trans r3, ?_⟩
            intro hok t ht'
            rcases List.mem_cons.1 ht' with rfl | hin
            · simp only []
              refine ⟨r3.hash _ _ _ (hspec.2 rfl), fun hl0 => ?_⟩
              have : (st2.data n w).isSome := by
                have := hd1 hl0
                have e := putHash_data s1 l n w hs (headFault outs1)
                rw [hput] at e
                simp only [] at e
                rw [e]; exact this
              exact r3.data _ _ this
            · exact r4 hok t hin
    unfold uploadTiles
    by_cases hl : l = 0
    · rw [if_pos hl]
      have hnw := ht0 hl
      have hsc := putData_sameCtl st n w all (headFault outs)
      have hle := putData_le st n w all (headFault outs)
      have hspec := putData_spec st n w all (headFault outs)
      have hi2 : StoreInv node emptyHash leaf (putData st n w all (headFault outs)).1 := by
        refine storeInv_of node emptyHash leaf hsc hle ?_ ?_ ?_ hi
        · intro E hE n' w' es he
          rcases hspec.1 n' w' with e | ⟨rfl, rfl, e⟩
          · rw [e] at he; exact Or.inl he
          · rw [e] at he
            simp only [Option.some.injEq] at he
            subst he
            right
            rw [hh] at hE
            rw [hnw.1, hnw.2]
            exact hall E hE
        · intro E _ l' n' w' x hx
          rw [putData_hash] at hx; exact Or.inl hx
        · intro n' w' hp
          rw [putData_hash] at hp; exact Or.inl hp
      cases hput : putData st n w all (headFault outs) with
      | mk st1 ok =>
        rw [hput] at hsc hle hspec hi2
        simp only [] at hsc hle hspec hi2
        cases ok with
        | false => exact ⟨hi2, hsc, hle, fun h => by cases h⟩
        | true =>
          simp only []
          obtain ⟨r1, r2, r3, r4⟩ := go st1 outs.tail (by rw [hsc.w]; exact hh) hi2 (fun _ => hspec.2 rfl)
          exact ⟨r1, hsc.trans r2, hle.trans r3, r4⟩
    · rw [if_neg hl]
      exact go st outs hh hi (fun h => absurd h hl)

/-! ### `ensureCutTiles` -/

theorem ensureCut_inv (n next : Nat) (fh fw : Bool) (ud uh : Fault) (st : MState)
    (hi : StoreInv node emptyHash leaf st) :
    StoreInv node emptyHash leaf (ensureCut leaf n next fh fw ud uh st).1 ∧
    SameCtl st (ensureCut leaf n next fh fw ud uh st).1 ∧
    StoreLe st (ensureCut leaf n next fh fw ud uh st).1 ∧
    ((ensureCut leaf n next fh fw ud uh st).2 = true → n % 256 ≠ 0 →
      ((ensureCut leaf n next fh fw ud uh st).1.hash 0 (n / 256) (n % 256)).isSome) := by
  have hq : (n - n % 256) / 256 = n / 256 := by omega
  unfold ensureCut
  simp only []
  split
  · rename_i h0
    exact ⟨hi, SameCtl.refl _, StoreLe.refl _, fun _ h => absurd h0 h⟩
  · split
    · rename_i hp
      simp only [Bool.and_eq_true] at hp
      exact ⟨hi, SameCtl.refl _, StoreLe.refl _, fun _ _ => by rw [← hq]; exact hp.2⟩
    · split
      · exact ⟨hi, SameCtl.refl _, StoreLe.refl _, fun h => by cases h⟩
      · split
        · exact ⟨hi, SameCtl.refl _, StoreLe.refl _, fun h => by cases h⟩
        · rename_i tile htile
          split
          · exact ⟨hi, SameCtl.refl _, StoreLe.refl _, fun h => by cases h⟩
          · rename_i hlen
            generalize hnq : (n - n % 256) / 256 = q at *
            generalize hwd : min (next - (n - n % 256)) 256 = wd at *
            -- what the cut is, under any truth
            have hcut : ∀ E, TruthH node emptyHash leaf st.w.hist E →
                tile.take (n % 256) = bundleOf E q (n % 256) ∧ 256 * q + n % 256 ≤ E.length := by
              intro E hE
              obtain ⟨e1, e2⟩ := hi.data E hE _ _ _ htile
              have hl := bundleOf_length E e2
              rw [← e1] at hl
              have hcw : n % 256 ≤ wd := by omega
              rw [e1, bundleOf_prefix E hcw]
              exact ⟨rfl, by omega⟩
            have hsc := putData_sameCtl st q (n % 256) (tile.take (n % 256)) ud
            have hle := putData_le st q (n % 256) (tile.take (n % 256)) ud
            have hspec := putData_spec st q (n % 256) (tile.take (n % 256)) ud
            have hi2 : StoreInv node emptyHash leaf (putData st q (n % 256) (tile.take (n % 256)) ud).1 := by
              refine storeInv_of node emptyHash leaf hsc hle ?_ ?_ ?_ hi
              · intro E hE n' w' es he
                rcases hspec.1 n' w' with e | ⟨rfl, rfl, e⟩
                · rw [e] at he; exact Or.inl he
                · rw [e] at he
                  simp only [Option.some.injEq] at he
                  subst he
                  exact Or.inr (hcut E hE)
              · intro E _ l' n' w' x hx
                rw [putData_hash] at hx; exact Or.inl hx
              · intro n' w' hp
                rw [putData_hash] at hp; exact Or.inl hp
            cases hput : putData st q (n % 256) (tile.take (n % 256)) ud with
            | mk st1 ok =>
              rw [hput] at hsc hle hspec hi2
              simp only [] at hsc hle hspec hi2
              cases ok with
              | false => exact ⟨hi2, hsc, hle, fun h => by cases h⟩
              | true =>
                simp only []
                have hsc2 := putHash_sameCtl st1 0 q (n % 256) ((tile.take (n % 256)).map leaf) uh
                have hle2 := putHash_le st1 0 q (n % 256) ((tile.take (n % 256)).map leaf) uh
                have hspec2 := putHash_spec st1 0 q (n % 256) ((tile.take (n % 256)).map leaf) uh
                refine ⟨?_, hsc.trans hsc2, hle.trans hle2, fun hok _ => by first | exact hspec2.2 hok | (rw [← hq]; exact hspec2.2 hok)⟩
                refine storeInv_of node emptyHash leaf hsc2 hle2 ?_ ?_ ?_ hi2
                · intro E _ n' w' es he
                  rw [putHash_data] at he; exact Or.inl he
                · intro E hE l' n' w' x hx
                  rcases hspec2.1 l' n' w' with e | ⟨rfl, rfl, rfl, e⟩
                  · rw [e] at hx; exact Or.inl hx
                  · rw [e] at hx
                    simp only [Option.some.injEq] at hx
                    subst hx
                    right
                    rw [hsc.w] at hE
                    obtain ⟨c1, c2⟩ := hcut E hE
                    rw [c1, tileOf_zero node emptyHash leaf E _ _ c2]
                    exact ⟨rfl, by simp; omega⟩
                · intro n' w' hp
                  rcases hspec2.1 0 n' w' with e | ⟨_, rfl, rfl, _⟩
                  · rw [e] at hp; exact Or.inl hp
                  · right; rw [putHash_data]; exact hspec.2 rfl

end Mirror
