import Proofs.Mirror
/-! The mirror checkpoint in the lock store and its ghost history change in exactly one place
(`commitRecord`, on an applied `Lock.Replace`), where the new tree head is appended: every step of the
transition system leaves both alone or appends one tree head. No invariant needed. Core only. -/
namespace Mirror
open Merkle Witness Checkpoint

variable (node : Hash → Hash → Hash) (emptyHash : Hash) (leaf : Entry → Hash)

/-- `b` has the mirror checkpoint and mirror history of `a` -/
def MSame (a b : MState) : Prop := b.mhist = a.mhist ∧ b.mlock = a.mlock

/-- `b`'s mirror history is `a`'s, or `a`'s with one tree head appended, which is then the stored one -/
def MGrow (a b : MState) : Prop :=
  MSame a b ∨ ∃ ck n, b.mhist = a.mhist ++ [ck] ∧ b.mlock = some (ck, n)

theorem MSame.rfl' (a : MState) : MSame a a := ⟨rfl, rfl⟩
theorem MSame.trans {a b c : MState} (h1 : MSame a b) (h2 : MSame b c) : MSame a c :=
  ⟨h2.1.trans h1.1, h2.2.trans h1.2⟩
theorem MGrow.of_same_left {a b c : MState} (h1 : MSame a b) (h2 : MGrow b c) : MGrow a c := by
  rcases h2 with h | ⟨ck, n, e1, e2⟩
  · exact Or.inl (h1.trans h)
  · exact Or.inr ⟨ck, n, by rw [e1, h1.1], e2⟩

theorem fetchPending_m (c : MCfg) (f : Bool) (st : MState) : MSame st (fetchPending emptyHash c f st).1 := by
  unfold fetchPending
  split
  · exact ⟨rfl, rfl⟩
  · split <;> exact ⟨rfl, rfl⟩

theorem fetchMirror_m (f : Bool) (st : MState) : MSame st (fetchMirror emptyHash f st).1 := by
  unfold fetchMirror
  split
  · simp only []; split <;> exact ⟨rfl, rfl⟩
  · split
    · simp only []; split <;> exact ⟨rfl, rfl⟩
    · exact ⟨rfl, rfl⟩

theorem conflict_m (c : MCfg) (status : Nat) (p : PCk) (next : Nat) (st : MState) :
    MSame st (conflict c status p next st).1 := ⟨rfl, rfl⟩

theorem setReq_m (st : MState) (rid : Nat) (r : Option Req) : MSame st (st.setReq rid r) := ⟨rfl, rfl⟩

theorem metaDecide_m (c : MCfg) (rid : Nat) (q : MetaReq) (pend mir : PCk) (next : Nat) (st : MState) :
    MSame st (metaDecide c rid q pend mir next st).1 := by
  unfold metaDecide
  repeat' split
  all_goals first | exact ⟨rfl, rfl⟩ | exact conflict_m c _ _ _ st

theorem metaMirror_m (c : MCfg) (rid : Nat) (q : MetaReq) (fm : Bool) (pend : PCk) (st : MState) :
    MSame st (metaMirror emptyHash c rid q fm pend st).1 := by
  unfold metaMirror
  split
  · exact ⟨rfl, rfl⟩
  · have h := fetchMirror_m emptyHash fm st
    split
    · rename_i st2 heq; rw [heq] at h; exact h
    · rename_i st2 mir next heq
      rw [heq] at h
      exact MSame.trans h (metaDecide_m c rid q pend mir next st2)

theorem metadata_m (c : MCfg) (rid : Nat) (q : MetaReq) (fp fm : Bool) (st : MState) :
    MSame st (metadata emptyHash c rid q fp fm st).1 := by
  unfold metadata
  split
  · exact ⟨rfl, rfl⟩
  repeat' (first | exact ⟨rfl, rfl⟩ | split)
  all_goals
    have h := fetchPending_m emptyHash c fp st
    rename_i heq
    rw [heq] at h
    first | exact h | exact MSame.trans h (metaMirror_m emptyHash c rid q fm _ _)

theorem putData_m (st : MState) (n w : Nat) (es : List Entry) (f : Fault) : MSame st (putData st n w es f).1 := ⟨rfl, rfl⟩
theorem putHash_m (st : MState) (l n w : Nat) (hs : List Hash) (f : Fault) : MSame st (putHash st l n w hs f).1 := ⟨rfl, rfl⟩

theorem sameCtl_m {a b : MState} (h : SameCtl a b) : MSame a b := ⟨h.mhist, h.mlock⟩

theorem uploadTiles_sameCtl (rs : Nat) (ov : List Hash) (all : List Entry) :
    ∀ (tiles : List (Nat × Nat × Nat)) (outs : List Fault) (st : MState),
      SameCtl st (uploadTiles node emptyHash rs ov all tiles outs st).1 := by
  intro tiles
  induction tiles with
  | nil => intro outs st; exact SameCtl.refl _
  | cons t rest ih =>
    intro outs st
    obtain ⟨l, n, w⟩ := t
    have go : ∀ (s1 : MState) (outs1 : List Fault),
        SameCtl s1 (match tileData node emptyHash s1.hash rs ov l n w with
          | none => (s1, false)
          | some hs =>
            match putHash s1 l n w hs (headFault outs1) with
            | (st2, true) => uploadTiles node emptyHash rs ov all rest outs1.tail st2
            | (st2, false) => (st2, false)).1 := by
      intro s1 outs1
      split
      · exact SameCtl.refl _
      · rename_i hs _
        have h := putHash_sameCtl s1 l n w hs (headFault outs1)
        split
        · rename_i st2 heq; rw [heq] at h; exact h.trans (ih _ st2)
        · rename_i st2 heq; rw [heq] at h; exact h
    unfold uploadTiles
    split
    · have h := putData_sameCtl st n w all (headFault outs)
      split
      · rename_i st1 heq; rw [heq] at h; exact h.trans (go st1 outs.tail)
      · rename_i st1 heq; rw [heq] at h; exact h
    · exact go st outs

theorem conflictNext_m (c : MCfg) (r : Req) (fp : Bool) (st : MState) : MSame st (conflictNext emptyHash c r fp st).1 := by
  unfold conflictNext
  split
  · exact ⟨rfl, rfl⟩
  · split
    · exact conflict_m c _ _ _ st
    · have h := fetchPending_m emptyHash c fp st
      split
      · rename_i st1 heq; rw [heq] at h; exact h
      · rename_i st1 p heq; rw [heq] at h; exact MSame.trans h (conflict_m c _ _ _ st1)

theorem pkgUpload_m (rid : Nat) (r : Req) (all : List Entry) (ov' : List Hash) (ts stop : Nat) (outs : List Fault)
    (st : MState) : MSame st (pkgUpload node emptyHash rid r all ov' ts stop outs st).1 := by
  unfold pkgUpload
  have h := sameCtl_m (uploadTiles_sameCtl node emptyHash r.rs ov' all (newTiles ts stop) outs st)
  split
  · rename_i st1 heq; rw [heq] at h; exact h
  · rename_i st1 heq; rw [heq] at h; exact ⟨h.1, h.2⟩

theorem pkgFull_m (rid : Nat) (r : Req) (xs : List Entry) (proof : List Hash) (fc : Bool) (outs : List Fault)
    (ts stop : Nat) (st : MState) : MSame st (pkgFull node emptyHash leaf rid r xs proof fc outs ts stop st).1 := by
  unfold pkgFull
  split
  · exact ⟨rfl, rfl⟩
  · simp only []
    split
    · exact ⟨rfl, rfl⟩
    · exact pkgUpload_m node emptyHash rid r _ _ ts stop outs st

theorem pkgStep_m (c : MCfg) (rid : Nat) (inp : PkgIn) (fc fp : Bool) (outs : List Fault) (st : MState) :
    MSame st (pkgStep node emptyHash leaf c rid inp fc fp outs st).1 := by
  unfold pkgStep
  split
  · exact ⟨rfl, rfl⟩
  · split
    · exact ⟨rfl, rfl⟩
    · simp only []
      split
      · split
        · exact ⟨rfl, rfl⟩
        · exact MSame.trans (setReq_m st rid none) (conflictNext_m emptyHash c _ fp _)
      · exact ⟨rfl, rfl⟩
      · split
        · exact ⟨rfl, rfl⟩
        · exact MSame.trans (setReq_m st rid none) (pkgFull_m node emptyHash leaf rid _ _ _ fc outs _ _ _)

theorem ensureCut_sameCtl (n next : Nat) (fh fw : Bool) (ud uh : Fault) (st : MState) :
    SameCtl st (ensureCut leaf n next fh fw ud uh st).1 := by
  unfold ensureCut
  simp only []
  split
  · exact SameCtl.refl _
  · split
    · exact SameCtl.refl _
    · split
      · exact SameCtl.refl _
      · split
        · exact SameCtl.refl _
        · rename_i tile htile
          split
          · exact SameCtl.refl _
          · have h := putData_sameCtl st ((n - n % 256) / 256) (n % 256) (tile.take (n % 256)) ud
            split
            · rename_i st1 heq; rw [heq] at h; exact h
            · rename_i st1 heq; rw [heq] at h; exact h.trans (putHash_sameCtl _ _ _ _ _ _)

theorem commitRecord_m (r : Req) (rep up : Fault) (st : MState) : MGrow st (commitRecord r rep up st).1 := by
  unfold commitRecord
  simp only []
  split
  · exact Or.inl ⟨rfl, rfl⟩
  · rename_i v _
    cases hap : (decide (v = st.mlock) && rep.applied)
    · left
      split
      · exact ⟨by simp, by simp⟩
      · split <;> exact ⟨by simp, by simp⟩
    · right
      refine ⟨r.ck, st.serial, ?_⟩
      split
      · exact ⟨by simp, by simp⟩
      · split <;> exact ⟨by simp, by simp⟩

theorem commitDecide_m (c : MCfg) (r : Req) (fp fh fw : Bool) (ud uh rep up : Fault) (mir : PCk) (next : Nat)
    (st : MState) : MGrow st (commitDecide emptyHash leaf c r fp fh fw ud uh rep up mir next st).1 := by
  unfold commitDecide
  split
  · exact Or.inl ⟨rfl, rfl⟩
  split
  · have h := fetchPending_m emptyHash c fp st
    split
    · rename_i st2 heq; rw [heq] at h; exact Or.inl h
    · rename_i st2 p heq; rw [heq] at h; exact Or.inl (MSame.trans h (conflict_m c _ _ _ st2))
  · have h := sameCtl_m (ensureCut_sameCtl leaf r.ck.1 next fh fw ud uh st)
    split
    · rename_i st2 heq; rw [heq] at h; exact Or.inl h
    · rename_i st2 heq; rw [heq] at h; exact MGrow.of_same_left h (commitRecord_m r rep up st2)

theorem commitStep_m (c : MCfg) (rid : Nat) (fm fp fh fw : Bool) (ud uh rep up : Fault) (st : MState) :
    MGrow st (commitStep emptyHash leaf c rid fm fp fh fw ud uh rep up st).1 := by
  unfold commitStep
  split
  · exact Or.inl ⟨rfl, rfl⟩
  · split
    · exact Or.inl ⟨rfl, rfl⟩
    · simp only []
      have h := MSame.trans (setReq_m st rid none) (fetchMirror_m emptyHash fm (st.setReq rid none))
      split
      · rename_i st1 heq; rw [heq] at h; exact Or.inl h
      · rename_i st1 mir next heq
        rw [heq] at h
        exact MGrow.of_same_left h (commitDecide_m emptyHash leaf c _ fp fh fw ud uh rep up mir next st1)

/-- every step leaves the mirror checkpoint alone or appends one tree head to its history -/
theorem step_m (c : MCfg) (st : MState) (ev : Ev) : MGrow st (step node emptyHash leaf c st ev).1 := by
  cases ev with
  | addCk e => simp only [step]; split <;> exact Or.inl ⟨rfl, rfl⟩
  | mdata rid q fp fm => exact Or.inl (metadata_m emptyHash c rid q fp fm st)
  | pkg rid inp fc fp outs => exact Or.inl (pkgStep_m node emptyHash leaf c rid inp fc fp outs st)
  | commit rid fm fp fh fw ud uh rep up => exact commitStep_m emptyHash leaf c rid fm fp fh fw ud uh rep up st
  | restart => exact Or.inl ⟨rfl, rfl⟩

/-! ### what does not touch the tile store and the frontier -/

def StoreSame (a b : MState) : Prop := b.data = a.data ∧ b.hash = a.hash ∧ b.next = a.next

theorem fetchPending_ss (c : MCfg) (f : Bool) (st : MState) : StoreSame st (fetchPending emptyHash c f st).1 := by
  unfold fetchPending
  split
  · exact ⟨rfl, rfl, rfl⟩
  · split <;> exact ⟨rfl, rfl, rfl⟩

theorem conflictNext_ss (c : MCfg) (r : Req) (fp : Bool) (st : MState) : StoreSame st (conflictNext emptyHash c r fp st).1 := by
  unfold conflictNext
  split
  · exact ⟨rfl, rfl, rfl⟩
  · split
    · exact ⟨rfl, rfl, rfl⟩
    · have h := fetchPending_ss emptyHash c fp st
      split
      · rename_i st1 heq; rw [heq] at h; exact h
      · rename_i st1 p heq; rw [heq] at h; exact h

end Mirror
